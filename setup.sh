#!/bin/sh
# Build the framework from files on disk only (offline): generated facts, the whole
# Coq development (full .vo), the Rust harness and the repository binaries with hooks on.
set -e
cd "$(dirname "$0")"
export CARGO_NET_OFFLINE=true
python3 tools/setup.py
