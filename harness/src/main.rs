//! Correspondence harness: runs the real chokan library code on cases read
//! from stdin (one JSON object per line) and writes one JSON result per line.
//! Panics inside the library are caught and reported as {"panic": "..."}.
use std::io::{BufRead, Write};
use std::panic::{catch_unwind, AssertUnwindSafe};

use serde_json::{json, Value};

mod ops_dic;
mod ops_kana;
mod ops_trie;
#[cfg(chokan_verif)]
mod ops_kkc;
mod ops_skk;
// the converters are binary crates: their modules are compiled into the harness from the repository sources
#[allow(dead_code)]
#[path = "/repo/skk-noun-converter/src/noun_converter.rs"]
mod noun_converter;
#[allow(dead_code)]
#[path = "/repo/skk-jinmei-converter/src/jinmei_converter.rs"]
mod jinmei_converter;
#[allow(dead_code)]
#[path = "/repo/skk-tankan-converter/src/tankan_grammer.rs"]
mod tankan_grammer;
#[allow(dead_code)]
#[path = "/repo/skk-notes-converter/src/note_grammer.rs"]
mod note_grammer;
#[allow(dead_code)]
#[path = "/repo/skk-notes-converter/src/converter.rs"]
mod converter;
mod ops_server;

fn dispatch(v: &Value) -> Value {
    let op = v["op"].as_str().unwrap_or("");
    match op {
        "ping" => json!({"ok": true}),
        o if o.starts_with("dic_") => ops_dic::run(o, v),
        o if o.starts_with("kana_") => ops_kana::run(o, v),
        o if o.starts_with("trie_") => ops_trie::run(o, v),
        #[cfg(chokan_verif)]
        o if o.starts_with("kkc_") => ops_kkc::run(o, v),
        o if o.starts_with("skk_") => ops_skk::run(o, v),
        o if o.starts_with("srv_") => ops_server::run(o, v),
        _ => json!({"error": format!("unknown op {}", op)}),
    }
}

fn main() {
    // silence the default panic message; panics are reported in-band
    std::panic::set_hook(Box::new(|_| {}));
    let stdin = std::io::stdin();
    let stdout = std::io::stdout();
    let mut out = std::io::BufWriter::new(stdout.lock());
    for line in stdin.lock().lines() {
        let line = match line {
            Ok(l) => l,
            Err(_) => break,
        };
        if line.trim().is_empty() {
            continue;
        }
        let v: Value = match serde_json::from_str(&line) {
            Ok(v) => v,
            Err(e) => {
                writeln!(out, "{}", json!({"error": format!("bad json: {}", e)})).unwrap();
                continue;
            }
        };
        let r = catch_unwind(AssertUnwindSafe(|| dispatch(&v)));
        let r = match r {
            Ok(r) => r,
            Err(e) => {
                let msg = if let Some(s) = e.downcast_ref::<&str>() {
                    s.to_string()
                } else if let Some(s) = e.downcast_ref::<String>() {
                    s.clone()
                } else {
                    "panic".to_string()
                };
                json!({"panic": msg})
            }
        };
        writeln!(out, "{}", r).unwrap();
    }
    out.flush().unwrap();
}
