//! dic crate: text format printer/parser, conjugation, guesser.
use dic::base::{
    dictionary::Dictionary,
    entry::Entry,
    io::{DictionaryReader, DictionaryWriter},
    speech::{Speech, VerbForm},
    word::Word,
};
use dic::standard::io::{StandardDictionaryReader, StandardDictionaryWriter};
#[cfg(chokan_verif)]
use dic::standard::verif as dic_grammer;
use serde_json::{json, Value};

pub fn speech_of(v: &Value) -> Speech {
    serde_json::from_value(v.clone()).expect("speech json")
}

/// (reading, stem, speech) of an entry. `stem` is private, so it is recovered
/// from the Display output by stripping the known prefix and suffix.
pub fn entry_json(e: &Entry) -> Value {
    let line = format!("{}", e);
    let pre = format!("{}\t", e.stem_reading);
    let suf = format!("\t/{}/", e.speech);
    let stem = line
        .strip_prefix(&pre)
        .and_then(|s| s.strip_suffix(&suf))
        .map(|s| s.to_string());
    json!({"reading": e.stem_reading, "stem": stem, "speech": serde_json::to_value(&e.speech).unwrap()})
}

pub fn entry_of(v: &Value) -> Entry {
    Entry::from_jisyo(
        v["reading"].as_str().unwrap(),
        v["stem"].as_str().unwrap(),
        speech_of(&v["speech"]),
    )
}

pub fn word_json(w: &Word) -> Value {
    json!({"word": w.word.iter().collect::<String>(), "reading": w.reading.iter().collect::<String>(),
           "speech": serde_json::to_value(&w.speech).unwrap()})
}

pub fn run(op: &str, v: &Value) -> Value {
    match op {
        // one line -> entries or error
        #[cfg(chokan_verif)]
        "dic_parse" => {
            let line = v["line"].as_str().unwrap();
            match dic_grammer::parse_entry(line) {
                Ok(es) => json!({"ok": es.iter().map(entry_json).collect::<Vec<_>>()}),
                Err(_) => json!({"err": true}),
            }
        }
        // entry -> line
        "dic_print" => {
            let e = entry_of(&v["entry"]);
            json!({"ok": format!("{}", e)})
        }
        "dic_speech_name" => {
            let s = speech_of(&v["speech"]);
            json!({"ok": format!("{}", s)})
        }
        // whole file content -> entries (through the real reader)
        "dic_readall" => {
            let content = v["content"].as_str().unwrap();
            let mut d = Dictionary::default();
            let mut r = StandardDictionaryReader::new(content.as_bytes());
            let n = r.read_all(&mut d).unwrap();
            json!({"ok": d.entries_ref().iter().map(entry_json).collect::<Vec<_>>(), "count": n})
        }
        // entries -> file content (through the real writer)
        "dic_writeall" => {
            let es: Vec<Entry> = v["entries"].as_array().unwrap().iter().map(entry_of).collect();
            let d = Dictionary::new(es);
            let mut buf: Vec<u8> = Vec::new();
            {
                let mut w = StandardDictionaryWriter::new(&mut buf);
                w.write_all(&d).unwrap();
            }
            json!({"ok": String::from_utf8(buf).unwrap()})
        }
        // conjugation: entry -> words (a HashSet in the code; sorted here)
        "dic_conj" => {
            let e = entry_of(&v["entry"]);
            let ws: Vec<Word> = (&e).into();
            let mut out: Vec<(String, String)> = ws
                .iter()
                .map(|w| (w.word.iter().collect(), w.reading.iter().collect()))
                .collect();
            out.sort();
            let same_speech = ws.iter().all(|w| w.speech == e.speech);
            json!({"ok": out, "same_speech": same_speech})
        }
        "dic_guess_form" => {
            let c = char::from_u32(v["ch"].as_u64().unwrap() as u32).unwrap();
            match VerbForm::guess_form(c) {
                Some(f) => json!({"ok": serde_json::to_value(&Speech::Verb(f)).unwrap()}),
                None => json!({"ok": null}),
            }
        }
        "dic_new_guessed" => {
            let e = Entry::new_guessed(v["reading"].as_str().unwrap(), v["word"].as_str().unwrap());
            json!({"ok": entry_json(&e)})
        }
        _ => json!({"error": "unknown dic op"}),
    }
}
