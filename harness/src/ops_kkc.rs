//! kkc crate: lattice, scores, candidates (needs the chokan_verif hooks).
use std::collections::HashMap;

use dic::base::word::Word;
use kkc::{context::Context, frequency::ConversionFrequency, verif, GraphDictionary};
use serde_json::{json, Value};

use crate::ops_dic::speech_of;

pub fn context_of(v: &Value) -> Context {
    match v.as_str().unwrap_or("Normal") {
        "Normal" => Context::normal(),
        "ForeignWord" => Context::foreign_word(),
        "Numeral" => Context::numeral(),
        "Proper" => Context::proper(),
        o => panic!("bad context {}", o),
    }
}

fn words_of(v: &Value) -> Vec<Word> {
    v.as_array()
        .map(|a| {
            a.iter()
                .map(|w| Word::new(w[1].as_str().unwrap(), w[0].as_str().unwrap(), speech_of(&w[2])))
                .collect()
        })
        .unwrap_or_default()
}

/// {"alphabet": "...", "std": [[reading, word, speech]..], "anc": [...],
///  "std_trie_only": [keys], "std_map_only": [[reading, word, speech]..]}
pub fn dict_of(v: &Value) -> GraphDictionary {
    let keys: Vec<char> = v["alphabet"].as_str().unwrap().chars().collect();
    let mut st = trie::Trie::from_keys(&keys);
    let mut at = trie::Trie::from_keys(&keys);
    let mut sd: HashMap<String, Vec<Word>> = HashMap::new();
    let mut ad: HashMap<String, Vec<Word>> = HashMap::new();
    for w in words_of(&v["std"]) {
        let r: String = w.reading.iter().collect();
        let _ = st.insert(&r);
        sd.entry(r).or_default().push(w);
    }
    for w in words_of(&v["anc"]) {
        let r: String = w.reading.iter().collect();
        let _ = at.insert(&r);
        ad.entry(r).or_default().push(w);
    }
    if let Some(a) = v["std_trie_only"].as_array() {
        for k in a {
            let _ = st.insert(k.as_str().unwrap());
        }
    }
    for w in words_of(&v["std_map_only"]) {
        let r: String = w.reading.iter().collect();
        sd.entry(r).or_default().push(w);
    }
    GraphDictionary { standard_trie: st, standard_dic: sd, ancillary_trie: at, ancillary_dic: ad }
}

/// [[context, word, count, last]..]
pub fn freq_of(v: &Value) -> ConversionFrequency {
    let mut f = ConversionFrequency::new();
    if let Some(a) = v.as_array() {
        for e in a {
            let ctx = context_of(&e[0]);
            let word = e[1].as_str().unwrap();
            let count = e[2].as_u64().unwrap();
            let last = e[3].as_i64().unwrap_or(0);
            for _ in 0..count {
                f.update_word(word, &ctx, last);
            }
        }
    }
    f
}

fn id_json(id: &verif::NodeId) -> Value {
    match id {
        verif::NodeId::Bos => json!("bos"),
        verif::NodeId::Eos => json!("eos"),
        verif::NodeId::At(i, j) => json!([i, j]),
    }
}

fn node_json(n: &verif::NodeDump) -> Value {
    json!({"id": id_json(&n.id), "kind": n.kind, "surface": n.surface, "reading": n.reading,
           "speech": n.speech.as_ref().map(|s| serde_json::to_value(s).unwrap()), "fscore": n.fscore})
}

fn lnode_json(n: &verif::LatticeNode) -> Value {
    json!({"node": node_json(&n.node), "node_score": n.node_score,
           "preds": n.preds.iter().map(|p| json!([id_json(&p.pred), p.edge_score])).collect::<Vec<_>>()})
}

pub fn run(op: &str, v: &Value) -> Value {
    match op {
        // lattice (+ forward scores) and candidates for one query
        "kkc_query" => {
            let dic = dict_of(&v["dict"]);
            let ctx = context_of(&v["context"]);
            let freq = freq_of(&v["freq"]);
            let input = v["input"].as_str().unwrap();
            let n = v["n"].as_u64().unwrap_or(100) as usize;
            let lat = verif::lattice(input, &dic, &ctx, &freq, true);
            let cands = kkc::get_candidates(input, &dic, &ctx, &freq, n);
            let cands2 = kkc::get_candidates(input, &dic, &ctx, &freq, n);
            let deterministic = cands == cands2;
            json!({
                "lattice": lat.nodes.iter().map(|at| at.iter().map(lnode_json).collect::<Vec<_>>()).collect::<Vec<_>>(),
                "eos": lnode_json(&lat.eos),
                "deterministic": deterministic,
                "candidates": cands.iter().map(|c| json!({
                    "text": c.to_string(),
                    "priority": verif::candidate_priority(c),
                    "independent": c.to_string_only_independent(),
                    "affix": c.to_string_with_affix(),
                    "nodes": verif::candidate_nodes(c).iter().map(node_json).collect::<Vec<_>>(),
                })).collect::<Vec<_>>(),
            })
        }
        // only the candidate texts (cheap)
        "kkc_texts" => {
            let dic = dict_of(&v["dict"]);
            let ctx = context_of(&v["context"]);
            let freq = freq_of(&v["freq"]);
            let input = v["input"].as_str().unwrap();
            let n = v["n"].as_u64().unwrap_or(100) as usize;
            let cands = kkc::get_candidates(input, &dic, &ctx, &freq, n);
            json!({"ok": cands.iter().map(|c| c.to_string()).collect::<Vec<_>>()})
        }
        // compound extractor on a hand-built chain
        "kkc_affix" => {
            let words: Vec<(Word, bool)> = v["parts"].as_array().unwrap().iter().map(|p| {
                let is_virtual = p[3].as_bool().unwrap_or(false);
                let sp = if is_virtual { dic::base::speech::Speech::Adverb } else { speech_of(&p[2]) };
                (Word::new(p[1].as_str().unwrap(), p[0].as_str().unwrap(), sp), is_virtual)
            }).collect();
            let c = verif::chain_from_words(&words, v["bos"].as_bool().unwrap_or(true), v["eos"].as_bool().unwrap_or(true));
            match c {
                Some(c) => json!({"affix": c.to_string_with_affix(), "independent": c.to_string_only_independent(), "text": c.to_string()}),
                None => json!({"affix": null, "independent": null, "text": ""}),
            }
        }
        // the real ConversionFrequency under controlled time stamps
        "kkc_freq" => {
            let init: Vec<(Context, String, u64, i64)> = v["init"].as_array().map(|a| a.iter().map(|e| {
                (context_of(&e[0]), e[1].as_str().unwrap().to_string(), e[2].as_u64().unwrap(), e[3].as_i64().unwrap())
            }).collect()).unwrap_or_default();
            let mut f = ConversionFrequency::verif_from_entries(&init);
            for o in v["ops"].as_array().unwrap() {
                match o[0].as_str().unwrap() {
                    "update" => f.update_word(o[2].as_str().unwrap(), &context_of(&o[1]), o[3].as_i64().unwrap()),
                    "expire" => f.expire_frequencies(o[1].as_i64().unwrap(), o[2].as_i64().unwrap()),
                    _ => panic!("bad freq op"),
                }
            }
            let mut out: Vec<(String, String, u64, i64)> = f.verif_entries().into_iter().map(|(c, w, n, l)| {
                (serde_json::to_value(&c).unwrap()["kind"].as_str().unwrap().to_string(), w, n, l)
            }).collect();
            out.sort();
            json!({"ok": out})
        }
        _ => json!({"error": "unknown kkc op"}),
    }
}
