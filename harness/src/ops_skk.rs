//! SKK import: the line parser, the noun / jinmei / tankan converters and the notes converter, compiled from the
//! repository sources (the converters live in binary crates, so their modules are included by path in main.rs).
use std::panic::{catch_unwind, AssertUnwindSafe};

use dic::base::entry::Entry;
use serde_json::{json, Value};

use crate::note_grammer::{NoteSpeech, Okuri};

fn panic_msg(e: Box<dyn std::any::Any + Send>) -> String {
    if let Some(s) = e.downcast_ref::<&str>() {
        s.to_string()
    } else if let Some(s) = e.downcast_ref::<String>() {
        s.clone()
    } else {
        "panic".to_string()
    }
}

/// what chokan-dic's reader makes of an emitted line
#[cfg(chokan_verif)]
fn readback(line: &str) -> Value {
    match dic::standard::verif::parse_entry(line) {
        Ok(es) => json!({"ok": es.iter().map(crate::ops_dic::entry_json).collect::<Vec<_>>()}),
        Err(_) => json!({"err": true}),
    }
}
#[cfg(not(chokan_verif))]
fn readback(_line: &str) -> Value {
    json!({"err": "no hooks"})
}

fn emitted(entries: Vec<Entry>) -> Value {
    Value::Array(
        entries
            .iter()
            .map(|e| {
                let line = format!("{}", e);
                json!({"line": line, "entry": crate::ops_dic::entry_json(e), "readback": readback(&line)})
            })
            .collect(),
    )
}

fn okuri_json(o: &Okuri) -> Value {
    match o {
        Okuri::Fixed(v) => json!({"fix": v}),
        Okuri::CharClass(v) => json!({"class": v}),
    }
}

fn opt_okuri_json(o: &Option<Okuri>) -> Value {
    match o {
        Some(o) => okuri_json(o),
        None => Value::Null,
    }
}

fn speech_json(s: &NoteSpeech) -> Value {
    match s {
        NoteSpeech::Verb(form, o) => json!({"k": "Verb", "form": serde_json::to_value(form).unwrap(), "o": opt_okuri_json(o)}),
        NoteSpeech::Adjective(o) => json!({"k": "Adjective", "o": opt_okuri_json(o)}),
        NoteSpeech::AdjectivalVerb(o) => json!({"k": "AdjectivalVerb", "o": okuri_json(o)}),
        NoteSpeech::Adverb(o) => json!({"k": "Adverb", "o": okuri_json(o)}),
        NoteSpeech::Noun(t, o) => json!({"k": "Noun", "typ": t, "o": opt_okuri_json(o)}),
        NoteSpeech::Counter(o) => json!({"k": "Counter", "o": okuri_json(o)}),
        NoteSpeech::Verbatim(o) => json!({"k": "Verbatim", "o": okuri_json(o)}),
        NoteSpeech::PreNounAdjectival(o) => json!({"k": "PreNoun", "o": opt_okuri_json(o)}),
        NoteSpeech::ConjuctiveParticle(o) => json!({"k": "ConjParticle", "o": opt_okuri_json(o)}),
        NoteSpeech::Conjunction(o) => json!({"k": "Conjunction", "o": opt_okuri_json(o)}),
    }
}

pub fn run(op: &str, v: &Value) -> Value {
    let line = v["line"].as_str().unwrap_or("");
    match op {
        "skk_line" => match skk_dic_parser::parse_skk_entry(line) {
            Ok(None) => json!({"ok": null}),
            Ok(Some(e)) => json!({"ok": {"reading": e.reading(), "okuri": e.okuri(), "words": e.words()}}),
            Err(_) => json!({"err": true}),
        },
        "skk_nouns" => match crate::noun_converter::parse_nouns(line) {
            Ok(None) => json!({"ok": null}),
            Ok(Some(n)) => json!({"ok": emitted(n.to_entries())}),
            Err(_) => json!({"err": true}),
        },
        "skk_propers" => match crate::jinmei_converter::parse_propers(line) {
            Ok(None) => json!({"ok": null}),
            Ok(Some(n)) => json!({"ok": emitted(n.to_entries())}),
            Err(_) => json!({"err": true}),
        },
        "skk_tankan" => match crate::tankan_grammer::parse_tankan(line) {
            Ok(None) => json!({"ok": null}),
            Ok(Some(n)) => json!({"ok": emitted(n.to_entries())}),
            Err(_) => json!({"err": true}),
        },
        // parse_note, then Note::to_entries under its own catch_unwind (the explicit unsupported-conjugation panic)
        "skk_note" => match crate::note_grammer::parse_note(line) {
            Ok(None) => json!({"ok": null}),
            Err(_) => json!({"err": true}),
            Ok(Some(n)) => {
                let note = json!({"headword": n.headword, "okuri": n.okuri,
                    "entries": n.entries.iter().map(|e| json!({"stem": e.stem, "speech": speech_json(&e.speech)})).collect::<Vec<_>>()});
                let conv = match catch_unwind(AssertUnwindSafe(|| n.to_entries())) {
                    Ok(es) => Value::Array(
                        es.iter()
                            .map(|c| {
                                let l = format!("{}", c);
                                json!({"line": l, "headword": c.headword, "word": c.word, "speech": serde_json::to_value(&c.speech).unwrap(),
                                       "ancillary": c.is_ancillary(), "readback": readback(&l)})
                            })
                            .collect(),
                    ),
                    Err(e) => json!({"panic": panic_msg(e)}),
                };
                json!({"ok": note, "conv": conv})
            }
        },
        _ => json!({"error": format!("unknown op {}", op)}),
    }
}
