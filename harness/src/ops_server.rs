//! binary dictionary produced by the real chokan-dic: load it through postcard and look words up the way the engine does
use serde_json::{json, Value};

use crate::ops_dic::word_json;

pub fn run(op: &str, v: &Value) -> Value {
    match op {
        "srv_dic_load" => {
            let bytes = std::fs::read(v["path"].as_str().unwrap()).unwrap();
            let d: chokan_dic::ChokanDictionary = postcard::from_bytes(&bytes).unwrap();
            let probe = |trie: &trie::Trie, map: &std::collections::HashMap<String, Vec<dic::base::word::Word>>, keys: &Value| -> Vec<Value> {
                keys.as_array().map(|a| a.iter().map(|k| {
                    let k = k.as_str().unwrap();
                    match trie.search(k, &|_, _| {}).and_then(|_| map.get(k)) {
                        Some(ws) => json!(ws.iter().map(word_json).collect::<Vec<_>>()),
                        None => Value::Null,
                    }
                }).collect()).unwrap_or_default()
            };
            let std = probe(&d.graph.standard_trie, &d.graph.standard_dic, &v["std_probes"]);
            let anc = probe(&d.graph.ancillary_trie, &d.graph.ancillary_dic, &v["anc_probes"]);
            let tankan: Vec<Value> = v["tankan_probes"].as_array().map(|a| a.iter().map(|k| {
                json!(kkc::get_tankan_candidates(k.as_str().unwrap(), &d.tankan))
            }).collect()).unwrap_or_default();
            let mut std_keys: Vec<&String> = d.graph.standard_dic.keys().collect();
            std_keys.sort();
            let mut anc_keys: Vec<&String> = d.graph.ancillary_dic.keys().collect();
            anc_keys.sort();
            let mut tankan_keys: Vec<&String> = d.tankan.kanji_map.keys().collect();
            tankan_keys.sort();
            json!({"std": std, "anc": anc, "tankan": tankan, "std_keys": std_keys, "anc_keys": anc_keys, "tankan_keys": tankan_keys,
                   "std_words": d.graph.standard_dic.values().map(|v| v.len()).sum::<usize>(), "bytes": bytes.len()})
        }
        // a frequency.bin holding the given learned entries (context json, word, count, last occurrence in ms)
        #[cfg(chokan_verif)]
        "srv_freq_bin" => {
            let entries: Vec<(kkc::context::Context, String, u64, i64)> = v["entries"].as_array().unwrap().iter().map(|e| {
                (serde_json::from_value(e[0].clone()).unwrap(), e[1].as_str().unwrap().to_string(), e[2].as_u64().unwrap(), e[3].as_i64().unwrap())
            }).collect();
            let f = kkc::frequency::ConversionFrequency::verif_from_entries(&entries);
            std::fs::write(v["path"].as_str().unwrap(), postcard::to_allocvec(&f).unwrap()).unwrap();
            json!({"ok": true})
        }
        _ => json!({"error": "unknown srv op"}),
    }
}
