use serde_json::{json, Value};
pub fn run(_op: &str, _v: &Value) -> Value { json!({"error": "todo"}) }
