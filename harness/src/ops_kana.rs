use serde_json::{json, Value};
pub fn run(op: &str, v: &Value) -> Value {
    match op {
        "kana_convert" => json!({"ok": kana_alpha::convert(v["input"].as_str().unwrap())}),
        _ => json!({"error": "unknown kana op"}),
    }
}
