//! trie crate: insertion histories with clone / postcard round trips, full array dumps.
use serde_json::{json, Value};
use trie::Trie;

fn dump(t: &Trie) -> Value {
    let v = serde_json::to_value(t).unwrap();
    let nodes = &v["nodes"]["nodes"];
    let base: Vec<i64> = nodes.as_array().unwrap().iter().map(|n| n["base"].as_i64().unwrap()).collect();
    let check: Vec<i64> = nodes.as_array().unwrap().iter().map(|n| n["check"].as_i64().unwrap()).collect();
    let mut empties: Vec<u64> = v["nodes"]["empties"].as_array().unwrap().iter().map(|e| e.as_u64().unwrap()).collect();
    empties.sort();
    json!({"base": base, "check": check, "empties": empties})
}

pub fn run(op: &str, v: &Value) -> Value {
    match op {
        // {"alphabet": "...", "ops": [{"ins": key} | {"clone": true} | {"serde": true}], "probes": [key..], "dump_each": bool}
        "trie_history" => {
            let keys: Vec<char> = v["alphabet"].as_str().unwrap().chars().collect();
            let mut t = Trie::from_keys(&keys);
            let labels = serde_json::to_value(&t).unwrap()["labels"]["labels"].clone();
            let mut steps = Vec::new();
            let mut olds: Vec<(Trie, usize)> = Vec::new();
            let dump_each = v["dump_each"].as_bool().unwrap_or(true);
            for o in v["ops"].as_array().unwrap() {
                if let Some(k) = o["ins"].as_str() {
                    let r = t.insert(k);
                    let d = dump(&t);
                    // bases of the nodes on the key's path after the insertion (the choices xcheck made)
                    let mut hints: Vec<i64> = Vec::new();
                    if r.is_ok() {
                        let base = d["base"].as_array().unwrap();
                        let mut cur: usize = 0;
                        let nlabels = labels.as_object().unwrap().len() as u64;
                        let mut ls: Vec<u64> = k.chars().map(|c| labels[c.to_string()].as_u64().unwrap()).collect();
                        ls.push(nlabels + 1);
                        for l in ls {
                            let b = base.get(cur).and_then(|b| b.as_i64()).unwrap_or(-1);
                            hints.push(b);
                            if b < 0 { break; }
                            cur = b as usize + l as usize;
                        }
                    }
                    let want_dump = dump_each || o["dump"].as_bool().unwrap_or(false);
                    steps.push(json!({"ins": k, "ok": r.is_ok(), "hints": hints, "after": if want_dump { d } else { Value::Null }}));
                } else if o["clone"].as_bool().unwrap_or(false) {
                    let c = t.clone();
                    let same = c == t;
                    // the original stays alive next to its copy: later insertions into the copy must not show in it, nor its lookups in the copy
                    olds.push((std::mem::replace(&mut t, c), steps.len()));
                    steps.push(json!({"clone": true, "same": same}));
                } else if o["serde"].as_bool().unwrap_or(false) {
                    let bytes = postcard::to_allocvec(&t).unwrap();
                    let c: Trie = postcard::from_bytes(&bytes).unwrap();
                    let same = c == t;
                    olds.push((std::mem::replace(&mut t, c), steps.len()));
                    steps.push(json!({"serde": true, "same": same, "bytes": bytes.len()}));
                }
            }
            // the kept originals are probed FIRST (a lookup in one copy must not influence another), then the final trie
            let old_probes: Vec<Value> = olds.iter().map(|(ot, at)| {
                let found: Vec<Value> = v["probes"].as_array().map(|a| a.iter().map(|k| json!(ot.search(k.as_str().unwrap(), &|_, _| {}).is_some())).collect()).unwrap_or_default();
                json!({"at_step": at, "found": found})
            }).collect();
            let probes: Vec<Value> = v["probes"].as_array().map(|a| a.iter().map(|k| {
                json!(t.search(k.as_str().unwrap(), &|_, _| {}))
            }).collect()).unwrap_or_default();
            json!({"steps": steps, "probes": probes, "old_probes": old_probes, "final": dump(&t), "labels": labels})
        }
        _ => json!({"error": "unknown trie op"}),
    }
}
