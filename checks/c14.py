"""C14 - concurrent clients never deadlock and see sequentially explainable states."""
from checks.conc_common import *
from checks.c15 import Server_client

PROP = "C14"
GENS = ["gen_protocol"]
CONE = ["Server/Protocol.v", "Server/ConcModel.v", "Server/ConcProofs.v", "Server/ConcAtomic.v", "Props/C14.v", "Gen/Protocol.v"]
THEOREMS = ["C14_protocol_ranked", "C14_no_deadlock", "C14_reads_and_commits_atomic", "C14_guarded_exclusive", "C14_read_is_snapshot", "C14_confirm_consumes_first", "C14_entry_atomic"]

# the lock order of each handler / task as extracted (Acq sequence), expressed in trace points
EXPECT_ORDER = {
    "convert": ["convert.before_dict_lock", "convert.before_pref_lock", "convert.before_store_lock"],
    "confirm": ["confirm.before_store_lock", "confirm.before_pref_lock"],
    "updater": ["updater.before_pref_lock", "updater.before_dict_lock", "updater.in_dict_lock"],
}


def protocol_from_translator():
    import gen_protocol, importlib
    importlib.reload(gen_protocol)
    return gen_protocol


def trace_conformance(res, wd):
    """one request of each kind, sequentially: the order of lock-site points of each thread must be the extracted order"""
    tr = os.path.join(wd, "trace.txt")
    s = start(wd, trace=tr)
    n = 0
    try:
        st, r = s.call("GetCandidates", {"input": "しんでん"})
        if st == "ok" and r["candidates"]:
            s.call("UpdateFrequency", {"session_id": r["session_id"], "candidate_id": "0"})
        s.call("RegisterWord", {"kind": "Guess", "reading": "たべない", "word": "食べない"})
        s.quiesce()
        s.call("GetProperCandidates", {"input": "やま"})
    finally:
        s.stop()
    t = read_trace(tr)
    by_thread = {}
    for th, p in t:
        by_thread.setdefault(th, []).append(p)
    for th, pts in by_thread.items():
        for kind, order in EXPECT_ORDER.items():
            seq = [p for p in pts if p.startswith(kind + ".") and p in order]
            # the thread's points of this kind must be repetitions of the expected order
            for i, p in enumerate(seq):
                if p != order[i % len(order)] and not (kind == "confirm" and p == order[0]):
                    res.tie_broken(f"trace conformance: thread {th} passes the lock sites of '{kind}' in the order {seq}, the extracted protocol says {order}", {"thread": th, "points": pts})
                    break
            n += len(seq)
    return n


def stress(res, wd, delays, clients, per_client, rnd, tag):
    s = start(wd, delays=delays)
    stats = {"requests": 0, "overlap": clients >= 2}
    try:
        if not s.up:
            res.violation("the server does not start", {"delays": delays})
            return stats
        lock = threading.Lock()
        log = []          # (t_start, t_end, kind, params, status, result)
        inputs = ["くるま", "くるまで", "かわ", "はし", "しんでん", "でんてき", "やま", "たく", "たか", "たく", "たか", "あいう"]
        def client(ci):
            c = Server_client(s)
            r = random.Random(rnd.random())
            sess = []
            for _ in range(per_client):
                k = r.random()
                if k < 0.5:
                    m, p = "GetCandidates", {"input": r.choice(inputs)}
                elif k < 0.6:
                    m, p = "GetProperCandidates", {"input": r.choice(inputs)}
                elif k < 0.8 and sess:
                    sid = sess.pop(r.randrange(len(sess)))
                    m, p = "UpdateFrequency", {"session_id": sid, "candidate_id": "0"}
                elif k < 0.95:
                    m, p = "RegisterWord", ({"kind": "Guess", "reading": "たかない", "word": f"食{ci}x{r.randrange(100)}かない"} if r.random() < 0.5 else {"kind": "CommonNoun", "reading": "あいう", "word": f"亜{ci}x{r.randrange(1000)}"})
                else:
                    m, p = "GetTankanCandidates", {"input": "あ"}
                t0 = time.time()
                twin = None
                if m == "UpdateFrequency" and r.random() < 0.5:
                    # the same confirmation a second time, at the same moment, on another connection: one of the two must find the session gone
                    def again(p=p):
                        st2, r2 = Server_client(s).call("UpdateFrequency", p, timeout=20)
                        with lock:
                            log.append((t0, time.time(), "UpdateFrequency", p, st2, r2))
                    twin = threading.Thread(target=again)
                    twin.start()
                st, res_ = c.call(m, p, timeout=20)
                t1 = time.time()
                if twin:
                    twin.join(30)
                if st == "ok" and m in ("GetCandidates", "GetProperCandidates"):
                    sess.append(res_["session_id"])
                with lock:
                    log.append((t0, t1, m, p, st, res_))
        ths = [threading.Thread(target=client, args=(i,)) for i in range(clients)]
        for t in ths:
            t.start()
        for t in ths:
            t.join(180)
        hung = [t for t in ths if t.is_alive()]
        stats["requests"] = len(log)
        if hung:
            res.violation(f"{len(hung)} of {clients} clients never finished: requests hang (deadlock?)", {"kind": "hang", "delays": delays, "clients": clients, "scenario": tag})
            return stats
        bad = [(m, st) for (_, _, m, _, st, _) in log if st not in ("ok",)]
        if bad:
            res.violation(f"{len(bad)} requests did not complete normally: {bad[:5]}", {"kind": "incomplete", "delays": delays, "clients": clients, "scenario": tag})
        ok, d = s.quiesce(15.0)
        if not ok:
            res.violation("after the load the registrations are never all applied", {"delays": delays, "dump": d})
            return stats
        # ---- sequential explainability, as invariants of every sequential order:
        # (1) the learned counts add up to the acknowledged confirmations whose candidate has an independent word
        confirms = len({p["session_id"] for (_, _, m, p, st, _) in log if m == "UpdateFrequency" and st == "ok"})
        total = sum(f[2] for f in d["frequencies"])
        if total > confirms:
            res.violation(f"{confirms} distinct sessions were confirmed (some of them twice at the same moment) but the counts add up to {total}: a session was consumed twice",
                          {"kind": "counts", "delays": delays, "scenario": tag})
        # (2) every acknowledged registration is in the user dictionary exactly once
        regs = [(p["reading"], p["word"]) for (_, _, m, p, st, _) in log if m == "RegisterWord" and st == "ok"]
        for rd, w in set(regs):
            stem = w[:-3] if w.endswith("かない") else w
            rdg = rd[:-3] if w.endswith("かない") else rd
            cnt = sum(1 for l in d["user_entries"] if l.startswith(f"{rdg}\t{stem}\t"))
            if cnt != regs.count((rd, w)):
                res.violation(f"the registration {w}/{rd} was acknowledged {regs.count((rd, w))} times and applied {cnt} times", {"kind": "registration", "delays": delays})
        # (3) a registered entry is never half-visible: all forms of one entry (食N く / か / き ...) are merged in one dictionary section,
        #     so once ANY form was offered, a conversion that STARTED after that response ended must offer the other form for its reading
        seen_full = {}
        for (t0, t1, m, p, st, r_) in sorted(log, key=lambda x: x[1]):
            if st == "ok" and m in ("GetCandidates", "GetProperCandidates"):
                for c in r_["candidates"]:
                    tx = c["candidate"]
                    if tx.startswith("食") and tx[-1] in "くか" and len(tx) > 2:
                        seen_full.setdefault(tx[:-1], t1)
        for (t0, t1, m, p, st, r_) in log:
            if st == "ok" and m == "GetCandidates" and p["input"] in ("たく", "たか"):
                texts = [c["candidate"] for c in r_["candidates"]]
                for key, tseen in seen_full.items():
                    want = key + p["input"][-1]
                    if t0 > tseen and want not in texts and len(texts) < 100:
                        res.violation(f"a form of the registered verb {key!r} was visible at {tseen:.3f} but a conversion of {p['input']!r} started at {t0:.3f} does not offer {want!r}: the entry was half-visible or an update was lost",
                                      {"kind": "half_visible", "delays": delays, "clients": clients})
        # (4) monotone: a candidate text offered in a response that ended before another conversion of the same input and context began is still offered
        last = {}
        for (t0, t1, m, p, st, r_) in sorted(log, key=lambda x: x[0]):
            if st == "ok" and m == "GetCandidates" and len(r_["candidates"]) < 100:
                texts = set(c["candidate"] for c in r_["candidates"])
                for (e1, tx) in last.get(p["input"], []):
                    if e1 < t0 and not tx <= texts:
                        res.violation(f"conversion of {p['input']!r}: candidates {sorted(tx - texts)} offered by an earlier response are gone", {"kind": "monotone", "delays": delays})
                        break
                last.setdefault(p["input"], []).append((t1, texts))
        return stats
    finally:
        s.stop()


def run(tier, seed):
    res = Result(PROP, tier, seed)
    rnd = random.Random(seed)
    info = standard_proof_steps(res, GENS, "Props/C14.v", CONE, "Props.C14", THEOREMS)
    okb, blog = build_binaries()
    if not okb:
        res.tie_broken("the repository no longer builds with the hooks", blog[-1500:])
        return res.finish({"obligations": info["obligations"], "discharged": info["discharged"], "checker_cmd": "make", "trusted_base": TRUSTED_COMMON}, [])
    wd = workdir("c14")
    scen, total, ntrace = [], 0, 0
    try:
        ntrace = trace_conformance(res, wd)
        plans = [({}, 8, 15, "no delays"),
                 ({"updater.after_word": 15, "updater.in_dict_lock": 10, "updater.before_dict_lock": 12}, 8, 12, "slow word-by-word merge inside the dictionary section, a pause before every dictionary section of the updater"),
                 ({"convert.before_pref_lock": 8, "confirm.before_pref_lock": 8, "updater.before_dict_lock": 8}, 16, 8, "delays between nested lock acquisitions"),
                 ({"saver.before_pref_lock": 30, "confirm.before_store_lock": 4}, 32, 5, "32 connections")]
        if tier != "quick":
            for _ in range(16):
                dl = {p: rnd.choice([1, 5, 20, 40]) for p in rnd.sample(POINTS, rnd.randint(1, 5))}
                plans.append((dl, rnd.choice([1, 2, 8, 16, 32]), rnd.choice([10, 30]), "random delays"))
        for dl, c, n, tag in plans:
            st = stress(res, wd, dl, c, n, rnd, tag)
            total += st["requests"]
            scen.append({"delays": dl, "clients": c, "per_client": n, "what": tag, "requests": st["requests"]})
            shutil.rmtree(os.path.join(wd, "user"), ignore_errors=True)
    finally:
        cleanup(wd)
    cov = {
        "obligations": info["obligations"], "discharged": info["discharged"],
        "checker_cmd": f"cd /verif/coq && make Props/C14.vo + Print Assumptions on {len(THEOREMS)} theorems",
        "trusted_base": TRUSTED_COMMON + ["translator gen_protocol (lock / channel / commit operation sequences by scope tracking of guards; validated by the lock-site trace of the running server)",
                                          "std Mutex = mutual exclusion without re-entrancy; accesses to the shared data happen only under their mutex (Rust's Mutex<T> typing)", "fair scheduling for 'every request completes'"],
        "axioms": info["axioms"],
        "evaluations": total, "distinct_nontrivial": len([s for s in scen if s["clients"] >= 2]),
        "traces_validated_against_impl": ntrace,
        "rule": "1..32 concurrent connections issuing random mixes of conversions, confirmations and registrations (guessed verbs: several forms per entry) with sleeps injected at the lock sites; every request must complete; "
                "the outcome must satisfy what every sequential order satisfies (counts = confirmations, each registration applied once, no half-visible entry, no candidate lost between non-overlapping conversions); "
                "non-trivial = at least two clients overlap and one of them updates",
        "samples": scen[:4],
    }
    return res.finish(cov, ["partial: the interleavings are sampled only to validate the extracted protocol; deadlock freedom and atomicity are theorems about that protocol"])


def replay(path):
    d = json.load(open(path))
    for v in d.get("violations", []):
        print(v["what"])
    return 1 if d.get("violations") else 0
