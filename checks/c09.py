"""C09 - a crash at any instant of a save never destroys or disables the user's data."""
import json, random, re, signal, subprocess
from vlib import *
from srv import *
from checks.conc_common import STD, ANC

PROP = "C09"
GENS = ["gen_protocol"]
CONE = ["Server/Protocol.v", "Server/CrashModel.v", "Server/CrashProofs.v", "Props/C09.v", "Gen/Protocol.v"]
THEOREMS = ["C09_save_disciplined", "C09_crash_safe", "C09_generic", "C09_in_place_save_refuted"]
NAMES = {"frequency.bin.tmp": "TmpFreq", "frequency.bin": "FinFreq", "user.dic.tmp": "TmpDic", "user.dic": "FinDic"}
FILES = {v: k for k, v in NAMES.items()}


def name_of(basename):
    """model name of a file of the user directory; a file the crash model does not know keeps its own name (X:<basename>)"""
    return NAMES.get(basename, "X:" + basename)


def file_of(name):
    return FILES.get(name, name[2:] if name.startswith("X:") else name)


def extracted_save():
    import gen_protocol, importlib
    importlib.reload(gen_protocol)
    gen_protocol.main()
    txt = open(os.path.join(COQ, "Gen", "Protocol.v")).read()
    m = re.search(r"Definition p_save : list fop := \[(.*?)\]\.", txt, re.S)
    return [x.strip() for x in m.group(1).split(";") if x.strip()]


def parse_strace(path, udir):
    """file operations on the user directory, in order: [('FCreate', name) | ('FWrite', name, nbytes) | ('FRename', a, b)]"""
    fd = {}
    ops = []
    pending = {}
    for line in open(path, errors="replace"):
        # a call that another thread's call interrupts in the log is printed in two pieces
        mu = re.match(r"(\d+)\s+(\w+)\((.*)<unfinished \.\.\.>", line)
        if mu:
            pending[mu.group(1)] = (mu.group(2), mu.group(3))
            continue
        mr = re.match(r"(\d+)\s+<\.\.\. (\w+) resumed>(.*)\)\s+=\s+(-?\d+)", line)
        if mr and mr.group(1) in pending and pending[mr.group(1)][0] == mr.group(2):
            sc, args, ret = mr.group(2), pending.pop(mr.group(1))[1] + mr.group(3), int(mr.group(4))
        else:
            m = re.match(r"\d+\s+(\w+)\((.*)\)\s+=\s+(-?\d+)", line)
            if not m:
                continue
            sc, args, ret = m.group(1), m.group(2), int(m.group(3))
        if sc in ("openat", "open", "creat") and ret >= 0:
            pm = re.search(r'"([^"]+)"', args)
            if pm and os.path.dirname(pm.group(1)) == udir:
                name = name_of(os.path.basename(pm.group(1)))
                if "O_TRUNC" in args or "O_CREAT" in args or sc == "creat":
                    ops.append(("FCreate", name))
                    fd[ret] = name
                else:
                    fd.pop(ret, None)
            else:
                fd.pop(ret, None)
        elif sc == "write" and ret > 0:
            f = int(args.split(",")[0])
            if f in fd:
                if ops and ops[-1][0] == "FWrite" and ops[-1][1] == fd[f]:
                    ops[-1] = ("FWrite", fd[f], ops[-1][2] + ret)
                else:
                    ops.append(("FWrite", fd[f], ret))
        elif sc == "close":
            f = int(args.split(",")[0]) if args.split(",")[0].strip().isdigit() else None
            fd.pop(f, None)
        elif sc in ("unlink", "unlinkat") and ret == 0:
            pm = re.search(r'"([^"]+)"', args)
            if pm and os.path.dirname(pm.group(1)) == udir:
                ops.append(("FRemove", name_of(os.path.basename(pm.group(1)))))
        elif sc in ("rename", "renameat", "renameat2") and ret == 0:
            ps = re.findall(r'"([^"]+)"', args)
            if len(ps) == 2 and (os.path.dirname(ps[0]) == udir or os.path.dirname(ps[1]) == udir):
                ops.append(("FRename", name_of(os.path.basename(ps[0])), name_of(os.path.basename(ps[1]))))
    return ops


def crash_states(old, new, prog, max_per_write):
    """python mirror of coq/Server/CrashModel.v, for whatever files the traced save touches: every state a death can leave.
    old / new: name -> bytes or None (the directory before the save / after it).  What a write puts into a file is the content that
    file object has at the end of the save (followed through the renames); for an object that does not survive, zero bytes of the
    traced length."""
    # pass 1: which object sits where at the end
    objs, nxt, where = {}, [0], {}
    for n_, c in old.items():
        if c is not None:
            objs[n_] = ("old", n_)
    sim = dict(objs)
    created = {}
    for i, o in enumerate(prog):
        if o[0] == "FCreate":
            nxt[0] += 1
            sim[o[1]] = ("new", nxt[0])
            created[i] = sim[o[1]]
        elif o[0] == "FRename":
            if o[1] in sim:
                sim[o[2]] = sim.pop(o[1])
        elif o[0] == "FRemove":
            sim.pop(o[1], None)
    final_content = {obj: new.get(n_) for n_, obj in sim.items()}
    # pass 2: the states
    s = dict(old)
    cur = {n_: ("old", n_) for n_, c in old.items() if c is not None}
    states = [("before any operation", dict(s))]
    for i, o in enumerate(prog):
        if o[0] == "FWrite":
            obj = cur.get(o[1])
            d = final_content.get(obj)
            if d is None:
                d = b"\0" * (o[2] if len(o) > 2 else 0)
            nls = [i + 1 for i, b in enumerate(d) if b == 10]                     # a text file cut exactly after a line (a "complete looking" partial file)
            nls = nls[::max(1, len(nls) // 10)]
            ks = sorted(set([0, 1, len(d) // 3, len(d) // 2, len(d) - 1, len(d)] + nls + list(range(0, len(d) + 1, max(1, len(d) // max_per_write)))))
            for k in ks:
                if 0 <= k <= len(d):
                    t = dict(s)
                    t[o[1]] = d[:k]
                    states.append((f"inside op {i} ({o[0]} {o[1]}) after {k} of {len(d)} bytes", t))
            s[o[1]] = d
        elif o[0] == "FCreate":
            s[o[1]] = b""
            cur[o[1]] = created[i]
        elif o[0] == "FRename":
            s[o[2]] = s.get(o[1])
            s[o[1]] = None
            if o[1] in cur:
                cur[o[2]] = cur.pop(o[1])
        elif o[0] == "FRemove":
            s[o[1]] = None
            cur.pop(o[1], None)
        states.append((f"after op {i} ({' '.join(map(str, o[:3]))})", dict(s)))
    return states


def materialize(d, state):
    os.makedirs(d, exist_ok=True)
    for name, content in state.items():
        if content is not None:
            with open(os.path.join(d, file_of(name)), "wb") as f:
                f.write(content)


def snapshot(udir):
    out = {name: None for name in FILES}
    if os.path.isdir(udir):
        for fn in os.listdir(udir):
            p = os.path.join(udir, fn)
            if os.path.isfile(p):
                out[name_of(fn)] = open(p, "rb").read()
    return out


def run(tier, seed):
    res = Result(PROP, tier, seed)
    rnd = random.Random(seed)
    info = standard_proof_steps(res, GENS, "Props/C09.v", CONE, "Props.C09", THEOREMS)
    okb, blog = build_binaries()
    if not okb:
        res.tie_broken("the repository no longer builds with the hooks", blog[-1500:])
        return res.finish({"obligations": info["obligations"], "discharged": info["discharged"], "checker_cmd": "make", "trusted_base": TRUSTED_COMMON}, [])
    try:
        model_prog = [tuple(x.split()) for x in extracted_save()]
    except Exception as e:
        model_prog = None
        res.tie_broken("translator: gen_protocol cannot read save_user_dictionary", str(e))
    wd = workdir("c09")
    npairs = 2 if tier == "quick" else 12
    per_write = 6 if tier == "quick" else 40
    n_states, n_partial, traced = 0, 0, []
    try:
        dct = make_dictionary(wd, STD, ANC, [])
        for pi in range(npairs):
            ud = os.path.join(wd, f"user{pi}")
            s = Server(dct, user_dir=ud, save_seconds=1)
            try:
                def learn(k):
                    for j in range(k):
                        st, r = s.call("GetCandidates", {"input": rnd.choice(["くるま", "かわ", "はし", "しんでん"])})
                        if st == "ok" and r["candidates"]:
                            s.call("UpdateFrequency", {"session_id": r["session_id"], "candidate_id": "0"})
                        s.call("RegisterWord", {"kind": rnd.choice(["CommonNoun", "Guess"]), "reading": "た" + rnd.choice(["べない", "かない", "い"]) if rnd.random() < 0.5 else "あいう",
                                                "word": f"語{pi}{j}" + rnd.choice(["べない", "かない", "い"]) if False else f"語{pi}x{j}"})
                    s.quiesce()
                def wait_saves(n):
                    st, d0 = s.dump()
                    target = d0["saves_done"] + n
                    t0 = time.time()
                    while time.time() - t0 < 15:
                        st, dd = s.dump()
                        if st == "ok" and dd["saves_done"] >= target:
                            return dd
                        time.sleep(0.03)
                    return None
                learn(rnd.randint(1, 3))
                wait_saves(2)
                time.sleep(0.1)
                st, old_dump = s.dump()
                old = snapshot(ud)
                if pi % 2 == 1:
                    # the FIRST save after a start (a save may treat the files it finds differently from the files it wrote itself)
                    s.stop()
                    s = Server(dct, user_dir=ud, save_seconds=3)
                learn(rnd.randint(1, 3))
                st, new_dump = s.dump()
                # trace the next saves
                tr = os.path.join(wd, f"strace{pi}.txt")
                p = subprocess.Popen(["strace", "-f", "-p", str(s.proc.pid), "-e", "trace=openat,open,creat,write,close,rename,renameat,renameat2,unlink,unlinkat", "-o", tr],
                                     stdout=subprocess.DEVNULL, stderr=subprocess.DEVNULL)
                time.sleep(0.5)
                wait_saves(3)
                time.sleep(0.2)
                p.send_signal(signal.SIGINT)
                try:
                    p.wait(3)
                except subprocess.TimeoutExpired:
                    p.kill()
                new = snapshot(ud)
            finally:
                s.stop()
            ops = parse_strace(tr, ud)
            # one complete save = from its first FCreate up to the op before the next first-file FCreate
            while ops and ops[0][0] != "FCreate":
                ops.pop(0)                       # the trace may begin in the middle of a save
            first = ops[0] if ops else None
            saves, cur = [], []
            for o in ops:
                if cur and o[:2] == first[:2] and o[0] == "FCreate":
                    saves.append(cur)
                    cur = []
                cur.append(o)
            complete = [sv for sv in saves if len(sv) >= 2]
            if not complete:
                res.tie_broken("correspondence: no complete save was observed under strace", {"ops": ops[:20]})
                continue
            obs = [tuple(o[:2]) if o[0] != "FRename" else tuple(o) for o in complete[0]]
            traced.append([" ".join(o) for o in obs])
            if model_prog is not None and obs != model_prog:
                res.tie_broken(f"correspondence: the system calls of a real save {obs} differ from the extracted program {model_prog}", {"observed": obs, "model": model_prog})
            prog = complete[0]
            if new["FinFreq"] is None or new["FinDic"] is None:
                res.violation("after two periodic saves frequency.bin / user.dic do not both exist", {"files": {k: (v is not None) for k, v in new.items()}})
                continue
            # every crash state of THAT save, from the old files to the new contents
            states = crash_states(old, new, prog, per_write)
            n_states += len(states)
            n_partial += sum(1 for w, _ in states if w.startswith("inside"))
            ok_freq = [sorted(map(json.dumps, old_dump["frequencies"])), sorted(map(json.dumps, new_dump["frequencies"]))]
            ok_user = [old_dump["user_entries"], new_dump["user_entries"]]
            def try_state(item):
                idx, (what, st_) = item
                cd = os.path.join(wd, f"crash{pi}_{idx}")
                materialize(cd, st_)
                s2 = Server(dct, user_dir=cd, save_seconds=1)
                out = None
                try:
                    if not s2.up:
                        return (what, "the server does not start on the files left behind", s2.logtext()[-400:])
                    stt, dd = s2.dump()
                    if stt != "ok":
                        return (what, "Verif.Dump is not answered", None)
                    if sorted(map(json.dumps, dd["frequencies"])) not in ok_freq:
                        return (what, f"the restored learned counts {dd['frequencies']} are neither the previously saved nor the newly saved version", None)
                    if dd["user_entries"] not in ok_user:
                        return (what, f"the restored user dictionary {dd['user_entries']} is neither the previously saved nor the newly saved version", None)
                    leftover = any(v is not None for k, v in st_.items() if k not in ("FinFreq", "FinDic"))
                    if idx % 4 == 0 or leftover:        # periodic saving keeps working afterwards: a word registered now reaches user.dic
                        s2.call("RegisterWord", {"kind": "CommonNoun", "reading": "あいう", "word": "亜crash"}, timeout=10)
                        s2.quiesce()
                        stt, d0 = s2.dump()
                        base_saves = d0["saves_done"] if stt == "ok" else 0
                        t0 = time.time()
                        while time.time() - t0 < 12:
                            stt, d3 = s2.dump()
                            if stt == "ok" and d3["saves_done"] >= base_saves + 2:
                                break
                            time.sleep(0.05)
                        time.sleep(0.1)
                        after = snapshot(cd)
                        if after["FinFreq"] is None or after["FinDic"] is None:
                            return (what, "after the restart the periodic save does not write the files any more (saving is disabled)", None)
                        if "亜crash".encode() not in after["FinDic"]:
                            return (what, "after the restart a newly registered word never reaches user.dic: periodic saving no longer works", None)
                finally:
                    s2.stop()
                    shutil.rmtree(cd, ignore_errors=True)
                return out
            with concurrent.futures.ThreadPoolExecutor(max_workers=12) as ex:
                for r in ex.map(try_state, enumerate(states)):
                    if r is not None:
                        what, msg, detail = r
                        res.violation(f"process death {what}: {msg}", {"kind": "crash", "crash_point": what, "program": [list(map(str, o)) for o in prog], "detail": detail})
    finally:
        cleanup(wd)
    cov = {
        "obligations": info["obligations"], "discharged": info["discharged"],
        "checker_cmd": f"cd /verif/coq && make Props/C09.vo + Print Assumptions on {len(THEOREMS)} theorems",
        "trusted_base": TRUSTED_COMMON + ["the OS: open(O_TRUNC), sequential write, atomic rename; process death only (no power loss, no reordering below the VFS)",
                                          "translator gen_protocol (file operations of save_user_dictionary), validated against the strace of a real save", "postcard decoding of complete files"],
        "axioms": info["axioms"],
        "evaluations": n_states, "distinct_nontrivial": n_partial,
        "traces_validated_against_impl": len(traced),
        "rule": "for random old / new learned states: the real server's save is traced with strace and compared with the extracted program; then every operation boundary and a set of byte-granular partial lengths of every write "
                "is materialised as a directory, a real server is started on it, its restored state must be the old or the new version of each file, and (every fourth state, and every state with a leftover temporary file) a word registered after the restart must reach user.dic through the periodic save; "
                "non-trivial = the crash point lies strictly inside a write",
        "samples": traced[:2],
    }
    return res.finish(cov, ["partial: process death only; the OS's atomic rename and observed write behaviour are trusted"])


def replay(path):
    d = json.load(open(path))
    for v in d.get("violations", []):
        print(v["what"])
    return 1 if d.get("violations") else 0
