"""C19 - client romaji engine: every table spelling is typeable, conversion is total, idempotent, passes kana through."""
import json, random, itertools
from vlib import *
import elisp_mini as E

PROP = "C19"
CONS = "tbjfhswrypkgzcvdm"       # the consonants that double (every consonant that begins a table spelling, save n and the x/l small-kana prefixes)
GENS = ["gen_elisp", "gen_kana"]
CONE = ["Base/Str.v", "Base/ListUtil.v", "Kana/Romaji.v", "Kana/RomajiProofs.v", "Kana/RomajiIdem.v", "Props/C19.v", "Gen/ElispTables.v", "Gen/KanaTable.v"]
THEOREMS = ["C19_table_typeable", "C19_table_typeable_each", "C19_total", "C19_passthrough", "C19_kana_inert", "C19_sokuon", "C19_sokuon_class", "C19_sokuon_server_spelling", "C19_idempotent",
            "C19_kata_app", "C19_kata_char", "C19_kata_table"]
IMPORTS = "From Chokan Require Import Base.Str Base.ListUtil Gen.ElispTables Kana.Romaji."


def run(tier, seed):
    res = Result(PROP, tier, seed)
    rnd = random.Random(seed)
    info = standard_proof_steps(res, GENS, "Props/C19.v", CONE, "Props.C19", THEOREMS)
    okm, mlog = coq_make(["Kana/Romaji.v", "Gen/ElispTables.v"])
    try:
        it = E.load_chokan(os.path.join(REPO, "chokan.el"))
    except Exception as e:
        res.tie_broken("chokan.el can no longer be loaded by the elisp evaluator", str(e))
        return res.finish({"obligations": info["obligations"], "discharged": info["discharged"], "checker_cmd": "make", "trusted_base": TRUSTED_COMMON}, [])
    table = [(x.car, x.cdr) for x in it.globals.vars["chokan--roman-table"]]
    ktable = [(x.car, x.cdr) for x in it.globals.vars["chokan--katakana-table"] if isinstance(x.car, str)]
    keychars = set("".join(k for k, _ in table))

    def r2h(s):
        it.steps = 0
        try:
            return it.call("chokan--roman-to-hiragana", s)
        except E.ElispError as e:
            return {"error": str(e)}

    def kata(s):
        it.steps = 0
        try:
            return it.call("chokan--roman-hira-to-kata", s)
        except E.ElispError as e:
            return {"error": str(e)}

    inputs = [k for k, _ in table]
    L = 4 if tier == "quick" else 5
    red = "aiukstnyx"
    for n in range(0, L + 1):
        for t in itertools.product(red, repeat=n):
            inputs.append("".join(t))
    full = "abcdefghijklmnopqrstuvwxyzABCDEFGHIJKLMNOPQRSTUVWXYZ0123456789-'.,"
    kana = "あいうかきさしたちつてとなにんっゃゅょがぱ"
    for _ in range(1500 if tier == "quick" else 40000):
        inputs.append("".join(rnd.choice(full) for _ in range(rnd.randint(1, 8))))
    for _ in range(700 if tier == "quick" else 20000):
        inputs.append("".join(rnd.choice(full[:26] + kana + "漢ー、") for _ in range(rnd.randint(1, 8))))
    # long key sequences (any internal step bound shows here) and characters that a Unicode normalisation would rewrite: they are not keys
    inputs += ["a" * 65, "ka" * 70, "kya" * 40, "tt" * 50 + "a", "n" * 130, "xtsu" * 33, "あ" * 100 + "ka", "q" * 200]
    inputs += ["ｋａ", "ｶ", "ｶﾞ", "㌔", "①", "㈱", "ゟ", "か\u3099", "は\u309a", "ｔｔａ", "Ａ", "１", "ka\u3099", "ﾞ", "ｰ", "￥"]
    for _ in range(60 if tier == "quick" else 2000):
        inputs.append("".join(rnd.choice(full[:26]) for _ in range(rnd.randint(66, 140))))
    inputs += [k[0] + k for k, _ in table if k and k[0] in CONS]          # every table spelling behind its own doubled consonant
    inputs = list(dict.fromkeys(inputs))
    outs = [r2h(s) for s in inputs]
    tv = dict(table_first(table))
    nontriv = 0
    for s, o in zip(inputs, outs):
        if isinstance(o, dict):
            res.violation(f"converting {s!r} does not terminate normally: {o['error']}", {"input": s, "error": o["error"]})
            continue
        # idempotent on its own output
        o2 = r2h(o)
        if o2 != o:
            res.violation(f"not idempotent: r2h({s!r}) = {o!r} but r2h of that = {o2!r}", {"kind": "idempotent", "input": s, "once": o, "twice": o2})
        # kana and unmapped characters (in no key, not a consonant that can double) pass through unchanged and in order
        j = 0
        while j < len(s) and s[j] not in keychars and s[j] not in CONS:
            j += 1
        if j > 0:
            o1 = r2h(s[j:]) if j < len(s) else ""
            if o != s[:j] + o1:
                res.violation(f"unmapped prefix of {s!r} is not passed through: {o!r} vs {s[:j] + o1!r}", {"kind": "passthrough", "input": s, "output": o})
        # doubled consonant
        if len(s) >= 2 and s[0] == s[1] and s[0] in CONS:
            o1 = r2h(s[1:])
            if o != "っ" + o1:
                res.violation(f"doubled consonant: r2h({s!r}) = {o!r} but っ + r2h({s[1:]!r}) = {'っ' + o1!r}", {"kind": "sokuon", "input": s})
        if any(s[i] == s[i + 1] for i in range(len(s) - 1)) and any(c not in keychars for c in s) and any(len(k) > 1 and k in s for k, _ in table):
            nontriv += 1
    # which consonants double?  At least every one the repository's own original-spelling conversion writes doubled for a sokuon
    # (っ + the kana of a table spelling): typed back, that doubled consonant is っ followed by the remaining consonant
    n_doubled = 0
    if build_harness()[0]:
        pairs = [(k, v) for k, v in table if isinstance(v, str) and k and k[0] not in "aiueon" and v not in ("っ",)]
        spelled = harness([{"op": "kana_convert", "input": "っ" + v} for _, v in pairs])
        for (k, v), sp in zip(pairs, spelled):
            a = sp.get("ok")
            if isinstance(a, str) and len(a) >= 2 and a[0] == a[1] and a[0] in "bcdfghjklmpqrstvwxyz":
                n_doubled += 1
                o, o1 = r2h(a), r2h(a[1:])
                if o != "っ" + (o1 if isinstance(o1, str) else "?"):
                    res.violation(f"doubled consonant: the repository spells {'っ' + v!r} as {a!r}, but r2h({a!r}) = {o!r} and っ + r2h({a[1:]!r}) = {'っ' + str(o1)!r}",
                                  {"kind": "sokuon_class", "input": a, "kana": "っ" + v})
    else:
        res.tie_broken("harness build failed", "kana_convert is needed for the doubled-consonant class")
    for k, v in table:
        o = r2h(k)        # every listed entry, also one shadowed by an earlier entry with the same spelling
        if o != v:
            res.violation(f"table spelling {k!r} yields {o!r} instead of {v!r}", {"kind": "typeable", "key": k, "want": v, "got": o})
    # katakana
    kin = [k for k, _ in ktable] + ["t", "っt", "しゅ", "漢", "", "あaア"] + ["".join(rnd.choice(kana + "abc漢") for _ in range(rnd.randint(0, 6))) for _ in range(200)]
    kout = [kata(s) for s in kin]
    kt = dict(table_first(ktable))
    for s, o in zip(kin, kout):
        want = "".join(kt.get(c, c) for c in s)
        if o != want:
            res.violation(f"hira-to-kata({s!r}) = {o!r}, expected {want!r} (table kana mapped, everything else untouched)", {"kind": "kata", "input": s, "got": o})
    # model vs evaluator
    n_model = 0
    if okm:
        cc, origin = [], []
        for s, o in zip(inputs, outs):
            if isinstance(o, dict):
                continue
            cc.append(f"CR {cstr(s)} {cstr(o)}")
            origin.append((s, o))
        for s, o in zip(kin, kout):
            if isinstance(o, dict):
                continue
            cc.append(f"CK {cstr(s)} {cstr(o)}")
            origin.append((s, o))
        extra = """
Inductive ccase := CR (s o : str) | CK (s o : str).
Definition ccheck (c : ccase) : bool :=
  match c with
  | CR s o => match r2h el_roman_table el_consonants el_scan_bound s with Some r => str_eqb r o | None => false end
  | CK s o => str_eqb (hira_to_kata el_katakana_table s) o
  end.
"""
        okc, failing, clog = run_coq_cases("C19", IMPORTS, "ccase", "ccheck", cc, shard=min(1500, max(300, len(cc) // 16 + 1)), extra_defs=extra)
        n_model = len(cc)
        if not okc:
            res.tie_broken("correspondence: evaluating the romaji model failed", clog)
        for i in failing[:10]:
            res.tie_broken("correspondence: the Gallina model and the elisp source (run by the mini evaluator) differ", {"input": origin[i][0], "elisp": origin[i][1]})
    else:
        res.tie_broken("model does not build: Kana/Romaji.v", coq_failing_file(mlog))
    cov = {
        "obligations": info["obligations"], "discharged": info["discharged"],
        "checker_cmd": "cd /verif/coq && make Props/C19.vo + Print Assumptions",
        "trusted_base": TRUSTED_COMMON + ["/verif/tools/elisp_mini.py stands in for Emacs (absent): it evaluates the three defuns from chokan.el's text; its fidelity for the ~30 forms they use is trusted (it reproduces every expectation of chokan-tests.el)"],
        "axioms": info["axioms"],
        "evaluations": len(inputs) + len(kin), "distinct_nontrivial": nontriv,
        "rule": f"all {len(table)} table keys; all strings of length <= {L} over {{a,i,u,k,s,t,n,y,x}} exhaustively; random ASCII strings and mixed kana/ASCII strings; "
                "non-trivial = contains a doubled character, a multi-character table unit and a character outside the table",
        "exhaustive_reduced_alphabet_len": L,
        "traces_validated_against_impl": n_model,
        "samples": inputs[260:266] + inputs[-3:],
    }
    return res.finish(cov, ["Emacs itself cannot be run here"])


def table_first(t):
    seen = {}
    for k, v in t:
        if k not in seen:
            seen[k] = v
    return seen.items()


def replay(path):
    d = json.load(open(path))
    it = E.load_chokan(os.path.join(REPO, "chokan.el"))
    for v in d.get("violations", []):
        r = v["replay"]
        if "input" in r:
            print(r["input"], "->", it.call("chokan--roman-to-hiragana", r["input"]))
        elif "key" in r:
            print(r["key"], "->", it.call("chokan--roman-to-hiragana", r["key"]), "want", r["want"])
    return 1 if d.get("violations") else 0
