"""C15 - an acknowledged conversion can always be confirmed; no learning is silently lost."""
from checks.conc_common import *

PROP = "C15"
GENS = ["gen_protocol", "gen_speech", "gen_dicgrammar", "gen_conj", "gen_score", "gen_kana"]
CONE = ["Server/Protocol.v", "Server/ConcModel.v", "Server/ConcProofs.v", "Props/C15.v", "Gen/Protocol.v", "Server/ServerModel.v", "Server/SessionProofs.v"]
THEOREMS = ["C15_insert_before_respond", "C15_responded_implies_stored", "C15_send_then_respond_refuted", "C15_registration_sent_before_ack", "C15_single_consumer",
            "C15_conversion_stores_session", "C15_session_survives"]


def pairs_client(srv_, n, word_input, results, idx):
    """n back-to-back (conversion, confirmation) pairs; every confirmation is sent right after its response arrived"""
    ok = 0
    for _ in range(n):
        st, r = srv_.call("GetCandidates", {"input": word_input}, timeout=10)
        if st != "ok" or not r["candidates"]:
            results[idx] = ("conversion not answered", st)
            return
        st2, _ = srv_.call("UpdateFrequency", {"session_id": r["session_id"], "candidate_id": "0"}, timeout=10)
        if st2 != "ok":
            results[idx] = ("confirmation not answered", st2)
            return
        ok += 1
    results[idx] = ("ok", ok)


def scenario(res, wd, delays, clients, n, tag):
    s = start(wd, delays=delays)
    try:
        if not s.up:
            res.violation("the server does not start", {"delays": delays})
            return 0
        results = {}
        inputs = ["くるま", "かわ", "はし", "でん"]
        ths = [threading.Thread(target=pairs_client, args=(Server_client(s), n, inputs[i % len(inputs)], results, i)) for i in range(clients)]
        for t in ths:
            t.start()
        for t in ths:
            t.join(120)
        st, d = s.dump()
        if st != "ok":
            res.violation("Verif.Dump is not answered after the confirmations", {"delays": delays, "clients": clients})
            return 0
        expect = {}
        for i in range(clients):
            if results.get(i, ("?",))[0] != "ok":
                res.violation(f"client {i}: {results.get(i)}", {"delays": delays, "clients": clients, "pairs": n})
                continue
            expect[inputs[i % len(inputs)]] = expect.get(inputs[i % len(inputs)], 0) + results[i][1]
        total = sum(f[2] for f in d["frequencies"])
        want = sum(expect.values())
        if total != want:
            res.violation(f"{want} confirmations were acknowledged, each sent after the response that issued its session, but the learned counts add up to {total} "
                          f"({[(f[1], f[2]) for f in d['frequencies']]})", {"kind": "lost_confirmation", "delays": delays, "clients": clients, "pairs": n, "scenario": tag})
        if d["sessions"] != 0:
            res.violation(f"{d['sessions']} sessions are still live although every one was confirmed", {"delays": delays, "clients": clients})
        return want
    finally:
        s.stop()


class Server_client:
    """a per-thread view of a running server (own request ids)"""
    def __init__(self, s):
        self.s, self.id = s, 0
    def call(self, method, params, timeout=5.0):
        c = Server.__new__(Server)
        c.port, c.id = self.s.port, self.id
        self.id += 1
        return Server.call(c, method, params, timeout)


def registrations(res, wd, delays, m):
    s = start(wd, delays=delays)
    try:
        words = [("あ" + "いうえおかきくけこさ"[i % 10] + "かきくけこさしすせそ"[i // 10 % 10], f"語{i}") for i in range(m)]
        def reg(w):
            return Server_client(s).call("RegisterWord", {"kind": "CommonNoun", "reading": w[0], "word": w[1]}, timeout=10)[0]
        with concurrent.futures.ThreadPoolExecutor(max_workers=16) as ex:
            sts = list(ex.map(reg, words))
        if any(x != "ok" for x in sts):
            res.violation(f"registrations not acknowledged: {sts}", {"delays": delays})
        ok, d = s.quiesce(10.0)
        if not ok:
            res.violation("acknowledged registrations are never applied", {"delays": delays, "dump": d})
            return 0
        lines = d["user_entries"]
        for r, w in words:
            c = lines.count(f"{r}\t{w}\t/一般名詞/")
            if c != 1:
                res.violation(f"the acknowledged registration {w}/{r} was applied {c} times", {"kind": "registration_once", "delays": delays})
        # ... and in the LIVE dictionary: every registered word once under its reading - also a word the dictionary already holds,
        # registered again under the other kind of noun
        c2 = Server_client(s)
        st0, before = c2.call("Verif.Words", {"readings": ["くるま"]})
        c2.call("RegisterWord", {"kind": "ProperNoun", "reading": "くるま", "word": "車"}, timeout=10)
        s.quiesce(10.0)
        stw, live = c2.call("Verif.Words", {"readings": sorted({r for r, _ in words}) + ["くるま"]}, timeout=20)
        if stw == "ok":
            by = {it["reading"]: it["words"] for it in live}
            for r, w in words:
                k = sum(1 for x in by.get(r, []) if x[0] == w)
                if k != 1:
                    res.violation(f"the acknowledged registration {w}/{r} is {k} times in the live dictionary", {"kind": "registration_live", "delays": delays})
            if st0 == "ok" and len(by.get("くるま", [])) != len(before[0]["words"]) + 1:
                res.violation(f"registering 車/くるま as a proper noun next to the common noun the dictionary holds is acknowledged but never applied to the live dictionary: {by.get('くるま')}",
                              {"kind": "registration_live_other_kind", "delays": delays})
        return m
    finally:
        s.stop()


class Ws_client:
    """the same interface over ONE WebSocket connection that stays open (as the Emacs client's does)"""
    def __init__(self, s):
        self.c = WsClient(s.port, timeout=20.0)

    def call(self, method, params, timeout=None):
        return self.c.call(method, params)


def outstanding(res, wd, K, client=None):
    """K conversions that are never confirmed pile up; conversions issued in between, and the very first one, are still confirmable"""
    s = start(wd)
    try:
        c = (client or Server_client)(s)
        first, acked = None, 0
        marks = {k for k in (1, 2, 127, 128, 129, 255, 256, 257, 1023, 1024, 1025, K) if k <= K}
        for k in range(1, K + 1):
            st, r = c.call("GetCandidates", {"input": "くるま"}, timeout=10)
            if st != "ok" or not r["candidates"]:
                res.violation(f"conversion {k} is not answered with {k - 1} sessions outstanding", {"kind": "outstanding", "k": k})
                return 0
            if first is None:
                first = r["session_id"]
            if k in marks:
                st, r2 = c.call("GetCandidates", {"input": "くるま"}, timeout=10)
                st2, _ = c.call("UpdateFrequency", {"session_id": r2["session_id"], "candidate_id": "0"}, timeout=10)
                if st2 != "ok":
                    res.violation("confirmation not answered", {"kind": "outstanding", "k": k})
                    return 0
                acked += 1
                st3, d = s.dump()
                got = sum(f[2] for f in d["frequencies"]) if st3 == "ok" else None
                if got != acked:
                    res.violation(f"with {k} conversions outstanding, a conversion was confirmed right after its response and the learned counts add up to {got} instead of {acked}",
                                  {"kind": "lost_confirmation_outstanding", "outstanding": k})
                    return acked
        st2, _ = c.call("UpdateFrequency", {"session_id": first, "candidate_id": "0"}, timeout=10)
        acked += 1
        st3, d = s.dump()
        got = sum(f[2] for f in d["frequencies"]) if st3 == "ok" else None
        if got != acked:
            res.violation(f"the first of {K} outstanding conversions was confirmed at the end and the learned counts add up to {got} instead of {acked}",
                          {"kind": "lost_confirmation_outstanding", "outstanding": K, "which": "first"})
        return acked
    finally:
        s.stop()


def run(tier, seed):
    res = Result(PROP, tier, seed)
    rnd = random.Random(seed)
    info = standard_proof_steps(res, GENS, "Props/C15.v", CONE, "Props.C15", THEOREMS)
    okb, blog = build_binaries()
    if not okb:
        res.tie_broken("the repository no longer builds with the hooks", blog[-1500:])
        return res.finish({"obligations": info["obligations"], "discharged": info["discharged"], "checker_cmd": "make", "trusted_base": TRUSTED_COMMON}, [])
    wd = workdir("c15")
    total, scen = 0, []
    try:
        plans = [({}, 1, 60, "back-to-back on one connection"),
                 ({"convert.before_store_lock": 15}, 4, 10, "slow store insert"),
                 ({"confirm.before_store_lock": 5, "convert.before_pref_lock": 3}, 8, 10, "slow confirmation"),
                 ({"recorder.before_insert": 30}, 2, 15, "slow recorder (only exists in the pre-repair code)")]
        if tier != "quick":
            for _ in range(12):
                dl = {p: rnd.choice([1, 5, 20]) for p in rnd.sample(POINTS, rnd.randint(1, 4))}
                plans.append((dl, rnd.choice([1, 2, 8, 16, 32]), rnd.choice([5, 20]), "random delays"))
        for dl, c, n, tag in plans:
            total += scenario(res, wd, dl, c, n, tag)
            scen.append({"delays": dl, "clients": c, "pairs": n, "what": tag})
        total += outstanding(res, wd, 1100 if tier == "quick" else 5000)
        shutil.rmtree(os.path.join(wd, "user"), ignore_errors=True)
        total += outstanding(res, wd, 300 if tier == "quick" else 2000, client=Ws_client)      # the same on one long-lived WebSocket connection
        regs = registrations(res, wd, {"updater.before_dict_lock": 5, "updater.before_pref_lock": 2}, 40 if tier == "quick" else 200)
    finally:
        cleanup(wd)
    cov = {
        "obligations": info["obligations"], "discharged": info["discharged"],
        "checker_cmd": f"cd /verif/coq && make Props/C15.vo + Print Assumptions on {len(THEOREMS)} theorems",
        "trusted_base": TRUSTED_COMMON + ["translator gen_protocol (operation sequences of the handlers and tasks from scope tracking of lock guards)", "std Mutex mutual exclusion, mpsc FIFO with a single consumer",
                                          "the real runs sample schedules (delays at the lock sites) only to validate the extracted protocol"],
        "axioms": info["axioms"],
        "evaluations": total + regs, "distinct_nontrivial": len([s for s in scen if s["clients"] >= 2]),
        "rule": "N back-to-back (conversion, confirmation) pairs per client, 1..32 concurrent clients, delays injected before the store / preference / dictionary locks; the learned counts must add up to the number of "
                "acknowledged confirmations and no session may stay behind; concurrent registrations must each be applied exactly once; non-trivial = at least two clients overlap",
        "samples": scen[:4],
    }
    return res.finish(cov, ["partial: scheduling and mutex semantics are trusted; the proof is about the extracted operation order (insert before respond)"])


def replay(path):
    d = json.load(open(path))
    for v in d.get("violations", []):
        print(v["what"])
    return 1 if d.get("violations") else 0
