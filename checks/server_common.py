"""E9: request histories on the real chokan-server (over HTTP, quiesced through Verif.Dump after asynchronous
requests) compared with the sequential server model coq/Server/ServerModel.v.  Shared by C05 C06 C07 C08 C20."""
import json, random, concurrent.futures, threading
from vlib import *
from conv import *
from srv import *
from checks.kkc_common import coq_word3, CTX_COQ, FULL_ALPHA, KANJI

SRV_GENS = ["gen_speech", "gen_dicgrammar", "gen_conj", "gen_score", "gen_kana"]
SRV_MODEL = ["Server/ServerModel.v"]
IMPORTS = ("From Chokan Require Import Base.Str Base.ListUtil Dic.Speech Dic.TextFormat Dic.Conjugation Kkc.Context Kkc.Lattice Kkc.Score Kkc.Search "
           "Server.ServerModel.")
JP_KEYS = "あいうえおかきくけこさしすせそたちつてとなにぬねのはひふへほまみむめもやゆよらりるれろわをんがぎぐげござじずぜぞだぢづでどばびぶべぼぱぴぷぺぽっぁぃぅぇぉゃゅょーゑゐ"
ALPHABET = JP_KEYS + "abcdefghijklmnopqrstuvwxyz"

SPEECH_NAMES = None


def speech_names():
    global SPEECH_NAMES
    if SPEECH_NAMES is None:
        sps = all_speeches_json()
        names = harness([{"op": "dic_speech_name", "speech": sp} for sp in sps])
        SPEECH_NAMES = {speech_key(sp): n["ok"] for sp, n in zip(sps, names)}
    return SPEECH_NAMES


def entry_line(e):
    return f"{e['reading']}\t{e['stem']}\t/{speech_names()[speech_key(e['speech'])]}/"


NONCONJ = [{"Noun": "Common"}, {"Noun": "Proper"}, {"Noun": "Sahen"}, "Adverb", "Verbatim", "Conjunction", "PreNounAdjectival", "Counter"]
ANC_SP = [{"Particle": "Case"}, {"Particle": "Adverbial"}, {"Particle": "Conjunctive"}, {"Particle": "SentenceFinal"}, "AuxiliaryVerb",
          {"Affix": "Prefix"}, {"Affix": "Prefix"}, {"Affix": "Suffix"}, {"Affix": "Suffix"}, "Counter"]


def gen_base(rnd):
    """a small source dictionary: entries (reading, stem, speech) for the standard, ancillary and tankan sides"""
    alpha = rnd.sample(list("あいうえかきくけこさしたちつてとなにのはまもやよらりるれわんっーぁぃゃゅょ"), rnd.randint(3, 6))
    def rd(n):
        return "".join(rnd.choice(alpha) for _ in range(rnd.randint(1, n)))
    std, anc, tankan = [], [], []
    for _ in range(rnd.randint(3, 12)):
        r = rd(3)
        k = rnd.random()
        if k < 0.75:
            sp = rnd.choice(NONCONJ)
        elif k < 0.9:
            sp = rnd.choice([{"Verb": {"Godan": "カ"}}, {"Verb": {"SimoIchidan": "バ"}}, {"Verb": {"Hen": "サ"}}, "Adjective", "AdjectivalVerb"])
        else:
            sp = rnd.choice(ANC_SP)
        std.append({"reading": r, "stem": "".join(rnd.choice(KANJI) for _ in range(rnd.randint(1, 2))), "speech": sp})
    for _ in range(rnd.randint(1, 8)):
        r = rd(2)
        sp = rnd.choice(ANC_SP)
        anc.append({"reading": r, "stem": r if isinstance(sp, dict) and "Particle" in sp else rnd.choice(KANJI), "speech": sp})
    if std and rnd.random() < 0.5:
        # an ancillary word written like an independent word (的/てき next to 的/まと): learned counts are kept per written form
        for _ in range(rnd.randint(1, 2)):
            anc.append({"reading": rd(2), "stem": rnd.choice(std)["stem"], "speech": rnd.choice([{"Affix": "Suffix"}, {"Affix": "Prefix"}, "AuxiliaryVerb", "Counter"])})
    for _ in range(rnd.randint(0, 4)):
        tankan.append({"reading": rd(2), "stem": rnd.choice(KANJI), "speech": {"Noun": "Common"}})
    # ー is not in the text format's kana class: keep base sources inside it
    for l in (std, anc, tankan):
        for e in l:
            e["reading"] = e["reading"].replace("ー", "あ")
    return {"std": std, "anc": anc, "tankan": tankan}, [a for a in alpha if a != "ー"]


class HistoryRun:
    """runs one history on the real server and records what the model needs"""

    def __init__(self, base, requests, restart_at=None, workers=None):
        self.base, self.requests = base, requests
        self.events = []        # (model_request_dict, observed_response)
        self.problems = []      # (what, detail) observed on the implementation alone
        self.final = None
        self.dump_each = True
        self.dumps = []         # Verif.Dump after every request (index = request index)
        self.init_freq_abs = []
        self.sess_texts = {}
        self.transport = "http"   # "ws": the six RPC methods travel over ONE WebSocket connection kept open for the whole history (as the Emacs client does)

    def run(self):
        wd = workdir("h")
        srv_ = None
        ws = [None]
        try:
            d = make_dictionary(wd, [entry_line(e) for e in self.base["std"]], [entry_line(e) for e in self.base["anc"]], [entry_line(e) for e in self.base["tankan"]])
            ud = os.path.join(wd, "user")
            if self.base.get("init_freq"):
                # learned counts from an earlier life of the server, some of them older than the expiry period
                os.makedirs(ud, exist_ok=True)
                now_ms = int(time.time() * 1000)
                self.init_freq_abs = [({"kind": c}, w, n, now_ms - age) for c, w, n, age in self.base["init_freq"]]
                harness([{"op": "srv_freq_bin", "path": os.path.join(ud, "frequency.bin"), "entries": [[c, w, n, t] for c, w, n, t in self.init_freq_abs]}])
            srv_ = Server(d, user_dir=ud, save_seconds=1)
            if not srv_.up:
                # one more attempt before this is reported (a transient start failure of the test machinery must not look like a defect)
                first_log = srv_.logtext()
                srv_.stop()
                time.sleep(0.5)
                srv_ = Server(d, user_dir=ud, save_seconds=1)
                if srv_.up:
                    log("note: a server start needed a second attempt; first log:", first_log[-300:])
            if not srv_.up:
                self.problems.append(("server does not start", srv_.logtext()))
                return self
            sids = {}
            srv_.timeout = 20.0        # one request may take this long before it counts as unanswered (the machine may be loaded by parallel checks)
            def wire(rq):
                if rq["kind"] == "proper":
                    return "GetProperCandidates", {"input": rq["input"]}
                if rq["kind"] == "convert":
                    params = {"input": rq["input"]}
                    if rq.get("context", "Normal") != "Normal" or rq.get("explicit_ctx"):
                        params["context"] = {"kind": rq.get("context", "Normal")}
                    return "GetCandidates", params
                return "RegisterWord", {"kind": rq["wkind"], "reading": rq["reading"], "word": rq["word"]}
            def rpc(method, params):
                if self.transport != "ws":
                    return srv_.call(method, params)
                if ws[0] is None or ws[0][1] is not srv_:
                    try:
                        c_ = WsClient(srv_.port, timeout=20.0)
                    except OSError as e_:
                        return ("closed", str(e_))
                    if not c_.ok:
                        return ("closed", "websocket upgrade refused: " + c_.status)
                    ws[0] = (c_, srv_)
                out = ws[0][0].call(method, params)
                if out[0] == "closed":
                    ws[0][0].close()
                    ws[0] = None              # the next request opens a new connection
                return out
            pending = {}           # request index -> (status, result) answered as part of a JSON-RPC batch
            for qi, rq in enumerate(self.requests):
                kind = rq["kind"]
                if srv_.timeouts >= 2:
                    break              # two unanswered requests are reported; the rest of the history would only wait
                if rq.get("batch") is not None and qi not in pending:
                    # consecutive requests with the same batch mark travel as ONE JSON-RPC batch (an array); the server answers an array
                    grp = [j for j in range(qi, len(self.requests)) if self.requests[j].get("batch") == rq["batch"]]
                    grp = [j for k_, j in enumerate(grp) if j == qi + k_]
                    answers = srv_.call_batch([wire(self.requests[j]) for j in grp])
                    for j, a in zip(grp, answers):
                        pending[j] = a
                if kind in ("convert", "proper"):
                    ctx = rq.get("context", "Normal") if kind == "convert" else "Proper"
                    st, r = pending[qi] if qi in pending else rpc(*wire(rq))
                    if st != "ok":
                        self.problems.append((f"conversion of {rq['input']!r} is not answered: {st} {r}", {"request": rq}))
                        self.events.append(({"t": "convert", "input": rq["input"], "ctx": ctx}, None))
                        if not srv_.alive():
                            break
                        continue
                    sids[len(sids)] = r["session_id"]
                    self.sess_texts[len(sids) - 1] = [c["candidate"] for c in r["candidates"]]
                    ids = [c["id"] for c in r["candidates"]]
                    if ids != [str(i) for i in range(len(ids))]:
                        self.problems.append(("candidate ids are not 0..n-1", {"request": rq, "ids": ids}))
                    self.events.append(({"t": "convert", "input": rq["input"], "ctx": ctx}, {"sid": len(sids) - 1, "texts": [c["candidate"] for c in r["candidates"]]}))
                elif kind == "tankan":
                    st, r = rpc("GetTankanCandidates", {"input": rq["input"]})
                    self.events.append(({"t": "tankan", "input": rq["input"]}, {"texts": [c["candidate"] for c in r["candidates"]]} if st == "ok" else None))
                    if st != "ok":
                        self.problems.append((f"tankan lookup of {rq['input']!r} is not answered: {st}", {"request": rq}))
                elif kind == "alpha":
                    st, r = rpc("GetAlphabeticCandidate", {"input": rq["input"]})
                    self.events.append(({"t": "alpha", "input": rq["input"]}, {"texts": [c["candidate"] for c in r["candidates"]]} if st == "ok" else None))
                    if st != "ok":
                        self.problems.append((f"alphabetic conversion of {rq['input']!r} is not answered: {st}", {"request": rq}))
                elif kind == "confirm":
                    sid = sids.get(rq["session"]) if rq["session"] is not None else "00000000-0000-4000-8000-000000000000"
                    if "text" in rq and rq["text"] in self.sess_texts.get(rq["session"], []):
                        rq["cid"] = str(self.sess_texts[rq["session"]].index(rq["text"]))      # the candidate with this text, wherever the server lists it
                    st, r = rpc("UpdateFrequency", {"session_id": sid if sid is not None else "no-such-session", "candidate_id": rq["cid"]})
                    ok, dmp = srv_.quiesce()
                    # the time stamp this confirmation used = the stamp of the count it raised (planted counts may carry stamps from the future)
                    prevf = {(json.dumps(f[0], sort_keys=True), f[1]): (f[2], f[3]) for f in ((self.dumps[-1] or {}).get("frequencies", []) if self.dumps else
                                                                                          [[c, w, n, t] for c, w, n, t in self.init_freq_abs])}
                    raised = [f[3] for f in (dmp or {}).get("frequencies", []) if isinstance(dmp, dict) and prevf.get((json.dumps(f[0], sort_keys=True), f[1]), (0, None))[0] < f[2]]
                    now = raised[0] if raised else int(time.time() * 1000)
                    self.events.append(({"t": "confirm", "sid": rq["session"] if sid is not None and rq["session"] is not None else None, "cid": rq["cid"], "now": now,
                                         "applied": True}, {} if st == "ok" else None))
                    if st != "ok":
                        self.problems.append((f"confirmation is not answered: {st} {r}", {"request": rq}))
                    if not ok:
                        self.problems.append(("a learned compound is never applied to the dictionary (updater dead?)", {"request": rq, "dump": dmp}))
                elif kind == "register":
                    st, r = pending[qi] if qi in pending else rpc(*wire(rq))
                    ok, dmp = srv_.quiesce()
                    self.events.append(({"t": "register", "wkind": rq["wkind"], "reading": rq["reading"], "word": rq["word"]}, {} if st == "ok" else ("rejected" if st == "error" else ("failed" if st == "closed" else None))))
                    if st == "timeout":
                        self.problems.append(("registration is neither answered nor its connection closed", {"request": rq}))
                    if not ok:
                        self.problems.append(("a registered word is never applied to the dictionary (updater dead?)", {"request": rq, "dump": dmp}))
                elif kind == "wait_save":
                    # let a periodic save happen here (not a model event: saving does not change the state)
                    st, d0 = srv_.dump()
                    target = (d0 or {}).get("saves_done", 0) + 1 if st == "ok" else 1
                    t0 = time.time()
                    while time.time() - t0 < 8:
                        st, dd = srv_.dump()
                        if st == "ok" and dd["saves_done"] >= target:
                            break
                        time.sleep(0.05)
                elif kind == "malformed":
                    st, r = srv_.call(rq["method"], rq["params"])
                    if st == "timeout":
                        self.problems.append((f"malformed request {rq['method']} is neither answered nor closed", {"request": rq}))
                    # not a model event: a request that fails to parse never reaches a handler
                elif kind in ("restart", "hup"):
                    ok, dmp = srv_.quiesce()
                    before = dmp
                    target = (dmp or {}).get("saves_done", 0) + 2 if isinstance(dmp, dict) else 2
                    t0 = time.time()
                    while time.time() - t0 < 12:
                        st, dd = srv_.dump()
                        if st == "ok" and dd["saves_done"] >= target:
                            break
                        time.sleep(0.05)
                    else:
                        self.problems.append(("the periodic save does not happen", {"dump": dmp}))
                    time.sleep(0.05)
                    if kind == "hup":
                        # SIGHUP after everything has been saved: a server without a handler ends (and is started again, as by a service
                        # manager); one that handles the signal (reloads) lives on - either way it then holds what it held before
                        srv_.proc.send_signal(signal.SIGHUP)
                        time.sleep(1.0)
                    if kind == "restart" or not srv_.alive():
                        srv_.stop()
                        srv_ = Server(d, user_dir=ud, save_seconds=1)
                    srv_.timeout = 20.0
                    if not srv_.up:
                        self.problems.append(("server does not start again on the user data it wrote", srv_.logtext()))
                        break
                    st, after = srv_.dump()
                    self.events.append(({"t": "restart"}, {"before": before, "after": after if st == "ok" else None}))
                    sids = {k: None for k in sids}
                if not srv_.alive():
                    self.problems.append(("the server process died", {"request": rq, "log": srv_.logtext()[-800:]}))
                    break
                if self.dump_each and kind != "wait_save":
                    st_, dd_ = srv_.dump()
                    self.dumps.append(dd_ if st_ == "ok" else None)
            if srv_.alive():
                st, self.final = srv_.dump()
                if st != "ok":
                    self.problems.append(("Verif.Dump is not answered at the end of the history (a mutex is poisoned?)", {"status": st, "detail": self.final}))
                    self.final = None
                else:
                    # the live standard dictionary for the readings this history is about (registered readings and their stems, base readings,
                    # converted inputs and their prefixes): words in the engine's order, and whether the trie knows the reading
                    rds = []
                    for rq in self.requests:
                        if rq["kind"] == "register":
                            rds += [rq["reading"], rq["reading"][:-1], rq["reading"][:-2]]
                        elif rq["kind"] in ("convert", "proper"):
                            rds += [rq["input"][:k] for k in range(1, min(len(rq["input"]), 6) + 1)]
                    rds += [e["reading"] for e in self.base["std"]]
                    rds = [r for r in dict.fromkeys(rds) if r and "\n" not in r][:80]
                    stw, ws = srv_.call("Verif.Words", {"readings": rds})
                    self.final["words"] = ws if stw == "ok" else None
        finally:
            try:
                if ws[0] is not None:
                    ws[0][0].close()
            except Exception:
                pass
            if srv_ is not None:
                srv_.stop()
            cleanup(wd)
        return self


def run_histories(items, threads=8):
    def one(a):
        i, it = a
        hr = HistoryRun(*it)
        if i % 3 == 2 or it[0].get("transport") == "ws":
            hr.transport = "ws"       # every third history talks over one long-lived WebSocket connection
        return hr.run()
    with concurrent.futures.ThreadPoolExecutor(max_workers=threads) as ex:
        return list(ex.map(one, list(enumerate(items))))


# ---------------------------------------------------------------- Coq rendering
def coq_entry_d(e):
    return coq_entry(e)


def coq_request(ev):
    t = ev["t"]
    if t == "convert":
        return [f"GetCandidates {cstr(ev['input'])} {CTX_COQ[ev['ctx']]}"]
    if t == "tankan":
        return [f"GetTankan {cstr(ev['input'])}"]
    if t == "alpha":
        return [f"GetAlphabetic {cstr(ev['input'])}"]
    if t == "confirm":
        sid = "None" if ev["sid"] is None else f"(Some {ev['sid']}%nat)"
        return [f"UpdateFrequency {sid} {cstr(ev['cid'])} ({ev['now']})%Z", "ApplyEntry"]
    if t == "register":
        if ev["wkind"] == "Guess":
            return [f"RegisterGuess {cstr(ev['reading'])} {cstr(ev['word'])}", "ApplyEntry"]
        return [f"RegisterNoun {cbool(ev['wkind'] == 'ProperNoun')} {cstr(ev['reading'])} {cstr(ev['word'])}", "ApplyEntry"]
    if t == "restart":
        return ["Restart"]
    raise ValueError(t)


def coq_expect(ev, obs):
    """expected model responses for the requests coq_request(ev) produces"""
    t = ev["t"]
    if obs is None:
        return None
    if t == "convert":
        return [f"EOk (RCands {obs['sid']}%nat {clist([cstr(x) for x in obs['texts']])})"]
    if t in ("tankan", "alpha"):
        return [f"EOk (RTexts {clist([cstr(x) for x in obs['texts']])})"]
    if t == "confirm":
        return ["EOk RUnit", "EOk RUnit"]
    if t == "register":
        if obs == "failed":
            return ["EErr", "EOk RUnit"]
        if obs == "rejected":
            return ["EOk RRejected", "EOk RUnit"]
        return ["EOk RUnit", "EOk RUnit"]
    if t == "restart":
        return ["EOk RUnit"]


def parse_user_entries(lines):
    """user entries as printed by Verif.Dump (Display of Entry) -> entry dicts (speech by printed name)"""
    inv = {v: k for k, v in speech_names().items()}
    out = []
    for l in lines:
        parts = l.split("\t")
        if len(parts) < 3:
            return None
        reading, stem, sp = parts[0], "\t".join(parts[1:-1]), parts[-1]
        name = sp.strip("/")
        if name not in inv:
            return None
        out.append({"reading": reading, "stem": stem, "speech": eval(inv[name])})
    return out


EXTRA = """
Inductive expect := EOk (r : response) | EErr.
Fixpoint strs_eqb (a b : list str) : bool :=
  match a, b with [], [] => true | x :: a', y :: b' => str_eqb x y && strs_eqb a' b' | _, _ => false end.
Definition resp_eqb (a b : response) : bool :=
  match a, b with
  | RCands i x, RCands j y => Nat.eqb i j && strs_eqb x y
  | RTexts x, RTexts y => strs_eqb x y
  | RUnit, RUnit => true
  | RRejected, RRejected => true
  | _, _ => false
  end.
Fixpoint resps_eqb (a : list (outcome response)) (b : list expect) : bool :=
  match a, b with
  | [], [] => true
  | Ok x :: a', EOk y :: b' => resp_eqb x y && resps_eqb a' b'
  | Err :: a', EErr :: b' => resps_eqb a' b'
  | _, _ => false
  end.
Fixpoint entries_eqb (a b : list entry) : bool :=
  match a, b with [], [] => true | x :: a', y :: b' => entry_eqb x y && entries_eqb a' b' | _, _ => false end.
Definition fentry_eqb (a b : context * str * (Z * Z)) : bool :=
  context_eqb (fst (fst a)) (fst (fst b)) && str_eqb (snd (fst a)) (snd (fst b)) && (fst (snd a) =? fst (snd b))%Z && (snd (snd a) =? snd (snd b))%Z.
Definition ftable_eqb (a b : ftable) : bool :=
  Nat.eqb (length a) (length b) && forallb (fun x => existsb (fentry_eqb x) b) a && forallb (fun x => existsb (fentry_eqb x) a) b.
Definition with_freq (s : sstate) (f : ftable) : sstate :=
  {| s_alpha := s_alpha s; s_std := s_std s; s_keys := s_keys s; s_anc := s_anc s; s_tankan := s_tankan s; s_freq := f; s_user := s_user s;
     s_sessions := s_sessions s; s_next := s_next s; s_queue := s_queue s |}.
Record hcase := { h_alpha : list N; h_std : list entry; h_anc : list entry; h_tankan : list entry; h_init_freq : ftable;
                  h_reqs : list request; h_expect : list expect;
                  h_final_freq : ftable; h_final_user : list entry; h_final_sessions : nat;
                  h_final_words : list (str * (list (str * speech) * bool)) }.
Fixpoint ws_eqb (a b : list (str * speech)) : bool :=
  match a, b with [], [] => true | x :: a', y :: b' => str_eqb (fst x) (fst y) && speech_eqb (snd x) (snd y) && ws_eqb a' b' | _, _ => false end.
Definition words_ok (fin : sstate) (e : str * (list (str * speech) * bool)) : bool :=
  let '(r, (ws, intrie)) := e in
  ws_eqb (map (fun w => (w_word w, w_speech w)) (filter (fun w => str_eqb (w_reading w) r) (s_std fin))) ws
  && Bool.eqb (existsb (str_eqb r) (s_keys fin)) intrie.

Definition hcheck (h : hcase) : bool :=
  match words_of (h_std h), words_of (h_anc h), words_of (h_tankan h) with
  | Ok s, Ok a, Ok t =>
    let base := init_state (h_alpha h) s a t in
    match run base (with_freq base (h_init_freq h)) (h_reqs h) with
    | Ok (fin, resps) =>
      resps_eqb resps (h_expect h) && ftable_eqb (s_freq fin) (h_final_freq h) && entries_eqb (s_user fin) (h_final_user h)
      && Nat.eqb (length (s_sessions fin)) (h_final_sessions h)
      && forallb (words_ok fin) (h_final_words h)
    | _ => false
    end
  | _, _, _ => false
  end.
"""


def coq_history(hr):
    """None when the observed history cannot be expressed (an unanswered request etc.)"""
    reqs, exps = [], []
    for ev, obs in hr.events:
        e = coq_expect(ev, obs)
        if e is None:
            return None
        reqs += coq_request(ev)
        exps += e
    if hr.final is None:
        return None
    users = parse_user_entries(hr.final["user_entries"])
    if users is None or any(coq_speech(u["speech"]) is None for u in users):
        return None
    ft = clist(["(%s, %s, ((%d)%%Z, (%d)%%Z))" % (CTX_COQ[f[0]["kind"]], cstr(f[1]), f[2], f[3]) for f in hr.final["frequencies"]])
    b = hr.base
    fwl = []
    for it in (hr.final.get("words") or []):
        if all(coq_speech(w[1]) is not None for w in it["words"]):
            fwl.append("(%s, (%s, %s))" % (cstr(it["reading"]), clist(["(%s, %s)" % (cstr(w[0]), coq_speech(w[1])) for w in it["words"]]), cbool(it["in_trie"])))
    fw = clist(fwl)
    ift = clist(["(%s, %s, ((%d)%%Z, (%d)%%Z))" % (CTX_COQ[c["kind"]], cstr(w), n, t) for c, w, n, t in hr.init_freq_abs])
    return (("{| h_alpha := %s; h_std := %s; h_anc := %s; h_tankan := %s; h_init_freq := " + ift.replace("%", "%%") + "; h_reqs := %s; h_expect := %s; h_final_freq := %s; h_final_user := %s; h_final_sessions := %d%%nat; h_final_words := %s |}")
            % (cstr(ALPHABET), clist([coq_entry(e) for e in b["std"]]), clist([coq_entry(e) for e in b["anc"]]), clist([coq_entry(e) for e in b["tankan"]]),
               clist(reqs), clist(exps), ft, clist([coq_entry(u) for u in users]), hr.final["sessions"], fw))


def model_histories(res, name, runs):
    okm, mlog = coq_make(["Server/ServerModel.v"])
    if not okm:
        res.tie_broken("model does not build: Server/ServerModel.v", coq_failing_file(mlog))
        return 0
    cases, idx = [], []
    for i, hr in enumerate(runs):
        try:
            c = coq_history(hr)
        except Exception as e:
            # what the server reports (Verif.Dump, the saved table) is no longer in the shape the model's cases are rendered from
            res.tie_broken("correspondence: a request history can no longer be rendered as a case of the server model", {"error": repr(e), "requests": hr.requests, "final": hr.final})
            continue
        if c is not None:
            cases.append(c)
            idx.append(i)
    if not cases:
        return 0
    okc, failing, clog = run_coq_cases(name, IMPORTS, "hcase", "hcheck", cases, shard=min(40, max(2, len(cases) // 16 + 1)), extra_defs=EXTRA, timeout=2400)
    if not okc:
        res.tie_broken("correspondence: evaluating the server model failed", clog)
    for i in failing[:10]:
        hr = runs[idx[i]]
        res.tie_broken("correspondence: the sequential server model and the real server differ on a request history (responses, learned counts, user entries or live sessions)",
                       {"base": hr.base, "requests": hr.requests, "events": hr.events, "final": hr.final})
    return len(cases)


def gen_history(rnd, length=12, with_restart=True, malformed=False, guess=True):
    base, alpha = gen_base(rnd)
    words = base["std"] + base["anc"]
    reqs = []
    nconv = 0
    def an_input():
        s = ""
        for _ in range(rnd.randint(1, 3)):
            s += rnd.choice(words)["reading"] if rnd.random() < 0.75 else rnd.choice(alpha)
        return s[:8]
    for i in range(length):
        k = rnd.random()
        if k < 0.35:
            ctx = rnd.choice(["Normal", "Normal", "ForeignWord", "Numeral"])
            reqs.append({"kind": "convert", "input": an_input(), "context": ctx})
            nconv += 1
        elif k < 0.42:
            reqs.append({"kind": "proper", "input": an_input()})
            nconv += 1
        elif k < 0.62 and nconv:
            convs_ = [(j, q) for j, q in enumerate([q for q in reqs if q["kind"] in ("convert", "proper")])]
            if convs_ and rnd.random() < 0.35:
                # the same input again right after its confirmation, and once more under another context: nothing remembered from the
                # first answer may survive the change of the learned counts / of the context
                j, q = convs_[-1]
                reqs.append({"kind": "confirm", "session": j, "cid": rnd.choice(["0", "1", "1", "2"])})
                reqs.append(dict(q))
                reqs.append({"kind": "convert", "input": q["input"], "context": rnd.choice(["Normal", "ForeignWord", "Numeral"])})
                nconv += 2
                continue
            reqs.append({"kind": "confirm", "session": rnd.randrange(nconv) if rnd.random() < 0.9 else None,
                         "cid": rnd.choice(["0", "0", "0", "0", "1", "1", "2", "7", "00", "x", "", "+0", "+1", "01", "000", " 0", "0 ", "-0", "1e0", "０"])})
        elif k < 0.8:
            wk = rnd.choice(["CommonNoun", "ProperNoun", "Guess"] if guess else ["CommonNoun", "ProperNoun"])
            r = "".join(rnd.choice(alpha) for _ in range(rnd.randint(1, 3)))
            w = "".join(rnd.choice(KANJI) for _ in range(rnd.randint(1, 2)))
            if wk == "Guess":
                end = rnd.choice(["べない", "かない", "しない", "い", "だ", ""])
                r, w = r + end, w + end
            prev = [q for q in reqs if q["kind"] == "register"]
            if prev and rnd.random() < 0.25:
                r = rnd.choice(prev)["reading"]                           # another user word for a reading that already has one
            if reqs and reqs[-1]["kind"] == "convert" and rnd.random() < 0.5 and wk != "Guess":
                # a word for exactly what was converted last, converted again at once in the same context: no stale answer
                r = reqs[-1]["input"]
                reqs.append({"kind": "register", "wkind": wk, "reading": r, "word": w})
                reqs.append({"kind": "convert", "input": r, "context": reqs[-2]["context"]})
                nconv += 1
                continue
            nouns = [e for e in base["std"] if e["speech"] in ({"Noun": "Common"}, {"Noun": "Proper"})]
            if prev and rnd.random() < 0.2:
                reqs.append(dict(rnd.choice(prev)))                       # the same registration again
            elif nouns and rnd.random() < 0.3:
                e = rnd.choice(nouns)                                     # a word the system dictionary already holds
                same = rnd.random() < 0.5
                kind_of = "CommonNoun" if (e["speech"] == {"Noun": "Common"}) == same else "ProperNoun"      # the same word again, or under the other kind of noun
                reqs.append({"kind": "register", "wkind": kind_of, "reading": e["reading"], "word": e["stem"]})
                reqs.append({"kind": "proper", "input": e["reading"]})            # proper-noun mode ranks a proper noun higher: the new entry shows there
                reqs.append({"kind": "convert", "input": e["reading"], "context": "Normal"})
                nconv += 2
            else:
                reqs.append({"kind": "register", "wkind": wk, "reading": r, "word": w})
        elif k < 0.86:
            reqs.append({"kind": "tankan", "input": rnd.choice(base["tankan"])["reading"] if base["tankan"] and rnd.random() < 0.7 else an_input()})
        elif k < 0.92:
            reqs.append({"kind": "alpha", "input": an_input() + rnd.choice(["", "t", "っ", "A1"])})
        elif malformed:
            reqs.append({"kind": "malformed", "method": rnd.choice(["GetCandidates", "UpdateFrequency", "RegisterWord", "Nope"]),
                         "params": rnd.choice([{}, {"input": 1}, {"kind": "Verb", "reading": "あ", "word": "亜"}, [], {"session_id": "x"}])})
        else:
            reqs.append({"kind": "convert", "input": an_input(), "context": "Normal"})
            nconv += 1
    # JSON-RPC batches (one HTTP request carrying an array): runs of conversions, and a run of registrations of homophones, travel as one
    # batch in some histories.  Drawn from a generator of their own so that the rest of the history is what it was without batches.
    brnd = random.Random(json.dumps(reqs, ensure_ascii=False, sort_keys=True))
    if brnd.random() < 0.3:
        r = "".join(brnd.choice(alpha) for _ in range(brnd.randint(1, 3)))
        grp = [{"kind": "register", "wkind": brnd.choice(["CommonNoun", "ProperNoun"]), "reading": r, "word": w, "batch": 1000}
               for w in brnd.sample(KANJI, brnd.randint(2, 4))]
        at = brnd.randint(0, len(reqs))
        reqs[at:at] = grp + [{"kind": "convert", "input": r, "context": "Normal"}]
    bid, i = 0, 0
    while i < len(reqs):
        j = i
        while j < len(reqs) and reqs[j]["kind"] in ("convert", "proper") and "batch" not in reqs[j]:
            j += 1
        if j - i >= 2 and brnd.random() < 0.3:
            bid += 1
            for q in reqs[i:j]:
                q["batch"] = bid
        i = max(j, i + 1)
    if with_restart:
        reqs.insert(rnd.randint(len(reqs) // 2, len(reqs)), {"kind": "restart"})
    if rnd.random() < 0.5:
        # counts learned in an earlier life: (context, surface, count, age in ms); the expiry period is three days
        DAY = 24 * 3600 * 1000
        surf = [e["stem"] for e in base["std"]] + [e["stem"] for e in base["anc"]]
        base["init_freq"] = [(rnd.choice(["Normal", "Normal", "ForeignWord", "Numeral", "Proper"]), rnd.choice(surf), rnd.randint(1, 6),
                              rnd.choice([4 * DAY, 4 * DAY, 10 * DAY, 2 * DAY, 3600 * 1000, 3 * DAY + 3600 * 1000])) for _ in range(rnd.randint(1, 4))]
        seen = set()
        base["init_freq"] = [x for x in base["init_freq"] if (x[0], x[1]) not in seen and not seen.add((x[0], x[1]))]
    return base, reqs
