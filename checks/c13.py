"""C13 - the server serves under every runtime thread configuration."""
import json, random
from vlib import *
from srv import *

PROP = "C13"
GENS = ["gen_protocol"]
CONE = ["Server/Protocol.v", "Server/RuntimeModel.v", "Props/C13.v", "Gen/Protocol.v"]
THEOREMS = ["C13_no_blocking_async_task", "C13_serves", "C13_duties_have_threads", "C13_four_blocking_tasks_refuted"]


def probe(dictionary, k, with_user, wd):
    """one server start under TOKIO_WORKER_THREADS=k; returns list of failed duties"""
    ud = os.path.join(wd, f"user_{k}_{int(with_user)}") if with_user else None
    s = Server(dictionary, user_dir=ud, workers=k, save_seconds=1, wait=True)
    failed = []
    try:
        if not s.up:
            return ["the server does not accept connections"]
        st, r = s.call("GetCandidates", {"input": "くるまで"}, timeout=10)
        if st != "ok" or not r.get("candidates"):
            failed.append(f"GetCandidates is not answered within 10 s ({st})")
            return failed
        # the Emacs client keeps a WebSocket connection open: 40 such clients at once are all served, whatever the worker count
        wss = [WsClient(s.port) for _ in range(40)]
        refused = [w.status for w in wss if not w.ok]
        unanswered = [1 for w in wss if w.ok and w.call("GetCandidates", {"input": "くるま"})[0] != "ok"]
        for w in wss:
            w.close()
        if refused or unanswered:
            failed.append(f"{len(refused)} of 40 simultaneous WebSocket clients are refused ({refused[:1]}) and {len(unanswered)} get no answer")
        # the same service whatever the configuration: 40 further conversions do not disturb the first one's session
        for _ in range(40):
            s.call("GetCandidates", {"input": "くるま"}, timeout=10)
        st2, _ = s.call("UpdateFrequency", {"session_id": r["session_id"], "candidate_id": "0"}, timeout=10)
        st3, _ = s.call("RegisterWord", {"kind": "CommonNoun", "reading": "あいう", "word": "亜以宇"}, timeout=10)
        ok, d = s.quiesce(10.0)
        if st2 != "ok":
            failed.append("UpdateFrequency is not answered")
        elif not isinstance(d, dict) or not d.get("frequencies"):
            failed.append("the confirmation is not recorded")
        if st3 != "ok" or not ok:
            failed.append("the registration is never applied (dictionary updater not running)")
        else:
            st4, r4 = s.call("GetCandidates", {"input": "あいう"}, timeout=10)
            if st4 != "ok" or "亜以宇" not in [c["candidate"] for c in r4["candidates"]]:
                failed.append("the registered word does not become convertible")
        if with_user:
            t0 = time.time()
            while time.time() - t0 < 12 and not (os.path.exists(os.path.join(ud, "user.dic")) and os.path.exists(os.path.join(ud, "frequency.bin"))):
                time.sleep(0.05)
            if not os.path.exists(os.path.join(ud, "user.dic")) or not os.path.exists(os.path.join(ud, "frequency.bin")):
                failed.append("the periodic save does not happen (no user.dic / frequency.bin after 12 s)")
    finally:
        s.stop()
    return failed


def run(tier, seed):
    res = Result(PROP, tier, seed)
    info = standard_proof_steps(res, GENS, "Props/C13.v", CONE, "Props.C13", THEOREMS)
    okb, blog = build_binaries()
    if not okb:
        res.tie_broken("the repository no longer builds with the hooks", blog[-1500:])
        return res.finish({"obligations": info["obligations"], "discharged": info["discharged"], "checker_cmd": "make", "trusted_base": TRUSTED_COMMON}, [])
    ks = [1, 2, 3, 4, 5, 16] if tier == "quick" else list(range(1, 17))
    wd = workdir("c13")
    results = {}
    try:
        d = make_dictionary(wd, ["くるま\t車\t/一般名詞/", "くる\t来る\t/一般名詞/"], ["まで\tまで\t/副助詞/", "で\tで\t/格助詞/"], [])
        jobs = [(k, u) for k in ks for u in ((True, False) if tier != "quick" or k in (1, 4) else (True,))]
        with concurrent.futures.ThreadPoolExecutor(max_workers=6) as ex:
            for (k, u), f in zip(jobs, ex.map(lambda j: probe(d, j[0], j[1], wd), jobs)):
                results[(k, u)] = f
    finally:
        cleanup(wd)
    for (k, u), failed in sorted(results.items()):
        for f in failed:
            res.violation(f"with TOKIO_WORKER_THREADS={k} ({'with' if u else 'without'} a user directory): {f}", {"workers": k, "user_dir": u, "failed": failed})
    cov = {
        "obligations": info["obligations"], "discharged": info["discharged"],
        "checker_cmd": f"cd /verif/coq && make Props/C13.vo + Print Assumptions on {len(THEOREMS)} theorems",
        "trusted_base": TRUSTED_COMMON + ["tokio's scheduler is abstracted to: a task that never yields keeps its worker; tasks on the blocking pool have threads of their own",
                                          "translator gen_protocol classifies each spawn site (tokio::spawn(async ..) with a blocking call and no .await / spawn_blocking / thread::spawn)"],
        "axioms": info["axioms"],
        "evaluations": len(results), "distinct_nontrivial": sum(1 for (k, u) in results if k != os.cpu_count()),
        "rule": f"the real server started with TOKIO_WORKER_THREADS = {ks}, with and without a user directory; conversion, confirmation, registration visibility and the periodic save are exercised in each; "
                "non-trivial = the worker count differs from this machine's core count",
        "samples": [{"workers": k, "user_dir": u, "failed": f} for (k, u), f in sorted(results.items())[:4]],
        "exhaustive": tier != "quick",
    }
    return res.finish(cov, ["partial: the proof is about the extracted task structure and a worker-counting model of the runtime; the real runs validate that abstraction for k = 1..16"])


def replay(path):
    d = json.load(open(path))
    for v in d.get("violations", []):
        print(v["what"])
    return 1 if d.get("violations") else 0
