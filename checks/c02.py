"""C02 - the n-best list is duplicate-free, best-first and optimal over all connectable paths."""
from checks.kkc_common import *

PROP = "C02"


def predicate(res, q, r):
    cs = r["candidates"]
    n = q["n"]
    texts = [c["text"] for c in cs]
    prios = [c["priority"] for c in cs]
    if len(cs) > n:
        res.violation(f"{len(cs)} candidates returned for n={n}", {"query": q})
    if len(set(texts)) != len(texts):
        res.violation(f"duplicate text in the candidate list {texts}", {"query": q, "texts": texts})
    if any(prios[i] < prios[i + 1] for i in range(len(prios) - 1)):
        res.violation(f"candidates are not in non-increasing score order: {list(zip(texts, prios))}", {"query": q, "list": list(zip(texts, prios))})
    if not r.get("deterministic", True):
        res.violation("the same query on the same state returned two different lists", {"query": q})
    paths = all_paths(r)
    if paths is None:
        return False
    best = {}
    for t, sc, ids in paths:
        if sc is not None and (t not in best or sc > best[t]):
            best[t] = sc
    for c in cs:
        if c["text"] not in best:
            res.violation(f"candidate {c['text']!r} is not the text of any connectable path of the lattice", {"query": q, "candidate": c["text"]})
        elif best[c["text"]] != c["priority"]:
            res.violation(f"candidate {c['text']!r} has priority {c['priority']} but its best tiling scores {best[c['text']]}", {"query": q, "candidate": c["text"], "best": best[c["text"]]})
    if len(best) <= n:
        missing = set(best) - set(texts)
        if missing:
            res.violation(f"{len(best)} distinct connectable texts exist (n={n}) but {sorted(missing)} are not returned", {"query": q, "missing": sorted(missing)})
        if len(cs) != len(best) and not missing:
            res.violation(f"{len(cs)} candidates returned but only {len(best)} distinct connectable texts exist", {"query": q})
    else:
        if len(cs) != n:
            res.violation(f"{len(best)} distinct connectable texts exist but only {len(cs)} of n={n} are returned", {"query": q})
        elif cs:
            last = prios[-1]
            for t, sc in best.items():
                if t not in texts and sc > last:
                    res.violation(f"text {t!r} scores {sc} > last returned score {last} but is not returned (n={n})", {"query": q, "text": t, "score": sc})
    scores = sorted(best.values())
    return len(best) >= 3 and len(set(scores)) < len(scores) and n < len(best)


def run(tier, seed):
    res, cov = kkc_run(PROP, tier, seed, "Props/C02.v", [], predicate,
                       make_q=lambda rnd, k: make_queries(rnd, k, n_choices=(1, 2, 3, 5, 100, 1000000)))
    cov["rule"] = ("as C01; optimality judged against exhaustive enumeration of every BOS-to-EOS path of the implementation's own lattice scored with the implementation's own node and edge scores; "
                   "non-trivial = >= 3 distinct connectable texts, a tie in score, and n smaller than the number of texts")
    return res.finish(cov, ["each query is issued twice by the harness (determinism)"])


def replay(path):
    d = json.load(open(path))
    build_harness()
    bad = 0
    for v in d.get("violations", []):
        q = v["replay"]["query"]
        r = harness([q])[0]
        res = Result(PROP, "replay", 0)
        if "panic" not in r:
            predicate(res, q, r)
            if not res.violations:
                model_correspondence(res, PROP, [q], [r])      # the optimum for this lattice, from the model
        print(q["input"], q["n"], "->", [(c["text"], c["priority"]) for c in r.get("candidates", [])], "violations:", len(res.violations))
        bad += bool(res.violations) or bool(res.broken) or "panic" in r
    return 1 if bad else 0
