"""C06 - a confirmation updates exactly one learned count, and learning only re-ranks."""
from checks.server_common import *
from checks.kkc_common import make_queries, gen_dict, gen_input, CONTEXTS, all_paths

PROP = "C06"
CONE = ["Server/ServerModel.v", "Server/ServerProofs.v", "Server/ServerProofs2.v", "Props/C06.v", "Kkc/Compose2.v", "Kkc/ContextProofs.v"]
THEOREMS = ["C06_confirm_exact", "C06_unknown_changes_nothing", "C06_same_candidate_set", "C06_score_shift", "C06_context_isolation"]


def gen_c06_history(rnd):
    base, alpha = gen_base(rnd)
    words = base["std"] + base["anc"]
    reqs, nconv = [], 0
    for _ in range(rnd.randint(8, 16)):
        k = rnd.random()
        if k < 0.45 or nconv == 0:
            s = "".join(rnd.choice(words)["reading"] for _ in range(rnd.randint(1, 2)))[:7]
            if rnd.random() < 0.2:
                reqs.append({"kind": "proper", "input": s})
            else:
                reqs.append({"kind": "convert", "input": s, "context": rnd.choice(["Normal", "Normal", "ForeignWord", "Numeral"])})
            nconv += 1
        elif k < 0.6:
            # confirm the last conversion and convert the same input again at once (same and another context): the new counts must show
            convs_ = [q for q in reqs if q["kind"] in ("convert", "proper")]
            reqs.append({"kind": "confirm", "session": nconv - 1, "cid": rnd.choice(["0", "1", "1", "2"])})
            reqs.append(dict(convs_[-1]))
            reqs.append({"kind": "convert", "input": convs_[-1]["input"], "context": rnd.choice(["Normal", "ForeignWord", "Numeral"])})
            nconv += 2
        else:
            reqs.append({"kind": "confirm", "session": rnd.choice([rnd.randrange(nconv)] * 6 + [None]), "cid": rnd.choice(["0", "0", "0", "0", "1", "1", "1", "2", "3", "50", "x", "01", "+0", "+1", "00", " 0", "0 ", "1e0", "０"])})
    if rnd.random() < 0.6:
        # counts learned in an earlier life (context, surface, count, age in ms): stale ones must go at the next confirmation,
        # a stale count that is itself confirmed goes from n to n+1
        DAY = 24 * 3600 * 1000
        first = [w for w in words if reqs and reqs[0]["input"].startswith(w["reading"])]
        surf = [w["stem"] for w in first] * 3 + [e["stem"] for e in base["std"]]
        fr, seen = [], set()
        for _ in range(rnd.randint(1, 4)):
            x = (rnd.choice(["Normal", "Normal", "Normal", "ForeignWord", "Numeral", "Proper"]), rnd.choice(surf), rnd.randint(1, 6),
                 rnd.choice([4 * DAY, 4 * DAY, 10 * DAY, 2 * DAY, 3600 * 1000, 3 * DAY + 3600 * 1000, 3 * DAY - 3600 * 1000, -4 * DAY, -2 * DAY]))
            if (x[0], x[1]) not in seen:
                seen.add((x[0], x[1]))
                fr.append(x)
        base["init_freq"] = fr
    return base, reqs


def fmap(dump):
    return {(f[0]["kind"], f[1]): (f[2], f[3]) for f in dump["frequencies"]}


EXPIRY_MS = 3 * 24 * 60 * 60 * 1000


def predicate(res, hr):
    for what, detail in hr.problems:
        res.violation(what, {"base": hr.base, "requests": hr.requests, "detail": detail})
    live = {}       # session number -> (context, texts)
    prev = {(c["kind"], w): (n, t) for c, w, n, t in hr.init_freq_abs}
    nt = False
    last_dmp = None
    rep = {"base": hr.base, "requests": hr.requests}
    for (ev, obs), rq, dmp in zip(hr.events, [r for r in hr.requests if r["kind"] not in ("malformed", "wait_save")], hr.dumps):
        if dmp is None:
            continue
        cur = fmap(dmp)
        if ev["t"] == "restart" and obs and obs.get("before") and obs.get("after"):
            # a dropped count stays dropped: what a restart brings back is what was there when the server stopped, nothing older
            b_, a_ = fmap(obs["before"]), fmap(obs["after"])
            back = {k: v for k, v in a_.items() if k not in b_}
            if back:
                res.violation(f"counts that were not there at shutdown are back after the restart: {back} (a count dropped as stale returns from the file)", rep)
        if ev["t"] == "convert" and obs is not None:
            live[obs["sid"]] = (ev["ctx"], obs["texts"], ev["input"])
            if cur != prev:
                res.violation("a conversion changed the learned counts", rep)
        elif ev["t"] == "confirm":
            sid, cid = ev["sid"], ev["cid"]
            changed = {k: (prev.get(k, (0, None)), cur.get(k, (0, None))) for k in set(prev) | set(cur) if prev.get(k) != cur.get(k)}
            # the ids the server issued are "0".."n-1", nothing else
            valid = sid in live and cid in [str(i) for i in range(len(live[sid][1]))]
            if not valid:
                if changed:
                    res.violation(f"a confirmation with an unknown / consumed session or an unknown candidate id ({cid!r}) changed counts: {changed}", rep)
                if sid in live and (cid != ""):
                    nt = True
            else:
                ctx, texts, inp = live[sid]
                bumped = [(k, a, b) for k, (a, b) in changed.items() if b[0] > 0]
                dropped = [(k, a) for k, (a, b) in changed.items() if b[0] == 0]
                if len(bumped) > 1:
                    res.violation(f"one confirmation raised {len(bumped)} counts: {bumped}", rep)
                now = None
                for (c, w), a, b in bumped:
                    now = b[1]
                    if abs(now - time.time() * 1000) > 3600 * 1000:
                        res.violation(f"the confirmation stamps the count of {w!r} with {now}, which is not the current time in milliseconds ({int(time.time() * 1000)}): the three-day expiry cannot work on it", rep)
                    if b[0] != a[0] + 1:
                        res.violation(f"the count of {w!r} went from {a[0]} to {b[0]} on one confirmation", rep)
                    if c != ctx:
                        res.violation(f"a confirmation in context {ctx} changed a count of context {c}", rep)
                    surfaces = {e["stem"] for e in hr.base["std"] + hr.base["anc"]} | {l.split("\t")[1] for l in (last_dmp or {}).get("user_entries", []) if l.count("\t") >= 2}   # a compound learned EARLIER is a word of its own now
                    affixes = [e for e in hr.base["anc"] + hr.base["std"] if isinstance(e["speech"], dict) and "Affix" in e["speech"]]
                    compounds = {a["stem"] + e["stem"] for a in affixes for e in hr.base["std"]} | {e["stem"] + a["stem"] for a in affixes for e in hr.base["std"]}
                    if w not in surfaces and w in compounds:
                        res.violation(f"confirming {texts[int(cid)]!r} learned {w!r}, an affix+word spelling, instead of the candidate's independent word", rep)
                    if w not in texts[int(cid)]:
                        res.violation(f"the confirmed candidate {texts[int(cid)]!r} does not contain the learned word {w!r}", rep)
                # every other change is the drop of a count not refreshed for three days; and those are all dropped
                if now is not None:
                    for k, a in dropped:
                        if not (now - a[1] > EXPIRY_MS):
                            res.violation(f"the confirmation dropped the count of {k[1]!r}, refreshed {(now - a[1]) // 1000} s earlier (less than three days)", rep)
                    for k, (n_, t_) in cur.items():
                        if now - t_ > EXPIRY_MS:
                            res.violation(f"the count of {k[1]!r}, not refreshed for {(now - t_) // 3600000} h, survives a confirmation", rep)
                    if dropped:
                        nt = True
                elif dropped:
                    res.violation(f"a confirmation that raised no count dropped {dropped}", rep)
                else:
                    # nothing changed: wrong when the candidate is a single independent dictionary word
                    whole = [e for e in hr.base["std"] if e["reading"] == inp and e["stem"] == texts[int(cid)] and e["speech"] in NONCONJ]
                    if whole:
                        res.violation(f"confirming candidate {cid} ({texts[int(cid)]!r}) of the live session {sid} changed no count", rep)
                if int(cid) >= 1:
                    nt = True
            live.pop(sid, None)
        prev = cur
        last_dmp = dmp
    return nt


def rerank_predicate(res, tier, rnd):
    """learning only re-ranks: with n = 10^6 the text set is the same with and without counts, every path's score
    rises by count x occurrences, other contexts' counts are irrelevant (on the library through the harness)"""
    n = 150 if tier == "quick" else 4000
    qs, meta = [], []
    for _ in range(n):
        d, alpha = gen_dict(rnd, True)
        if not d["std"]:
            continue
        inp = gen_input(rnd, d, alpha, 7)
        ctx = rnd.choice(CONTEXTS)
        other = rnd.choice([c for c in CONTEXTS if c != ctx])
        ws = rnd.sample(d["std"], min(len(d["std"]), rnd.randint(1, 3)))
        f = [[ctx, w[1], rnd.randint(1, 6) if rnd.random() < 0.7 else rnd.randint(11, 45), 0] for w in ws]
        g = f + [[other, w[1], rnd.randint(1, 9), 0] for w in d["std"][:3]]
        for fr in ([], f, g):
            qs.append({"op": "kkc_query", "dict": d, "context": ctx, "freq": fr, "input": inp, "n": 1000000})
        meta.append((d, inp, ctx, f))
    rs = harness_parallel(qs, chunk=60)
    cnt = 0
    for i, (d, inp, ctx, f) in enumerate(meta):
        r0, r1, r2 = rs[3 * i], rs[3 * i + 1], rs[3 * i + 2]
        if any("panic" in r for r in (r0, r1, r2)):
            res.violation("conversion panics", {"dict": d, "input": inp})
            continue
        t0, t1 = {c["text"] for c in r0["candidates"]}, {c["text"] for c in r1["candidates"]}
        if t0 != t1:
            res.violation(f"the candidate set of {inp!r} changes with learned data: {sorted(t0 ^ t1)}", {"dict": d, "input": inp, "context": ctx, "freq": f})
        if [(c["text"], c["priority"]) for c in r1["candidates"]] != [(c["text"], c["priority"]) for c in r2["candidates"]]:
            res.violation(f"counts learned in another context change the answer for {inp!r}", {"dict": d, "input": inp, "context": ctx, "freq": f})
        p0, p1 = all_paths(r0), all_paths(r1)
        if p0 is None or p1 is None:
            continue
        counts = {}
        for c_, w_, n_, _ in f:
            counts[w_] = counts.get(w_, 0) + n_
        nodes = {tuple(ln["node"]["id"]): ln["node"] for at in r0["lattice"] for ln in at}
        m1 = {tuple(map(str, ids)): sc for _, sc, ids in p1}
        for t, sc, ids in p0:
            sc1 = m1.get(tuple(map(str, ids)))
            if (sc is None) != (sc1 is None):
                res.violation(f"path {t!r} changes connectability with learned data", {"dict": d, "input": inp, "context": ctx, "freq": f})
            elif sc is not None:
                bonus = sum(counts.get(nodes[tuple(x)]["surface"], 0) for x in ids if isinstance(x, list) and nodes[tuple(x)]["kind"] == "word")
                if sc1 != sc + bonus:
                    res.violation(f"path {t!r}: score {sc} -> {sc1}, expected +{bonus} (count x occurrences)", {"dict": d, "input": inp, "context": ctx, "freq": f})
        cnt += 1
    return cnt


def expiry_cases(res, tier, rnd):
    """the real ConversionFrequency (update_word / expire_frequencies) under controlled time stamps around the
    three-day boundary, against the model's ft_bump / ft_expire"""
    EXP = 3 * 24 * 60 * 60 * 1000
    qs = []
    words = ["車", "来る", "亜", "x"]
    for _ in range(300 if tier == "quick" else 10000):
        t0 = rnd.choice([0, 1000, 10 ** 12])
        init = []
        for w in rnd.sample(words, rnd.randint(0, 3)):
            init.append([rnd.choice(CONTEXTS), w, rnd.randint(1, 5), t0 + rnd.choice([0, 1, -1, 5, EXP // 2])])
        ops = []
        now = t0
        for _ in range(rnd.randint(1, 5)):
            now += rnd.choice([0, 1, EXP - 1, EXP, EXP + 1, EXP // 2, 17])
            if rnd.random() < 0.6:
                ops.append(["update", rnd.choice(CONTEXTS), rnd.choice(words), now])
                ops.append(["expire", now, EXP])            # what UserPref::update_frequency does
            else:
                ops.append(["expire", now, rnd.choice([EXP, 0, 1])])
        qs.append({"op": "kkc_freq", "init": init, "ops": ops})
    rs = harness_parallel(qs)
    cases = []
    for q, r in zip(qs, rs):
        if "ok" not in r:
            res.violation(f"frequency operations panic: {r}", {"case": q})
            continue
        def ft(l):
            return clist(["(%s, %s, ((%d)%%Z, (%d)%%Z))" % (CTX_COQ[e[0]], cstr(e[1]), e[2], e[3]) for e in l])
        ops = clist([("(FU %s %s (%d)%%Z)" % (CTX_COQ[o[1]], cstr(o[2]), o[3])) if o[0] == "update" else ("(FE (%d)%%Z (%d)%%Z)" % (o[1], o[2])) for o in q["ops"]])
        cases.append("(%s, %s, %s)" % (ft(q["init"]), ops, ft(r["ok"])))
        # the boundary itself, judged on the implementation: an entry survives an expire(now, EXP) iff now - last <= EXP
    extra = """
Inductive fop := FU (c : context) (w : str) (now : Z) | FE (now ex : Z).
Definition fcase := (ftable * list fop * ftable)%type.
Definition frun (f : ftable) (o : fop) : ftable := match o with FU c w now => ft_bump f c w now | FE now ex => ft_expire f now ex end.
""" + EXTRA.split("Record hcase")[0].split("Definition fentry_eqb")[1].join(["Definition fentry_eqb", ""])
    okc, failing, clog = run_coq_cases("C06f", IMPORTS, "fcase", "(fun c => ftable_eqb (fold_left frun (snd (fst c)) (fst (fst c))) (snd c))", cases, shard=200, extra_defs=extra)
    if not okc:
        res.tie_broken("correspondence: evaluating the frequency model failed", clog)
    for i in failing[:5]:
        res.tie_broken("correspondence: ConversionFrequency and the model's ft_bump / ft_expire differ", {"case": qs[i], "impl": rs[i]})
    return len(cases)


def same_session_at_once(res, tier):
    """an already-consumed session changes nothing - also when the second confirmation of a session arrives while the first one is still
    being processed: n confirmations of ONE session sent at the same moment raise the count by exactly one"""
    import threading
    from checks import conc_common as CC
    from checks.c15 import Server_client
    wd = workdir("c06c")
    rounds = 0
    try:
        for delays in ({"confirm.before_pref_lock": 40}, {"confirm.before_store_lock": 10, "confirm.before_pref_lock": 5}, {}):
            s = CC.start(wd, delays=delays)
            try:
                if not s.up:
                    res.violation("the server does not start", {"delays": delays})
                    return rounds
                for rnd_ in range(3 if tier == "quick" else 12):
                    st, r = s.call("GetCandidates", {"input": "くるま"}, timeout=20)
                    if st != "ok" or not r["candidates"]:
                        break
                    st0, before = s.dump()
                    p = {"session_id": r["session_id"], "candidate_id": "0"}
                    out = []
                    def one():
                        out.append(Server_client(s).call("UpdateFrequency", p, timeout=30)[0])
                    ths = [threading.Thread(target=one) for _ in range(6)]
                    for t in ths:
                        t.start()
                    for t in ths:
                        t.join(40)
                    st1, after = s.dump()
                    if st0 == "ok" and st1 == "ok":
                        rounds += 1
                        rise = sum(f[2] for f in after["frequencies"]) - sum(f[2] for f in before["frequencies"])
                        if rise != 1:
                            res.violation(f"6 confirmations of one session sent at the same moment raised the learned counts by {rise}, not by one", {"kind": "same_session_at_once", "delays": delays, "statuses": out})
                            return rounds
            finally:
                s.stop()
                shutil.rmtree(os.path.join(wd, "user"), ignore_errors=True)
    finally:
        cleanup(wd)
    return rounds


def run(tier, seed):
    res = Result(PROP, tier, seed)
    rnd = random.Random(seed)
    info = standard_proof_steps(res, SRV_GENS, "Props/C06.v", CONE, "Props.C06", THEOREMS)
    okh, hlog = build_harness()
    okb, blog = build_binaries()
    if not (okh and okb):
        res.tie_broken("the repository no longer builds with the hooks", (hlog + blog)[-1500:])
        return res.finish({"obligations": info["obligations"], "discharged": info["discharged"], "checker_cmd": "make", "trusted_base": TRUSTED_COMMON}, [])
    n = 24 if tier == "quick" else 400
    items = [gen_c06_history(rnd) for _ in range(n)]
    # affixed candidates: what is learned is the candidate's independent word, never the prefix+word / word+suffix spelling
    affix_base = {"std": [{"reading": "ちゃ", "stem": "荼", "speech": {"Noun": "Common"}}, {"reading": "くるま", "stem": "車", "speech": {"Noun": "Common"}}],
                  "anc": [{"reading": "お", "stem": "御", "speech": {"Affix": "Prefix"}}, {"reading": "てき", "stem": "的", "speech": {"Affix": "Suffix"}}], "tankan": []}
    areqs = []
    for inp in ("おちゃ", "ちゃてき", "おくるまてき"):
        for i in range(4):
            areqs += [{"kind": "convert", "input": inp, "context": "Normal"}, {"kind": "confirm", "session": len(areqs) // 2, "cid": str(i)}]
    items.append((affix_base, areqs))
    # many outstanding sessions: a session issued long ago and never confirmed is still live (the store has no bound)
    many_base = {"std": [{"reading": "き", "stem": "木", "speech": {"Noun": "Common"}}, {"reading": "き", "stem": "気", "speech": {"Noun": "Common"}}], "anc": [], "tankan": []}
    k_out = 1100 if tier == "quick" else 5000
    items.append((many_base, [{"kind": "convert", "input": "き", "context": "Normal"} for _ in range(k_out)]
                  + [{"kind": "confirm", "session": 2, "cid": "1"}, {"kind": "confirm", "session": k_out - 1, "cid": "0"}, {"kind": "confirm", "session": 2, "cid": "1"}]))
    # a long candidate list (ids run to two digits: "10" sorts before "2" as a string): every id of it, confirmed, raises its own word's count
    homo = "木気期機器黄樹季基紀記貴喜危"
    wide_base = {"std": [{"reading": "き", "stem": k, "speech": {"Noun": "Common"}} for k in homo], "anc": [], "tankan": []}
    wreqs = []
    for i in list(range(len(homo))) + [13, 10, 2]:
        wreqs += [{"kind": "convert", "input": "き", "context": "Normal"}, {"kind": "confirm", "session": len(wreqs) // 2, "cid": str(i)}]
    items.append((wide_base, wreqs))
    # the same written form learned in two contexts, one count stale and one fresh: the stale one alone is dropped by the next confirmation
    DAY = 24 * 3600 * 1000
    two_ctx = dict(many_base, init_freq=[("Normal", "木", 3, 5 * DAY), ("Numeral", "木", 2, 3600 * 1000), ("ForeignWord", "気", 4, 5 * DAY), ("Proper", "気", 1, 60 * 1000)])
    items.append((two_ctx, [{"kind": "convert", "input": "き", "context": "Normal"}, {"kind": "confirm", "session": 0, "cid": "1"},
                            {"kind": "convert", "input": "き", "context": "Numeral"}, {"kind": "confirm", "session": 1, "cid": "0"}]))
    # the confirmed word's OWN count is the stale one: the confirmation refreshes it (3 -> 4), it is not dropped and re-created as 1
    items.append((dict(two_ctx), [{"kind": "convert", "input": "き", "context": "Normal"}, {"kind": "confirm", "session": 0, "cid": "0", "text": "木"},
                                  {"kind": "convert", "input": "き", "context": "ForeignWord"}, {"kind": "confirm", "session": 1, "cid": "0", "text": "気"},
                                  {"kind": "convert", "input": "き", "context": "Numeral"}, {"kind": "confirm", "session": 2, "cid": "0", "text": "木"}]))
    # words written exactly as they are read (kana-only written forms) next to kanji homophones, a one-character reading, a word whose written form
    # is another word's reading: each of them, confirmed, raises its own count
    kana_base = {"std": [{"reading": "これ", "stem": "これ", "speech": {"Noun": "Common"}}, {"reading": "これ", "stem": "此れ", "speech": {"Noun": "Common"}},
                         {"reading": "き", "stem": "き", "speech": {"Noun": "Common"}}, {"reading": "き", "stem": "木", "speech": {"Noun": "Common"}},
                         {"reading": "もく", "stem": "き", "speech": {"Noun": "Common"}}, {"reading": "もく", "stem": "木", "speech": {"Noun": "Proper"}}], "anc": [], "tankan": []}
    kreqs = []
    for inp, txt, ctx in (("これ", "これ", "Normal"), ("これ", "此れ", "Normal"), ("き", "き", "Normal"), ("もく", "き", "Normal"), ("き", "き", "ForeignWord"), ("もく", "木", "Normal"), ("これ", "これ", "Numeral")):
        kreqs += [{"kind": "convert", "input": inp, "context": ctx}, {"kind": "confirm", "session": len(kreqs) // 2, "cid": "0", "text": txt}]
    kreqs += [{"kind": "proper", "input": "もく"}, {"kind": "confirm", "session": len(kreqs) // 2, "cid": "0", "text": "木"}]
    items.append((kana_base, kreqs))
    # stale counts dropped by a confirmation, then a save and a restart: they must not come back from the file
    items.append((dict(two_ctx), [{"kind": "convert", "input": "き", "context": "Normal"}, {"kind": "confirm", "session": 0, "cid": "0", "text": "気"}, {"kind": "wait_save"},
                                  {"kind": "restart"}, {"kind": "convert", "input": "き", "context": "Normal"}, {"kind": "confirm", "session": 1, "cid": "0"}]))
    runs = run_histories(items, threads=12)
    nontrivial = sum(1 for hr in runs if predicate(res, hr))
    rr = rerank_predicate(res, tier, rnd)
    nf = expiry_cases(res, tier, rnd)
    n_once = same_session_at_once(res, tier)
    n_model = model_histories(res, PROP, runs)
    cov = {
        "obligations": info["obligations"], "discharged": info["discharged"],
        "checker_cmd": f"cd /verif/coq && make Props/C06.vo + Print Assumptions on {len(THEOREMS)} theorems",
        "trusted_base": TRUSTED_COMMON + ["chrono Duration arithmetic modelled in Z (timestamps below 2^62)", "HashMap of learned counts modelled as an association list with unique keys"],
        "axioms": info["axioms"],
        "evaluations": sum(len(hr.requests) for hr in runs) + 3 * rr, "distinct_nontrivial": nontrivial,
        "rule": "histories of GetCandidates / GetProperCandidates / UpdateFrequency with valid, stale, repeated, cross-session and malformed ids on the real server, learned counts read through Verif.Dump after every request; "
                "plus library-level comparisons with and without learned counts (n = 10^6) incl. counts of another context; non-trivial = a confirmation with candidate id >= 1, or a stale / repeated id of a live session",
        "histories": len(runs), "same_session_at_once_rounds": n_once, "rerank_cases": rr, "frequency_table_cases_around_expiry": nf, "traces_validated_against_impl": n_model,
        "samples": [runs[0].requests[:6]],

    }
    return res.finish(cov, ["on the real server time stamps are real time; the three-day boundary is exercised on the real ConversionFrequency through the harness with controlled time stamps"])


def replay(path):
    d = json.load(open(path))
    build_harness(); build_binaries()
    bad = 0
    for v in d.get("violations", []):
        r = v["replay"]
        if "requests" in r:
            hr = HistoryRun(r["base"], r["requests"]).run()
            res = Result(PROP, "replay", 0)
            predicate(res, hr)
            bad += bool(res.violations)
            print(v["what"][:100], "->", "reproduced" if res.violations else "not reproduced")
        else:
            print(v["what"]); bad += 1
    return 1 if bad else 0
