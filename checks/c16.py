"""C16 - the conversion context changes only what it is documented to change."""
from checks.kkc_common import *

PROP = "C16"
BIG = 1000000
BONUS = set()


def first_part(c):
    parts = c["nodes"][1:-1]
    return parts[0] if parts else None


def group_predicate(res, base, rs):
    """rs: context -> result for the same (dict, input, freq-per-context-mirrored)"""
    d = base["dict"]
    nt = False
    for r in rs.values():
        if "panic" in r:
            res.violation(f"conversion of {base['input']!r} panics: {r['panic']}", {"query": base})
            return False
    T = {c: [x["text"] for x in r["candidates"]] for c, r in rs.items()}
    if len({tuple(sorted(v)) for v in T.values()}) > 1:
        nt = True
    # ---- proper vs normal: same set; same lattice; path scores differ by 10 per proper noun; edges equal
    if set(T["Proper"]) != set(T["Normal"]):
        res.violation(f"proper-noun mode and normal mode return different candidate sets for {base['input']!r}: {sorted(set(T['Proper']) ^ set(T['Normal']))}",
                      {"kind": "proper_set", "query": base})
    pn, pp = all_paths(rs["Normal"]), all_paths(rs["Proper"])
    if pn is not None and pp is not None:
        dn = {tuple(map(str, ids)): (t, sc) for t, sc, ids in pn}
        dp = {tuple(map(str, ids)): (t, sc) for t, sc, ids in pp}
        if set(dn) != set(dp):
            res.violation("proper-noun mode and normal mode build different lattices", {"kind": "proper_lattice", "query": base})
        else:
            nodes = {tuple(ln["node"]["id"]): ln["node"] for at in rs["Normal"]["lattice"] for ln in at}
            for ids, (t, sc) in dn.items():
                t2, sc2 = dp[ids]
                if (sc is None) != (sc2 is None):
                    res.violation(f"path {t!r} is connectable in one of normal / proper mode only", {"kind": "proper_connect", "query": base})
                elif sc is not None:
                    k = 0
                    for t_, s_, ids_ in pn:
                        if tuple(map(str, ids_)) == ids:
                            k = sum(1 for i in ids_ if isinstance(i, list) and nodes[tuple(i)].get("speech") == {"Noun": "Proper"})
                    diff = sc2 - sc
                    if k == 0 and diff != 0:
                        res.violation(f"path {t!r} has no proper noun but scores {sc2} in proper mode vs {sc} in normal mode", {"kind": "proper_bonus", "query": base})
                    elif k > 0:
                        if diff <= 0 or diff % k != 0:
                            res.violation(f"path {t!r}: proper-mode score {sc2} vs normal {sc} is not a positive bonus per proper noun ({k} proper nouns)", {"kind": "proper_bonus", "query": base})
                        else:
                            BONUS.add(diff // k)
                            if len(BONUS) > 1:
                                res.violation(f"the proper-noun bonus is not one fixed value: {sorted(BONUS)}", {"kind": "proper_bonus", "query": base})
        # edge scores
        for atn, atp in zip(rs["Normal"]["lattice"], rs["Proper"]["lattice"]):
            for a, b in zip(atn, atp):
                if a["preds"] != b["preds"]:
                    res.violation("an edge score differs between normal and proper mode", {"kind": "proper_edge", "query": base, "node": a["node"]})
    # ---- foreign / numeral only add; what they add begins with a suffix / a counter
    suffix_readings = {w[0] for w in d["anc"] if w[2] == {"Affix": "Suffix"}}
    counter_readings = {w[0] for w in d["anc"] if w[2] == "Counter"}
    for ctx, want, readings, fid in (("ForeignWord", {"Affix": "Suffix"}, suffix_readings, "F10"), ("Numeral", "Counter", counter_readings, "F10")):
        missing = set(T["Normal"]) - set(T[ctx])
        if missing:
            res.violation(f"{ctx} context loses candidates of the normal set: {sorted(missing)}", {"kind": "adds_only", "query": base, "context": ctx})
        for c in rs[ctx]["candidates"]:
            if c["text"] in T["Normal"]:
                continue
            fp = first_part(c)
            if fp is not None and fp.get("speech") == want:
                continue
            # known finding F10 (call site: Graph::is_mergeable_ancillary judges by POSITION): the candidate's head is an ordinary node of the
            # normal lattice, but a later ancillary part exists only in this context's lattice - it was merged because the context-enabled
            # head suffix / counter (or a word chained to it) ends at the position before it, and it then also connects to other paths
            normal_nodes = {(end, ln["node"].get("surface"), ln["node"].get("reading"), json.dumps(ln["node"].get("speech"), sort_keys=True))
                            for end, at in enumerate(rs["Normal"]["lattice"]) for ln in at if ln["node"].get("kind") == "word"}
            pos, keys = 0, []
            for pt in c["nodes"][1:-1]:
                pos += len(pt["reading"])
                if pt["kind"] == "word":
                    keys.append((pos - 1, pt["surface"], pt["reading"], json.dumps(pt["speech"], sort_keys=True)))
            if fp is not None and keys and keys[0] in normal_nodes and any(k not in normal_nodes for k in keys[1:]):
                res.known("F10", f"{ctx} context adds candidates that do not begin with a {'suffix' if ctx == 'ForeignWord' else 'counter'}: an ancillary word merged only because a head "
                                 f"{'suffix' if ctx == 'ForeignWord' else 'counter'} ends before it also continues other paths (e.g. prefix 新 and suffix 心 both read しん, input しんは: 新は)")
                continue
            res.violation(f"{ctx} context adds {c['text']!r}, which does not begin with a {'suffix' if ctx == 'ForeignWord' else 'counter'}",
                          {"kind": "added_begin", "query": base, "context": ctx, "candidate": c["text"], "first_part": fp})
    # ---- no result begins with a particle / auxiliary verb taken from the ancillary dictionary
    std = {(w[1], w[0], json.dumps(w[2], sort_keys=True)) for w in d["std"]}
    for ctx, r in rs.items():
        for c in r["candidates"]:
            fp = first_part(c)
            if fp and fp["kind"] == "word":
                sp = fp["speech"]
                if (sp == "AuxiliaryVerb" or (isinstance(sp, dict) and "Particle" in sp)) and (fp["surface"], fp["reading"], json.dumps(sp, sort_keys=True)) not in std:
                    res.violation(f"in {ctx} context {c['text']!r} begins with the ancillary {fp['surface']}", {"kind": "anc_head", "query": base, "context": ctx})
    return nt


def server_contexts(res, rnd, nbases):
    from srv import build_binaries, make_dictionary, Server, workdir, cleanup
    from checks.server_common import entry_line, ALPHABET
    okb, blog = build_binaries()
    if not okb:
        res.tie_broken("the server no longer builds with the hooks", blog[-800:])
        return 0
    n = 0
    wd = workdir("c16")
    try:
        for bi in range(nbases):
            d, alpha = gen_dict(rnd, True)
            # chokan-dic conjugates entries; keep to speeches whose only form is the entry itself
            for w in d["std"] + d["anc"]:
                if w[2] in ("Adjective", "AdjectivalVerb") or (isinstance(w[2], dict) and "Verb" in w[2]):
                    w[2] = {"Noun": "Common"}
            ent = lambda w: {"reading": w[0], "stem": w[1], "speech": w[2]}
            try:
                dat = make_dictionary(wd, [entry_line(ent(w)) for w in d["std"]], [entry_line(ent(w)) for w in d["anc"]], [], name=f"d{bi}.dat")
            except Exception:
                continue
            s = Server(dat)
            try:
                for _ in range(4):
                    inp = gen_input(rnd, d, alpha, 6)
                    lib = harness([{"op": "kkc_texts", "dict": d, "context": c, "freq": [], "input": inp, "n": 100} for c in CONTEXTS])
                    for c, l in zip(CONTEXTS, lib):
                        if c == "Proper":
                            st, r = s.call("GetProperCandidates", {"input": inp})
                        else:
                            ctxo = {"kind": c}
                            if rnd.random() < 0.6:
                                # the optional value of the context (the text before the cursor) never changes the kind
                                ctxo["value"] = rnd.choice(["2024", "abc", "カタカナ", "", "3人", "x1", "漢字", "１２", "Tel"])
                            st, r = s.call("GetCandidates", {"input": inp, "context": ctxo})
                        n += 1
                        got = [x["candidate"] for x in r["candidates"]] if st == "ok" else None
                        if got != l.get("ok"):
                            res.violation(f"the server's {c} entry point answers {inp!r} with {got}, the engine under context {c} gives {l.get('ok')}",
                                          {"kind": "server_context", "query": {"dict": d, "input": inp, "freq": []}, "context": c})
            finally:
                s.stop()
    finally:
        cleanup(wd)
    return n


def run(tier, seed):
    res = Result(PROP, tier, seed)
    rnd = random.Random(seed)
    thms = theorems_of("Props/C16.v")
    cone = KKC_PROOF_CONE + ["Props/C16.v"]
    info = standard_proof_steps(res, KKC_GENS, "Props/C16.v", cone, "Props.C16", thms)
    okh, hlog = build_harness()
    if not okh:
        res.tie_broken("harness build failed", hlog[-1500:])
        return res.finish({"obligations": info["obligations"], "discharged": info["discharged"], "checker_cmd": "make", "trusted_base": TRUSTED_COMMON}, [])
    ng = 120 if tier == "quick" else 4000
    bases = []
    for q in corpus_queries()[::4]:
        bases.append({"dict": q["dict"], "input": q["input"], "freq": []})
    while len(bases) < ng:
        d, alpha = gen_dict(rnd, True)
        for _ in range(3):
            f = []
            if rnd.random() < 0.5 and d["std"]:
                # learned words: proper nouns first (the bonus must not depend on what was learned), then any
                propers = [w for w in d["std"] if w[2] == {"Noun": "Proper"}]
                pick = (rnd.sample(propers, min(len(propers), 2)) if propers and rnd.random() < 0.7 else []) or rnd.sample(d["std"], min(len(d["std"]), 2))
                for w in pick:
                    k = rnd.randint(1, 4)
                    f += [[c, w[1], k, 0] for c in CONTEXTS]     # the same learned counts in every context
            bases.append({"dict": d, "input": gen_input(rnd, d, alpha, 7), "freq": f})
    qs = []
    for b in bases:
        for ctx in CONTEXTS:
            qs.append({"op": "kkc_query", "dict": b["dict"], "context": ctx, "freq": b["freq"], "input": b["input"], "n": BIG})
    rs = harness_parallel(qs, chunk=max(20, len(qs) // 32))
    nontrivial = 0
    for i, b in enumerate(bases):
        group = {ctx: rs[4 * i + j] for j, ctx in enumerate(CONTEXTS)}
        nontrivial += 1 if group_predicate(res, b, group) else 0
    n_model = model_correspondence(res, PROP, qs, rs)
    # the server's four entry points (GetCandidates with kind Normal / ForeignWord / Numeral, GetProperCandidates) must reach
    # the library under the context they name
    n_srv = server_contexts(res, rnd, 3 if tier == "quick" else 30)
    cov = {
        "obligations": info["obligations"], "discharged": info["discharged"],
        "checker_cmd": f"cd /verif/coq && make Props/C16.vo + Print Assumptions on {len(thms)} theorems",
        "trusted_base": TRUSTED_COMMON + ["std BinaryHeap replica", "i32 overflow not modelled"],
        "axioms": info["axioms"],
        "evaluations": len(qs), "distinct_nontrivial": nontrivial,
        "rule": "every (dictionary, input, learned counts) is converted under all four contexts with n = 10^6 and compared pairwise; learned counts are mirrored in every context; "
                "non-trivial = the four contexts do not all return the same list",
        "traces_validated_against_impl": n_model, "server_entry_point_queries": n_srv,
        "input_distribution": stats(qs, rs),
        "samples": [{"input": b["input"], "anc": b["dict"]["anc"][:5], "texts": {c: [x["text"] for x in rs[4 * i + j].get("candidates", [])][:4] for j, c in enumerate(CONTEXTS)}} for i, b in list(enumerate(bases))[12:15]],
        "refuted_statement": "C16_added_begin_with_suffix_refuted (known finding F10); everything else of the property is proved: C16_proper_same_lattice, C16_proper_same_edges, C16_proper_bonus, C16_proper_same_set, C16_adds_only, C16_no_ancillary_head",
    }
    return res.finish(cov, ["'same candidate set' is about untruncated lists (n = 10^6)"])


def replay(path):
    d = json.load(open(path))
    build_harness()
    bad = 0
    for v in d.get("violations", []):
        b = v["replay"]["query"]
        qs = [{"op": "kkc_query", "dict": b["dict"], "context": ctx, "freq": b["freq"], "input": b["input"], "n": BIG} for ctx in CONTEXTS]
        rs = harness(qs)
        res = Result(PROP, "replay", 0)
        group_predicate(res, b, dict(zip(CONTEXTS, rs)))
        print(b["input"], {c: [x["text"] for x in r.get("candidates", [])] for c, r in zip(CONTEXTS, rs)}, "violations:", len(res.violations))
        bad += bool(res.violations)
    return 1 if bad else 0
