"""C07 - a registered word becomes convertible, for every kind and every well-formed pair."""
from checks.server_common import *

PROP = "C07"
CONE = ["Server/ServerModel.v", "Server/ServerProofs.v", "Server/ServerProofs2.v", "Props/C07.v", "Props/C03.v", "Dic/ConjProofs.v",
        "Server/Protocol.v", "Server/ConcModel.v", "Server/ConcProofs.v", "Server/ConcAtomic.v", "Props/C14.v", "Gen/Protocol.v"]
THEOREMS = ["C07_registered_convertible", "C07_only_adds", "C07_register_then_apply", "C07_guess_forms", "C07_registered_independent", "C07_no_deadlock"]
ENDINGS = [c + "ない" for c in "かこがごさそたとなのばぼまもらろわおいきぎしじちにびみりえけげせぜてでねべめれ"] + ["い", "だ"]


def gen_c07_history(rnd):
    base, alpha = gen_base(rnd)
    words = base["std"] + base["anc"]
    probes = list({rnd.choice(words)["reading"] + rnd.choice(["", rnd.choice(alpha)]) for _ in range(3)})
    reqs = [{"kind": "convert", "input": p, "context": "Normal", "probe": "before"} for p in probes]
    regs = []
    full = [c for c in JP_KEYS if c not in "ゑゐ"]
    for _ in range(rnd.randint(2, 5)):
        wk = rnd.choice(["CommonNoun", "ProperNoun", "Guess", "Guess"])
        r = "".join(rnd.choice(alpha if rnd.random() < 0.7 else full) for _ in range(rnd.randint(1, 4)))
        w = "".join(rnd.choice(KANJI + "aZ9/;") for _ in range(rnd.randint(1, 3)))
        if rnd.random() < 0.12:
            r = "".join(rnd.choice(alpha) for _ in range(rnd.randint(19, 30)))      # a long reading (any internal length cap shows here)
        if rnd.random() < 0.15:
            w = r                                                                   # written exactly as it is read (らーめん/らーめん)
        if wk == "Guess":
            end = rnd.choice(ENDINGS)
            r, w = r + end, w + end
        reqs.append({"kind": "register", "wkind": wk, "reading": r, "word": w})
        regs.append((wk, r, w))
        if rnd.random() < 0.5:
            reqs.append({"kind": "convert", "input": rnd.choice(probes), "context": "Normal"})
    return base, reqs, regs, probes


# guessed registrations and forms they must make convertible, written down from the grammar (not computed by the code under test):
# the stem that precedes ない, the dictionary form, and well-known forms such as 行く -> 行っ(て)
GRAMMAR_CORPUS = [
    ("いかない", "行かない", [("いか", "行か"), ("いき", "行き"), ("いく", "行く"), ("いけ", "行け"), ("いこ", "行こ"), ("いっ", "行っ")]),
    ("もっていかない", "持って行かない", [("もっていか", "持って行か"), ("もっていっ", "持って行っ")]),
    ("かかない", "書かない", [("かか", "書か"), ("かき", "書き"), ("かく", "書く"), ("かい", "書い"), ("かけ", "書け"), ("かこ", "書こ")]),
    ("たべない", "食べない", [("たべ", "食べ"), ("たべる", "食べる"), ("たべれ", "食べれ")]),
    ("およがない", "泳がない", [("およが", "泳が"), ("およぎ", "泳ぎ"), ("およぐ", "泳ぐ"), ("およい", "泳い")]),
    ("はなさない", "話さない", [("はなさ", "話さ"), ("はなし", "話し"), ("はなす", "話す")]),
    ("またない", "待たない", [("また", "待た"), ("まち", "待ち"), ("まつ", "待つ"), ("まっ", "待っ")]),
    ("かわいい", "可愛い", [("かわいい", "可愛い"), ("かわいく", "可愛く"), ("かわいかっ", "可愛かっ")]),
    ("いい", "良い", [("いい", "良い")]),
    ("おおきい", "大きい", [("おおきい", "大きい"), ("おおきく", "大きく")]),
    ("しずかだ", "静かだ", [("しずかだ", "静かだ"), ("しずかな", "静かな"), ("しずかに", "静かに")]),
    ("まだだ", "未だだ", [("まだだ", "未だだ"), ("まだな", "未だな")]),
]


def corpus_histories():
    base = {"std": [{"reading": "くるま", "stem": "車", "speech": {"Noun": "Common"}}], "anc": [{"reading": "で", "stem": "で", "speech": {"Particle": "Case"}}], "tankan": []}
    items = []
    for r, w, forms in GRAMMAR_CORPUS:
        items.append((base, [{"kind": "register", "wkind": "Guess", "reading": r, "word": w}] +
                            [{"kind": "convert", "input": fr, "context": "Normal", "expect": fw} for fr, fw in forms]))
    # many homophones registered at run time (40 words for one reading, next to two the dictionary already has): every one is offered
    many = [{"kind": "register", "wkind": "CommonNoun" if i % 3 else "ProperNoun", "reading": "くるま", "word": f"来留間{i}"} for i in range(40)]
    items.append((base, many + [{"kind": "convert", "input": "くるま", "context": "Normal", "expect": f"来留間{i}"} for i in (0, 1, 29, 30, 31, 32, 33, 39)]
                        + [{"kind": "convert", "input": "くるま", "context": "Normal", "expect": "車"}]))
    # the same registrations travelling as ONE JSON-RPC batch (an array in one HTTP request): the updater finds several entries waiting at once
    items.append((base, [dict(q, batch=1) for q in many] + [{"kind": "convert", "input": "くるま", "context": "Normal", "expect": f"来留間{i}"} for i in (0, 1, 2, 29, 38, 39)]))
    for r, ws in (("あたらしい", ["新井", "荒井", "新居"]), ("くるま", ["俥", "來間"]), ("でで", ["出々", "出出", "弟々", "弟弟"])):
        items.append((base, [{"kind": "register", "wkind": "CommonNoun", "reading": r, "word": w, "batch": 1} for w in ws] +
                            [{"kind": "convert", "input": r, "context": "Normal", "expect": w} for w in ws]))
    items.append((base, [{"kind": "register", "wkind": "Guess", "reading": r, "word": w, "batch": 1} for r, w in (("かかない", "書かない"), ("かかない", "掻かない"), ("かかない", "欠かない"))] +
                        [{"kind": "convert", "input": fr, "context": "Normal", "expect": fw} for fr, fw in (("かき", "書き"), ("かき", "掻き"), ("かき", "欠き"), ("かく", "掻く"), ("かい", "欠い"))]))
    # registered words survive a reload: SIGHUP (after a save) either ends the server, which is then started again, or is handled by it
    for kind in ("hup", "restart"):
        items.append((base, [{"kind": "register", "wkind": "CommonNoun", "reading": "くるま", "word": "俥"}, {"kind": "register", "wkind": "ProperNoun", "reading": "くるま", "word": "來間"},
                             {"kind": "register", "wkind": "CommonNoun", "reading": "あたらし", "word": "新し"}, {"kind": "register", "wkind": "Guess", "reading": "かかない", "word": "書かない"},
                             {"kind": kind}] +
                            [{"kind": "convert", "input": r, "context": "Normal", "expect": w} for r, w in (("くるま", "俥"), ("くるま", "來間"), ("くるま", "車"), ("あたらし", "新し"), ("かき", "書き"), ("かく", "書く"))]))
    # a word for a reading that was converted just before and is converted again right after (homophone of an existing reading, and a new reading)
    for r, w in (("くるま", "俥"), ("くるまで", "車出"), ("で", "出")):
        items.append((base, [{"kind": "convert", "input": r, "context": "Normal"}, {"kind": "register", "wkind": "CommonNoun", "reading": r, "word": w},
                             {"kind": "convert", "input": r, "context": "Normal", "expect": w}, {"kind": "proper", "input": r}, {"kind": "convert", "input": r, "context": "ForeignWord", "expect": w}]))
    # nouns whose readings use the rarer characters of the dictionary alphabet (long-vowel mark, small kana, ゔ-less voiced rows, latin letters)
    nouns = [("らーめん", "拉麺"), ("でーた", "資料"), ("こーひー", "珈琲"), ("ふぁいる", "書類"), ("じぇっと", "噴射"), ("tel", "電話"), ("ゐど", "井戸"), ("ゑ", "絵"), ("っ", "促音"), ("ー", "長音")]
    for kind in ("CommonNoun", "ProperNoun"):
        items.append((base, [{"kind": "register", "wkind": kind, "reading": r, "word": w} for r, w in nouns] +
                            [{"kind": "convert", "input": r, "context": "Normal", "expect": w} for r, w in nouns]))
    return items


def run(tier, seed):
    res = Result(PROP, tier, seed)
    rnd = random.Random(seed)
    info = standard_proof_steps(res, SRV_GENS + ["gen_protocol"], "Props/C07.v", CONE, "Props.C07", THEOREMS)
    okh, hlog = build_harness()
    okb, blog = build_binaries()
    if not (okh and okb):
        res.tie_broken("the repository no longer builds with the hooks", (hlog + blog)[-1500:])
        return res.finish({"obligations": info["obligations"], "discharged": info["discharged"], "checker_cmd": "make", "trusted_base": TRUSTED_COMMON}, [])
    n = 24 if tier == "quick" else 400
    gens = [gen_c07_history(rnd) for _ in range(n)]
    # what each registration must make convertible: the conjugated forms of the entry (through the real library)
    items = []
    for base, reqs, regs, probes in gens:
        q1 = [{"op": "dic_new_guessed", "reading": r, "word": w} for (wk, r, w) in regs if wk == "Guess"]
        g = harness(q1) if q1 else []
        gi = iter(g)
        tail = []
        for wk, r, w in regs:
            if wk == "Guess":
                e = next(gi)
                if "ok" not in e:
                    continue
                forms = harness([{"op": "dic_conj", "entry": e["ok"]}])[0]
                for fw, fr in forms.get("ok", []):
                    if fr and all(c in ALPHABET for c in fr):
                        tail.append((fr, fw))
            else:
                if all(c in ALPHABET for c in r):
                    tail.append((r, w))
        tail = list(dict.fromkeys(tail))
        reqs2 = list(reqs) + [{"kind": "convert", "input": fr, "context": rnd.choice(["Normal", "Normal", "ForeignWord"]), "expect": fw} for fr, fw in tail]
        reqs2 += [{"kind": "convert", "input": p, "context": "Normal", "probe": "after"} for p in probes]
        items.append((base, reqs2))
    items = corpus_histories() + items
    runs = run_histories(items, threads=12)
    nontrivial = 0
    for hr in runs:
        for what, detail in hr.problems:
            res.violation(what, {"base": hr.base, "requests": hr.requests, "detail": detail})
        before = {}
        rqs = [r for r in hr.requests if r["kind"] not in ("malformed", "wait_save")]
        changed = False
        for (ev, obs), rq in zip(hr.events, rqs):
            if obs is None:
                continue
            if rq.get("probe") == "before":
                before[rq["input"]] = obs["texts"]
            if "expect" in rq and len(obs["texts"]) < 100:
                if rq["expect"] not in obs["texts"]:
                    res.violation(f"the registered form {rq['expect']!r} is not offered for its reading {rq['input']!r}: {obs['texts']}", {"base": hr.base, "requests": hr.requests, "form": rq["expect"]})
            if rq.get("probe") == "after" and rq["input"] in before and len(obs["texts"]) < 100:
                missing = [t for t in before[rq["input"]] if t not in obs["texts"]]
                if missing:
                    res.violation(f"candidates {missing} of {rq['input']!r} were obtainable before the registrations and are not any more", {"base": hr.base, "requests": hr.requests})
                if obs["texts"] != before[rq["input"]]:
                    changed = True
        nontrivial += changed
    n_model = model_histories(res, PROP, runs)
    # "within bounded time" while other clients convert: the lock protocol of the updater and the handlers (C07_no_deadlock),
    # validated on the running server, and registrations racing with conversions under injected delays
    from checks import c14
    wd = workdir("c07c")
    conc = 0
    try:
        c14.trace_conformance(res, wd)
        for dl, c, k, tag in [({"updater.before_dict_lock": 10, "convert.before_pref_lock": 10}, 12, 8, "registrations racing with conversions"),
                              ({"updater.before_pref_lock": 6, "updater.in_dict_lock": 6, "convert.before_dict_lock": 3}, 8, 10, "slow updater")]:
            conc += c14.stress(res, wd, dl, c, k, rnd, tag)["requests"]
            shutil.rmtree(os.path.join(wd, "user"), ignore_errors=True)
    finally:
        cleanup(wd)
    cov = {
        "obligations": info["obligations"], "discharged": info["discharged"],
        "checker_cmd": f"cd /verif/coq && make Props/C07.vo + Print Assumptions on {len(THEOREMS)} theorems",
        "trusted_base": TRUSTED_COMMON + ["'within bounded time' = the asynchronous hand-off to the updater, observed by polling Verif.Dump (3 s cap), not proved",
                                          "the list is the server's n = 100: the offer clause is proved and checked for untruncated lists"],
        "axioms": info["axioms"],
        "evaluations": sum(len(hr.requests) for hr in runs), "distinct_nontrivial": nontrivial,
        "rule": "registrations of the three kinds (guess kind with every ending the guesser recognises) with readings over the dictionary alphabet and written forms incl. ASCII and '/' ';', interleaved with conversions; "
                "afterwards every conjugated form (computed by the real library) is converted and must be offered; probes before / after must only grow; non-trivial = a registration changes a probe's candidate list",
        "histories": len(runs), "traces_validated_against_impl": n_model, "concurrent_requests": conc,
        "samples": [runs[-1].requests[3:8]],
    }
    return res.finish(cov, ["readings outside the dictionary alphabet are not convertible (the property excludes them)"])


def replay(path):
    d = json.load(open(path))
    for v in d.get("violations", []):
        print(v["what"])
    return 1 if d.get("violations") else 0
