"""C07 - a registered word becomes convertible, for every kind and every well-formed pair."""
from checks.server_common import *

PROP = "C07"
CONE = ["Server/ServerModel.v", "Server/ServerProofs.v", "Server/ServerProofs2.v", "Props/C07.v", "Props/C03.v", "Dic/ConjProofs.v"]
THEOREMS = ["C07_registered_convertible", "C07_only_adds", "C07_register_then_apply", "C07_guess_forms", "C07_registered_independent"]
ENDINGS = [c + "ない" for c in "かこがごさそたとなのばぼまもらろわおいきぎしじちにびみりえけげせぜてでねべめれ"] + ["い", "だ"]


def gen_c07_history(rnd):
    base, alpha = gen_base(rnd)
    words = base["std"] + base["anc"]
    probes = list({rnd.choice(words)["reading"] + rnd.choice(["", rnd.choice(alpha)]) for _ in range(3)})
    reqs = [{"kind": "convert", "input": p, "context": "Normal", "probe": "before"} for p in probes]
    regs = []
    full = [c for c in JP_KEYS if c not in "ゑゐ"]
    for _ in range(rnd.randint(2, 5)):
        wk = rnd.choice(["CommonNoun", "ProperNoun", "Guess", "Guess"])
        r = "".join(rnd.choice(alpha if rnd.random() < 0.7 else full) for _ in range(rnd.randint(1, 4)))
        w = "".join(rnd.choice(KANJI + "aZ9/;") for _ in range(rnd.randint(1, 3)))
        if wk == "Guess":
            end = rnd.choice(ENDINGS)
            r, w = r + end, w + end
        reqs.append({"kind": "register", "wkind": wk, "reading": r, "word": w})
        regs.append((wk, r, w))
        if rnd.random() < 0.5:
            reqs.append({"kind": "convert", "input": rnd.choice(probes), "context": "Normal"})
    return base, reqs, regs, probes


def run(tier, seed):
    res = Result(PROP, tier, seed)
    rnd = random.Random(seed)
    info = standard_proof_steps(res, SRV_GENS, "Props/C07.v", CONE, "Props.C07", THEOREMS)
    okh, hlog = build_harness()
    okb, blog = build_binaries()
    if not (okh and okb):
        res.tie_broken("the repository no longer builds with the hooks", (hlog + blog)[-1500:])
        return res.finish({"obligations": info["obligations"], "discharged": info["discharged"], "checker_cmd": "make", "trusted_base": TRUSTED_COMMON}, [])
    n = 24 if tier == "quick" else 400
    gens = [gen_c07_history(rnd) for _ in range(n)]
    # what each registration must make convertible: the conjugated forms of the entry (through the real library)
    items = []
    for base, reqs, regs, probes in gens:
        q1 = [{"op": "dic_new_guessed", "reading": r, "word": w} for (wk, r, w) in regs if wk == "Guess"]
        g = harness(q1) if q1 else []
        gi = iter(g)
        tail = []
        for wk, r, w in regs:
            if wk == "Guess":
                e = next(gi)
                if "ok" not in e:
                    continue
                forms = harness([{"op": "dic_conj", "entry": e["ok"]}])[0]
                for fw, fr in forms.get("ok", []):
                    if fr and all(c in ALPHABET for c in fr):
                        tail.append((fr, fw))
            else:
                if all(c in ALPHABET for c in r):
                    tail.append((r, w))
        tail = list(dict.fromkeys(tail))
        reqs2 = list(reqs) + [{"kind": "convert", "input": fr, "context": rnd.choice(["Normal", "Normal", "ForeignWord"]), "expect": fw} for fr, fw in tail]
        reqs2 += [{"kind": "convert", "input": p, "context": "Normal", "probe": "after"} for p in probes]
        items.append((base, reqs2))
    runs = run_histories(items, threads=12)
    nontrivial = 0
    for hr in runs:
        for what, detail in hr.problems:
            res.violation(what, {"base": hr.base, "requests": hr.requests, "detail": detail})
        before = {}
        rqs = [r for r in hr.requests if r["kind"] != "malformed"]
        changed = False
        for (ev, obs), rq in zip(hr.events, rqs):
            if obs is None:
                continue
            if rq.get("probe") == "before":
                before[rq["input"]] = obs["texts"]
            if "expect" in rq and len(obs["texts"]) < 100:
                if rq["expect"] not in obs["texts"]:
                    res.violation(f"the registered form {rq['expect']!r} is not offered for its reading {rq['input']!r}: {obs['texts']}", {"base": hr.base, "requests": hr.requests, "form": rq["expect"]})
            if rq.get("probe") == "after" and rq["input"] in before and len(obs["texts"]) < 100:
                missing = [t for t in before[rq["input"]] if t not in obs["texts"]]
                if missing:
                    res.violation(f"candidates {missing} of {rq['input']!r} were obtainable before the registrations and are not any more", {"base": hr.base, "requests": hr.requests})
                if obs["texts"] != before[rq["input"]]:
                    changed = True
        nontrivial += changed
    n_model = model_histories(res, PROP, runs)
    cov = {
        "obligations": info["obligations"], "discharged": info["discharged"],
        "checker_cmd": f"cd /verif/coq && make Props/C07.vo + Print Assumptions on {len(THEOREMS)} theorems",
        "trusted_base": TRUSTED_COMMON + ["'within bounded time' = the asynchronous hand-off to the updater, observed by polling Verif.Dump (3 s cap), not proved",
                                          "the list is the server's n = 100: the offer clause is proved and checked for untruncated lists"],
        "axioms": info["axioms"],
        "evaluations": sum(len(hr.requests) for hr in runs), "distinct_nontrivial": nontrivial,
        "rule": "registrations of the three kinds (guess kind with every ending the guesser recognises) with readings over the dictionary alphabet and written forms incl. ASCII and '/' ';', interleaved with conversions; "
                "afterwards every conjugated form (computed by the real library) is converted and must be offered; probes before / after must only grow; non-trivial = a registration changes a probe's candidate list",
        "histories": len(runs), "traces_validated_against_impl": n_model,
        "samples": [runs[0].requests[3:8]],
    }
    return res.finish(cov, ["readings outside the dictionary alphabet are not convertible (the property excludes them)"])


def replay(path):
    d = json.load(open(path))
    for v in d.get("violations", []):
        print(v["what"])
    return 1 if d.get("violations") else 0
