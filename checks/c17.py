"""C17 - original-spelling (kana -> romaji) conversion is total, ASCII-only and consistent with the client."""
import json, random, itertools, unicodedata
from vlib import *
import elisp_mini as E

PROP = "C17"
GENS = ["gen_kana", "gen_elisp"]
CONE = ["Base/Str.v", "Base/ListUtil.v", "Dic/Conjugation.v", "Kana/KanaAlpha.v", "Kana/KanaAlphaProofs.v", "Kana/Romaji.v", "Props/C17.v",
        "Gen/KanaTable.v", "Gen/ElispTables.v"]
THEOREMS = ["C17_total", "C17_units", "C17_longest_unit", "C17_ascii_only", "C17_ascii_in_place", "C17_sokuon_units", "C17_same_consonants",
            "C17_client_roundtrip", "C17_client_roundtrip_sokuon"]
IMPORTS = "From Chokan Require Import Base.Str Base.ListUtil Gen.KanaTable Kana.KanaAlpha."
HIRA = [chr(c) for c in range(0x3042, 0x3094)]            # あ..ん : the client's class
ASCII = "abcdefghijklmnopqrstuvwxyzABCDEFGHIJKLMNOPQRSTUVWXYZ0123456789"


def kata(s):
    return "".join(chr(ord(c) + 0x60) if 0x3041 <= ord(c) <= 0x3096 else c for c in s)


def ok_out(o):
    return all(c in "abcdefghijklmnopqrstuvwxyz0123456789" for c in o)


def run(tier, seed):
    res = Result(PROP, tier, seed)
    rnd = random.Random(seed)
    info = standard_proof_steps(res, GENS, "Props/C17.v", CONE, "Props.C17", THEOREMS)
    okm, mlog = coq_make(["Kana/KanaAlpha.v", "Gen/KanaTable.v"])
    okh, hlog = build_harness()
    if not okh:
        res.tie_broken("harness build failed", hlog[-1500:])
        return res.finish({"obligations": info["obligations"], "discharged": info["discharged"], "checker_cmd": "make", "trusted_base": TRUSTED_COMMON}, [])
    try:
        it = E.load_chokan(os.path.join(REPO, "chokan.el"))
    except Exception as e:
        res.tie_broken("chokan.el can no longer be loaded by the elisp evaluator", str(e))
        it = None

    def r2h(s):
        it.steps = 0
        try:
            return it.call("chokan--roman-to-hiragana", s)
        except E.ElispError as e:
            return None

    def conv(strings):
        rs = harness_parallel([{"op": "kana_convert", "input": s} for s in strings], chunk=5000)
        return [r.get("ok") if "ok" in r else {"panic": r.get("panic", "?")} for r in rs]

    # ---- units: single kana and the two-kana units the implementation treats as one
    singles = [chr(c) for c in range(0x3041, 0x3097)]
    pairs = [a + b for a in singles for b in "ゃゅょぁぃぅぇぉ"]
    u_out = dict(zip(singles + pairs, conv(singles + pairs)))
    units = [u for u in singles if isinstance(u_out[u], str) and ok_out(u_out[u])]
    units += [p for p in pairs if isinstance(u_out[p], str) and isinstance(u_out[p[0]], str) and u_out[p] != u_out[p[0]] + u_out[p[1]]]
    unit_spell = {u: u_out[u] for u in units}
    sok_out = dict(zip(units, conv(["っ" + u for u in units])))
    if it is not None:
        for u in units:
            if u in ("ん", "っ"):
                continue
            a = unit_spell[u]
            if r2h(a) != u:
                res.violation(f"unit {u!r} is spelled {a!r}, which the client types back as {r2h(a)!r}", {"kind": "client_roundtrip", "unit": u, "spelling": a})
            a2 = sok_out[u]
            if not isinstance(a2, str) or r2h(a2) != "っ" + u:
                res.violation(f"after a sokuon, {'っ' + u!r} is spelled {a2!r}, which the client types back as {r2h(a2) if isinstance(a2, str) else None!r}",
                              {"kind": "client_roundtrip_sokuon", "unit": u, "spelling": a2})
            elif a and a[0] in "tbjfhswrypkgzcvdm" and a2 != a[0] + a:
                res.violation(f"sokuon before {u!r} ({a!r}) does not double the consonant: {a2!r}", {"kind": "sokuon_doubling", "unit": u})
    # ---- strings over the client's class
    cls = HIRA + list(ASCII)
    inputs = ["", "っっきゃ", "っっっか", "あっっっ", "っっっきゃっっ", "っきゃっきゃっきゃ", "きゃきゅきょきゃ", "んんんあ", "っっっっっっっっか", "かっっっった"]
    red = ["a", "k", "t", "n", "T", "1", "あ", "か", "っ", "ん", "ゃ", "き"]
    L = 3 if tier == "quick" else 4
    for n in range(1, L + 1):
        for t in itertools.product(red, repeat=n):
            inputs.append("".join(t))
    for _ in range(3000 if tier == "quick" else 100000):
        inputs.append("".join(rnd.choice(cls) if rnd.random() < 0.8 else rnd.choice("っゃゅょん") for _ in range(rnd.randint(1, 64 if rnd.random() < 0.05 else 10))))
    # strings the client's engine produces from key sequences
    produced = 0
    if it is not None:
        keys = "aiueokstnhmyrwgzdbpcfjvx"
        for _ in range(1500 if tier == "quick" else 30000):
            ks = "".join(rnd.choice(keys) for _ in range(rnd.randint(1, 7)))
            k = r2h(ks)
            if k is not None:
                inputs.append(k)
                produced += 1
    inputs = list(dict.fromkeys(inputs))
    outs = conv(inputs)
    out_of = dict(zip(inputs, outs))
    # the result equals the concatenation of the results of its units (longest match), a run of k sokuon doubling k times the consonant that follows
    ukeys = sorted(unit_spell, key=len, reverse=True)
    def by_units(s):
        out, i = "", 0
        while i < len(s):
            c = s[i]
            if c in ASCII:
                out += c.lower(); i += 1; continue
            k = 0
            while i + k < len(s) and s[i + k] == "っ":
                k += 1
            j = i + k
            u = next((x for x in ukeys if x != "っ" and s.startswith(x, j)), None) if j < len(s) else None
            if u is None:
                return None if (k or j < len(s)) else out          # a character outside the table, or a sokuon run with nothing after it: not judged here
            a = unit_spell[u]
            if k and not (a and a[0] in "tbjfhswrypkgzcvdm"):
                return None                                         # a sokuon before a vowel / n: the spelling of the lone sokuon is not this clause
            out += (a[0] * k if k else "") + a
            i = j + len(u)
        return out
    for s, o in zip(inputs, outs):
        if isinstance(o, str) and len(s) <= 24:
            want = by_units(s)
            if want is not None and o != want:
                res.violation(f"convert({s!r}) = {o!r} is not the concatenation of its units' spellings {want!r} (k sokuon double the next consonant k times)",
                              {"kind": "units", "input": s, "output": o, "want": want})
    nontriv = 0
    extra_q = []
    for s, o in zip(inputs, outs):
        if not isinstance(o, str):
            res.violation(f"convert({s!r}) panics: {o}", {"kind": "total", "input": s})
            continue
        if not ok_out(o):
            res.violation(f"convert({s!r}) = {o!r} is not lower-case ASCII only", {"kind": "ascii_only", "input": s, "output": o})
        if any(c in "っ" for c in s) and any(c in ASCII for c in s) and any(s[i:i + 2] in unit_spell for i in range(len(s) - 1)):
            nontriv += 1
        # ASCII in place: split at an ASCII character not preceded by a sokuon
        for i, c in enumerate(s):
            if c in ASCII and (i == 0 or s[i - 1] not in "っッ"):
                extra_q.append((s, i))
                break
    ks = sorted({x for s, i in extra_q for x in (s[:i], s[i + 1:])} | {kata(s) for s in inputs[:4000]} | {unicodedata.normalize("NFD", s) for s in inputs[:4000]})
    more = dict(zip(ks, conv(ks)))
    for s, i in extra_q:
        want = (more[s[:i]] or "") + s[i].lower() + (more[s[i + 1:]] or "")
        if isinstance(out_of[s], str) and out_of[s] != want:
            res.violation(f"ASCII character {s[i]!r} of {s!r} is not kept in place: {out_of[s]!r} vs {want!r}", {"kind": "ascii_in_place", "input": s, "index": i})
    for s in inputs[:4000]:
        if isinstance(out_of[s], str):
            if more[kata(s)] != out_of[s]:
                res.violation(f"katakana input {kata(s)!r} converts to {more[kata(s)]!r} but its hiragana {s!r} to {out_of[s]!r}", {"kind": "katakana", "input": s})
            if more[unicodedata.normalize("NFD", s)] != out_of[s]:
                res.violation(f"NFD form of {s!r} converts differently", {"kind": "nfd", "input": s})
    # ---- totality on arbitrary Unicode
    wild = []
    for _ in range(1500 if tier == "quick" else 50000):
        wild.append("".join(chr(rnd.choice([rnd.randint(0x20, 0x7E), rnd.randint(0x3040, 0x30FF), rnd.randint(0x80, 0x2FFF), rnd.randint(0x4E00, 0x9FFF), rnd.randint(0x1F300, 0x1FAFF), 0x3099, 0x309A, 0xFF71, 0x130, 0xDF]))
                            for _ in range(rnd.randint(0, 12))))
    wouts = conv(wild)
    for s, o in zip(wild, wouts):
        if not isinstance(o, str):
            res.violation(f"convert({s!r}) panics: {o}", {"kind": "total", "input": s})
    # ---- model vs implementation (NFC strings over the class and katakana)
    n_model = 0
    if okm:
        cc, origin = [], []
        for s, o in list(zip(inputs, outs)) + [(k, more[k]) for k in ks if unicodedata.normalize("NFC", k) == k][:3000]:
            if isinstance(o, str):
                cc.append(f"({cstr(s)}, {cstr(o)})")
                origin.append((s, o))
        okc, failing, clog = run_coq_cases("C17", IMPORTS, "str * str",
                                           "(fun c => match convert ka_table ka_doubling ka_sokuon_spelling (fst c) with Some r => str_eqb r (snd c) | None => false end)",
                                           cc, shard=min(1500, max(300, len(cc) // 16 + 1)))
        n_model = len(cc)
        if not okc:
            res.tie_broken("correspondence: evaluating the kana-alpha model failed", clog)
        for i in failing[:10]:
            res.tie_broken("correspondence: model and implementation differ on kana_alpha::convert", {"input": origin[i][0], "impl": origin[i][1]})
    else:
        res.tie_broken("model does not build: Kana/KanaAlpha.v", coq_failing_file(mlog))
    cov = {
        "obligations": info["obligations"], "discharged": info["discharged"],
        "checker_cmd": "cd /verif/coq && make Props/C17.vo + Print Assumptions",
        "trusted_base": TRUSTED_COMMON + ["unicode-normalization's NFC (the model takes NFC input; NFD / katakana / half-width inputs are compared on the implementation only)",
                                          "str::to_lowercase modelled for ASCII only", "elisp evaluator stands in for Emacs in the client round trip"],
        "axioms": info["axioms"],
        "evaluations": len(inputs) + len(wild) + len(ks) + 2 * len(units), "distinct_nontrivial": nontriv,
        "rule": f"all strings of length <= {L} over a reduced class (a k t n T 1 あ か っ ん ゃ き); random strings over [a-zA-Z0-9あ-ん] up to length 64; their katakana and NFD forms; "
                f"{produced} strings produced by the client engine from random key sequences; arbitrary Unicode for totality; every table unit alone and after a sokuon through the client's romaji rules; "
                "non-trivial = contains a sokuon, an ASCII character and a two-kana unit",
        "traces_validated_against_impl": n_model,
        "units": len(units),
        "samples": inputs[200:204] + wild[:2],
    }
    return res.finish(cov, ["ん is excluded from the client round trip (the repository's tests pin it to a single n)"])


def replay(path):
    d = json.load(open(path))
    build_harness()
    for v in d.get("violations", []):
        r = v["replay"]
        if "input" in r:
            print(repr(r["input"]), "->", harness([{"op": "kana_convert", "input": r["input"]}])[0])
        else:
            print(v["what"])
    return 1 if d.get("violations") else 0
