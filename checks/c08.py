"""C08 - saved user data restores exactly; a restart does not change any answer."""
from checks.server_common import *
from checks.c05 import f16_entry

PROP = "C08"
CONE = ["Server/ServerModel.v", "Server/ServerProofs.v", "Server/ServerProofs2.v", "Props/C08.v", "Dic/RestoreProofs.v", "Dic/TextFormatProofs.v"]
THEOREMS = ["C08_restore_filter", "C08_idempotent", "C08_synced_invariant", "C08_restart_exact", "C08_produced_entries_printable", "C08_every_entry_printable_refuted", "C08_nonkana_reading_refuted"]


def gen_c08_history(rnd):
    base, reqs = gen_history(rnd, rnd.randint(8, 14), with_restart=False)
    # make sure there is something to save: a confirmation and a conjugating registration
    words = base["std"]
    reqs.append({"kind": "convert", "input": rnd.choice(words)["reading"], "context": rnd.choice(["Normal", "ForeignWord", "Numeral"])})
    nconv = sum(1 for r in reqs if r["kind"] in ("convert", "proper"))
    reqs.append({"kind": "confirm", "session": nconv - 1, "cid": "0"})
    reqs.append({"kind": "register", "wkind": "Guess", "reading": "た" + rnd.choice(["べない", "かない", "い", "だ"]), "word": "食" + rnd.choice(["べない", "かない", "い", "だ"])})
    if rnd.random() < 0.5:
        reqs.append({"kind": "register", "wkind": "CommonNoun", "reading": rnd.choice(["らーめん", "abc", "ぱーく"]), "word": "拉麺"})
    probes = list({rnd.choice(words)["reading"] + rnd.choice(["", "た", "らーめん"]) for _ in range(4)}) + ["たべ", "た", "らーめん"]
    pq = [{"kind": rnd.choice(["convert", "convert", "proper"]), "input": p, "context": rnd.choice(["Normal", "ForeignWord", "Numeral"])} for p in probes]
    reqs += [dict(q, probe="before") for q in pq] + [{"kind": "restart"}] + [dict(q, probe="after") for q in pq]
    if rnd.random() < 0.4:        # save / restore again: idempotent
        reqs += [{"kind": "restart"}] + [dict(q, probe="after") for q in pq]
    return base, reqs


def predicate(res, hr):
    for what, detail in hr.problems:
        res.violation(what, {"base": hr.base, "requests": hr.requests, "detail": detail})
    rqs = [r for r in hr.requests if r["kind"] not in ("malformed", "wait_save")]
    before, nt, known = {}, False, False
    for (ev, obs), rq in zip(hr.events, rqs):
        if ev["t"] == "restart" and obs and obs.get("before") and obs.get("after"):
            b, a = obs["before"], obs["after"]
            if sorted(map(json.dumps, b["frequencies"])) != sorted(map(json.dumps, a["frequencies"])):
                res.violation("learned frequencies differ after the restart", {"base": hr.base, "requests": hr.requests, "before": b["frequencies"], "after": a["frequencies"]})
            if b["user_entries"] != a["user_entries"]:
                lost = [l for l in b["user_entries"] if l not in a["user_entries"]]
                f20 = lambda l: len(l.split("\t")) >= 3 and l.split("\t")[0] != "" and any(c not in ALPHABET for c in l.split("\t")[0])
                if lost and all(f16_entry(l) or f20(l) for l in lost) and [l for l in b["user_entries"] if l not in lost] == a["user_entries"]:
                    if any(f16_entry(l) for l in lost):
                        known = True
                        res.known("F16", "a guessed entry with an empty stem (word = a bare ending such as い) is convertible until the restart and lost afterwards")
                    if any(f20(l) and not f16_entry(l) for l in lost):
                        res.known("F20", "a registered word whose reading has a character outside the text format's reading class is saved, skipped when user.dic is read back, and gone after the restart (it was never convertible)")
                else:
                    res.violation(f"user entries differ after the restart: before {b['user_entries']} after {a['user_entries']}", {"base": hr.base, "requests": hr.requests})
            if b["frequencies"] and any("\t/" in l and not l.endswith("名詞/") for l in b["user_entries"]):
                nt = True
        if obs is None:
            continue
        key = (rq.get("kind"), rq.get("input"), rq.get("context"))
        if rq.get("probe") == "before":
            before[key] = obs["texts"]
        elif rq.get("probe") == "after" and key in before and before[key] != obs["texts"]:
            if known:
                res.known("F16", "a guessed entry with an empty stem (word = a bare ending such as い) is convertible until the restart and lost afterwards")
            else:
                res.violation(f"conversion of {rq['input']!r} ({rq.get('context')}) returns {obs['texts']} after the restart but {before[key]} before", {"base": hr.base, "requests": hr.requests})
    return nt


def run(tier, seed):
    res = Result(PROP, tier, seed)
    rnd = random.Random(seed)
    info = standard_proof_steps(res, SRV_GENS, "Props/C08.v", CONE, "Props.C08", THEOREMS)
    okh, hlog = build_harness()
    okb, blog = build_binaries()
    if not (okh and okb):
        res.tie_broken("the repository no longer builds with the hooks", (hlog + blog)[-1500:])
        return res.finish({"obligations": info["obligations"], "discharged": info["discharged"], "checker_cmd": "make", "trusted_base": TRUSTED_COMMON}, [])
    n = 24 if tier == "quick" else 300
    items = [gen_c08_history(rnd) for _ in range(n)]
    fb = {"std": [{"reading": "くるま", "stem": "車", "speech": {"Noun": "Common"}}], "anc": [{"reading": "で", "stem": "で", "speech": {"Particle": "Case"}}], "tankan": []}
    items.insert(0, (fb, [{"kind": "register", "wkind": "Guess", "reading": "い", "word": "い"}, {"kind": "convert", "input": "く", "context": "Normal", "probe": "before"},
                          {"kind": "restart"}, {"kind": "convert", "input": "く", "context": "Normal", "probe": "after"}]))
    # duplicates and homophones with equal scores: the same registration twice, a word the dictionary already holds, words registered in
    # non-sorted order - the order of tied candidates is the same after a restart (and after a second one)
    hb = {"std": [{"reading": "はし", "stem": "橋", "speech": {"Noun": "Common"}}, {"reading": "はし", "stem": "箸", "speech": {"Noun": "Common"}},
                  {"reading": "かんじ", "stem": "漢字", "speech": {"Noun": "Common"}}, {"reading": "かんじ", "stem": "感じ", "speech": {"Noun": "Common"}}],
          "anc": [{"reading": "で", "stem": "で", "speech": {"Particle": "Case"}}], "tankan": []}
    regs = [("はし", "端"), ("はし", "嘴"), ("はし", "端"), ("はし", "橋"), ("かんじ", "幹事"), ("かんじ", "漢字"), ("かんじ", "監事"), ("かんじ", "幹事"), ("はし", "愛")]
    pq = [{"kind": k, "input": i, "context": "Normal"} for k in ("convert", "proper") for i in ("はし", "かんじ", "はしで", "かんじで")]
    for kinds in (["CommonNoun"] * len(regs), ["ProperNoun"] * len(regs), ["CommonNoun", "ProperNoun"] * len(regs)):
        rq = [{"kind": "register", "wkind": k, "reading": r, "word": w} for (r, w), k in zip(regs, kinds)]
        rq += [dict(q, probe="before") for q in pq] + [{"kind": "restart"}] + [dict(q, probe="after") for q in pq] + [{"kind": "restart"}] + [dict(q, probe="after") for q in pq]
        items.append((hb, rq))
    # a count that grows AFTER a save already stored its word (the table does not grow any more) must reach the file too
    for w_in in ("はし", "かんじ"):
        items.append((hb, [{"kind": "convert", "input": w_in, "context": "Normal"}, {"kind": "confirm", "session": 0, "cid": "0"}, {"kind": "wait_save"}, {"kind": "wait_save"},
                           {"kind": "convert", "input": w_in, "context": "Normal"}, {"kind": "confirm", "session": 1, "cid": "0"}, {"kind": "wait_save"},
                           {"kind": "convert", "input": w_in, "context": "Normal"}, {"kind": "confirm", "session": 2, "cid": "0"}]
                      + [dict(q, probe="before") for q in pq] + [{"kind": "restart"}] + [dict(q, probe="after") for q in pq]))
    # readings outside the dictionary alphabet (never convertible): known finding F20 - they vanish at the restart, no answer changes
    items.append((hb, [{"kind": "register", "wkind": k, "reading": r, "word": w} for k, r, w in
                       (("CommonNoun", "１２３", "数"), ("ProperNoun", "カタカナ", "片仮名"), ("CommonNoun", "はし漢", "混"), ("CommonNoun", "ｱ", "半"), ("CommonNoun", "はしご", "梯子"))]
                  + [dict(q, probe="before") for q in pq] + [{"kind": "convert", "input": "はしご", "context": "Normal", "probe": "before"}, {"kind": "restart"}]
                  + [dict(q, probe="after") for q in pq] + [{"kind": "convert", "input": "はしご", "context": "Normal", "probe": "after"}]))
    runs = run_histories(items, threads=12)
    nontrivial = sum(1 for hr in runs if predicate(res, hr))
    n_model = model_histories(res, PROP, runs)
    cov = {
        "obligations": info["obligations"], "discharged": info["discharged"],
        "checker_cmd": f"cd /verif/coq && make Props/C08.vo + Print Assumptions on {len(THEOREMS)} theorems",
        "trusted_base": TRUSTED_COMMON + ["postcard round trip of the frequency table (observed on the real files through Verif.Dump, not proved)", "file system and the periodic save timer"],
        "axioms": info["axioms"],
        "evaluations": sum(len(hr.requests) for hr in runs), "distinct_nontrivial": nontrivial,
        "rule": "histories mixing confirmations in the four contexts and registrations of all kinds (incl. readings with ー and a-z), then probe conversions, a periodic save, a stop, a start on the same user directory, "
                "Verif.Dump before/after and the same probes (sometimes twice: idempotence); non-trivial = the saved state has a learned count and a user entry of a conjugating speech",
        "histories": len(runs), "traces_validated_against_impl": n_model,
        "samples": [runs[0].requests[-9:-5]],
        "known": "F16 (guessed entry with empty stem is lost): C08_every_entry_printable_refuted",
    }
    return res.finish(cov, ["partial: the binary half of the saved state rests on postcard's round trip, exercised but not proved"])


def replay(path):
    d = json.load(open(path))
    build_harness(); build_binaries()
    bad = 0
    for v in d.get("violations", []):
        r = v["replay"]
        if "requests" in r:
            hr = HistoryRun(r["base"], r["requests"]).run()
            res = Result(PROP, "replay", 0)
            predicate(res, hr)
            bad += bool(res.violations)
            print(v["what"][:100], "->", "reproduced" if res.violations else "not reproduced")
    return 1 if bad else 0
