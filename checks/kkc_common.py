"""Shared by C01 C02 C03 C06 C16: generators for dictionaries / inputs, the lattice + candidate
correspondence between the Gallina model (Kkc/*.v) and the implementation, path enumeration."""
import json, random
from vlib import *
from conv import *

KKC_GENS = ["gen_speech", "gen_score"]
KKC_MODEL = ["Base/Str.v", "Base/ListUtil.v", "Dic/Speech.v", "Kkc/Context.v", "Kkc/Lattice.v", "Kkc/Score.v", "Kkc/Heap.v", "Kkc/Search.v",
             "Gen/SpeechNames.v", "Gen/ScoreTables.v"]
IMPORTS = "From Chokan Require Import Base.Str Base.ListUtil Dic.Speech Gen.SpeechNames Kkc.Context Gen.ScoreTables Kkc.Lattice Kkc.Score Kkc.Heap Kkc.Search."
CONTEXTS = ["Normal", "ForeignWord", "Numeral", "Proper"]
CTX_COQ = {"Normal": "CNormal", "ForeignWord": "CForeignWord", "Numeral": "CNumeral", "Proper": "CProper"}

STD_SPEECHES = ([{"Noun": "Common"}] * 6 + [{"Noun": "Proper"}] * 3 + [{"Noun": "Sahen"}] * 2 +
                [{"Verb": {"Godan": "カ"}}, {"Verb": {"SimoIchidan": "バ"}}, {"Verb": {"Hen": "サ"}}] * 2 +
                ["Adjective", "Adverb", "AdjectivalVerb", "Verbatim", "Conjunction", "PreNounAdjectival", "Counter"])
ANC_SPEECHES = ([{"Particle": "Case"}, {"Particle": "Adverbial"}, {"Particle": "Conjunctive"}, {"Particle": "SentenceFinal"}, {"Particle": "Other"}] * 2 +
                ["AuxiliaryVerb"] * 3 + [{"Affix": "Prefix"}] * 3 + [{"Affix": "Suffix"}] * 3 + ["Counter"] * 2)
KANJI = "車来繰食新心的力学生日本語漢字亜唖娃阿哀愛挨一二三四五六七八九十"
FULL_ALPHA = "あいうえおかきくけこさしすせそたちつてとなにぬねのはひふへほまみむめもやゆよらりるれろわをんがぎぐげござじずぜぞだぢづでどばびぶべぼぱぴぷぺぽっぁぃぅぇぉゃゅょーゑゐabcdefghijklmnopqrstuvwxyz"


def gen_dict(rnd, small=True):
    pool = list("あいうえおかきくけこさしすせそたちつてとなにのはまもやゆよらりるれろわをんっ")
    if rnd.random() < 0.3:
        # voiced / unvoiced pairs side by side (さ/ざ, か/が, た/だ, は/ば/ぱ): a reading is its exact kana, never a "close" one
        pool = list("かがきぎさざしじただちぢはばぱひびぴけげとど")
    alpha = rnd.sample(pool, rnd.randint(2, 6 if small else 9))
    def reading(maxlen):
        return "".join(rnd.choice(alpha) for _ in range(rnd.randint(1, maxlen)))
    std, anc = [], []
    for _ in range(rnd.randint(2, 14 if small else 30)):
        r = reading(4) if rnd.random() < 0.9 else reading(4) + reading(4)      # now and then a long reading: its length score dwarfs the others'
        if rnd.random() < 0.03:
            r = "".join(rnd.choice(alpha) for _ in range(rnd.randint(17, 22)))  # a very long reading (any internal cap on reading length)
        sp = rnd.choice(STD_SPEECHES) if rnd.random() < 0.93 else rnd.choice(ANC_SPEECHES)
        w = "".join(rnd.choice(KANJI) for _ in range(rnd.randint(1, 2))) + (r[-1] if rnd.random() < 0.3 else "")
        if rnd.random() < 0.06:
            w = r                                      # written exactly as it is read (さくら/さくら)
        std.append([r, w, sp])
        if rnd.random() < 0.15:      # duplicate word / same reading different word
            std.append([r, rnd.choice([w, rnd.choice(KANJI)]), rnd.choice(STD_SPEECHES)])
    for _ in range(rnd.randint(0, 10 if small else 20)):
        r = reading(2)
        sp = rnd.choice(ANC_SPEECHES)
        w = r if isinstance(sp, dict) and "Particle" in sp or sp == "AuxiliaryVerb" else rnd.choice(KANJI)
        anc.append([r, w, sp])
    # an ancillary word written like an independent word (的/てき next to 的/まと): learned counts are kept per written form
    if std and rnd.random() < 0.3:
        for _ in range(rnd.randint(1, 2)):
            anc.append([reading(2), rnd.choice(std)[1], rnd.choice([{"Affix": "Suffix"}, {"Affix": "Prefix"}, "AuxiliaryVerb", "Counter", {"Particle": "Case"}])])
    # independent-looking words kept in the ancillary dictionary (formal nouns, adverbs ...): no context lets them head a result
    if rnd.random() < 0.2:
        for _ in range(rnd.randint(1, 2)):
            anc.append([reading(2), rnd.choice(KANJI), rnd.choice([{"Noun": "Common"}, "Adverb", "PreNounAdjectival", {"Noun": "Sahen"}, "Conjunction"])])
    # two head prefixes of which one is a prefix of the other (お / おお)
    if rnd.random() < 0.2:
        r1 = reading(1)
        anc.append([r1, rnd.choice(KANJI), {"Affix": "Prefix"}])
        anc.append([r1 + rnd.choice(alpha), rnd.choice(KANJI), {"Affix": "Prefix"}])
    # alphabetic readings (tel, ok): the input may spell them in another case, which is NOT the dictionary reading
    if rnd.random() < 0.2:
        for _ in range(rnd.randint(1, 2)):
            std.append(["".join(rnd.choice("abekotl") for _ in range(rnd.randint(1, 3))), rnd.choice(KANJI) + rnd.choice(KANJI), rnd.choice([{"Noun": "Common"}, {"Noun": "Proper"}])])
    # prefix / suffix sharing a reading (the F10 shape) now and then
    if rnd.random() < 0.2:
        r = reading(2)
        anc.append([r, rnd.choice(KANJI), {"Affix": "Prefix"}])
        anc.append([r, rnd.choice(KANJI), {"Affix": "Suffix"}])
    return {"alphabet": FULL_ALPHA, "std": std, "anc": anc}, alpha


def gen_input(rnd, d, alpha, maxlen=8):
    words = d["std"] + d["anc"]
    s = ""
    while len(s) < rnd.randint(1, maxlen):
        k = rnd.random()
        if words and k < 0.7:
            w = rnd.choice(words)[0]
            if w.isascii() and rnd.random() < 0.6:
                w = "".join(c.upper() if rnd.random() < 0.5 else c for c in w)      # Tel, OK: not the reading tel, ok
            s += w
        else:
            s += rnd.choice(alpha)
    if rnd.random() < 0.1:
        s += rnd.choice("xy漢ー")       # characters outside every reading
    s = s[:maxlen + 2]
    if s and rnd.random() < 0.1:
        # a character no reading contains (punctuation, katakana, digit) in the MIDDLE or at the head: words before it are still offered,
        # it stays in the candidate as it is (katakana is not hiragana)
        k = rnd.randrange(len(s) + 1)
        s = s[:k] + rnd.choice(["、", "。", "デ", "ハ", "ン", "ァ", "ヴ", "7", "Q", "・", "\u3099", "\u309a", "ゝ", "ｶ"]) + s[k:]
    if rnd.random() < 0.12:
        # white space and other characters no reading contains, at either end: they stay in the candidate as they are
        ws = rnd.choice([" ", "\n", "\t", "\u3000", "\r\n", "\u00a0", "A", "１"])
        s = ws + s if rnd.random() < 0.5 else s + ws
    return s


def gen_freq(rnd, d):
    f = []
    if rnd.random() < 0.5:
        return f
    for w in rnd.sample(d["std"], min(len(d["std"]), rnd.randint(1, 4))):
        f.append([rnd.choice(CONTEXTS), w[1], rnd.randint(1, 5) if rnd.random() < 0.8 else rnd.choice([rnd.randint(11, 60), 255, 256, 65535, 65536, 70000]), 0])
    return f


# ---------------------------------------------------------------- Coq rendering
def coq_word3(w):
    return "{| w_word := %s; w_reading := %s; w_speech := %s |}" % (cstr(w[1]), cstr(w[0]), coq_speech(w[2]))


def coq_dict(d):
    return "{| d_std := %s; d_anc := %s |}" % (clist([coq_word3(w) for w in d["std"] + d.get("std_map_only", [])]), clist([coq_word3(w) for w in d["anc"]]))


def coq_freq(f):
    # the harness applies update_word count times per entry; entries with the same key accumulate
    acc = {}
    for c, w, n, _ in f:
        acc[(c, w)] = acc.get((c, w), 0) + n
    return clist(["(%s, %s, %d%%Z)" % (CTX_COQ[c], cstr(w), n) for (c, w), n in acc.items()])


def coq_lnode(nd):
    n = nd["node"] if "node" in nd else nd
    i, j = n["id"]
    if n["kind"] == "word":
        k = "KWord {| w_word := %s; w_reading := %s; w_speech := %s |}" % (cstr(n["surface"]), cstr(n["reading"]), coq_speech(n["speech"]))
    else:
        k = "KVirtual %s" % cstr(n["surface"])
    sc = n["fscore"] if n["fscore"] is not None else -2147483648
    return "{| n_end := %d%%nat; n_slot := %d%%nat; n_kind := %s; n_score := (%d)%%Z |}" % (i, j, k, sc)


def coq_id(i):
    if i == "bos":
        return "IBos"
    if i == "eos":
        return "IEos"
    return "(IAt %d%%nat %d%%nat)" % (i[0], i[1])


EXTRA = """
Inductive nid := IBos | IEos | IAt (i j : nat).
Definition nid_of (p : pnode) : nid := match p with PBos => IBos | PEos => IEos | PNode n => IAt (n_end n) (n_slot n) end.
Definition nid_eqb (a b : nid) : bool :=
  match a, b with IBos, IBos | IEos, IEos => true | IAt i j, IAt i' j' => Nat.eqb i i' && Nat.eqb j j' | _, _ => false end.
Definition nkind_eqb (a b : nkind) : bool :=
  match a, b with KWord x, KWord y => word_eqb x y | KVirtual x, KVirtual y => str_eqb x y | _, _ => false end.
Definition lnode_eqb (a b : lnode) : bool :=
  Nat.eqb (n_end a) (n_end b) && Nat.eqb (n_slot a) (n_slot b) && nkind_eqb (n_kind a) (n_kind b) && (n_score a =? n_score b)%Z.
Fixpoint list_eqb {A} (e : A -> A -> bool) (a b : list A) : bool :=
  match a, b with [], [] => true | x :: a', y :: b' => e x y && list_eqb e a' b' | _, _ => false end.
Record qcase := { q_input : str; q_dict : dict; q_ctx : context; q_freq : freq; q_n : nat;
                  q_panics : bool; q_lattice : list (list lnode); q_cands : list (str * Z * list nid) }.
Definition cand_eqb (c : cand) (e : str * Z * list nid) : bool :=
  let '(t, p, ids) := e in
  str_eqb (cand_text c) t && (c_prio c =? p)%Z && list_eqb nid_eqb (map nid_of (c_chain c)) ids.
Fixpoint cands_eqb (a : list cand) (b : list (str * Z * list nid)) : bool :=
  match a, b with [], [] => true | x :: a', y :: b' => cand_eqb x y && cands_eqb a' b' | _, _ => false end.
Definition qcheck (q : qcase) : bool :=
  match from_input (q_input q) (q_dict q) (q_ctx q) with
  | Panic => q_panics q
  | Err => false
  | Ok g =>
    negb (q_panics q) &&
    let g' := forward_dp (q_ctx q) (q_freq q) g in
    list_eqb (list_eqb lnode_eqb) g' (q_lattice q) &&
    match n_best 200000 (q_ctx q) (q_freq q) g' (q_n q) with
    | Some r => cands_eqb r (q_cands q)
    | None => false
    end
  end.
"""


def coq_qcase(q, r):
    if "panic" in r:
        return "{| q_input := %s; q_dict := %s; q_ctx := %s; q_freq := %s; q_n := %d%%nat; q_panics := true; q_lattice := []; q_cands := [] |}" % (
            cstr(q["input"]), coq_dict(q["dict"]), CTX_COQ[q["context"]], coq_freq(q["freq"]), q["n"])
    lat = clist([clist([coq_lnode(n) for n in at]) for at in r["lattice"]])
    cands = clist(["(%s, (%d)%%Z, %s)" % (cstr(c["text"]), c["priority"], clist([coq_id(n["id"]) for n in c["nodes"]])) for c in r["candidates"]])
    return "{| q_input := %s; q_dict := %s; q_ctx := %s; q_freq := %s; q_n := %d%%nat; q_panics := false; q_lattice := %s; q_cands := %s |}" % (
        cstr(q["input"]), coq_dict(q["dict"]), CTX_COQ[q["context"]], coq_freq(q["freq"]), q["n"], lat, cands)


# ---------------------------------------------------------------- path enumeration on the implementation's own lattice
def all_paths(r, limit=200000):
    """every BOS->EOS chain through the implementation's predecessor links, with its own scores.
    returns list of (text, score or None, ids) ; None when the enumeration exceeds the limit"""
    nodes = {}
    for at in r["lattice"]:
        for ln in at:
            nodes[tuple(ln["node"]["id"])] = ln
    out = []
    count = [0]

    def rec(cur_id, cur_ln, acc_score, surf, ids):
        # cur is the head of a partial chain (towards BOS); acc_score includes cur's node score and the edges after it
        for pid, es in cur_ln["preds"]:
            count[0] += 1
            if count[0] > limit:
                raise OverflowError
            if pid == "bos":
                sc = None if (acc_score is None or es is None) else acc_score + es
                out.append(("".join(reversed(surf)), sc, ["bos"] + list(reversed(ids))))
            else:
                p = nodes[tuple(pid)]
                ns = p["node_score"]
                sc = None if (acc_score is None or es is None or ns is None) else acc_score + es + ns
                rec(tuple(pid), p, sc, surf + [p["node"]["surface"]], ids + [list(pid)])
    try:
        eos = r["eos"]
        rec("eos", eos, 0, [], ["eos"])
    except OverflowError:
        return None
    return out


def make_queries(rnd, count, n_choices=(1, 2, 3, 5, 100), small=True, maxlen=8, contexts=CONTEXTS):
    qs = []
    while len(qs) < count:
        d, alpha = gen_dict(rnd, small)
        for _ in range(rnd.randint(1, 4)):
            qs.append({"op": "kkc_query", "dict": d, "context": rnd.choice(contexts), "freq": gen_freq(rnd, d),
                       "input": gen_input(rnd, d, alpha, maxlen), "n": rnd.choice(n_choices)})
    qs = qs[:count]
    # inputs longer than any plausible internal limit (65, 80, 129 characters): every character is still tiled
    for ln in (65, 80, 129):
        d, alpha = gen_dict(rnd, True)
        inp = ""
        while len(inp) < ln:
            inp += rnd.choice(d["std"] + d["anc"])[0] if rnd.random() < 0.8 else rnd.choice(alpha)
        qs.append({"op": "kkc_query", "dict": d, "context": rnd.choice(contexts), "freq": [], "input": inp[:ln], "n": 2})
    return qs


TEST_DIC = {"alphabet": FULL_ALPHA,
            "std": [["くるま", "車", {"Noun": "Common"}], ["くる", "来る", {"Verb": {"Hen": "カ"}}], ["くる", "繰る", {"Verb": {"Godan": "ラ"}}]],
            "anc": [["まで", "まで", {"Particle": "Adverbial"}], ["で", "で", {"Particle": "Case"}]]}


def exhaustive_queries(maxlen):
    """every input over a two-kana alphabet up to maxlen, on one dictionary that has every kind of word on those readings, in every context"""
    import itertools
    d = {"alphabet": FULL_ALPHA,
         "std": [["あ", "亜", {"Noun": "Common"}], ["あい", "愛", {"Noun": "Common"}], ["い", "井", {"Noun": "Proper"}], ["いあ", "医亜", {"Noun": "Sahen"}],
                 ["あ", "唖", {"Verb": {"Godan": "カ"}}], ["いい", "良", "Adjective"], ["あい", "藍", {"Noun": "Common"}], ["い", "い", {"Particle": "Case"}]],
         "anc": [["あ", "阿", {"Affix": "Prefix"}], ["い", "位", {"Affix": "Suffix"}], ["い", "い", {"Particle": "Adverbial"}], ["あ", "あ", "AuxiliaryVerb"],
                 ["いあ", "個", "Counter"], ["あい", "間", {"Affix": "Suffix"}], ["あ", "あ", {"Particle": "SentenceFinal"}]]}
    qs = []
    for n in range(1, maxlen + 1):
        for t in itertools.product("あい", repeat=n):
            for ctx in CONTEXTS:
                qs.append({"op": "kkc_query", "dict": d, "context": ctx, "freq": [[ctx, "愛", 2, 0]] if n % 2 else [], "input": "".join(t), "n": 3 if n > 4 else 1000000})
    return qs


def corpus_queries(heavy=False):
    qs = []
    for inp in ["くるまではしらなかった", "くるまで", "くる", "く", "くるまでくるまで", "xくるま"]:
        for ctx in CONTEXTS:
            qs.append({"op": "kkc_query", "dict": TEST_DIC, "context": ctx, "freq": [], "input": inp, "n": 100})
    # F10 shape: prefix and suffix sharing a reading, followed by a particle
    d = {"alphabet": FULL_ALPHA, "std": [["でん", "電", {"Noun": "Common"}]],
         "anc": [["しん", "新", {"Affix": "Prefix"}], ["しん", "心", {"Affix": "Suffix"}], ["は", "は", {"Particle": "Adverbial"}], ["こ", "個", "Counter"]]}
    for inp in ["しんは", "しんでん", "でんしん", "こは", "しんでんしんは"]:
        for ctx in CONTEXTS:
            qs.append({"op": "kkc_query", "dict": d, "context": ctx, "freq": [["Normal", "電", 3, 0]], "input": inp, "n": 100})
    # one text with very many tilings (the search meets thousands of duplicates before the next distinct text)
    d3 = {"alphabet": FULL_ALPHA, "std": [["くるま", "車", {"Noun": "Common"}], ["も", "藻", {"Noun": "Common"}]],
          "anc": [["も", "も", {"Particle": "Adverbial"}], ["もも", "もも", {"Particle": "Adverbial"}], ["も", "も", {"Affix": "Suffix"}]]}
    for inp, n in [("くるま" + "も" * 12, 3), ("くるま" + "も" * 14, 4)]:
        qs.append({"op": "kkc_query", "dict": d3, "context": "Normal", "freq": [], "input": inp, "n": n})
    # fewer distinct texts than n, each with thousands of tilings (particles モ / モモ, a suffix at every position): all of them are returned
    d4 = {"alphabet": FULL_ALPHA, "std": [["き", "木", {"Noun": "Common"}], ["きも", "肝", {"Noun": "Common"}]],
          "anc": [["も", "モ", {"Particle": "Adverbial"}], ["も", "藻", {"Affix": "Suffix"}], ["もも", "モモ", {"Particle": "Adverbial"}]]}
    if heavy:       # about 80 s in the model: only the n-best property's check carries it
        qs.append({"op": "kkc_query", "dict": d4, "context": "Normal", "freq": [], "input": "き" + "も" * 16, "n": 10})
    # a dictionary reading of 17 and of 20 kana at the head of the input
    long17, long20 = "あいうえおかきくけこさしすせそたち", "あいうえおかきくけこさしすせそたちつてと"
    d5 = {"alphabet": FULL_ALPHA, "std": [[long17, "長十七", {"Noun": "Common"}], [long20, "長二十", {"Noun": "Common"}], ["あい", "愛", {"Noun": "Common"}]], "anc": [["で", "で", {"Particle": "Case"}]]}
    for inp in [long17, long17 + "で", long20 + "で", long17[:16], long20[:19]]:
        qs.append({"op": "kkc_query", "dict": d5, "context": "Normal", "freq": [], "input": inp, "n": 1000000})
    # a combining (han)dakuten after a kana is a character of its own: か + U+3099 is not が
    d6 = {"alphabet": FULL_ALPHA, "std": [["がっこう", "学校", {"Noun": "Common"}], ["か", "可", {"Noun": "Common"}], ["っこう", "結構", {"Noun": "Common"}], ["ぱん", "麺麭", {"Noun": "Common"}]],
          "anc": [["お", "御", {"Affix": "Prefix"}]]}
    for inp in ["か\u3099っこう", "おか\u3099っこう", "は\u309aん", "がっこう", "か\u3099"]:
        qs.append({"op": "kkc_query", "dict": d6, "context": "Normal", "freq": [], "input": inp, "n": 100})
    # alphabetic readings: the input in another case is not the reading
    d7 = {"alphabet": FULL_ALPHA, "std": [["tel", "電話", {"Noun": "Common"}], ["ok", "了解", {"Noun": "Common"}], ["あい", "愛", {"Noun": "Common"}]], "anc": [["で", "で", {"Particle": "Case"}]]}
    for inp in ["Telで", "TELで", "tEl", "OKで", "oK", "telで", "okで", "あいOK"]:
        qs.append({"op": "kkc_query", "dict": d7, "context": "Normal", "freq": [], "input": inp, "n": 100})
    # voiced / unvoiced neighbours after a prefix (おざけ is not お + さけ)
    d2 = {"alphabet": FULL_ALPHA, "std": [["さけ", "酒", {"Noun": "Common"}], ["かみ", "紙", {"Noun": "Common"}], ["はし", "箸", {"Noun": "Common"}]],
          "anc": [["お", "御", {"Affix": "Prefix"}], ["てき", "的", {"Affix": "Suffix"}]]}
    for inp in ["おざけ", "おがみ", "おばし", "おぱし", "おさけ", "おかみてき", "おがみてき"]:
        for ctx in ("Normal", "ForeignWord"):
            qs.append({"op": "kkc_query", "dict": d2, "context": ctx, "freq": [], "input": inp, "n": 100})
    return qs


def model_correspondence(res, name, qs, rs, shard=None):
    okm, mlog = coq_make(["Kkc/Search.v"])
    if not okm:
        res.tie_broken("model does not build: Kkc/*.v", coq_failing_file(mlog))
        return 0
    cases, idx = [], []
    for i, (q, r) in enumerate(zip(qs, rs)):
        cases.append(coq_qcase(q, r))
        idx.append(i)
    okc, failing, clog = run_coq_cases(name, IMPORTS, "qcase", "qcheck", cases, shard=shard or min(100, max(8, len(cases) // 16 + 1)), extra_defs=EXTRA, timeout=2400)
    if not okc:
        res.tie_broken("correspondence: evaluating the kkc model failed", clog)
    # where do they differ?  If the lattice (nodes and forward scores) is the same and the SCORES of the returned texts are not those of
    # the model's list, the implementation's list is not the n best of its own lattice: the model's list is the kernel-proved optimum
    # (C02_nbest) for exactly that lattice.  That input is a concrete failing input of the n-best property.
    diag = {}
    if failing:
        sub = [cases[i] for i in failing[:40]]
        DIAG = EXTRA + """
Definition lattice_same (q : qcase) : bool :=
  match from_input (q_input q) (q_dict q) (q_ctx q) with
  | Ok g => negb (q_panics q) && list_eqb (list_eqb lnode_eqb) (forward_dp (q_ctx q) (q_freq q) g) (q_lattice q)
  | _ => false
  end.
Definition prios_same (q : qcase) : bool :=
  match from_input (q_input q) (q_dict q) (q_ctx q) with
  | Ok g => match n_best 200000 (q_ctx q) (q_freq q) (forward_dp (q_ctx q) (q_freq q) g) (q_n q) with
            | Some r => list_eqb Z.eqb (map c_prio r) (map (fun e => snd (fst e)) (q_cands q))
            | None => false
            end
  | _ => false
  end.
"""
        ok_a, f_a, _ = run_coq_cases(name + "dA", IMPORTS, "qcase", "lattice_same", sub, shard=5, extra_defs=DIAG, timeout=2400)
        ok_b, f_b, _ = run_coq_cases(name + "dB", IMPORTS, "qcase", "prios_same", sub, shard=5, extra_defs=DIAG, timeout=2400)
        if ok_a and ok_b:
            for k, i in enumerate(failing[:40]):
                diag[i] = ("lattice differs" if k in f_a else ("same lattice, other scores in the list" if k in f_b else "same lattice and scores, other order / chains / texts among equal scores"))
    for i in failing[:10]:
        q, r = qs[idx[i]], rs[idx[i]]
        if name == "C02" and diag.get(i) == "same lattice, other scores in the list":
            res.violation(f"the list returned for {q['input']!r} (n = {q['n']}) is not the n best distinct texts of the implementation's own lattice: lattice and forward scores equal the model's, "
                          f"whose list is the proved optimum, but the returned scores {[c['priority'] for c in r.get('candidates', [])][:12]} differ from the optimum's",
                          {"query": q, "impl_candidates": [(c["text"], c["priority"]) for c in r.get("candidates", [])]})
            continue
        res.tie_broken("correspondence: model and implementation differ (%s)" % diag.get(i, "lattice, forward scores, or candidate list incl. order and chains"),
                       {"query": q, "impl_candidates": [c["text"] for c in r.get("candidates", [])], "impl_panic": r.get("panic")})
    return len(cases)


KKC_PROOF_CONE = KKC_MODEL + ["Kkc/Paths.v", "Kkc/HeapProofs.v", "Kkc/ForwardProofs.v", "Kkc/SearchProofs.v", "Kkc/LatticeWf.v", "Kkc/LatticePaths.v",
                              "Kkc/LatticeMono.v", "Kkc/LatticeEnum.v", "Kkc/ContextProofs.v", "Kkc/Compose.v", "Kkc/Compose2.v", "Props/C02.v", "Props/Lattice.v"]


def theorems_of(props_file):
    p = os.path.join(COQ, props_file)
    if not os.path.exists(p):
        return []
    return re.findall(r"^Theorem (\w+)", strip_coq_comments(open(p).read()), re.M)


def stats(qs, rs):
    d = {"queries": len(qs), "with_virtual_tail": 0, "multi_candidate": 0, "ties": 0, "truncated": 0, "contexts": {}, "input_len": {}}
    for q, r in zip(qs, rs):
        if "panic" in r:
            continue
        cs = r["candidates"]
        d["contexts"][q["context"]] = d["contexts"].get(q["context"], 0) + 1
        L = len(q["input"])
        d["input_len"][L] = d["input_len"].get(L, 0) + 1
        if any(n["kind"] == "virtual" for c in cs for n in c["nodes"]):
            d["with_virtual_tail"] += 1
        if len(cs) >= 2:
            d["multi_candidate"] += 1
        ps = [c["priority"] for c in cs]
        if len(set(ps)) < len(ps):
            d["ties"] += 1
        if len(cs) == q["n"]:
            d["truncated"] += 1
    return d


def kkc_run(prop, tier, seed, props_file, extra_cone, predicate, nq_quick=400, nq_thorough=12000, make_q=None, level_note=None, extra_trusted=()):
    """common driver: proof steps, queries on the implementation, predicate, model correspondence, evidence"""
    res = Result(prop, tier, seed)
    rnd = random.Random(seed)
    thms = theorems_of(props_file)
    cone = KKC_PROOF_CONE + extra_cone + [props_file]
    info = standard_proof_steps(res, KKC_GENS, props_file, cone, "Props." + os.path.basename(props_file)[:-2], thms)
    okh, hlog = build_harness()
    if not okh:
        res.tie_broken("harness build failed", hlog[-1500:])
        return res.finish({"obligations": info["obligations"], "discharged": info["discharged"], "checker_cmd": "make", "trusted_base": TRUSTED_COMMON}, [])
    nq = nq_quick if tier == "quick" else nq_thorough
    qs = corpus_queries(heavy=(prop == "C02")) + exhaustive_queries(4 if tier == "quick" else 7) + (make_q(rnd, nq) if make_q else make_queries(rnd, nq))
    rs = harness_parallel(qs, chunk=max(20, len(qs) // 32))
    nontrivial = 0
    for q, r in zip(qs, rs):
        if "panic" in r:
            res.violation(f"conversion of {q['input']!r} panics: {r['panic']}", {"query": q, "panic": r["panic"]})
            continue
        nontrivial += 1 if predicate(res, q, r) else 0
    n_model = model_correspondence(res, prop, qs, rs)
    cov = {
        "obligations": info["obligations"], "discharged": info["discharged"],
        "checker_cmd": f"cd /verif/coq && make {props_file[:-2]}.vo + Print Assumptions on {len(thms)} theorems",
        "trusted_base": TRUSTED_COMMON + ["std BinaryHeap modelled by the replica Kkc/Heap.v (order incl. ties compared on every case)",
                                          "i32 score overflow not modelled (inputs / counts below 2^31 path score)",
                                          "dictionary = list of words looked up by reading (HashMap keyed by the word's own reading)"] + list(extra_trusted),
        "axioms": info["axioms"],
        "evaluations": len(qs), "distinct_nontrivial": nontrivial,
        "traces_validated_against_impl": n_model,
        "input_distribution": stats(qs, rs),
        "samples": [{"input": q["input"], "context": q["context"], "n": q["n"], "std": q["dict"]["std"][:4], "anc": q["dict"]["anc"][:4],
                     "candidates": [c["text"] for c in r.get("candidates", [])][:5]} for q, r in list(zip(qs, rs))[44:47]],
    }
    return res, cov
