"""C18 - SKK import is total and everything it emits is a valid, faithful dictionary line."""
import json, random, sys, os
from vlib import *
from conv import *

PROP = "C18"
GENS = ["gen_speech", "gen_dicgrammar", "gen_conj", "gen_skk", "gen_skknotes"]
CONE = ["Base/Str.v", "Base/ListUtil.v", "Base/Classes.v", "Dic/Speech.v", "Dic/PegAlt.v", "Dic/TextFormat.v", "Dic/TextFormatProofs.v", "Dic/RestoreProofs.v",
        "Dic/ConjRule.v", "Dic/Conjugation.v", "Dic/Gojuon.v", "Dic/ConjProofs.v",
        "Skk/SkkLine.v", "Skk/SkkProofs.v", "Skk/SkkParse.v", "Skk/Notes.v", "Skk/NotesConv.v", "Skk/NotesProofs.v", "Skk/NotesParse.v", "Skk/NotesSer.v", "Skk/NotesPrint.v", "Skk/NotesFaithful.v", "Props/C18.v",
        "Gen/SpeechNames.v", "Gen/DicGrammar.v", "Gen/ConjTables.v", "Gen/SkkGrammar.v", "Gen/SkkOkuri.v"]
THEOREMS = ["C18_skk_faithful", "C18_simple_emitted_valid", "C18_nouns_line_to_dictionary", "C18_propers_line_to_dictionary", "C18_tankan_line_to_dictionary",
            "C18_notes_faithful", "C18_notes_total", "C18_notes_fail_only_unsupported", "C18_parse_note_wf", "C18_notes_emitted_valid",
            "C18_notes_line_to_dictionary", "C18_base_verb_conjugates", "C18_base_verb_refuted"]
IMPORTS = "From Chokan Require Import Base.Str Base.ListUtil Dic.Speech Skk.SkkLine Skk.Notes Skk.NotesConv Skk.NotesSer."

# ---- the property's own vocabulary (fixed here, not taken from the code) ---------------------------------------
KANA = [chr(c) for c in range(0x3041, 0x3094)] + ["ー"]
ROWS = ["ア", "カ", "サ", "タ", "ナ", "ハ", "マ", "ヤ", "ワ", "ラ", "ダ", "バ", "ガ", "ザ"]
ROW_LETTER = {"カ": "k", "ガ": "g", "サ": "s", "ザ": "z", "タ": "t", "ダ": "d", "ナ": "n", "ハ": "h", "バ": "b", "マ": "m", "ヤ": "y", "ラ": "r", "ワ": "w"}
GRID = {"ア": "あいうえお", "カ": "かきくけこ", "ガ": "がぎぐげご", "サ": "さしすせそ", "ザ": "ざじずぜぞ", "タ": "たちつてと", "ダ": "だぢづでど", "ナ": "なにぬねの",
        "ハ": "はひふへほ", "バ": "ばびぶべぼ", "マ": "まみむめも", "ヤ": "やいゆえよ", "ラ": "らりるれろ", "ワ": "わゐいうゑえをお"}
VERB_SUFFIX = [("行五段", "Godan"), ("行四段", "Yodan"), ("行上一", "KamiIchidan"), ("行下一", "SimoIchidan"), ("行上二", "KamiNidan"), ("行下二", "SimoNidan"), ("変", "Hen")]
NOUN_TAGS = ["サ変名詞", "代名詞", "名詞", "人称代名詞", "疑問代名詞", "連語", "複合語", "成句", "連句", "連濁"]
HEADERS = ["", "", "", "<base>", "(文語)", "文語", "(連濁)"]
WORD_POOL = list("食車来新心的力学生日本語漢字亜唖娃阿哀愛挨惜動") + list("あいうえおかきくけこんっゃゅょ") + list("アイウカサタナ") + \
    list("0123456789abcXYZ-_.,:!?()[]{}<>=+*&^%$#@~`'\"\\|") + ["々", "〆", "ヶ", "ー", "・", "〜", "😀", "𠮷", "é", "∥", "¶", "φ"]
ANNOT_POOL = WORD_POOL + [" ", ";", "\t"]
CLASS_POOL = list("abcdknz><#*-().") + ["φ"]
MUT_POOL = list("/\t ;,()[]-<>") + list("行五段四上一下二変名詞副助動形容連体接続感数") + ROWS + list("あんーk") + ["∥", "¶", "φ", "x", "\r", "\n", "　", "<base>", "∥<derived>", "∥<okuri-nasi>", "(-", "()", "[]", "－", "(－", "ｰ", "‐", "−"]
VCLS = ["Godan", "Yodan", "SimoIchidan", "KamiIchidan", "SimoNidan", "KamiNidan", "Hen"]


def ser_str(s):
    return [len(s)] + [ord(c) for c in s]


def cN(xs):
    return "[" + "; ".join(str(x) for x in xs) + "]"


def gen_kana(rnd, lo=1, hi=6):
    return "".join(rnd.choice(KANA) for _ in range(rnd.randint(lo, hi)))


def gen_word(rnd, pool=WORD_POOL, lo=1, hi=5):
    return "".join(rnd.choice(pool) for _ in range(rnd.randint(lo, hi)))


# ---- SKK-JISYO lines -----------------------------------------------------------------------------------------------
def gen_skk_line(rnd):
    reading = gen_kana(rnd)
    okuri = "".join(rnd.choice("abcdefghijklmnopqrstuvwxyz") for _ in range(rnd.choice([0, 0, 0, 1, 1, 2])))
    blanks = "".join(rnd.choice(" \t") for _ in range(rnd.randint(1, 3)))
    ws = []
    for _ in range(rnd.randint(1, 5)):
        w = gen_word(rnd, [c for c in WORD_POOL if c != ";"], 1, 1) if rnd.random() < 0.35 else gen_word(rnd, [c for c in WORD_POOL if c != ";"])
        a = gen_word(rnd, ANNOT_POOL, 0, 6) if rnd.random() < 0.4 else None
        ws.append((w, a))
    line = reading + okuri + blanks + "/" + "".join(w + (";" + a if a is not None else "") + "/" for w, a in ws)
    return line, {"reading": reading, "okuri": okuri or None, "words": [w for w, _ in ws]}


def ser_skk_impl(r):
    if "err" in r:
        return [0]
    if r["ok"] is None:
        return [1]
    e = r["ok"]
    out = [2] + ser_str(e["reading"]) + ([0] if e["okuri"] is None else [1] + ser_str(e["okuri"])) + [len(e["words"])]
    for w in e["words"]:
        out += ser_str(w)
    return out


def ser_entries_impl(r):
    if "err" in r:
        return [0]
    if r["ok"] is None:
        return [1]
    out = [2, len(r["ok"])]
    for e in r["ok"]:
        out += ser_str(e["line"])
    return out


# ---- notes lines -----------------------------------------------------------------------------------------------------
def gen_okuri(rnd):
    """(text, value) of one okuri() : one or two of fixed / class, the first counts"""
    def one():
        if rnd.random() < 0.5:
            items = [gen_kana(rnd, 1, 3) for _ in range(rnd.randint(1, 3))]
            return "(" + ",".join("-" + i for i in items) + ")", {"fix": items[0]}
        k = gen_word(rnd, CLASS_POOL, 1, 5)
        return "[" + k + "]", {"class": k}
    t, v = one()
    if rnd.random() < 0.25:
        t += one()[0]
    return t, v


def gen_alt(rnd, row_for_verbs=None):
    """(text, speech json or None for the ignored subsidiary verb)"""
    k = rnd.choice(["Noun", "Noun", "Verb", "Verb", "Verb", "Adjective", "AdjectivalVerb", "Adverb", "Counter", "Verbatim", "PreNoun", "Subsidiary", "ConjParticle", "Conjunction"])
    opt = (lambda: gen_okuri(rnd) if rnd.random() < 0.5 else ("", None))
    if k == "Noun":
        t = rnd.choice(NOUN_TAGS)
        ot, ov = opt()
        return t + ot, {"k": "Noun", "typ": t, "o": ov}
    if k == "Verb":
        if row_for_verbs and rnd.random() < 0.3:
            # the okuri letter names the row of the first okurigana kana, the verb conjugates in another row, a fixed okurigana
            # bridges the two:  かw /変;∥ラ行五段(-わる)/   (written stem 変, dictionary form 変わる)
            crow = rnd.choice(["カ", "サ", "タ", "マ", "ラ", "ワ", "ガ", "バ"])
            fix = rnd.choice(GRID[row_for_verbs][:5]) + GRID[crow][2 if crow != "ワ" else 3]
            return crow + "行五段(-" + fix + ")", {"k": "Verb", "form": {"Godan": crow}, "o": {"fix": fix}}
        row = row_for_verbs or rnd.choice(ROWS)
        suf, cls = rnd.choice(VERB_SUFFIX)
        ot, ov = opt()
        if row_for_verbs and ov is not None and "fix" in ov:
            return row + suf, {"k": "Verb", "form": {cls: row}, "o": None}       # keep the letter and the okurigana consistent
        return row + suf + ot, {"k": "Verb", "form": {cls: row}, "o": ov}
    tag = {"Adjective": "形容詞", "AdjectivalVerb": "形容動詞", "Adverb": "副詞", "Counter": "助数詞", "Verbatim": "感動詞", "PreNoun": "連体詞",
           "Subsidiary": "補助動詞", "ConjParticle": "接続助詞", "Conjunction": "接続詞"}[k]
    if k in ("AdjectivalVerb", "Adverb", "Counter", "Verbatim"):
        ot, ov = gen_okuri(rnd)
    else:
        ot, ov = opt()
    if k == "Subsidiary":
        return tag + ot, None
    return tag + ot, {"k": k, "o": ov}


def gen_note_line(rnd):
    headword = gen_kana(rnd, 1, 5)
    row = rnd.choice(ROWS)
    letter = ROW_LETTER.get(row, rnd.choice("aiueo"))
    okuri = letter if rnd.random() < 0.7 else ""
    blanks = "".join(rnd.choice(" \t") for _ in range(rnd.randint(1, 2)))
    stem_pool = [c for c in WORD_POOL if c != ";"]
    annot_pool = [c for c in ANNOT_POOL if c != "∥"]
    text, entries = "", []
    for _ in range(rnd.randint(1, 4)):
        stem = gen_word(rnd, stem_pool)
        kind = rnd.choice(["entry", "entry", "entry", "entry", "nasi", "derived", "bare", "annot"])
        annot = gen_word(rnd, annot_pool, 0, 5)
        if kind == "entry":
            alts = [gen_alt(rnd, row if okuri else None) for _ in range(rnd.choice([1, 1, 1, 2, 3]))]
            note = (rnd.choice(["", " ", "\t "]) + "¶" + gen_word(rnd, ANNOT_POOL, 0, 4)) if rnd.random() < 0.2 else ""
            text += "/" + stem + ";" + annot + "∥" + rnd.choice(HEADERS) + ",".join(t for t, _ in alts) + note
            entries += [{"stem": stem, "speech": v} for _, v in alts if v is not None]
        elif kind == "nasi":
            text += "/" + stem + ";" + annot + "∥<okuri-nasi>" + gen_word(rnd, ANNOT_POOL, 0, 4)
        elif kind == "derived":
            text += "/" + stem + ";" + annot + "∥<derived>" + gen_word(rnd, ANNOT_POOL, 0, 4)
        elif kind == "bare":
            text += "/" + stem
        else:
            text += "/" + stem + ";" + annot
    if okuri:
        # a one-grade (ichidan) verb keeps the row kana inside what precedes る: its headword ends in the i- / e-grade kana of the row
        classes = {list(e["speech"]["form"])[0] for e in entries if e["speech"]["k"] == "Verb"}
        if "KamiIchidan" in classes and "SimoIchidan" in classes:
            return gen_note_line(rnd)
        if "KamiIchidan" in classes:
            headword = headword[:-1] + GRID[row][1]
        elif "SimoIchidan" in classes:
            headword = headword[:-1] + GRID[row][3 if row != "ワ" else 5]
    line = headword + okuri + blanks + text + "/"
    want = {"headword": headword, "okuri": okuri, "entries": entries} if entries else None
    return line, want, (row if okuri else None)


def ser_okuri(o):
    return [1] + ser_str(o["fix"]) if "fix" in o else [2] + ser_str(o["class"])


def ser_opt_okuri(o):
    return [0] if o is None else ser_okuri(o)


def ser_speech(sp):
    k = sp["k"]
    if k == "Verb":
        (cls, row), = sp["form"].items()
        return [0, VCLS.index(cls), ord(row)] + ser_opt_okuri(sp["o"])
    if k == "Noun":
        return [4] + ser_str(sp["typ"]) + ser_opt_okuri(sp["o"])
    tag = {"Adjective": 1, "AdjectivalVerb": 2, "Adverb": 3, "Counter": 5, "Verbatim": 6, "PreNoun": 7, "ConjParticle": 8, "Conjunction": 9}[k]
    return [tag] + (ser_okuri(sp["o"]) if k in ("AdjectivalVerb", "Adverb", "Counter", "Verbatim") else ser_opt_okuri(sp["o"]))


def ser_note_impl(r):
    """(serialised parse result, serialised conversion) of a harness skk_note result"""
    if "err" in r:
        return [0], []
    if r["ok"] is None:
        return [1], []
    n = r["ok"]
    p = [2] + ser_str(n["headword"]) + ser_str(n["okuri"]) + [len(n["entries"])]
    for e in n["entries"]:
        p += ser_str(e["stem"]) + ser_speech(e["speech"])
    cv = r["conv"]
    if isinstance(cv, dict):
        return p, [9]
    c = [1, len(cv)]
    for x in cv:
        c += [1 if x["ancillary"] else 0] + ser_str(x["line"])
    return p, c


def mutate(rnd, line):
    if not line:
        return rnd.choice(MUT_POOL)
    k = rnd.randrange(3)
    i = rnd.randrange(len(line) + (1 if k == 1 else 0))
    if k == 0:
        return line[:i] + line[i + 1:]
    if k == 1:
        return line[:i] + rnd.choice(MUT_POOL) + line[i:]
    return line[:i] + rnd.choice(MUT_POOL) + line[i + 1:]


def random_unicode(rnd):
    def ch():
        k = rnd.random()
        if k < 0.3:
            return rnd.choice(MUT_POOL)
        if k < 0.6:
            return rnd.choice(KANA)
        if k < 0.8:
            return chr(rnd.randint(0x20, 0x7e))
        c = rnd.randint(0, 0x10ffff)
        return chr(c) if not (0xd800 <= c <= 0xdfff) else "𠮷"
    return "".join(ch() for _ in range(rnd.randint(0, 14)))


def check_emitted(res, what, line, em, want_reading, want_word, want_speech):
    """the emitted dictionary line is accepted by the text format and reads back as the same reading / word / speech"""
    rb = em["readback"]
    want = [{"reading": want_reading, "stem": want_word, "speech": want_speech}]
    if rb.get("ok") != want:
        res.violation(f"{what}: line {line!r} emits {em['line']!r}, which the dictionary format reads as {rb!r} instead of {want!r}",
                      {"kind": "emitted", "converter": what, "line": line, "emitted": em["line"], "readback": rb, "want": want})
        return False
    return True


def build_converters():
    from srv import TARGET_REPO
    env = dict(os.environ, CARGO_NET_OFFLINE="true", CARGO_TARGET_DIR=TARGET_REPO, RUSTFLAGS="--cfg chokan_verif")
    rc, out = sh(["timeout", "1500", "cargo", "build", "--offline", "-p", "skk-noun-converter", "-p", "skk-jinmei-converter", "-p", "skk-tankan-converter", "-p", "skk-notes-converter"], cwd=REPO, env=env)
    return rc == 0, out, os.path.join(TARGET_REPO, "debug")


def end_to_end(res, rnd, skk_lines, skk_results, note_lines, note_results):
    """the converters as programs: an EUC-JP file of well-formed lines with undecodable / unparsable lines in between; what is written must be
    exactly what the per-line functions emit for the lines of the file - one bad line never ends or aborts the import"""
    okb, blog, bindir = build_converters()
    if not okb:
        res.tie_broken("the SKK converters no longer build", blog[-1200:])
        return 0
    from srv import workdir, cleanup
    wd = workdir("c18e")
    n = 0
    junk = [b"\xff", b"\xa4", b"\x8e\xff\xff", b"\xff\xa4\xa2 /x/", b"\x8f\xa1", b"", b";; comment", b"abc /x/", b"\xa4\xa2\xa4\xa2"]
    # characters on which Python's euc_jp and the WHATWG EUC-JP decoder of encoding_rs disagree are kept out of the file; the notes
    # separator U+2225 is written as the bytes A1 C2, which encoding_rs decodes back to U+2225
    RISKY = set("\u301c\u2016\u2212\u00a2\u00a3\u00ac\u2014\u00a5\u203e\uff5e\uff0d\uffe0\uffe1\uffe2\u2015")
    def enc(l):
        return l.replace("\u2225", "\u2016").encode("euc_jp")
    try:
        def encodable(l):
            try:
                return "\n" not in l and "\r" not in l and not (set(l) & RISKY) and enc(l).decode("euc_jp").replace("\u2016", "\u2225") == l
            except UnicodeError:
                return False
        def make_file(name, items):
            """items: [(line, expected emitted lines)] ; returns the expected emitted lines of the whole file, in file order"""
            body, exp = [], []
            for l, e in items:
                if rnd.random() < 0.15:
                    body.append(rnd.choice(junk))
                body.append(enc(l))
                exp += e
            body.insert(len(body) // 2, b"\xff\xfe")
            open(os.path.join(wd, name), "wb").write(b"\n".join(body) + b"\n")
            return exp
        # noun / jinmei / tankan
        for tool, key, ordered in (("skk-noun-converter", "noun", True), ("skk-jinmei-converter", "prop", True), ("skk-tankan-converter", "tank", False)):
            items = []
            for l, rr in zip(skk_lines, skk_results[key]):
                if encodable(l) and "panic" not in rr:
                    items.append((l, [e["line"] for e in (rr.get("ok") or [])] if "err" not in rr else []))
            items = items[:300]
            exp = make_file(key + ".euc", items)
            pr = subprocess.run([os.path.join(bindir, tool), os.path.join(wd, key + ".euc")], stdout=subprocess.PIPE, stderr=subprocess.DEVNULL, timeout=120)
            rc, out = pr.returncode, pr.stdout.decode("utf-8", errors="replace")
            got = [x for x in out.split("\n") if x]
            n += len(items)
            if rc != 0:
                res.violation(f"{tool} exits with {rc} on a file of well-formed lines with a few undecodable lines in between: {out[-300:]}", {"kind": "e2e", "tool": tool})
            elif (got != exp) if ordered else (sorted(set(got)) != sorted(set(exp))):
                missing = [x for x in exp if x not in got][:3]
                extra = [x for x in got if x not in exp][:3]
                res.violation(f"{tool}: the written dictionary differs from what its lines say: missing {missing}, unexpected {extra} ({len(got)} vs {len(exp)} lines)",
                              {"kind": "e2e", "tool": tool, "missing": missing, "extra": extra})
        # notes (ancillary = affix entries are not written; the set is unordered)
        items = []
        for l, rr in zip(note_lines, note_results):
            if encodable(l) and "panic" not in rr and not isinstance(rr.get("conv"), dict):
                items.append((l, [c["line"] for c in (rr.get("conv") or []) if not c["ancillary"]] if rr.get("ok") else []))
        items = items[:400]
        exp = make_file("notes.euc", items)
        outp = os.path.join(wd, "notes.out")
        pr = subprocess.run([os.path.join(bindir, "skk-notes-converter"), os.path.join(wd, "notes.euc"), outp], stdout=subprocess.PIPE, stderr=subprocess.PIPE, timeout=120)
        rc, out = pr.returncode, pr.stderr.decode("utf-8", errors="replace")
        n += len(items)
        got = [x for x in open(outp, encoding="utf-8").read().split("\n") if x] if os.path.exists(outp) else []
        if rc != 0:
            res.violation(f"skk-notes-converter exits with {rc} on a file whose verbs are all supported: {out[-300:]}", {"kind": "e2e", "tool": "skk-notes-converter"})
        elif sorted(set(got)) != sorted(set(exp)):
            missing = [x for x in exp if x not in got][:3]
            extra = [x for x in got if x not in exp][:3]
            res.violation(f"skk-notes-converter: the written dictionary differs from what its lines say: missing {missing}, unexpected {extra} ({len(set(got))} vs {len(set(exp))} lines)",
                          {"kind": "e2e", "tool": "skk-notes-converter", "missing": missing, "extra": extra})
    finally:
        cleanup(wd)
    return n


def run(tier, seed):
    res = Result(PROP, tier, seed)
    rnd = random.Random(seed)
    info = standard_proof_steps(res, GENS, "Props/C18.v", CONE, "Props.C18", THEOREMS)
    okh, hlog = build_harness()
    if not okh:
        res.tie_broken("harness build failed (the code no longer compiles with the hooks?)", hlog[-1500:])
        return res.finish({"obligations": info["obligations"], "discharged": info["discharged"], "checker_cmd": "make (coqc) in /verif/coq",
                           "trusted_base": TRUSTED_COMMON}, [])
    n_skk = 400 if tier == "quick" else 20000
    n_notes = 600 if tier == "quick" else 30000
    n_bad = 1200 if tier == "quick" else 60000

    # ---- A: well-formed SKK-JISYO / jinmei lines: the parser returns exactly what is written; emitted lines read back
    skk = [gen_skk_line(rnd) for _ in range(n_skk)]
    skk += [("むち /鞭/無知/", {"reading": "むち", "okuri": None, "words": ["鞭", "無知"]}), ("むちf /無知/", {"reading": "むち", "okuri": "f", "words": ["無知"]}),
            ("あいざわ /相澤; test/相沢/", {"reading": "あいざわ", "okuri": None, "words": ["相澤", "相沢"]}),
            ("らーめん\t/拉麺;a;b c/ラーメン/", {"reading": "らーめん", "okuri": None, "words": ["拉麺", "ラーメン"]})]
    dist = {"skk_wellformed": len(skk), "skk_with_okuri": sum(1 for _, w in skk if w["okuri"]), "skk_words": sum(len(w["words"]) for _, w in skk)}
    lines = [l for l, _ in skk]
    r_line = harness_parallel([{"op": "skk_line", "line": l} for l in lines])
    r_noun = harness_parallel([{"op": "skk_nouns", "line": l} for l in lines])
    r_prop = harness_parallel([{"op": "skk_propers", "line": l} for l in lines])
    r_tank = harness_parallel([{"op": "skk_tankan", "line": l} for l in lines])
    for (l, want), a, b, c, d in zip(skk, r_line, r_noun, r_prop, r_tank):
        for nm, r in (("parse_skk_entry", a), ("parse_nouns", b), ("parse_propers", c), ("parse_tankan", d)):
            if "panic" in r:
                res.violation(f"{nm} panics on {l!r}: {r['panic']}", {"kind": "panic", "fn": nm, "line": l, "panic": r["panic"]})
        if a.get("ok") != want:
            res.violation(f"parse_skk_entry({l!r}) = {a!r}, the line says {want!r}", {"kind": "skk_faithful", "line": l, "got": a, "want": want})
            continue
        exp_noun = None if want["okuri"] else [(want["reading"], w, {"Noun": "Common"}) for w in want["words"]]
        exp_prop = [(want["reading"], w, {"Noun": "Proper"}) for w in want["words"]]
        t = [w for w in want["words"] if len(w) == 1]
        exp_tank = [(want["reading"], w, {"Noun": "Common"}) for w in t] if t else None
        for nm, r, exp in (("noun converter", b, exp_noun), ("jinmei converter", c, exp_prop), ("tankan converter", d, exp_tank)):
            if "panic" in r:
                continue
            got = r.get("ok")
            if exp is None:
                if got is not None:
                    res.violation(f"{nm}: {l!r} should emit nothing, emits {got!r}", {"kind": "simple_conv", "converter": nm, "line": l, "got": r})
                continue
            if got is None or len(got) != len(exp):
                res.violation(f"{nm}: {l!r} emits {got!r}, expected one entry per word {exp!r}", {"kind": "simple_conv", "converter": nm, "line": l, "got": r})
                continue
            for em, (rd, w, sp) in zip(got, exp):
                check_emitted(res, nm, l, em, rd, w, sp)

    # ---- B: well-formed notes lines
    notes = [gen_note_line(rnd) for _ in range(n_notes)]
    notes += [("をs /惜;∥形容詞(-しい)/", {"headword": "を", "okuri": "s", "entries": [{"stem": "惜", "speech": {"k": "Adjective", "o": {"fix": "しい"}}}]}, None),
              ("おんみつ /隠密;∥形容動詞[φdn(s)]/", {"headword": "おんみつ", "okuri": "", "entries": [{"stem": "隠密", "speech": {"k": "AdjectivalVerb", "o": {"class": "φdn(s)"}}}]}, None),
              ("ふ /不;∥副詞[>]/", {"headword": "ふ", "okuri": "", "entries": [{"stem": "不", "speech": {"k": "Adverb", "o": {"class": ">"}}}]}, None),
              ("み /a;∥マ行上一(-る)/", {"headword": "み", "okuri": "", "entries": [{"stem": "a", "speech": {"k": "Verb", "form": {"KamiIchidan": "マ"}, "o": {"fix": "る"}}}]}, None),
              ("にn /似;∥ナ行上一/", {"headword": "に", "okuri": "n", "entries": [{"stem": "似", "speech": {"k": "Verb", "form": {"KamiIchidan": "ナ"}, "o": None}}]}, "ナ"),
              ("ゐw /居;∥ワ行上二/", {"headword": "ゐ", "okuri": "w", "entries": [{"stem": "居", "speech": {"k": "Verb", "form": {"KamiNidan": "ワ"}, "o": None}}]}, "ワ"),
              ("くk /来;∥カ変/", {"headword": "く", "okuri": "k", "entries": [{"stem": "来", "speech": {"k": "Verb", "form": {"Hen": "カ"}, "o": None}}]}, "カ")]
    r_note = harness_parallel([{"op": "skk_note", "line": l} for l, _, _ in notes])
    n_emitted = n_unsupported = n_base_verbs = 0
    tags_seen = {}
    conj_jobs = []
    for (l, want, row), r in zip(notes, r_note):
        if "panic" in r:
            res.violation(f"parse_note panics on the well-formed line {l!r}: {r['panic']}", {"kind": "panic", "fn": "parse_note", "line": l, "panic": r["panic"]})
            continue
        if r.get("ok", "err") != want:
            res.violation(f"parse_note({l!r}) = {r.get('ok', 'error')!r}, the line says {want!r}", {"kind": "note_faithful", "line": l, "got": r.get("ok", "error"), "want": want})
            continue
        if want is None:
            continue
        for e in want["entries"]:
            tags_seen[e["speech"]["k"]] = tags_seen.get(e["speech"]["k"], 0) + 1
        cv = r["conv"]
        if isinstance(cv, dict):
            # the only permitted abort: the converter's explicit rejection of a conjugation it has no dictionary form for
            if not cv.get("panic", "").startswith("Can not get okuri"):
                res.violation(f"the notes converter aborts on {l!r} with {cv.get('panic')!r}, which is not its unsupported-conjugation rejection",
                              {"kind": "conv_panic", "line": l, "panic": cv.get("panic")})
            else:
                n_unsupported += 1
            continue
        # the part of speech a note NAMES is the part of speech of what is emitted for it (the tag names written down here from the notes'
        # vocabulary: 形容詞, 形容動詞, 副詞, 助数詞, 感動詞, 連体詞, 接続助詞, 接続詞, the noun tags, the verb classes)
        def kind_of(sp):
            if isinstance(sp, str):
                return {"PreNounAdjectival": "PreNoun"}.get(sp, sp)
            if isinstance(sp, dict) and len(sp) == 1:
                (k_, v_), = sp.items()
                return "ConjParticle" if (k_, v_) == ("Particle", "Conjunctive") else k_
            return "?"
        named, emitted_kinds = {e["speech"]["k"] for e in want["entries"]}, {kind_of(em["speech"]) for em in cv} - {"Affix"}      # a [<] / [>] class adds the word as a suffix / prefix too
        if named != emitted_kinds:
            res.violation(f"the note {l!r} names the parts of speech {sorted(named)} but the converter emits {sorted(emitted_kinds)}: {[em['line'] for em in cv][:6]!r}",
                          {"kind": "note_speech", "line": l, "named": sorted(named), "emitted": [em["line"] for em in cv]})
        for em in cv:
            n_emitted += 1
            if not check_emitted(res, "notes converter", l, em, em["headword"], em["word"], em["speech"]):
                continue
            if isinstance(em["speech"], dict) and "Verb" in em["speech"] and row is not None:
                conj_jobs.append((l, row, em))
    # base verb notes conjugate in the row named by the okuri letter
    r_conj = harness_parallel([{"op": "dic_conj", "entry": {"reading": em["headword"], "stem": em["word"], "speech": em["speech"]}} for _, _, em in conj_jobs])
    for (l, row, em), r in zip(conj_jobs, r_conj):
        n_base_verbs += 1
        (cls, vrow), = em["speech"]["Verb"].items()
        if "panic" in r:
            if (cls, vrow) == ("KamiNidan", "ワ"):
                res.known("F19", "the notes converter emits ワ行上二 verbs, for which chokan-dic has no conjugation row (C18_base_verb_refuted)")
            else:
                res.violation(f"the verb entry {em['line']!r} emitted for {l!r} cannot be conjugated: {r['panic']}", {"kind": "base_verb", "line": l, "emitted": em["line"], "panic": r["panic"]})
            continue
        # judged on the reading side against the row the okuri LETTER names: some conjugated reading continues the SKK headword with a
        # kana of that row, or - where the row kana belongs to the stem itself (the one-grade verbs written like 経る, and the k-irregular
        # verb く -> こ/き/く) - has a kana of that row AT the headword's last position
        hw = next(w["headword"] for (l2, w, _r) in notes if l2 == l and w)
        rds = [rd for _, rd in r.get("ok", [])]
        ok_row = any((rd.startswith(hw) and len(rd) > len(hw) and rd[len(hw)] in GRID[row]) or
                     (rd.startswith(hw[:-1]) and len(rd) >= len(hw) and rd[len(hw) - 1] in GRID[row]) for rd in rds)
        if not ok_row:
            res.violation(f"no conjugated word of {em['line']!r} (from {l!r}) continues the headword {hw!r} with a kana of row {row}, the row its okuri letter names: {sorted(set(rds))[:8]!r}",
                          {"kind": "base_verb_row", "line": l, "emitted": em["line"], "readings": rds})

    # ---- C: arbitrary text: every parser and converter returns a value (model = implementation), never panics
    bad = []
    base = lines + [l for l, _, _ in notes]
    for _ in range(n_bad):
        if rnd.random() < 0.75:
            l = rnd.choice(base)
            for _ in range(rnd.randint(1, 3)):
                l = mutate(rnd, l)
        else:
            l = random_unicode(rnd)
        bad.append(l)
    bad += ["", ";", "; comment", ";; okuri-ari entries.\n", " ", "/", "あ", "あ ", "あ /", "あ //", "あ /;/", "あ /a", "あ /a/b", "あ /a;/", "あ /亜;∥/", "あ /亜;∥名詞()/", "あ /亜;∥名詞(-)/", "あ /亜;∥名詞(－れる)/", "うごk /動;∥カ行五段(－く)/", "あ /亜;∥名詞(‐れる)/", "あ /亜;∥形容詞(-い,－く)/",
            "あ /亜;∥名詞(,-あ)/", "あ /亜;∥名詞[]/", "あ /亜;∥名詞,/", "あ /亜;∥,名詞/", "あ /亜;∥副詞/", "あ /亜;∥ア行五段/", "あ /亜;∥ワ行上二/", "あ /亜;∥ア変/", "あ /a b;∥名詞/",
            "あ /a\tb/", "あ /a b/", "み /a;∥マ行上一(-る)/", "み /é;∥形容詞(-い)/", "い /い;∥形容詞/", "あ /亜;∥形容動詞(-だ)/", "あ /😀;∥カ行五段(-く)/", "あ /亜;∥<okuri-nasi>/", "あ /亜;∥<derived>x/",
            "あ /亜∥名詞/", "あ\t/亜;∥名詞/\n", "あk/亜;∥名詞/", "あkk /亜;∥名詞/", "ア /亜;∥名詞/", "あ /亜;∥名詞/ ", "あ /亜;∥補助動詞/", "あ /亜;∥補助動詞,名詞/", "あ /亜;∥名詞 ¶note/", "あ /亜;∥文語名詞/"]
    rb_line = harness_parallel([{"op": "skk_line", "line": l} for l in bad])
    rb_noun = harness_parallel([{"op": "skk_nouns", "line": l} for l in bad])
    rb_prop = harness_parallel([{"op": "skk_propers", "line": l} for l in bad])
    rb_tank = harness_parallel([{"op": "skk_tankan", "line": l} for l in bad])
    rb_note = harness_parallel([{"op": "skk_note", "line": l} for l in bad])
    outcomes = {"skk_err": 0, "skk_ok": 0, "note_err": 0, "note_none": 0, "note_some": 0, "note_conv_rejected": 0}
    for l, a, b, c, d, n in zip(bad, rb_line, rb_noun, rb_prop, rb_tank, rb_note):
        for nm, r in (("parse_skk_entry", a), ("parse_nouns", b), ("parse_propers", c), ("parse_tankan", d), ("parse_note", n)):
            if "panic" in r:
                res.violation(f"{nm} panics on {l!r}: {r['panic']}", {"kind": "panic", "fn": nm, "line": l, "panic": r["panic"]})
        outcomes["skk_err" if "err" in a else "skk_ok"] += 1
        if "err" in n:
            outcomes["note_err"] += 1
        elif n.get("ok") is None:
            outcomes["note_none"] += 1
        elif "panic" not in n:
            outcomes["note_some"] += 1
            cv = n["conv"]
            if isinstance(cv, dict):
                if cv.get("panic", "").startswith("Can not get okuri"):
                    outcomes["note_conv_rejected"] += 1
                else:
                    res.violation(f"the notes converter aborts on {l!r} with {cv.get('panic')!r}, which is not its unsupported-conjugation rejection",
                                  {"kind": "conv_panic", "line": l, "panic": cv.get("panic")})
            elif "\n" not in l:
                for em in cv:
                    check_emitted(res, "notes converter", l, em, em["headword"], em["word"], em["speech"])
        if "\n" not in l:
            for nm, r in (("noun converter", b), ("jinmei converter", c), ("tankan converter", d)):
                for em in (r.get("ok") or []):
                    check_emitted(res, nm, l, em, em["entry"]["reading"], em["entry"]["stem"], em["entry"]["speech"])

    # ---- E2E: the converter programs on EUC-JP files
    n_e2e = end_to_end(res, rnd, lines, {"noun": r_noun, "prop": r_prop, "tank": r_tank}, [x[0] for x in notes], r_note)

    # ---- D: the model agrees with the implementation on every line above (well-formed and arbitrary)
    skk_cases, note_cases = [], []
    all_skk = list(zip(lines, r_line, r_noun, r_prop, r_tank)) + list(zip(bad, rb_line, rb_noun, rb_prop, rb_tank))
    skk_src = []
    for l, a, b, c, d in all_skk:
        if any("panic" in r for r in (a, b, c, d)):
            continue
        skk_src.append(l)
        skk_cases.append(f"({cstr(l)}, ({cN(ser_skk_impl(a))}, ({cN(ser_entries_impl(b))}, ({cN(ser_entries_impl(c))}, {cN(ser_entries_impl(d))}))))")
    note_src = []
    for l, r in list(zip([x[0] for x in notes], r_note)) + list(zip(bad, rb_note)):
        if "panic" in r:
            continue
        p, c = ser_note_impl(r)
        note_src.append(l)
        note_cases.append(f"({cstr(l)}, ({cN(p)}, {cN(c)}))")
    n_model = 0
    if info["ok_make"] or True:
        okm, _ = coq_make(["Skk/NotesSer.v"])
        if not okm:
            res.tie_broken("correspondence: coq/Skk/NotesSer.v does not build", "see make log")
        else:
            ok1, f1, log1 = run_coq_cases("c18skk", IMPORTS, "str * (str * (str * (str * str)))", "skk_case_ok", skk_cases, shard=300)
            ok2, f2, log2 = run_coq_cases("c18note", IMPORTS, "str * (str * str)", "note_case_ok", note_cases, shard=300)
            n_model = len(skk_cases) + len(note_cases)
            if not ok1 or not ok2:
                res.tie_broken("correspondence: evaluating the SKK models inside Coq failed", (log1 + log2)[-1500:])
            for i in f1[:10]:
                res.tie_broken(f"correspondence: Skk/SkkLine.v and the implementation disagree on {skk_src[i]!r}", {"line": skk_src[i], "case": skk_cases[i][:600]})
            for i in f2[:10]:
                res.tie_broken(f"correspondence: Skk/Notes.v / NotesConv.v and the implementation disagree on {note_src[i]!r}", {"line": note_src[i], "case": note_cases[i][:600]})

    dist.update({"notes_wellformed": len(notes), "notes_with_entries": sum(1 for _, w, _ in notes if w), "note_speech_kinds": tags_seen, "emitted_note_lines": n_emitted,
                 "notes_rejected_unsupported": n_unsupported, "base_verb_entries_conjugated": n_base_verbs, "arbitrary_lines": len(bad), "arbitrary_outcomes": outcomes, "lines_through_the_converter_programs": n_e2e})
    cov = {
        "obligations": info["obligations"], "discharged": info["discharged"], "checker_cmd": "make Props/C18.vo in /verif/coq + Print Assumptions",
        "trusted_base": TRUSTED_COMMON + ["the notes grammar and the converter functions are modelled by hand (Skk/Notes.v, Skk/NotesConv.v) against a hash-pinned source text; the okurigana table is generated",
                                          "the SKK line grammar's rule shapes are pinned, its character classes generated",
                                          "reading the EUC-JP file, splitting it into lines and the HashSet de-duplication in the converters' main.rs are not modelled; they are exercised end to end on generated EUC-JP files with undecodable lines"],
        "axioms": info["axioms"],
        "evaluations": len(skk) * 4 + len(notes) + len(bad) * 5, "distinct_nontrivial": dist["notes_with_entries"] + dist["skk_wellformed"],
        "rule": "generated well-formed SKK lines (readings, okuri letters, blanks, words, annotations) and notes lines (all tags, fixed/class okuri, multi-entry, annotations, notes, derived / okuri-nasi / bare entries); "
                "mutations of those and random Unicode for totality; non-trivial = a well-formed line that yields entries",
        "traces_validated_against_impl": n_model,
        "input_distribution": dist,
        "samples": [skk[0][0], notes[0][0], bad[0]],
    }
    return res.finish(cov, ["lines contain no newline when emitted lines are judged (a line of a file never does)",
                            "F19: ワ行上二 is supported by the converter but has no conjugation row (known finding)"])


def replay(path):
    d = json.load(open(path))
    build_harness()
    rc = 0
    for v in d.get("violations", []):
        r = v["replay"]
        print(v["what"])
        if "line" in r:
            ops = {"parse_skk_entry": "skk_line", "parse_nouns": "skk_nouns", "parse_propers": "skk_propers", "parse_tankan": "skk_tankan"}
            op = ops.get(r.get("fn"), "skk_note" if r.get("kind") in ("note_faithful", "conv_panic", "base_verb", "base_verb_row") or r.get("converter") == "notes converter" else "skk_nouns")
            print("  now:", harness([{"op": op, "line": r["line"]}])[0])
        rc = 1
    return rc
