"""C10 - the text dictionary format round-trips every entry and isolates bad lines."""
import json, random, sys, os
from vlib import *
from conv import *

PROP = "C10"
GENS = ["gen_speech", "gen_dicgrammar"]
CONE = ["Base/Str.v", "Dic/Speech.v", "Dic/PegAlt.v", "Dic/TextFormat.v", "Dic/TextFormatProofs.v", "Props/C10.v",
        "Gen/SpeechNames.v", "Gen/DicGrammar.v"]
THEOREMS = ["C10_speech_space", "C10_speech_roundtrip", "C10_entry_roundtrip", "C10_injective", "C10_multi_speech",
            "C10_line_isolation", "C10_bad_line_skipped", "C10_file_roundtrip"]
IMPORTS = "From Chokan Require Import Base.Str Dic.Speech Dic.PegAlt Gen.SpeechNames Gen.DicGrammar Dic.TextFormat."

# the property's own vocabulary (fixed here, not taken from the code)
KANA = [chr(c) for c in range(0x3041, 0x3094)]           # ぁ .. ん
STEM_POOL = list("食車来新心的力学生日本語漢字亜唖娃阿哀愛挨") + list("あいうえおかきくけこんっゃゅょ") + list("アイウカサタナ") + \
    list("/;0123456789") + list("abcXYZ-_.,:!?()[]{}<>=+*&^%$#@~`'\"\\|") + ["々", "〆", "ヶ", "ー", "・", "〜", "😀", "𠮷", "é"]
MUT_POOL = list("/\t ;") + list("行五段四上一下二変名詞助動形容") + list("アカサタナハマヤワラダバガザイ") + list("あんー") + ["x", "\r", "　"]


def gen_reading(rnd, maxlen=8):
    return "".join(rnd.choice(KANA) for _ in range(rnd.randint(1, maxlen)))


def gen_stem(rnd, maxlen=6):
    return "".join(rnd.choice(STEM_POOL) for _ in range(rnd.randint(1, maxlen)))


def speech_name_py(lines_by_speech, sp):
    return lines_by_speech[speech_key(sp)]


def mutate(rnd, line):
    if not line:
        return rnd.choice(MUT_POOL)
    k = rnd.randrange(3)
    i = rnd.randrange(len(line) + (1 if k == 1 else 0))
    if k == 0:
        return line[:i] + line[i + 1:]
    if k == 1:
        return line[:i] + rnd.choice(MUT_POOL) + line[i:]
    return line[:i] + rnd.choice(MUT_POOL) + line[i + 1:]


def impl_parse_or_nil(r):
    return r["ok"] if "ok" in r else []


def run(tier, seed):
    res = Result(PROP, tier, seed)
    rnd = random.Random(seed)
    info = standard_proof_steps(res, GENS, "Props/C10.v", CONE, "Props.C10", THEOREMS)
    okm, mlog = coq_make(["Dic/TextFormat.v"])
    okh, hlog = build_harness()
    if not okh:
        res.tie_broken("harness build failed (the code no longer compiles with the hooks?)", hlog[-1500:])
        return res.finish({"obligations": info["obligations"], "discharged": info["discharged"], "checker_cmd": "make (coqc) in /verif/coq",
                           "trusted_base": TRUSTED_COMMON}, [])
    speeches = all_speeches_json()
    per_speech = 3 if tier == "quick" else 60
    n_corrupt = 1500 if tier == "quick" else 60000
    n_files = 40 if tier == "quick" else 1500

    # ---- A: every speech x random readings x random stems
    entries = []
    for sp in speeches:
        for _ in range(per_speech):
            entries.append({"reading": gen_reading(rnd), "stem": gen_stem(rnd), "speech": sp})
    # the shortest valid lines (one-character readings, one- and two-byte stems, the shortest speech names)
    short_sp = sorted(speeches, key=lambda sp: len(json.dumps(sp)))[:12]
    for rd in ["あ", "ん", "a", "z", "ー"]:
        for stem in ["1", "A", "/", ";", "é", "亜", "x9"]:
            entries.append({"reading": rd, "stem": stem, "speech": rnd.choice(short_sp)})
            entries.append({"reading": rd, "stem": stem, "speech": rnd.choice(speeches)})
    # a few hand-picked adversarial stems
    for stem in ["/", ";", "//", "/一般名詞/", ";comment", "形容詞", "あ/い", "1", "食べ/"]:
        entries.append({"reading": gen_reading(rnd), "stem": stem, "speech": rnd.choice(speeches)})
    printed = harness_parallel([{"op": "dic_print", "entry": e} for e in entries])
    lines = [p.get("ok") for p in printed]
    names = harness([{"op": "dic_speech_name", "speech": sp} for sp in speeches])
    name_of = {speech_key(sp): n["ok"] for sp, n in zip(speeches, names)}
    parsed = harness_parallel([{"op": "dic_parse", "line": l} for l in lines])

    # property predicate on the implementation: parse(print e) = [e]
    seen_lines = {}
    for e, l, p in zip(entries, lines, parsed):
        if p.get("ok") != [e]:
            res.violation(f"entry does not read back as itself: {e!r} printed as {l!r} parsed as {p!r}",
                          {"kind": "roundtrip", "entry": e, "line": l, "parsed": p})
        key = json.dumps(e, sort_keys=True, ensure_ascii=False)
        if l in seen_lines and seen_lines[l] != key:
            res.violation(f"two distinct entries print as the same line {l!r}", {"kind": "injective", "line": l, "a": json.loads(seen_lines[l]), "b": e})
        seen_lines[l] = key
        if "\n" in (l or ""):
            res.violation("printed entry spans more than one line", {"kind": "oneline", "entry": e, "line": l})

    # ---- B: multi-speech lines
    multi = []
    for _ in range(100 if tier == "quick" else 5000):
        sps = [rnd.choice(speeches) for _ in range(rnd.randint(2, 5))]
        r, s = gen_reading(rnd), gen_stem(rnd)
        line = r + "\t" + s + "\t" + "".join("/" + name_of[speech_key(sp)] for sp in sps) + "/"
        multi.append((r, s, sps, line))
    mparsed = harness_parallel([{"op": "dic_parse", "line": m[3]} for m in multi])
    for (r, s, sps, line), p in zip(multi, mparsed):
        want = [{"reading": r, "stem": s, "speech": sp} for sp in sps]
        if p.get("ok") != want:
            res.violation(f"multi-speech line {line!r} does not read as one entry per speech in order: {p!r}",
                          {"kind": "multi", "line": line, "want": want, "parsed": p})

    # ---- C: corrupted lines (model vs implementation only; both outcomes are legitimate)
    corrupt = []
    base_lines = [l for l in lines if l] + [m[3] for m in multi]
    for _ in range(n_corrupt):
        l = rnd.choice(base_lines)
        for _ in range(rnd.randint(1, 2)):
            l = mutate(rnd, l)
        if "\n" not in l:
            corrupt.append(l)
    corrupt += ["", ";", "; comment", ";\t", " ", "\t", "あ", "あ\t", "あ\t亜", "あ\t亜\t", "あ\t亜\t/", "あ\t亜\t//", "あ\t亜\t/助詞", "あ\t亜\t/助詞//",
                "あ\t亜\t/助詞/ ", "あ\t亜\t/助動詞/助詞/", "あ\t亜\t/イ行五段/", "あ\t亜\t/ア行/", "ー\t亜\t/一般名詞/", "a\t亜\t/一般名詞/", "あ \t亜\t/一般名詞/",
                "あ\t亜\t/一般名詞/\r", "ア\t亜\t/一般名詞/", "あ\t亜 亜\t/一般名詞/", "あ\t\t/一般名詞/"]
    cparsed = harness_parallel([{"op": "dic_parse", "line": l} for l in corrupt])

    # ---- D: files mixing valid, comment, blank, corrupt lines
    files = []
    for _ in range(n_files):
        ls = []
        for _ in range(rnd.randint(1, 12)):
            k = rnd.random()
            if k < 0.5:
                ls.append(rnd.choice(base_lines))
            elif k < 0.6:
                ls.append(";" + gen_stem(rnd))
            elif k < 0.7:
                ls.append("")
            else:
                ls.append(rnd.choice(corrupt))
        files.append(ls)
    # long files with many unparsable and blank lines (a reader that gives up after some errors shows only here)
    for _ in range(6 if tier == "quick" else 60):
        ls = []
        for _ in range(rnd.randint(60, 250)):
            k = rnd.random()
            ls.append(rnd.choice(base_lines) if k < 0.45 else ("" if k < 0.6 else (";" + gen_stem(rnd) if k < 0.65 else rnd.choice(corrupt))))
        ls.append(rnd.choice(base_lines))
        files.append(ls)
    # big files (tens of kilobytes: any internal buffer size is crossed many times, at every alignment of the multi-byte characters)
    for k in range(3 if tier == "quick" else 30):
        ls = [";" + "x" * k]                      # shifts the alignment of everything that follows by one byte per file
        for _ in range(rnd.randint(700, 1200)):
            ls.append(rnd.choice(base_lines) if rnd.random() < 0.95 else rnd.choice(corrupt))
        files.append(ls)
    fread = harness_parallel([{"op": "dic_readall", "content": "\n".join(ls)} for ls in files])
    flat_lines = sorted({l for ls in files for l in ls})
    lp = dict(zip(flat_lines, harness_parallel([{"op": "dic_parse", "line": l} for l in flat_lines])))
    for ls, fr in zip(files, fread):
        want = [e for l in ls for e in impl_parse_or_nil(lp[l])]
        if fr.get("ok") != want:
            res.violation(f"file of {len(ls)} lines is not read as the concatenation of its lines",
                          {"kind": "isolation", "lines": ls, "want": want, "got": fr})

    # ---- E: write_all then read_all
    wsets = []
    for _ in range(n_files):
        wsets.append([rnd.choice(entries) for _ in range(rnd.randint(0, 10))])
    written = harness_parallel([{"op": "dic_writeall", "entries": es} for es in wsets])
    reread = harness_parallel([{"op": "dic_readall", "content": w["ok"]} for w in written])
    for es, w, rr in zip(wsets, written, reread):
        if rr.get("ok") != es:
            res.violation("write_all then read_all does not give the entries back", {"kind": "file_roundtrip", "entries": es, "content": w, "read": rr})
        if w["ok"].count("\n") != len(es):
            res.violation("write_all does not write one line per entry", {"kind": "one_line_per_entry", "entries": es, "content": w})

    # ---- model vs implementation inside Coq
    def centries(lst):
        return clist([coq_entry(e) for e in lst])

    def copt_entries(p):
        return "(Some %s)" % centries(p["ok"]) if "ok" in p else "None"

    ccases = []
    origin = []
    for e, l in zip(entries, lines):
        ccases.append(f"CPrint {coq_entry(e)} {cstr(l)}")
        origin.append(("print", e, l))
    for l, p in list(zip(lines, parsed)) + [(m[3], p) for m, p in zip(multi, mparsed)] + list(zip(corrupt, cparsed)):
        if any(coq_speech(e["speech"]) is None for e in impl_parse_or_nil(p)):
            continue
        ccases.append(f"CParse {cstr(l)} {copt_entries(p)}")
        origin.append(("parse", l, p))
    for ls, fr in zip(files, fread):
        ccases.append(f"CRead {cstr(chr(10).join(ls))} {centries(fr['ok'])}")
        origin.append(("read_all", ls, fr))
    for es, w in zip(wsets, written):
        ccases.append(f"CWrite {centries(es)} {cstr(w['ok'])}")
        origin.append(("write_all", es, w))
    extra = """
Inductive ccase := CPrint (e : entry) (l : str) | CParse (l : str) (r : option (list entry))
  | CRead (c : str) (es : list entry) | CWrite (es : list entry) (c : str).
Fixpoint entries_eqb (a b : list entry) : bool :=
  match a, b with [], [] => true | x :: a', y :: b' => entry_eqb x y && entries_eqb a' b' | _, _ => false end.
Definition ccheck (c : ccase) : bool :=
  match c with
  | CPrint e l => str_eqb (print_entry e) l
  | CParse l r => match parse_line l, r with Some a, Some b => entries_eqb a b | None, None => true | _, _ => false end
  | CRead c es => entries_eqb (read_all c) es
  | CWrite es c => str_eqb (write_all es) c
  end.
"""
    n_model = 0
    if okm:
        okc, failing, clog = run_coq_cases("C10", IMPORTS, "ccase", "ccheck", ccases, shard=600, extra_defs=extra)
        n_model = len(ccases)
        if not okc:
            res.tie_broken("correspondence: evaluating the model on the cases failed", clog)
        for i in failing[:20]:
            res.tie_broken(f"correspondence: model and implementation differ on {origin[i][0]}", {"case": origin[i][1], "impl": origin[i][2]})
    else:
        res.tie_broken("model does not build: Dic/TextFormat.v", coq_failing_file(mlog))

    distinct = len({json.dumps(e, sort_keys=True) for e in entries}) + len(set(corrupt)) + len(multi)
    shared_prefix = sum(1 for e in entries if speech_key(e["speech"]) in
                        {speech_key(s) for s in ["Adverb", "Adjective", "AdjectivalVerb", "Conjunction", "AuxiliaryVerb", "Counter",
                                                  {"Particle": "Adverbial"}, {"Particle": "Other"}, {"Particle": "Conjunctive"}, {"Affix": "Prefix"}, {"Affix": "Suffix"}]})
    nontrivial = shared_prefix + len(set(corrupt))
    coverage = {
        "obligations": info["obligations"], "discharged": info["discharged"],
        "checker_cmd": "cd /verif/coq && make Props/C10.vo (coqc 8.16.1, full .vo) + Print Assumptions on %d theorems" % len(THEOREMS),
        "trusted_base": TRUSTED_COMMON + ["peg 0.8 semantics (ordered committed choice, greedy repetition, implicit end of input) as interpreted in Dic/PegAlt.v, Dic/TextFormat.v",
                                          "verb rows are single characters"],
        "axioms": info["axioms"],
        "evaluations": len(entries) + len(multi) + len(corrupt) + len(files) + len(wsets),
        "distinct_nontrivial": nontrivial,
        "rule": "entries = all 116 speeches x random kana readings x random stems (incl. '/', ';', digits, kanji, symbols); multi-speech lines; "
                "single/double character corruptions of valid lines; files mixing valid, comment, blank and corrupt lines; "
                "non-trivial = speech with a shared-prefix name, or a distinct corrupted line",
        "traces_validated_against_impl": n_model,
        "samples": [lines[0], lines[len(lines) // 2], multi[0][3], corrupt[0], corrupt[1], files[0]],
        "input_distribution": {"entries": len(entries), "multi_speech_lines": len(multi), "corrupt_lines": len(corrupt),
                               "corrupt_lines_still_valid": sum(1 for p in cparsed if "ok" in p), "files": len(files), "write_sets": len(wsets)},
    }
    return res.finish(coverage, ["peg crate semantics", "serde/JSON transport of strings between harness and driver",
                                 "kana reading = characters U+3041..U+3093 (the grammar's own class)"])


def replay(path):
    d = json.load(open(path))
    okh, _ = build_harness()
    bad = 0
    for v in d.get("violations", []):
        r = v["replay"]
        if r.get("kind") == "roundtrip":
            l = harness([{"op": "dic_print", "entry": r["entry"]}])[0]["ok"]
            p = harness([{"op": "dic_parse", "line": l}])[0]
            print("entry", r["entry"], "->", repr(l), "->", p)
            bad += p.get("ok") != [r["entry"]]
        else:
            print(json.dumps(v, ensure_ascii=False)[:400])
            bad += 1
    return 1 if bad else 0
