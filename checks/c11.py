"""C11 - the dictionary builder loses no accepted word and invents none (the real chokan-dic binary, reloaded through postcard)."""
import json, random
from vlib import *
from conv import *
from srv import *
from checks.server_common import entry_line, speech_names, ALPHABET, JP_KEYS, KANJI

PROP = "C11"
GENS = ["gen_speech", "gen_dicgrammar", "gen_conj"]
CONE = ["Dic/BuilderModel.v", "Dic/BuilderProofs.v", "Props/C11.v", "Dic/TextFormat.v", "Dic/Conjugation.v"]
THEOREMS = ["C11_no_loss", "C11_no_invention", "C11_order", "C11_every_source_builds_refuted"]
IMPORTS = "From Chokan Require Import Base.Str Base.ListUtil Dic.Speech Dic.TextFormat Dic.Conjugation Dic.BuilderModel."
TEXT_KANA = [chr(c) for c in range(0x3041, 0x3094)] + ["ー"] + list("abcxyz")


def supported_speeches():
    sps = all_speeches_json()
    rs = harness([{"op": "dic_conj", "entry": {"reading": "あい", "stem": "亜", "speech": sp}} for sp in sps])
    return [sp for sp, r in zip(sps, rs) if "ok" in r], [sp for sp, r in zip(sps, rs) if "ok" not in r]


def gen_source(rnd, n, speeches):
    alpha = rnd.sample(TEXT_KANA, rnd.randint(3, 12))
    lines, entries = [], []
    for _ in range(n):
        k = rnd.random()
        r = "".join(rnd.choice(alpha if rnd.random() < 0.85 else TEXT_KANA) for _ in range(rnd.randint(1, 5)))
        st = "".join(rnd.choice(KANJI + "/;a1") for _ in range(rnd.randint(1, 3)))
        if entries and entries[-1] and k < 0.1:
            # a homograph: the previous line's reading and written form under another part of speech (解読 サ変名詞 / 一般名詞)
            prev = entries[-1][0]
            e = {"reading": prev["reading"], "stem": prev["stem"], "speech": rnd.choice([sp for sp in speeches if sp != prev["speech"]])}
            lines.append(entry_line(e))
            entries.append([e])
        elif k < 0.85:
            sp = rnd.choice(speeches)
            e = {"reading": r, "stem": st, "speech": sp}
            lines.append(entry_line(e))
            entries.append([e])
        elif k < 0.9:      # multi-speech line
            sps = [rnd.choice(speeches) for _ in range(rnd.randint(2, 3))]
            lines.append(r + "\t" + st + "\t" + "".join("/" + speech_names()[speech_key(sp)] for sp in sps) + "/")
            entries.append([{"reading": r, "stem": st, "speech": sp} for sp in sps])
        elif k < 0.94:
            lines.append(";" + st)
            entries.append([])
        elif k < 0.97:
            lines.append("")
            entries.append([])
        else:              # a line the format rejects
            lines.append(rnd.choice([r + " " + st + "\t/一般名詞/", "漢\t字\t/一般名詞/", r + "\t" + st + "\t/一般名詞", r + "\t" + st, "ゔ\t" + st + "\t/一般名詞/"]))
            entries.append([])
    return lines, entries


def run(tier, seed):
    res = Result(PROP, tier, seed)
    rnd = random.Random(seed)
    info = standard_proof_steps(res, GENS, "Props/C11.v", CONE, "Props.C11", THEOREMS)
    okm, mlog = coq_make(["Dic/BuilderModel.v"])
    okh, hlog = build_harness()
    okb, blog = build_binaries()
    if not (okh and okb):
        res.tie_broken("the repository no longer builds with the hooks", (hlog + blog)[-1500:])
        return res.finish({"obligations": info["obligations"], "discharged": info["discharged"], "checker_cmd": "make", "trusted_base": TRUSTED_COMMON}, [])
    ok_sp, bad_sp = supported_speeches()
    sizes = [40, 80, 150, 300] * 3 if tier == "quick" else [200, 1000, 5000, 20000, 50000] * 4
    wd = workdir("c11")
    nontrivial, total_lines, n_model = 0, 0, 0
    ccases, origin = [], []
    try:
        for si, n in enumerate(sizes):
            srcs = [gen_source(rnd, n, ok_sp) for _ in range(3)]      # standard, ancillary, tankan
            # the three sources are independent of each other: a word of the standard source is ALSO a line of the tankan and of the ancillary
            # source (the kanji 木/き is both a word and a single kanji); a generator of its own, so the sources above stay what they were
            crnd = random.Random(f"{seed}/{si}/shared")
            shared = [(l, g) for l, g in zip(*srcs[0]) if g]
            for side in (2, 1):
                for l, g in crnd.sample(shared, min(len(shared), max(2, n // 20))):
                    at = crnd.randint(0, len(srcs[side][0]))
                    srcs[side][0].insert(at, l)
                    srcs[side][1].insert(at, [dict(e) for e in g])
            out = make_dictionary(wd, srcs[0][0], srcs[1][0], srcs[2][0], name=f"d{si}.dat")
            total_lines += 3 * n
            # expected per side: reading -> words in source order (conjugation through the real library)
            expected = []
            for lines, entries in srcs:
                es = [e for grp in entries for e in grp]
                forms = harness_parallel([{"op": "dic_conj", "entry": e} for e in es]) if es else []
                byr, order = {}, 0
                per_entry = []
                for e, f in zip(es, forms):
                    ws = [{"word": w, "reading": r, "speech": e["speech"]} for w, r in f.get("ok", [])]
                    per_entry.append(ws)
                    for w in ws:
                        byr.setdefault(w["reading"], []).append(w)
                expected.append((byr, per_entry))
            probes = []
            for byr, _ in expected:
                ks = list(byr)
                extra = [k[:-1] for k in ks[:50] if len(k) > 1] + [k + "あ" for k in ks[:50]] + ["", "漢", "zzz"]
                probes.append(sorted(set(ks + extra)))
            r = harness([{"op": "srv_dic_load", "path": out, "std_probes": probes[0], "anc_probes": probes[1], "tankan_probes": probes[2]}], timeout=1800)[0]
            if "panic" in r:
                res.violation(f"the dictionary written by chokan-dic cannot be loaded: {r['panic']}", {"std": srcs[0][0][:50]})
                continue
            os.unlink(out)
            for side, (name, gated) in enumerate((("std", True), ("anc", True))):
                byr, _ = expected[side]
                for k, got in zip(probes[side], r[name]):
                    inside = all(c in ALPHABET for c in k)
                    want = byr.get(k) if inside else None
                    # conjugated forms of ONE entry come out of a HashSet: compare per reading as multisets when an entry yields
                    # two forms with one reading (never the case in the tables), else as lists
                    if (got or None) != (want or None) and sorted(map(json.dumps, got or [])) != sorted(map(json.dumps, want or [])):
                        res.violation(f"{name} dictionary, key {k!r}: retrievable {got} but the source derives {want}", {"side": name, "key": k, "lines": [l for l in srcs[side][0] if l.startswith(k[:1])][:20]})
                    elif got is not None and want is not None and got != want:
                        res.violation(f"{name} dictionary, key {k!r}: words come out in a different order than the source lines", {"side": name, "key": k, "got": got, "want": want})
                keys = set(r[name + "_keys"])
                invented = keys - set(byr)
                if invented:
                    res.violation(f"{name} dictionary contains readings no source line derives: {sorted(invented)[:5]}", {"side": name})
            byr, _ = expected[2]
            for k, got in zip(probes[2], r["tankan"]):
                want = [w["word"] for w in byr.get(k, [])]
                if got != want:
                    res.violation(f"tankan dictionary, key {k!r}: lookup gives {got}, the source derives {want}", {"side": "tankan", "key": k})
            if set(r["tankan_keys"]) - set(byr):
                res.violation("tankan dictionary contains readings no source line derives", {"side": "tankan"})
            byr0 = expected[0][0]
            if any(len(v) > 1 for v in byr0.values()) and any(any(k2 != k and k2.startswith(k) for k2 in byr0) for k in list(byr0)[:200]):
                nontrivial += 1
            # model: only the small sources (list-based), standard side
            if okm and n <= 300:
                src_text = "\n".join(srcs[0][0])
                exp_terms = clist(["(%s, %s)" % (cstr(k), clist([coq_word(w) for w in (got or [])])) for k, got in zip(probes[0], r["std"])
                                   if all(coq_speech(w["speech"]) is not None for w in (got or []))])
                ccases.append("(%s, %s)" % (cstr(src_text), exp_terms))
                origin.append(srcs[0][0])
        # building into an output file that already exists: what is written always reflects the sources given now
        for _ in range(2 if tier == "quick" else 10):
            a = [gen_source(rnd, 30, ok_sp) for _ in range(3)]
            b = [a[0], gen_source(rnd, 30, ok_sp), gen_source(rnd, 30, ok_sp)]        # same standard source, other ancillary / tankan sources
            out = make_dictionary(wd, a[0][0], a[1][0], a[2][0], name="again.dat")
            time.sleep(1.1)
            # only the ancillary and the tankan source change; the standard source file is left untouched (older than the output)
            for fn, lines in (("anc.dic", b[1][0]), ("tankan.dic", b[2][0])):
                with open(os.path.join(wd, fn), "w", encoding="utf-8") as f:
                    f.write("\n".join(lines) + "\n")
            rc, log_ = sh([DIC_BIN, os.path.join(wd, "std.dic"), os.path.join(wd, "anc.dic"), os.path.join(wd, "tankan.dic"), out], timeout=600)
            if rc != 0:
                res.violation(f"chokan-dic fails when its output file already exists: {log_[-300:]}", {"kind": "rebuild"})
                continue
            es = [e for grp in b[1][1] for e in grp]
            forms = harness_parallel([{"op": "dic_conj", "entry": e} for e in es]) if es else []
            want_keys = sorted({r for f in forms for _, r in f.get("ok", [])})
            r = harness([{"op": "srv_dic_load", "path": out, "std_probes": [], "anc_probes": want_keys, "tankan_probes": []}], timeout=600)[0]
            os.unlink(out)
            if "panic" in r:
                res.violation(f"the dictionary rebuilt over an existing output cannot be loaded: {r['panic']}", {"kind": "rebuild"})
            elif sorted(r["anc_keys"]) != want_keys:
                res.violation(f"after rebuilding into an existing output file with another ancillary source the ancillary readings are those of the OLD build "
                              f"({len(set(r['anc_keys']) - set(want_keys))} stale, {len(set(want_keys) - set(r['anc_keys']))} missing)", {"kind": "rebuild", "anc_lines": b[1][0][:20]})
        # the refutation witness on the real binary: a format-valid line with an unsupported conjugation row aborts the build
        if bad_sp:
            e = {"reading": "あ", "stem": "亜", "speech": bad_sp[0]}
            try:
                make_dictionary(wd, [entry_line(e), "い\t以\t/一般名詞/"], [], [], name="bad.dat")
                built_bad = True
            except RuntimeError:
                built_bad = False
            if not built_bad:
                res.known("F17", f"chokan-dic aborts (panic) on a source that contains a format-valid line whose conjugation row is unsupported (e.g. {entry_line(e)!r}): no dictionary is written at all")
    finally:
        cleanup(wd)
    if okm and ccases:
        extra = """
Fixpoint words_eqb (a b : list word) : bool := match a, b with [], [] => true | x :: a', y :: b' => word_eqb x y && words_eqb a' b' | _, _ => false end.
Definition ALPHA : list N := %s.
Definition ccheck (c : str * list (str * list word)) : bool :=
  match build ALPHA (fst c) with
  | Ok b => forallb (fun p => words_eqb (b_lookup b (fst p)) (snd p)) (snd c)
  | _ => false
  end.
""" % cstr(ALPHABET)
        okc, failing, clog = run_coq_cases("C11", IMPORTS, "str * list (str * list word)", "ccheck", ccases, shard=1, extra_defs=extra, timeout=2400)
        n_model = len(ccases)
        if not okc:
            res.tie_broken("correspondence: evaluating the builder model failed", clog)
        for i in failing[:5]:
            res.tie_broken("correspondence: the builder model and the real chokan-dic differ on a source", {"lines": origin[i][:30]})
    elif not okm:
        res.tie_broken("model does not build: Dic/BuilderModel.v", coq_failing_file(mlog))
    cov = {
        "obligations": info["obligations"], "discharged": info["discharged"],
        "checker_cmd": f"cd /verif/coq && make Props/C11.vo + Print Assumptions on {len(THEOREMS)} theorems",
        "trusted_base": TRUSTED_COMMON + ["postcard image of the whole dictionary (exercised through the real files, not proved)", "the trie is C04's; here it is the set of accepted readings",
                                          "Vec::sort_by is a stable sort"],
        "axioms": info["axioms"],
        "evaluations": total_lines, "distinct_nontrivial": nontrivial,
        "rule": "generated source dictionaries (every conjugable part of speech, multi-speech lines, comments, blank and rejected lines, duplicate and overlapping readings, readings with ー a-z ゎ and characters outside "
                "the trie alphabet) built by the real chokan-dic, reloaded through postcard, every reading and a set of non-readings looked up the way the engine does; non-trivial = two entries share a reading and one reading is a prefix of another",
        "sources": len(sizes), "traces_validated_against_impl": n_model,
        "samples": [origin[0][:5]] if origin else [],
        "known": "F17: a format-valid line with an unsupported conjugation row aborts the whole build (C11_every_source_builds_refuted)",
    }
    return res.finish(cov, ["large sources are judged against the specification (per-reading source order) computed with the real conjugation; the list-based Coq model is run on the small ones"])


def replay(path):
    d = json.load(open(path))
    for v in d.get("violations", []):
        print(v["what"])
    return 1 if d.get("violations") else 0
