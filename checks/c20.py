"""C20 - confirming an affixed candidate teaches the compound as a user word."""
from checks.server_common import *

PROP = "C20"
CONE = ["Kkc/Affix.v", "Kkc/AffixProofs.v", "Props/C20.v", "Server/ServerModel.v", "Server/ServerProofs.v", "Server/ServerProofs2.v", "Props/C07.v", "Props/C08.v"]
THEOREMS = ["C20_learns_prefix_word", "C20_learns_word_suffix", "C20_learns_prefix_word_suffix", "C20_no_affix_no_learning", "C20_old_extractor_blind"]


def gen_c20(rnd):
    alpha = rnd.sample(list("あいうえかきくけこさしたちつてとなにのはまもやよらりるれわん"), 5)
    def rd(n):
        return "".join(rnd.choice(alpha) for _ in range(rnd.randint(1, n)))
    std = [{"reading": rd(3), "stem": "".join(rnd.choice(KANJI) for _ in range(rnd.randint(1, 2))), "speech": rnd.choice([{"Noun": "Common"}, {"Noun": "Proper"}, {"Noun": "Sahen"}, "Adverb", "Adverb", "Verbatim", "PreNounAdjectival", "Conjunction"])} for _ in range(rnd.randint(2, 6))]
    pre = [{"reading": rd(2), "stem": rnd.choice(KANJI), "speech": {"Affix": "Prefix"}} for _ in range(rnd.randint(1, 2))]
    suf = [{"reading": rd(2), "stem": rnd.choice(KANJI), "speech": {"Affix": "Suffix"}} for _ in range(rnd.randint(1, 2))]
    if rnd.random() < 0.5:
        # two affixes with one reading (新/しん, 真/しん): their compounds share a reading and must both be learned
        a = rnd.choice(pre + suf)
        (pre if a["speech"] == {"Affix": "Prefix"} else suf).append({"reading": a["reading"], "stem": rnd.choice([k for k in KANJI if k != a["stem"]]), "speech": a["speech"]})
    par = [{"reading": rd(1), "stem": "は", "speech": {"Particle": "Adverbial"}}]
    base = {"std": std, "anc": pre + suf + par, "tankan": []}
    reqs, plan = [], []
    # the word joined to the affix is any independent word, not only a noun.  Entries that conjugate are kept out of these dictionaries:
    # chokan-dic expands them into their forms, the library pass (which tells which candidate has which parts) does not
    nouns = [w for w in std if w["speech"] in NONCONJ] or std
    for _ in range(rnd.randint(2, 4)):
        w = rnd.choice(nouns)
        shape = rnd.choice(["pw", "ws", "pws", "pws", "pws_tail", "w", "pw_tail", "ws_tail", "pwp"])
        p, s_ = rnd.choice(pre), rnd.choice(suf)
        tail = rnd.choice(["x", "漢"])
        inp = {"pw": p["reading"] + w["reading"], "ws": w["reading"] + s_["reading"], "pws": p["reading"] + w["reading"] + s_["reading"], "w": w["reading"],
               "pw_tail": p["reading"] + w["reading"] + tail, "pws_tail": p["reading"] + w["reading"] + s_["reading"] + tail, "ws_tail": w["reading"] + s_["reading"] + tail, "pwp": p["reading"] + w["reading"] + par[0]["reading"]}[shape]
        reqs.append({"kind": "convert", "input": inp, "context": "Normal", "plan": shape})
    return base, reqs


def affix_shape(parts):
    """expected compound (word, reading) of a candidate's parts (kind, surface, reading, speech) per the property, or None"""
    words = []
    for p in parts:
        if p["kind"] != "word":
            break
        words.append(p)
    rest = parts[len(words):]
    if any(p["kind"] == "word" for p in rest) or len(rest) > 1:
        return None
    is_p = lambda p: p["speech"] == {"Affix": "Prefix"}
    is_s = lambda p: p["speech"] == {"Affix": "Suffix"}
    is_i = lambda p: not (p["speech"] == "AuxiliaryVerb" or (isinstance(p["speech"], dict) and ("Particle" in p["speech"] or "Affix" in p["speech"])))
    if len(words) == 2 and is_p(words[0]) and is_i(words[1]):
        pass
    elif len(words) == 2 and is_i(words[0]) and is_s(words[1]):
        pass
    elif len(words) == 3 and is_p(words[0]) and is_i(words[1]) and is_s(words[2]):
        pass
    else:
        return None
    return "".join(p["surface"] for p in words), "".join(p["reading"] for p in words)


def run(tier, seed):
    res = Result(PROP, tier, seed)
    rnd = random.Random(seed)
    info = standard_proof_steps(res, SRV_GENS, "Props/C20.v", CONE, "Props.C20", THEOREMS)
    okh, hlog = build_harness()
    okb, blog = build_binaries()
    if not (okh and okb):
        res.tie_broken("the repository no longer builds with the hooks", (hlog + blog)[-1500:])
        return res.finish({"obligations": info["obligations"], "discharged": info["discharged"], "checker_cmd": "make", "trusted_base": TRUSTED_COMMON}, [])
    n = 24 if tier == "quick" else 300
    gens = [gen_c20(rnd) for _ in range(n)]
    # first pass on the library: which candidate of each conversion has which parts (the server does not expose parts)
    items, expect = [], []
    for base, reqs in gens:
        d = {"alphabet": ALPHABET, "std": [[e["reading"], e["stem"], e["speech"]] for e in base["std"]], "anc": [[e["reading"], e["stem"], e["speech"]] for e in base["anc"]]}
        rs = harness([{"op": "kkc_query", "dict": d, "context": "Normal", "freq": [], "input": r["input"], "n": 100} for r in reqs])
        reqs2, exp = [], []
        nconv = 0
        # conversions that are never confirmed: the sessions of later conversions must still be confirmable
        for _ in range(rnd.choice([0, 0, 0, 127, 128, 129] if tier == "quick" else [0, 0, 127, 128, 129, 255, 256, 1023, 1024, 1025])):
            reqs2.append({"kind": "convert", "input": base["std"][0]["reading"], "context": "Normal"})
            nconv += 1
        learned = []
        pairs = list(zip(reqs, rs))
        if pairs and rnd.random() < 0.7:
            pairs.insert(1, pairs[0])            # the same input again: another compound of the same reading
        for rq, r in pairs:
            if "panic" in r or not r["candidates"]:
                continue
            if learned:
                # the compound learned so far is a user noun now: ask the library with it in the dictionary
                d2 = dict(d, std=d["std"] + [[c[1], c[0], {"Noun": "Common"}] for c in learned])
                r = harness([{"op": "kkc_query", "dict": d2, "context": "Normal", "freq": [], "input": rq["input"], "n": 100}])[0]
                if "panic" in r or not r["candidates"]:
                    continue
            # choose a candidate: prefer one with an affix shape (and, the second time, a compound not learned yet)
            cands = r["candidates"]
            shaped = [i for i, c in enumerate(cands) if affix_shape(c["nodes"][1:-1]) and affix_shape(c["nodes"][1:-1]) not in learned]
            same_reading = [i for i in shaped if any(affix_shape(cands[i]["nodes"][1:-1])[1] == l[1] for l in learned)]
            ci = rnd.choice(same_reading) if same_reading else (rnd.choice(shaped) if shaped and rnd.random() < 0.8 else rnd.randrange(len(cands)))
            comp = affix_shape(cands[ci]["nodes"][1:-1])
            # the library's own extractor must agree with the property's shape
            if (cands[ci]["affix"] is not None) != (comp is not None) or (comp and tuple(cands[ci]["affix"]) != comp):
                res.violation(f"candidate {cands[ci]['text']!r} of {rq['input']!r}: the compound extractor returns {cands[ci]['affix']} but the converted run is {comp}",
                              {"kind": "extractor", "dict": d, "input": rq["input"], "candidate": cands[ci]["text"]})
            reqs2.append({"kind": "convert", "input": rq["input"], "context": "Normal", "expect_text_at": (ci, cands[ci]["text"])})
            reqs2.append({"kind": "confirm", "session": nconv, "cid": str(ci)})
            nconv += 1
            exp.append((len(reqs2) - 1, comp, cands[ci]["text"], list(learned)))
            if comp and comp not in learned:
                learned.append(comp)
            if len(exp) == 2 or not comp:
                break
        if not exp:
            continue
        for comp in learned:
            reqs2.append({"kind": "convert", "input": comp[1], "context": "Normal", "expect": comp[0]})
            nconv += 1
        reqs2.append({"kind": "restart"})
        for comp in learned:
            reqs2.append({"kind": "convert", "input": comp[1], "context": "Normal", "expect": comp[0]})
        items.append((base, reqs2))
        expect.append((exp, learned))
    # a user dictionary that already holds many entries (256 and more) still learns compounds
    kana2 = "あいうえおかきけこさすせそたちつてとなにぬねの"
    big_base = {"std": [{"reading": "くるま", "stem": "車", "speech": {"Noun": "Common"}}], "anc": [{"reading": "しん", "stem": "新", "speech": {"Affix": "Prefix"}},
                                                                                                     {"reading": "てき", "stem": "的", "speech": {"Affix": "Suffix"}}], "tankan": []}
    nreg = 260 if tier == "quick" else 1100
    regs = [{"kind": "register", "wkind": "CommonNoun", "reading": "は" + kana2[i % len(kana2)] + kana2[(i // len(kana2)) % len(kana2)] + kana2[(i // len(kana2) ** 2) % len(kana2)], "word": f"語{i}"} for i in range(nreg)]
    d_big = {"alphabet": ALPHABET, "std": [["くるま", "車", {"Noun": "Common"}]], "anc": [["しん", "新", {"Affix": "Prefix"}], ["てき", "的", {"Affix": "Suffix"}]]}
    rb = harness([{"op": "kkc_query", "dict": d_big, "context": "Normal", "freq": [], "input": "しんくるま", "n": 100}])[0]
    ci_big = next((i for i, c in enumerate(rb.get("candidates", [])) if affix_shape(c["nodes"][1:-1]) == ("新車", "しんくるま")), None)
    if ci_big is not None:
        items.append((big_base, regs + [{"kind": "convert", "input": "しんくるま", "context": "Normal", "expect_text_at": (ci_big, "新車")}, {"kind": "confirm", "session": 0, "cid": str(ci_big)},
                                        {"kind": "convert", "input": "しんくるま", "context": "Normal", "expect": "新車"}]))
        expect.append(([(nreg + 1, ("新車", "しんくるま"), "新車", [])], [("新車", "しんくるま")]))
    # the three shapes on one fixed dictionary, each confirmed through the real session protocol (prefix+word, word+suffix, prefix+word+suffix,
    # suffix written in kanji, with and without an unconverted tail)
    for inp, want in [("しんくるま", ("新車", "しんくるま")), ("くるまてき", ("車的", "くるまてき")), ("しんくるまてき", ("新車的", "しんくるまてき")), ("しんくるまてきx", ("新車的", "しんくるまてき"))]:
        rb = harness([{"op": "kkc_query", "dict": d_big, "context": "Normal", "freq": [], "input": inp, "n": 100}])[0]
        ci = next((i for i, c in enumerate(rb.get("candidates", [])) if affix_shape(c["nodes"][1:-1]) == want), None)
        if ci is None:
            res.violation(f"no candidate of {inp!r} has the converted run {want[0]}", {"kind": "shape_missing", "input": inp})
            continue
        text = rb["candidates"][ci]["text"]
        items.append((big_base, [{"kind": "convert", "input": inp, "context": "Normal", "expect_text_at": (ci, text)}, {"kind": "confirm", "session": 0, "cid": str(ci)},
                                 {"kind": "convert", "input": want[1], "context": "Normal", "expect": want[0]}, {"kind": "restart"},
                                 {"kind": "convert", "input": want[1], "context": "Normal", "expect": want[0]}]))
        expect.append(([(1, want, text, [])], [want]))
    # the word joined to the affix is any independent word the lattice connects to it - a verb form (お読み, お帰り), not only a noun.
    # chokan-dic expands the verb entry into its forms; the library pass gets the same forms (real conjugation) as words
    vb = [{"reading": "よ", "stem": "読", "speech": {"Verb": {"Godan": "マ"}}}, {"reading": "かえ", "stem": "帰", "speech": {"Verb": {"Godan": "ラ"}}}]
    nn_base = {"std": vb, "anc": [{"reading": "お", "stem": "御", "speech": {"Affix": "Prefix"}}, {"reading": "てき", "stem": "的", "speech": {"Affix": "Suffix"}}], "tankan": []}
    vforms = harness([{"op": "dic_conj", "entry": e} for e in vb])
    d_nn = {"alphabet": ALPHABET, "std": [[fr, fw, e["speech"]] for e, f in zip(vb, vforms) for fw, fr in f.get("ok", [])], "anc": [[e["reading"], e["stem"], e["speech"]] for e in nn_base["anc"]]}
    for inp, want in [("およみ", ("御読み", "およみ")), ("おかえり", ("御帰り", "おかえり")), ("およみx", ("御読み", "およみ"))]:
        rb = harness([{"op": "kkc_query", "dict": d_nn, "context": "Normal", "freq": [], "input": inp, "n": 100}])[0]
        ci = next((i for i, c in enumerate(rb.get("candidates", [])) if affix_shape(c["nodes"][1:-1]) == want), None)
        if ci is None:
            continue          # the engine does not connect this pair (an edge-score matter, not this property's)
        c0 = rb["candidates"][ci]
        if (c0["affix"] is None) or tuple(c0["affix"]) != want:
            res.violation(f"candidate {c0['text']!r} of {inp!r}: the compound extractor returns {c0['affix']} but the converted run is {want}", {"kind": "extractor", "dict": d_nn, "input": inp, "candidate": c0["text"]})
        items.append((nn_base, [{"kind": "convert", "input": inp, "context": "Normal", "expect_text_at": (ci, c0["text"])}, {"kind": "confirm", "session": 0, "cid": str(ci), "text": c0["text"]},
                                {"kind": "convert", "input": want[1], "context": "Normal", "expect": want[0]}, {"kind": "restart"},
                                {"kind": "convert", "input": want[1], "context": "Normal", "expect": want[0]}]))
        expect.append(([(1, want, c0["text"], [])], [want]))
    # two compounds with one reading (新車 / 真車, both しんくるま), a compound whose reading the dictionary already has (信車/しんくるま), and a
    # registered word with that reading: each confirmed compound is learned, offered, saved and still offered after a restart
    pair_base = {"std": [{"reading": "くるま", "stem": "車", "speech": {"Noun": "Common"}}, {"reading": "しんくるま", "stem": "信車", "speech": {"Noun": "Common"}}],
                 "anc": [{"reading": "しん", "stem": "新", "speech": {"Affix": "Prefix"}}, {"reading": "しん", "stem": "真", "speech": {"Affix": "Prefix"}}], "tankan": []}
    d_pair = {"alphabet": ALPHABET, "std": [["くるま", "車", {"Noun": "Common"}], ["しんくるま", "信車", {"Noun": "Common"}]], "anc": [["しん", "新", {"Affix": "Prefix"}], ["しん", "真", {"Affix": "Prefix"}]]}
    for first, second, pre_register in ((("新車", "しんくるま"), ("真車", "しんくるま"), False), (("真車", "しんくるま"), ("新車", "しんくるま"), True)):
        rq, ex, learned, nconv = [], [], [], 0
        d_now = dict(d_pair)
        if pre_register:
            rq.append({"kind": "register", "wkind": "CommonNoun", "reading": "しんくるま", "word": "進車"})
            d_now = dict(d_now, std=d_now["std"] + [["しんくるま", "進車", {"Noun": "Common"}]])
        ok_pair = True
        for want in (first, second):
            rb = harness([{"op": "kkc_query", "dict": d_now, "context": "Normal", "freq": [], "input": "しんくるま", "n": 100}])[0]
            ci = next((i for i, c in enumerate(rb.get("candidates", [])) if affix_shape(c["nodes"][1:-1]) == want), None)
            if ci is None:
                ok_pair = False
                break
            rq += [{"kind": "convert", "input": "しんくるま", "context": "Normal", "expect_text_at": (ci, rb["candidates"][ci]["text"])}, {"kind": "confirm", "session": nconv, "cid": str(ci), "text": rb["candidates"][ci]["text"]}]
            nconv += 1
            ex.append((len(rq) - 1, want, rb["candidates"][ci]["text"], list(learned)))
            learned.append(want)
            d_now = dict(d_now, std=d_now["std"] + [[want[1], want[0], {"Noun": "Common"}]])
        if not ok_pair:
            continue
        rq += [{"kind": "convert", "input": "しんくるま", "context": "Normal", "expect": w[0]} for w in learned] + [{"kind": "restart"}]
        rq += [{"kind": "convert", "input": "しんくるま", "context": "Normal", "expect": w[0]} for w in learned + [("信車", "")]]
        items.append((pair_base, rq))
        expect.append((ex, learned))
    runs = run_histories(items, threads=12)
    nontrivial = 0
    for hr, (exp, learned) in zip(runs, expect):
        for what, detail in hr.problems:
            res.violation(what, {"base": hr.base, "requests": hr.requests, "detail": detail})
        rqs = [r for r in hr.requests if r["kind"] not in ("malformed", "wait_save")]
        # the library pass and the server must be talking about the same candidate
        nxt = {i: rqs[i + 1] for i in range(len(rqs) - 1)}
        in_step = all(obs is not None and ((len(obs["texts"]) > rq["expect_text_at"][0] and obs["texts"][rq["expect_text_at"][0]] == rq["expect_text_at"][1])
                                           or ("text" in nxt.get(i, {}) and rq["expect_text_at"][1] in obs["texts"]))
                      for i, ((ev, obs), rq) in enumerate(zip(hr.events, rqs)) if "expect_text_at" in rq)
        if not in_step:
            continue
        for ci, comp, text, before in exp:
            if len(hr.dumps) <= ci or hr.dumps[ci] is None:
                continue
            ue = hr.dumps[ci]["user_entries"]
            want = [f"{c[1]}\t{c[0]}\t/一般名詞/" for c in before] + ([f"{comp[1]}\t{comp[0]}\t/一般名詞/"] if comp and comp not in before else [])
            if comp:
                for line in want:
                    if ue.count(line) != 1:
                        res.violation(f"confirming {text!r} should leave the compound line {line!r} exactly once in the user dictionary; user entries: {ue}", {"base": hr.base, "requests": hr.requests})
                nontrivial += 1
            elif sorted(ue) != sorted(want):
                res.violation(f"confirming {text!r} (no affix) changed the user words: {ue}", {"base": hr.base, "requests": hr.requests})
        for (ev, obs), rq in zip(hr.events, rqs):
            if "expect" in rq and obs is not None and rq["expect"] not in obs["texts"][:100]:
                res.violation(f"the learned compound {rq['expect']!r} is not offered for its reading {rq['input']!r}: {obs['texts']}", {"base": hr.base, "requests": hr.requests})
            if ev["t"] == "restart" and obs and obs.get("after"):
                for comp in learned:
                    if f"{comp[1]}\t{comp[0]}\t/一般名詞/" not in obs["after"]["user_entries"]:
                        res.violation(f"the learned compound {comp[0]} does not survive the restart", {"base": hr.base, "requests": hr.requests})
    n_model = model_histories(res, PROP, runs)
    cov = {
        "obligations": info["obligations"], "discharged": info["discharged"],
        "checker_cmd": f"cd /verif/coq && make Props/C20.vo + Print Assumptions on {len(THEOREMS)} theorems",
        "trusted_base": TRUSTED_COMMON + ["the server does not expose candidate parts: they are taken from the same library call through the harness"],
        "axioms": info["axioms"],
        "evaluations": sum(len(hr.requests) for hr in runs), "distinct_nontrivial": nontrivial,
        "rule": "dictionaries with prefix / suffix entries, inputs shaped prefix+word, word+suffix, prefix+word+suffix (also with an unconverted tail, a following particle, or no affix); one candidate is confirmed through the real "
                "session protocol; then Verif.Dump, conversion of the compound's reading, a restart, conversion again; non-trivial = the confirmed candidate has an affix shape",
        "histories": len(runs), "traces_validated_against_impl": n_model,
        "samples": [runs[0].requests],
    }
    return res.finish(cov, ["saving and restart are covered by C08, convertibility by C07; this check observes them end to end for compounds"])


def replay(path):
    d = json.load(open(path))
    for v in d.get("violations", []):
        print(v["what"])
    return 1 if d.get("violations") else 0
