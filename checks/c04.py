"""C04 - the double-array trie is an exact set of keys under any insertion history."""
import json, random
from vlib import *

PROP = "C04"
GENS = []
CONE = ["Base/Str.v", "Trie/TrieModel.v", "Trie/TrieAbs.v", "Trie/TrieOps.v", "Trie/TrieEdge.v", "Trie/TrieRebase.v", "Trie/TrieInsert.v", "Trie/TrieProofs.v", "Props/C04.v"]
THEOREMS_FILE = os.path.join(COQ, "Props", "C04.v")
IMPORTS = "From Chokan Require Import Base.Str Trie.TrieModel.\nFrom Coq Require Import Arith."

EXTRA = """
Definition mk_nodes (bs cs : list Z) (es : list nat) : nodes :=
  {| arr := map (fun p => {| base := fst p; check := snd p |}) (combine bs cs); empties := es |}.
Definition node_eqb (a b : node) : bool := (base a =? base b)%Z && (check a =? check b)%Z.
Fixpoint arr_eqb (a b : list node) : bool :=
  match a, b with [] , [] => true | x :: a', y :: b' => node_eqb x y && arr_eqb a' b' | _, _ => false end.
Definition set_eqb (a b : list nat) : bool :=
  Nat.eqb (length a) (length b) && forallb (fun x => mem_nat x b) a && forallb (fun x => mem_nat x a) b.
Definition nodes_eqb (a b : nodes) : bool := arr_eqb (arr a) (arr b) && set_eqb (empties a) (empties b).
(* one step of a history: key, hints (the implementation's xcheck choices), accepted?, optional dump after *)
Record hstep := { h_key : str; h_hints : list (option nat); h_ok : bool; h_after : option nodes }.
Record hcase := { c_alpha : list N; c_steps : list hstep; c_probes : list (str * bool) }.
Fixpoint run_steps (t : trie) (steps : list hstep) : option trie :=
  match steps with
  | [] => Some t
  | s :: rest =>
    match insert t (h_key s) (h_hints s), h_ok s with
    | Ok t', true =>
      if (match h_after s with Some d => nodes_eqb (t_nodes t') d && inv_b t' | None => true end)
      then run_steps t' rest else None
    | Err, false =>
      if (match h_after s with Some d => nodes_eqb (t_nodes t) d | None => true end) then run_steps t rest else None
    | _, _ => None
    end
  end.
Definition hcheck (c : hcase) : bool :=
  match run_steps (from_keys (c_alpha c)) (c_steps c) with
  | Some t => forallb (fun p => Bool.eqb (member t (fst p)) (snd p)) (c_probes c)
  | None => false
  end.
"""

JP = "あいうえおかきくけこさしすせそたちつてとなにぬねのはひふへほまみむめもやゆよらりるれろわをんがぎぐげござじずぜぞだぢづでどばびぶべぼぱぴぷぺぽっぁぃぅぇぉゃゅょーゑゐabcdefghijklmnopqrstuvwxyz"


def gen_alphabet(rnd):
    k = rnd.random()
    if k < 0.3:
        n = rnd.randint(1, 4)
    elif k < 0.8:
        n = rnd.randint(5, 30)
    elif k < 0.95:
        n = rnd.randint(31, 109)
    else:
        n = rnd.randint(200, 254)
    pool = list(JP) + [chr(c) for c in range(0x4E00, 0x4E00 + 300)]
    rnd.shuffle(pool)
    return "".join(pool[:n])


def gen_key(rnd, alpha, stock):
    k = rnd.random()
    if stock and k < 0.35:          # extend an existing key (long shared prefixes, prefix chains)
        b = rnd.choice(stock)
        return b + "".join(rnd.choice(alpha) for _ in range(rnd.randint(1, 3)))
    if stock and k < 0.5:           # a proper prefix of an existing key
        b = rnd.choice(stock)
        return b[:rnd.randint(0, len(b))]
    if stock and k < 0.6:           # repeat
        return rnd.choice(stock)
    if k < 0.63:
        return ""
    if k < 0.645:
        return "".join(rnd.choice(alpha) for _ in range(rnd.choice([255, 256, 257, 300])))      # a very long key
    return "".join(rnd.choice(alpha) for _ in range(rnd.randint(1, 7)))


def gen_history(rnd, tier):
    alpha = gen_alphabet(rnd)
    n = rnd.choice([3, 8, 20, 40]) if tier == "quick" else rnd.choice([5, 20, 40, 80])
    # characters outside the alphabet, among them the katakana / other-case / voiced neighbours of characters that ARE in it
    near = [chr(ord(c) + 0x60) for c in alpha if 0x3041 <= ord(c) <= 0x3096] + [c.upper() for c in alpha if c.islower()] + [chr(ord(c) + 1) for c in alpha[:5]]
    outside = [c for c in list("XYZ漢字ー") + near if c not in alpha]
    ops, keys = [], []
    for _ in range(n):
        r = rnd.random()
        if r < 0.05:
            ops.append({"clone": True})
        elif r < 0.1:
            ops.append({"serde": True})
        elif r < 0.17 and outside:
            b = gen_key(rnd, alpha, keys)
            i = rnd.randint(0, len(b))
            ops.append({"ins": b[:i] + rnd.choice(outside) + b[i:], "dump": True})
        else:
            k = gen_key(rnd, alpha, keys)
            keys.append(k)
            ops.append({"ins": k, "dump": rnd.random() < 0.25})
    probes = set(keys)
    for k in keys:
        for i in range(len(k)):
            probes.add(k[:i])
        probes.add(k + rnd.choice(alpha))
    for _ in range(10):
        probes.add("".join(rnd.choice(alpha) for _ in range(rnd.randint(0, 5))))
    for o in ops:
        if "ins" in o:
            probes.add(o["ins"])
    for k in keys[:10]:
        if k and outside:
            i = rnd.randrange(len(k))
            probes.add(k[:i] + rnd.choice(outside) + k[i + 1:])       # an inserted key with one character replaced by a neighbour outside the alphabet
            probes.add(k + rnd.choice(outside))
    return {"op": "trie_history", "alphabet": alpha, "ops": ops, "probes": sorted(probes), "dump_each": False}


def cz(l):
    return "[" + "; ".join(str(x) for x in l) + "]%Z"


def cn(l):
    return "[" + "; ".join(str(x) for x in l) + "]%nat"


def coq_case(h, r):
    steps = []
    for st in r["steps"]:
        if "ins" not in st:
            continue
        after = "None"
        if st["after"] is not None:
            a = st["after"]
            after = f"(Some (mk_nodes {cz(a['base'])} {cz(a['check'])} {cn(a['empties'])}))"
        hints = "[" + "; ".join(f"Some {x}%nat" if x >= 0 else "None" for x in st["hints"]) + "]"
        steps.append("{| h_key := %s; h_hints := %s; h_ok := %s; h_after := %s |}" % (cstr(st["ins"]), hints, cbool(st["ok"]), after))
    f = r["final"]
    steps.append("{| h_key := [0]; h_hints := []; h_ok := false; h_after := (Some (mk_nodes %s %s %s)) |}" % (cz(f["base"]), cz(f["check"]), cn(f["empties"])))
    probes = "[" + "; ".join(f"({cstr(k)}, {cbool(p is not None)})" for k, p in zip(h["probes"], r["probes"])) + "]"
    return "{| c_alpha := %s; c_steps := %s; c_probes := %s |}" % (cstr(h["alphabet"]), clist(steps), probes)


def predicate(res, h, r):
    """the property, judged on the implementation alone"""
    alpha = set(h["alphabet"])
    accepted = set()
    relocated = False
    prev_final = None
    for o, st in zip(h["ops"], r["steps"]):
        if "ins" in o:
            k = o["ins"]
            inside = all(c in alpha for c in k)
            if st["ok"] != inside:
                res.violation(f"insert({k!r}) returned ok={st['ok']} but key_in_alphabet={inside}", {"history": h, "step": st})
            if st["ok"]:
                accepted.add(k)
        else:
            if not st.get("same", True):
                res.violation("clone / serde round trip changed the trie", {"history": h, "step": st})
    for k, p in zip(h["probes"], r["probes"]):
        if (p is not None) != (k in accepted):
            res.violation(f"lookup({k!r}) = {p} but inserted = {k in accepted}", {"history": h, "key": k, "accepted": sorted(accepted)})
            break
    # the originals kept next to their clones / deserialised copies: each answers for exactly the keys inserted up to the copy
    for op_ in r.get("old_probes", []):
        acc = set()
        for o, st in list(zip(h["ops"], r["steps"]))[:op_["at_step"]]:
            if "ins" in o and st["ok"]:
                acc.add(o["ins"])
        for k, f in zip(h["probes"], op_["found"]):
            if f != (k in acc):
                res.violation(f"the trie that was copied at step {op_['at_step']} answers lookup({k!r}) = {f} although it holds {k in acc} (later insertions went into the copy only)",
                              {"history": h, "key": k, "at_step": op_["at_step"]})
                break
    # rejected keys leave the trie unchanged
    steps = r["steps"]
    last = None
    for o, st in zip(h["ops"], steps):
        if "ins" in o and st["after"] is not None:
            if not st["ok"] and last is not None and last != st["after"]:
                res.violation(f"rejected key {o['ins']!r} changed the trie", {"history": h})
            last = st["after"]
        elif "ins" in o:
            last = None
    return accepted


def nontrivial(h, r):
    keys = [o["ins"] for o in h["ops"] if "ins" in o]
    ks = set(keys)
    has_prefix_pair = any(k != k2 and k2.startswith(k) for k in ks for k2 in ks)
    # relocation: some path base differs between the hints at insertion time and the final array is hard to see; use
    # a cheap signal: some accepted key's first-path hints changed later
    first = {}
    moved = False
    for st in r["steps"]:
        if "ins" in st and st["ok"]:
            for i, b in enumerate(st["hints"]):
                pre = st["ins"][:i]
                if pre in first and first[pre] != b:
                    moved = True
                first[pre] = b
    return has_prefix_pair and moved


def run(tier, seed):
    res = Result(PROP, tier, seed)
    rnd = random.Random(seed)
    have_props = os.path.exists(THEOREMS_FILE)
    theorems = re.findall(r"^Theorem (\w+)", open(THEOREMS_FILE).read(), re.M) if have_props else []
    info = standard_proof_steps(res, GENS, "Props/C04.v", CONE, "Props.C04", theorems)
    okm, mlog = coq_make(["Trie/TrieModel.v"])
    okh, hlog = build_harness()
    if not okh:
        res.tie_broken("harness build failed", hlog[-1500:])
        return res.finish({"obligations": info["obligations"], "discharged": info["discharged"], "checker_cmd": "make", "trusted_base": TRUSTED_COMMON}, [])
    nh = 80 if tier == "quick" else 240
    hs = [gen_history(rnd, tier) for _ in range(nh)]
    # corpus first: the repository's own Japanese test trie, which forces a relocation
    hs.insert(0, {"op": "trie_history", "alphabet": "じっしつてきになさい", "ops": [{"ins": k, "dump": True} for k in
                  ["じっしつ", "じっしつてき", "じっしつてきに", "じっしつてきな", "じって", "じっさい"]],
                  "probes": ["じっしつてきに", "じっしつて", "じっしつ", "じっしつてき", "じっしつてきな", "じって", "じっさい", "", "じ"], "dump_each": False})
    # the largest alphabets the property admits (254 and 253 characters), with histories that force relocations
    big = [chr(c) for c in range(0x4E00, 0x4E00 + 254)]
    for n_alpha in (254, 253):
        al = "".join(big[:n_alpha])
        ks = []
        for _ in range(14):
            b = rnd.choice(ks) if ks and rnd.random() < 0.6 else ""
            ks.append(b[:rnd.randint(0, len(b))] + "".join(rnd.choice(al[-6:] + al[:6]) for _ in range(rnd.randint(1, 3))))
        pr = set(ks)
        for k in ks:
            pr.update(k[:i] for i in range(len(k)))
        hs.insert(1, {"op": "trie_history", "alphabet": al, "ops": [{"ins": k, "dump": False} for k in ks], "probes": sorted(pr), "dump_each": False})
    rs = harness_parallel(hs, chunk=max(1, len(hs) // 16))
    nt, ins_total, reloc = 0, 0, 0
    for h, r in zip(hs, rs):
        if "panic" in r:
            res.violation(f"insertion history panics: {r['panic']}", {"history": h})
            continue
        predicate(res, h, r)
        ins_total += sum(1 for o in h["ops"] if "ins" in o)
        if nontrivial(h, r):
            nt += 1
    n_model = 0
    if okm:
        cases = [coq_case(h, r) for h, r in zip(hs, rs) if "panic" not in r]
        okc, failing, clog = run_coq_cases("C04", IMPORTS, "hcase", "hcheck", cases, shard=min(25, max(4, len(cases) // 16 + 1)), extra_defs=EXTRA, timeout=3000)
        n_model = len(cases)
        if not okc:
            res.tie_broken("correspondence: evaluating the trie model failed", clog)
        for i in failing[:10]:
            res.tie_broken("correspondence: model and implementation differ on an insertion history (step refinement with the implementation's xcheck choices, structural invariant, or membership)",
                           {"history": hs[i]})
    else:
        res.tie_broken("model does not build: Trie/TrieModel.v", coq_failing_file(mlog))
    cov = {
        "obligations": info["obligations"], "discharged": info["discharged"],
        "checker_cmd": "cd /verif/coq && make Props/C04.vo + Print Assumptions",
        "trusted_base": TRUSTED_COMMON + ["serde_json / postcard views of the trie's arrays", "array indices below 2^31 (i32/u32 casts of Base/Check not modelled)",
                                          "HashSet iteration order modelled as an arbitrary admissible choice"],
        "axioms": info["axioms"],
        "evaluations": len(hs), "distinct_nontrivial": nt,
        "rule": "random alphabets (1..254 chars) and insertion histories (prefix chains, extensions, repeats, empty key, keys outside the alphabet, clone and postcard round trips); "
                "every insertion replayed in the Coq model with the implementation's own free-slot choices and compared array-for-array; non-trivial = a relocation happened and two keys are prefix-related",
        "traces_validated_against_impl": n_model,
        "insertions": ins_total,
        "samples": [{"alphabet": hs[5]["alphabet"], "ops": hs[5]["ops"][:8]}, {"alphabet": hs[0]["alphabet"], "ops": hs[0]["ops"]}],
    }
    return res.finish(cov, ["postcard round trip observed, not proved", "each run samples fresh HashSet seeds, i.e. different layouts"])


def replay(path):
    d = json.load(open(path))
    build_harness()
    bad = 0
    for v in d.get("violations", []):
        h = v["replay"]["history"]
        r = harness([h])[0]
        res = Result(PROP, "replay", 0)
        predicate(res, h, r)
        print(v["what"], "->", "reproduced" if res.violations else "not reproduced")
        bad += bool(res.violations)
    return 1 if bad else 0
