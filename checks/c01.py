"""C01 - every candidate re-reads to exactly the input; only a leading run is converted."""
from checks.kkc_common import *

PROP = "C01"


def predicate(res, q, r):
    inp = q["input"]
    nt = False
    for c in r["candidates"]:
        nodes = c["nodes"]
        if not nodes or nodes[0]["kind"] != "bos" or nodes[-1]["kind"] != "eos" or any(n["kind"] in ("bos", "eos") for n in nodes[1:-1]):
            res.violation(f"candidate {c['text']!r} of {inp!r} is not a BOS..EOS chain", {"query": q, "candidate": c})
            continue
        parts = nodes[1:-1]
        if inp and "".join(p["reading"] for p in parts) != inp:
            res.violation(f"candidate {c['text']!r}: the kana covered by its parts {[p['reading'] for p in parts]} do not concatenate to the input {inp!r}", {"query": q, "candidate": c})
        if "".join(p["surface"] for p in parts) != c["text"]:
            res.violation(f"candidate text {c['text']!r} is not the concatenation of its parts' written forms", {"query": q, "candidate": c})
        kinds = [p["kind"] for p in parts]
        if "virtual" in kinds and (kinds.index("virtual") != len(kinds) - 1):
            res.violation(f"candidate {c['text']!r}: something follows the unconverted tail", {"query": q, "candidate": c})
        if kinds and kinds[-1] == "virtual" and parts[-1]["surface"] != parts[-1]["reading"]:
            res.violation(f"candidate {c['text']!r}: the tail is not the input's own characters", {"query": q, "candidate": c})
        if inp and not parts:
            res.violation(f"candidate of non-empty input {inp!r} has no part", {"query": q, "candidate": c})
    cs = r["candidates"]
    return len(cs) >= 2 and any(n["kind"] == "virtual" for c in cs for n in c["nodes"]) and any(len(at) >= 2 for at in r["lattice"])


def run(tier, seed):
    res, cov = kkc_run(PROP, tier, seed, "Props/C01.v", [], predicate)
    cov["rule"] = ("random small dictionaries over 2-6 kana (overlapping readings, duplicates, prefixes/suffixes/counters/particles), inputs built from dictionary readings plus noise, "
                   "four contexts, random learned counts, n in {1,2,3,5,100}; non-trivial = >= 2 candidates, a virtual tail, and >= 2 nodes ending at some position")
    return res.finish(cov, ["empty readings never enter the lattice (lookup by non-empty key)"])


def replay(path):
    d = json.load(open(path))
    build_harness()
    bad = 0
    for v in d.get("violations", []):
        q = v["replay"]["query"]
        r = harness([q])[0]
        res = Result(PROP, "replay", 0)
        if "panic" in r:
            print("panic", r)
            bad += 1
            continue
        predicate(res, q, r)
        print(q["input"], "->", [c["text"] for c in r["candidates"]], "violations:", len(res.violations))
        bad += bool(res.violations)
    return 1 if bad else 0
