"""C01 - every candidate re-reads to exactly the input; only a leading run is converted."""
from checks.kkc_common import *

PROP = "C01"


def predicate(res, q, r):
    inp = q["input"]
    nt = False
    for c in r["candidates"]:
        nodes = c["nodes"]
        if not nodes or nodes[0]["kind"] != "bos" or nodes[-1]["kind"] != "eos" or any(n["kind"] in ("bos", "eos") for n in nodes[1:-1]):
            res.violation(f"candidate {c['text']!r} of {inp!r} is not a BOS..EOS chain", {"query": q, "candidate": c})
            continue
        parts = nodes[1:-1]
        if inp and "".join(p["reading"] for p in parts) != inp:
            res.violation(f"candidate {c['text']!r}: the kana covered by its parts {[p['reading'] for p in parts]} do not concatenate to the input {inp!r}", {"query": q, "candidate": c})
        if "".join(p["surface"] for p in parts) != c["text"]:
            res.violation(f"candidate text {c['text']!r} is not the concatenation of its parts' written forms", {"query": q, "candidate": c})
        kinds = [p["kind"] for p in parts]
        if "virtual" in kinds and (kinds.index("virtual") != len(kinds) - 1):
            res.violation(f"candidate {c['text']!r}: something follows the unconverted tail", {"query": q, "candidate": c})
        if kinds and kinds[-1] == "virtual" and parts[-1]["surface"] != parts[-1]["reading"]:
            res.violation(f"candidate {c['text']!r}: the tail is not the input's own characters", {"query": q, "candidate": c})
        if inp and not parts:
            res.violation(f"candidate of non-empty input {inp!r} has no part", {"query": q, "candidate": c})
    cs = r["candidates"]
    return len(cs) >= 2 and any(n["kind"] == "virtual" for c in cs for n in c["nodes"]) and any(len(at) >= 2 for at in r["lattice"])


def server_agrees(res, rnd, tier):
    """the property through the running server, also after a restart on saved user words: the server's answer equals the engine's answer
    on the dictionary the server must be holding (whose candidates are judged above), so its candidates re-read to the input too"""
    from checks import server_common as sc
    from srv import build_binaries
    okb, blog = build_binaries()
    if not okb:
        res.tie_broken("the repository no longer builds with the hooks", blog[-1500:])
        return 0
    words = [("あおい", "青い"), ("たかい", "高い"), ("よまない", "読まない"), ("たべない", "食べない"), ("しずかだ", "静かだ"), ("かかない", "書かない"), ("みない", "見ない")]
    items = []
    for _ in range(3 if tier == "quick" else 30):
        base = {"std": [{"reading": "そら", "stem": "空", "speech": {"Noun": "Common"}}, {"reading": "あお", "stem": "青", "speech": {"Noun": "Common"}},
                        {"reading": "ほん", "stem": "本", "speech": {"Noun": "Common"}}],
                "anc": [{"reading": "を", "stem": "を", "speech": {"Particle": "Case"}}, {"reading": "ぞ", "stem": "ぞ", "speech": {"Particle": "SentenceFinal"}}], "tankan": []}
        regs = rnd.sample(words, 3)
        probes = []
        for r, w in regs:
            stem = r[:-2] if r.endswith("ない") else r[:-1]
            probes += [stem + t for t in ("", "ぞら", "を", "く", "い", "そら")]
        reqs = [{"kind": "register", "wkind": "Guess", "reading": r, "word": w} for r, w in regs]
        reqs += [{"kind": "convert", "input": p, "context": "Normal"} for p in probes] + [{"kind": "restart"}] + [{"kind": "convert", "input": p, "context": "Normal"} for p in probes]
        items.append((base, reqs, regs))
    runs = sc.run_histories([(b, r) for b, r, _ in items], threads=4)
    n = 0
    for hr, (base, reqs, regs) in zip(runs, items):
        for what, detail in hr.problems:
            res.violation(what, {"base": hr.base, "requests": hr.requests, "detail": detail})
        ents = harness([{"op": "dic_new_guessed", "reading": r, "word": w} for r, w in regs])
        forms = harness([{"op": "dic_conj", "entry": e["ok"]} for e in ents if "ok" in e])
        std = [[e["reading"], e["stem"], e["speech"]] for e in base["std"]]
        for e, f in zip([e for e in ents if "ok" in e], forms):
            std += [[fr, fw, e["ok"]["speech"]] for fw, fr in f.get("ok", [])]
        d = {"alphabet": sc.ALPHABET, "std": std, "anc": [[e["reading"], e["stem"], e["speech"]] for e in base["anc"]]}
        convs = [(ev, obs) for ev, obs in hr.events if ev["t"] == "convert"]
        lib = harness([{"op": "kkc_texts", "dict": d, "context": "Normal", "freq": [], "input": ev["input"], "n": 100} for ev, _ in convs])
        for (ev, obs), l in zip(convs, lib):
            n += 1
            if obs is not None and sorted(obs["texts"]) != sorted(l.get("ok") or []):
                res.violation(f"the server answers {ev['input']!r} with {obs['texts']}, the engine on the dictionary the server holds (base + the registered words' forms) gives {l.get('ok')}",
                              {"kind": "server_agrees", "base": hr.base, "requests": hr.requests, "input": ev["input"]})
    return n


def run(tier, seed):
    res, cov = kkc_run(PROP, tier, seed, "Props/C01.v", [], predicate)
    cov["server_conversions_compared"] = server_agrees(res, random.Random(seed + 11), tier)
    cov["rule"] = ("random small dictionaries over 2-6 kana (overlapping readings, duplicates, prefixes/suffixes/counters/particles), inputs built from dictionary readings plus noise, "
                   "four contexts, random learned counts, n in {1,2,3,5,100}; non-trivial = >= 2 candidates, a virtual tail, and >= 2 nodes ending at some position")
    return res.finish(cov, ["empty readings never enter the lattice (lookup by non-empty key)"])


def replay(path):
    d = json.load(open(path))
    build_harness()
    bad = 0
    for v in d.get("violations", []):
        q = v["replay"]["query"]
        r = harness([q])[0]
        res = Result(PROP, "replay", 0)
        if "panic" in r:
            print("panic", r)
            bad += 1
            continue
        predicate(res, q, r)
        print(q["input"], "->", [c["text"] for c in r["candidates"]], "violations:", len(res.violations))
        bad += bool(res.violations)
    return 1 if bad else 0
