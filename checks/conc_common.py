"""E10: concurrent clients against the real server, with delays injected at the lock sites (CHOKAN_VERIF_DELAYS)
and the lock-site trace (CHOKAN_VERIF_TRACE).  Shared by C14 and C15."""
import json, random, threading, concurrent.futures
from vlib import *
from srv import *

STD = ["くるま\t車\t/一般名詞/", "くる\t来る\t/一般名詞/", "でん\t電\t/一般名詞/", "やま\t山\t/固有名詞/", "かわ\t川\t/一般名詞/", "はし\t橋\t/一般名詞/", "はし\t箸\t/一般名詞/"]
ANC = ["まで\tまで\t/副助詞/", "で\tで\t/格助詞/", "しん\t新\t/接頭辞/", "てき\t的\t/接尾辞/"]
POINTS = ["convert.before_dict_lock", "convert.before_pref_lock", "convert.before_store_lock", "confirm.before_store_lock", "confirm.before_pref_lock",
          "updater.before_pref_lock", "updater.before_dict_lock", "updater.in_dict_lock", "updater.after_word", "saver.before_pref_lock"]


def start(wd, delays=None, trace=None, workers=None, user=True, fresh=True):
    d = os.path.join(wd, "dictionary.dat")
    if fresh:
        # every scenario starts without learned data (a periodic save of the previous scenario must not leak into this one)
        shutil.rmtree(os.path.join(wd, "user"), ignore_errors=True)
    if not os.path.exists(d):
        make_dictionary(wd, STD, ANC, [])
    env = {}
    if delays:
        env["CHOKAN_VERIF_DELAYS"] = ",".join(f"{k}={v}" for k, v in delays.items())
    if trace:
        env["CHOKAN_VERIF_TRACE"] = trace
    return Server(d, user_dir=os.path.join(wd, "user") if user else None, workers=workers, save_seconds=1, env=env)


def read_trace(path):
    """[(thread id, point)]"""
    out = []
    if os.path.exists(path):
        for l in open(path):
            parts = l.strip().rsplit(" ", 1)
            if len(parts) == 2:
                out.append((parts[0], parts[1]))
    return out
