"""C03 - conversion offers every matching dictionary word and only dictionary words."""
from checks.kkc_common import *

PROP = "C03"
ANC = lambda sp: sp == "AuxiliaryVerb" or (isinstance(sp, dict) and ("Particle" in sp or "Affix" in sp))
BIG = 1000000


def edge_after_prefix_ok(sp):
    return isinstance(sp, dict) and ("Noun" in sp or "Verb" in sp)


def predicate(res, q, r):
    d, inp = q["dict"], q["input"]
    words = {(w[1], w[0], json.dumps(w[2], sort_keys=True)) for w in d["std"] + d["anc"]}
    for c in r["candidates"]:
        pos = 0
        for p in c["nodes"]:
            if p["kind"] in ("word", "virtual"):
                if p["kind"] == "word" and inp[pos:pos + len(p["reading"])] != p["reading"]:
                    res.violation(f"candidate {c['text']!r} of {inp!r}: the word {p['surface']}/{p['reading']} covers {inp[pos:pos + len(p['reading'])]!r}, which is not exactly its dictionary reading",
                                  {"query": q, "part": p, "at": pos})
                pos += len(p["reading"])
            if p["kind"] == "word" and (p["surface"], p["reading"], json.dumps(p["speech"], sort_keys=True)) not in words:
                res.violation(f"candidate {c['text']!r} contains the word {p['surface']}/{p['reading']} which is not a dictionary entry", {"query": q, "part": p})
    texts = set(c["text"] for c in r["candidates"])
    if len(r["candidates"]) >= q["n"]:
        return False          # truncated list: the offer clause is about the untruncated list
    nt = False
    for w in d["std"]:
        if w[0] and inp.startswith(w[0]) and not ANC(w[2]):
            nt = True
            want = w[1] + inp[len(w[0]):]
            if want not in texts:
                res.violation(f"standard word {w[1]}/{w[0]} is a prefix of {inp!r} but {want!r} is not offered: {sorted(texts)}", {"query": q, "word": w, "want": want})
    for p in d["anc"]:
        if p[2] == {"Affix": "Prefix"} and p[0] and inp.startswith(p[0]):
            rest = inp[len(p[0]):]
            for w in d["std"]:
                if w[0] and rest.startswith(w[0]) and not ANC(w[2]) and edge_after_prefix_ok(w[2]):
                    want = p[1] + w[1] + rest[len(w[0]):]
                    if want not in texts:
                        res.violation(f"after the prefix {p[1]}/{p[0]} the word {w[1]}/{w[0]} may follow but {want!r} is not offered", {"query": q, "prefix": p, "word": w, "want": want})
    return nt


def make_q(rnd, k):
    qs = make_queries(rnd, k, n_choices=(BIG,), small=True, maxlen=7)
    # dictionaries whose tries are built by arbitrary insertion orders (the harness inserts in list order: shuffle)
    for q in qs[: len(qs) // 3]:
        rnd.shuffle(q["dict"]["std"])
    return qs


def server_offer(res, rnd, tier):
    """the same clause through the running server: words registered at run time join the standard words of their
    reading, they never replace them (and the other way round)"""
    from checks import server_common as sc
    from srv import build_binaries
    okb, blog = build_binaries()
    if not okb:
        res.tie_broken("the repository no longer builds with the hooks", blog[-1500:])
        return 0
    items = []
    for _ in range(6 if tier == "quick" else 60):
        base, alpha = sc.gen_base(rnd)
        nouns = [e for e in base["std"] if e["speech"] in sc.NONCONJ]
        if not nouns:
            continue
        reqs = []
        for _ in range(rnd.randint(2, 5)):
            e = rnd.choice(nouns)
            tail = rnd.choice(["", rnd.choice(alpha), rnd.choice(base["anc"])["reading"] if base["anc"] else ""])
            reqs.append({"kind": "convert", "input": e["reading"] + tail, "context": "Normal"})
            # a user word with a reading the dictionary already has, and one with a new reading
            reqs.append({"kind": "register", "wkind": rnd.choice(["CommonNoun", "ProperNoun"]), "reading": e["reading"] if rnd.random() < 0.7 else e["reading"] + rnd.choice(alpha),
                         "word": "".join(rnd.choice(KANJI) for _ in range(2))})
            reqs.append({"kind": "convert", "input": e["reading"] + tail, "context": "Normal"})
        items.append((base, reqs))
    runs = sc.run_histories(items, threads=6)
    n = 0
    for hr in runs:
        for what, detail in hr.problems:
            res.violation(what, {"base": hr.base, "requests": hr.requests, "detail": detail})
        registered = []
        for ev, obs in hr.events:
            if ev["t"] == "register" and obs == {}:
                registered.append({"reading": ev["reading"], "stem": ev["word"]})
            elif ev["t"] == "convert" and obs is not None and len(obs["texts"]) < 100:
                inp = ev["input"]
                n += 1
                for e in [x for x in hr.base["std"] if x["speech"] in sc.NONCONJ] + registered:
                    if inp.startswith(e["reading"]):
                        want = e["stem"] + inp[len(e["reading"]):]
                        if want not in obs["texts"]:
                            res.violation(f"the server does not offer {want!r} for {inp!r} although {e['stem']}/{e['reading']} is an independent word of its dictionary (standard or registered): {obs['texts']}",
                                          {"base": hr.base, "requests": hr.requests, "input": inp, "want": want})
    return n


def run(tier, seed):
    res, cov = kkc_run(PROP, tier, seed, "Props/C03.v", ["Trie/TrieModel.v", "Trie/TrieAbs.v", "Trie/TrieOps.v", "Trie/TrieEdge.v", "Trie/TrieRebase.v",
                                                         "Trie/TrieInsert.v", "Trie/TrieProofs.v", "Props/C04.v", "Kkc/DictTrie.v"], predicate, make_q=make_q)
    cov["server_conversions_checked"] = server_offer(res, random.Random(seed + 7), tier)
    cov["rule"] = ("as C01 with n = 10^6 (untruncated lists); dictionaries go through the real trie (insertion in shuffled orders); "
                   "non-trivial = some independent standard word's reading is a prefix of the input")
    return res.finish(cov, ["the trie in front of the map is covered by C04 (C03_with_trie composes the two)"])


def replay(path):
    d = json.load(open(path))
    build_harness()
    bad = 0
    for v in d.get("violations", []):
        if "query" not in v["replay"]:
            from checks import server_common as sc
            from srv import build_binaries
            build_binaries()
            hr = sc.HistoryRun(v["replay"]["base"], v["replay"]["requests"]).run()
            texts = [obs["texts"] for ev, obs in hr.events if ev["t"] == "convert" and obs and ev["input"] == v["replay"].get("input")]
            still = any(v["replay"].get("want") not in t for t in texts[-1:])
            print(v["what"][:200], "-> now:", texts[-1:] if texts else hr.problems[:1])
            bad += 1 if (still or hr.problems) else 0
            continue
        q = v["replay"]["query"]
        r = harness([q])[0]
        res = Result(PROP, "replay", 0)
        if "panic" not in r:
            predicate(res, q, r)
        print(q["input"], "->", [c["text"] for c in r.get("candidates", [])], "violations:", len(res.violations))
        bad += bool(res.violations) or "panic" in r
    return 1 if bad else 0
