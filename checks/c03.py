"""C03 - conversion offers every matching dictionary word and only dictionary words."""
from checks.kkc_common import *

PROP = "C03"
ANC = lambda sp: sp == "AuxiliaryVerb" or (isinstance(sp, dict) and ("Particle" in sp or "Affix" in sp))
BIG = 1000000


def edge_after_prefix_ok(sp):
    return isinstance(sp, dict) and ("Noun" in sp or "Verb" in sp)


def predicate(res, q, r):
    d, inp = q["dict"], q["input"]
    words = {(w[1], w[0], json.dumps(w[2], sort_keys=True)) for w in d["std"] + d["anc"]}
    for c in r["candidates"]:
        for p in c["nodes"]:
            if p["kind"] == "word" and (p["surface"], p["reading"], json.dumps(p["speech"], sort_keys=True)) not in words:
                res.violation(f"candidate {c['text']!r} contains the word {p['surface']}/{p['reading']} which is not a dictionary entry", {"query": q, "part": p})
    texts = set(c["text"] for c in r["candidates"])
    if len(r["candidates"]) >= q["n"]:
        return False          # truncated list: the offer clause is about the untruncated list
    nt = False
    for w in d["std"]:
        if w[0] and inp.startswith(w[0]) and not ANC(w[2]):
            nt = True
            want = w[1] + inp[len(w[0]):]
            if want not in texts:
                res.violation(f"standard word {w[1]}/{w[0]} is a prefix of {inp!r} but {want!r} is not offered: {sorted(texts)}", {"query": q, "word": w, "want": want})
    for p in d["anc"]:
        if p[2] == {"Affix": "Prefix"} and p[0] and inp.startswith(p[0]):
            rest = inp[len(p[0]):]
            for w in d["std"]:
                if w[0] and rest.startswith(w[0]) and not ANC(w[2]) and edge_after_prefix_ok(w[2]):
                    want = p[1] + w[1] + rest[len(w[0]):]
                    if want not in texts:
                        res.violation(f"after the prefix {p[1]}/{p[0]} the word {w[1]}/{w[0]} may follow but {want!r} is not offered", {"query": q, "prefix": p, "word": w, "want": want})
    return nt


def make_q(rnd, k):
    qs = make_queries(rnd, k, n_choices=(BIG,), small=True, maxlen=7)
    # dictionaries whose tries are built by arbitrary insertion orders (the harness inserts in list order: shuffle)
    for q in qs[: len(qs) // 3]:
        rnd.shuffle(q["dict"]["std"])
    return qs


def run(tier, seed):
    res, cov = kkc_run(PROP, tier, seed, "Props/C03.v", ["Trie/TrieModel.v", "Trie/TrieAbs.v", "Trie/TrieOps.v", "Trie/TrieEdge.v", "Trie/TrieRebase.v",
                                                         "Trie/TrieInsert.v", "Trie/TrieProofs.v", "Props/C04.v", "Kkc/DictTrie.v"], predicate, make_q=make_q)
    cov["rule"] = ("as C01 with n = 10^6 (untruncated lists); dictionaries go through the real trie (insertion in shuffled orders); "
                   "non-trivial = some independent standard word's reading is a prefix of the input")
    return res.finish(cov, ["the trie in front of the map is covered by C04 (C03_with_trie composes the two)"])


def replay(path):
    d = json.load(open(path))
    build_harness()
    bad = 0
    for v in d.get("violations", []):
        q = v["replay"]["query"]
        r = harness([q])[0]
        res = Result(PROP, "replay", 0)
        if "panic" not in r:
            predicate(res, q, r)
        print(q["input"], "->", [c["text"] for c in r.get("candidates", [])], "violations:", len(res.violations))
        bad += bool(res.violations) or "panic" in r
    return 1 if bad else 0
