"""C12 - conjugation keeps stem and okurigana aligned; every guessable speech conjugates."""
import json, random
from vlib import *
from conv import *

PROP = "C12"
GENS = ["gen_speech", "gen_conj"]
CONE = ["Base/Str.v", "Base/ListUtil.v", "Dic/Speech.v", "Dic/ConjRule.v", "Dic/Conjugation.v", "Dic/Gojuon.v", "Dic/ConjProofs.v", "Props/C12.v", "Gen/ConjTables.v"]
THEOREMS = ["C12_aligned", "C12_aligned_kahen", "C12_total", "C12_row", "C12_core_forms", "C12_guess_conjugable",
            "C12_guess_speech_conjugable", "C12_guess_accepts", "C12_guessed_stem_form"]
IMPORTS = "From Chokan Require Import Base.Str Base.ListUtil Dic.Speech Dic.ConjRule Gen.ConjTables Dic.Conjugation."

# the property's vocabulary, in Python (mirror of coq/Dic/Gojuon.v; used only to locate failing inputs)
GRID = {"ア": ["あ", "い", "う", "え", "お"], "カ": ["か", "き", "く", "け", "こ"], "ガ": ["が", "ぎ", "ぐ", "げ", "ご"], "サ": ["さ", "し", "す", "せ", "そ"],
        "ザ": ["ざ", "じ", "ず", "ぜ", "ぞ"], "タ": ["た", "ち", "つ", "て", "と"], "ダ": ["だ", "ぢ", "づ", "で", "ど"], "ナ": ["な", "に", "ぬ", "ね", "の"],
        "ハ": ["は", "ひ", "ふ", "へ", "ほ"], "バ": ["ば", "び", "ぶ", "べ", "ぼ"], "マ": ["ま", "み", "む", "め", "も"], "ヤ": ["や", "い", "ゆ", "え", "よ"],
        "ラ": ["ら", "り", "る", "れ", "ろ"], "ワ": ["わ", "ゐい", "う", "ゑえ", "をお"]}
EUPH = {("Godan", "カ"): "いっ", ("Godan", "ガ"): "い", ("Godan", "タ"): "っ", ("Godan", "ラ"): "っ", ("Godan", "ワ"): "っ",
        ("Godan", "ナ"): "ん", ("Godan", "バ"): "ん", ("Godan", "マ"): "ん"}


def row_chars(row):
    return "".join(GRID.get(row, []))


def core_ok(cls, row, okuris):
    g = GRID.get(row)
    if g is None:
        return False
    def has(v):
        return any(len(o) == 1 and o in g[v] for o in okuris)
    if cls == "Godan":
        return all(has(v) for v in range(5))
    if cls == "Yodan":
        return all(has(v) for v in range(4))
    if cls == "KamiIchidan":
        return has(1) or "" in okuris
    if cls == "SimoIchidan":
        return has(3) or "" in okuris
    if cls == "KamiNidan":
        return has(1) and has(2)
    if cls == "SimoNidan":
        return has(3) and has(2)
    if cls == "Hen":
        if row == "カ":
            return all(x in okuris for x in ["こ", "き", "くる", "くれ", "こい"])
        return all(has(v) for v in range(4))
    return False


def check_forms(res, cls, row, stem, sr, forms):
    okuris = []
    for w, r in forms:
        if cls == "Hen" and row == "カ":
            base = sr[:-1]
            if not r.startswith(base) or not w.startswith(stem):
                res.violation(f"k-irregular form ({w},{r}) of ({stem},{sr}) does not keep stem / reading-minus-last", {"class": cls, "row": row, "stem": stem, "reading": sr, "forms": forms})
                return
            v = r[len(base):]
            if w[len(stem):] != v[1:]:
                res.violation(f"k-irregular form ({w},{r}): word ending differs from the reading ending minus its first kana", {"class": cls, "row": row, "stem": stem, "reading": sr})
            okuris.append(v)
        else:
            if not (w.startswith(stem) and r.startswith(sr) and w[len(stem):] == r[len(sr):]):
                res.violation(f"form ({w!r},{r!r}) of stem ({stem!r},{sr!r}) [{row}行 {cls}] does not append the same okurigana to stem and reading",
                              {"class": cls, "row": row, "stem": stem, "reading": sr, "forms": forms})
                return
            okuris.append(w[len(stem):])
    for o in okuris:
        if o and o[0] not in row_chars(row) + EUPH.get((cls, row), ""):
            res.violation(f"okurigana {o!r} of {row}行 {cls} is outside the row and not a euphonic variant", {"class": cls, "row": row, "stem": stem, "reading": sr, "okuri": o})
    if not core_ok(cls, row, okuris):
        res.violation(f"core forms missing for {row}行 {cls}: {okuris}", {"class": cls, "row": row, "stem": stem, "reading": sr, "okuris": okuris})


def run(tier, seed):
    res = Result(PROP, tier, seed)
    rnd = random.Random(seed)
    info = standard_proof_steps(res, GENS, "Props/C12.v", CONE, "Props.C12", THEOREMS)
    okm, mlog = coq_make(["Dic/Conjugation.v"])
    okh, hlog = build_harness()
    if not okh:
        res.tie_broken("harness build failed", hlog[-1500:])
        return res.finish({"obligations": info["obligations"], "discharged": info["discharged"], "checker_cmd": "make", "trusted_base": TRUSTED_COMMON}, [])
    stems = [("食", "た"), ("行", "い"), ("来", "く"), ("a", "a"), ("x", "あい"), ("得", "え"), ("見", "み"), ("勉強", "べんきょう"), ("", ""), ("長", "ながい")]
    for _ in range(4 if tier == "quick" else 40):
        stems.append(("".join(rnd.choice("亜唖娃阿哀愛") for _ in range(rnd.randint(1, 3))), "".join(rnd.choice("あいうかきくけこんabé") for _ in range(rnd.randint(0, 4)))))
    cases, meta = [], []
    for c in VCLASSES:
        for row in ROWS14 + "イ":
            for st, sr in stems:
                cases.append({"op": "dic_conj", "entry": {"reading": sr, "stem": st, "speech": {"Verb": {c: row}}}})
                meta.append((c, row, st, sr))
    others = [s for s in all_speeches_json() if not (isinstance(s, dict) and "Verb" in s)]
    for sp in others:
        for st, sr in stems[:6]:
            cases.append({"op": "dic_conj", "entry": {"reading": sr, "stem": st, "speech": sp}})
            meta.append((None, sp, st, sr))
    rs = harness_parallel(cases)
    supported = set()
    conds = 0
    for (c, row, st, sr), r in zip(meta, rs):
        if c is None:
            if "ok" not in r:
                res.violation(f"conjugating a {row} entry panics: {r}", {"speech": row, "stem": st, "reading": sr})
            else:
                for w, rd in r["ok"]:
                    if not (w.startswith(st) and rd.startswith(sr) and w[len(st):] == rd[len(sr):]):
                        res.violation(f"form ({w},{rd}) of {row} entry ({st},{sr}) is not aligned", {"speech": row, "stem": st, "reading": sr})
            continue
        if "ok" in r:
            supported.add((c, row))
            if not (c == "Hen" and row == "カ" and sr == ""):
                check_forms(res, c, row, st, sr, r["ok"])
            if len(sr.encode()) == 1 or sr.endswith("い"):
                conds += 1
            if not r.get("same_speech", True):
                res.violation("conjugated word carries a different speech than its entry", {"class": c, "row": row})
    # ---- the guesser: every character the guesser maps to a class must conjugate
    chars = [chr(c) for c in range(0x3041, 0x3097)] + list("アカサabc0 漢") if tier == "quick" else \
        [chr(c) for c in range(0, 0x110000) if not (0xD800 <= c <= 0xDFFF)]
    gs = harness_parallel([{"op": "dic_guess_form", "ch": ord(ch)} for ch in chars], chunk=70000)
    guessable = {}
    for ch, g in zip(chars, gs):
        if g.get("ok"):
            (c, row), = g["ok"]["Verb"].items()
            guessable[ch] = (c, row)
            if (c, row) not in supported:
                res.violation(f"guess_form({ch!r}) = {row}行 {c}, which does not conjugate (panics)", {"kind": "guess_conjugable", "ch": ch, "class": c, "row": row})
    # ---- new_guessed on well-formed pairs (word = stem + ending, reading = stem reading + same ending) and on odd pairs
    ng, ngmeta = [], []
    endings = [ch + "ない" for ch in guessable] + ["い", "だ", "", "しい", "かだ"]
    for e in endings:
        for st, sr in [("食", "た"), ("勉強", "べんきょう"), ("x", "えっくす"), ("亜", "a")]:
            ng.append({"op": "dic_new_guessed", "reading": sr + e, "word": st + e})
            ngmeta.append(("good", st, sr, e))
    # the stem's reading itself ends with the ending (可愛い/かわいい, 無駄だ/むだだ): exactly ONE ending is stripped, from word and reading alike
    for e in endings:
        if e:
            ng.append({"op": "dic_new_guessed", "reading": "かわ" + e + e, "word": "愛" + e})
            ngmeta.append(("good", "愛", "かわ" + e, e))
    # a written form with decomposed kana (base + U+3099 / U+309A): the ending is still cut at the same place in word and reading
    for w, r in [("カ\u3099ラスだ", "がらすだ"), ("ハ\u309aンい", "ぱんい"), ("き\u3099かない", "ぎかない")]:
        ng.append({"op": "dic_new_guessed", "reading": r, "word": w})
        ngmeta.append(("good", w[:-1], r[:-1], None))
    # the shortest well-formed pairs: the word is nothing but a recognised ending (stem and stem reading empty)
    for e in ["ない", "い", "だ", "かない", "しない", "xない", "あない"]:
        ng.append({"op": "dic_new_guessed", "reading": e, "word": e})
        ngmeta.append(("good", "", "", e))
    for _ in range(60 if tier == "quick" else 3000):
        w = "".join(rnd.choice("食亜aあいだなしべ") for _ in range(rnd.randint(0, 5)))
        r = "".join(rnd.choice("たあいだなしべaé") for _ in range(rnd.randint(0, 5)))
        ng.append({"op": "dic_new_guessed", "reading": r, "word": w})
        ngmeta.append(("odd", w, r, None))
    ngr = harness_parallel(ng)
    ends_conj = []
    for (kind, st, sr, e), q, r in zip(ngmeta, ng, ngr):
        if kind == "good":
            if "ok" not in r:
                res.violation(f"new_guessed rejects the well-formed pair ({q['reading']!r}, {q['word']!r}): {r}", {"kind": "guess_accepts", "reading": q["reading"], "word": q["word"]})
                continue
            ent = r["ok"]
            if not (q["word"].startswith(ent["stem"]) and q["reading"].startswith(ent["reading"]) and
                    q["word"][len(ent["stem"]):] == q["reading"][len(ent["reading"]):]):
                res.violation(f"new_guessed({q['reading']!r},{q['word']!r}) strips different endings from word and reading: {ent}", {"kind": "guess_accepts", "reading": q["reading"], "word": q["word"], "entry": ent})
            ends_conj.append({"op": "dic_conj", "entry": ent})
    cj = harness_parallel(ends_conj) if ends_conj else []
    for q, r in zip(ends_conj, cj):
        if "ok" not in r:
            res.violation(f"the entry guessed from a well-formed pair does not conjugate: {q['entry']} -> {r}", {"kind": "guessed_conjugable", "entry": q["entry"]})
    # ---- model vs implementation
    n_model = 0
    if okm:
        ccases, origin = [], []
        def forms_term(r):
            if "ok" in r:
                return "(Ok %s)" % clist(["(%s, %s)" % (cstr(w), cstr(rd)) for w, rd in r["ok"]])
            return "Panic"
        for q, r in zip(cases, rs):
            sp = coq_speech(q["entry"]["speech"])
            ccases.append(f"CConj {sp} {cstr(q['entry']['stem'])} {cstr(q['entry']['reading'])} {forms_term(r)}")
            origin.append((q, r))
        for ch, g in list(zip(chars, gs))[:3000 if tier == "quick" else None]:
            t = "None"
            if g.get("ok"):
                (c, row), = g["ok"]["Verb"].items()
                t = f"(Some ({c}, {ord(row)}))"
            ccases.append(f"CGuess {ord(ch)} {t}")
            origin.append((ch, g))
        for q, r in zip(ng, ngr):
            t = "Panic"
            if "ok" in r:
                t = "(Ok %s)" % coq_entry(r["ok"])
            ccases.append(f"CNew {cstr(q['reading'])} {cstr(q['word'])} {t}")
            origin.append((q, r))
        extra = """
Inductive ccase := CConj (sp : speech) (stem sr : str) (r : outcome (list (str * str)))
  | CGuess (ch : N) (r : option (verb_class * N)) | CNew (reading word : str) (r : outcome entry).
Definition pair_eqb (a b : str * str) : bool := str_eqb (fst a) (fst b) && str_eqb (snd a) (snd b).
Definition subset (a b : list (str * str)) : bool := forallb (fun x => existsb (pair_eqb x) b) a.
Definition ccheck (c : ccase) : bool :=
  match c with
  | CConj sp stem sr r =>
    match to_forms sp stem sr, r with
    | Ok a, Ok b => subset a b && subset b a
    | Panic, Panic => true
    | _, _ => false
    end
  | CGuess ch r =>
    match guess_form ch, r with
    | Some (c, row), Some (c', row') => verb_class_eqb c c' && N.eqb row row'
    | None, None => true
    | _, _ => false
    end
  | CNew reading word r =>
    match new_guessed reading word, r with
    | Ok a, Ok b => entry_eqb a b
    | Panic, Panic => true
    | _, _ => false
    end
  end.
"""
        okc, failing, clog = run_coq_cases("C12", IMPORTS, "ccase", "ccheck", ccases, shard=min(1500, max(500, len(ccases) // 16 + 1)), extra_defs=extra)
        n_model = len(ccases)
        if not okc:
            res.tie_broken("correspondence: evaluating the conjugation model failed", clog)
        for i in failing[:10]:
            res.tie_broken("correspondence: model and implementation differ (conjugation / guess_form / new_guessed)", {"case": origin[i][0], "impl": origin[i][1]})
    else:
        res.tie_broken("model does not build: Dic/Conjugation.v", coq_failing_file(mlog))
    cov = {
        "obligations": info["obligations"], "discharged": info["discharged"],
        "checker_cmd": "cd /verif/coq && make Props/C12.vo + Print Assumptions",
        "trusted_base": TRUSTED_COMMON + ["hand-written gojuon grid / euphonic sets / core forms (coq/Dic/Gojuon.v) are the specification", "verb rows are single characters", "UTF-8 length by code-point range"],
        "axioms": info["axioms"],
        "evaluations": len(cases) + len(chars) + len(ng), "distinct_nontrivial": conds,
        "rule": "every (class,row) over 14 rows + an unsupported row x stems chosen to hit each conditional (1-byte reading, reading ending in い, empty reading, multi-char); "
                "guess_form on all kana (quick) / all Unicode scalar values (thorough); new_guessed on well-formed pairs for every guessable ending and on random odd pairs; "
                "non-trivial = the stem hits a conditional arm of the table",
        "traces_validated_against_impl": n_model,
        "supported_rows": len(supported), "guessable_chars": len(guessable),
        "samples": [cases[0], {"guess": dict(list(guessable.items())[:5])}, ng[0]],
    }
    return res.finish(cov, ["HashSet order of the conjugated forms is immaterial (compared as sets)"])


def replay(path):
    d = json.load(open(path))
    build_harness()
    for v in d.get("violations", []):
        print(v["what"])
    return 1 if d.get("violations") else 0
