"""C05 - no request history can wedge, poison or kill the conversion server."""
from checks.server_common import *

PROP = "C05"
CONE = ["Server/ServerModel.v", "Server/ServerProofs.v", "Props/C05.v", "Dic/RestoreProofs.v", "Kkc/Compose.v", "Props/C01.v", "Props/C03.v", "Props/C17.v",
        "Server/Protocol.v", "Server/ConcModel.v", "Server/ConcProofs.v", "Server/ConcAtomic.v", "Props/C14.v", "Gen/Protocol.v"]
THEOREMS = ["C05_init_wf", "C05_step_safe", "C05_no_panic", "C05_fuel_irrelevant", "C05_answer_depends_on_data_only", "C05_no_deadlock"]

ODD_STRINGS = ["ゎ", "くゎし", "ｱ", "a" + "あ" * 16, "ab" + "あ" * 21, "é" + "か" * 15 + "z", "あ" * 16 + "a", "a" * 47 + "あ", "𠮷" * 12 + "a", "",  " ", "\n", "\t", "あ い", "漢字", "ABC", "abc", "ー", "ゔ", "１２３", "😀", "a" * 300, "あ" * 120, "\u0000", "　", "き\nあ\ty\t/ア行五段/\n;", "/", ";", "'\"\\"]


def gen_c05_history(rnd, tier):
    base, alpha = gen_base(rnd)
    words = base["std"] + base["anc"]
    probes = [rnd.choice(words)["reading"] + rnd.choice(["", rnd.choice(alpha)]) for _ in range(3)]
    reqs = []
    def probe():
        for p in probes:
            reqs.append({"kind": "convert", "input": p, "context": "Normal", "probe": True})
    probe()
    nconv = len(probes)
    for _ in range(rnd.randint(6, 14)):
        k = rnd.random()
        if k < 0.2:
            reqs.append({"kind": rnd.choice(["convert", "proper", "tankan", "alpha"]), "input": rnd.choice(ODD_STRINGS), "context": rnd.choice(["Normal", "ForeignWord", "Numeral"])})
            if reqs[-1]["kind"] in ("convert", "proper"):
                nconv += 1
        elif k < 0.5:
            wk = rnd.choice(["CommonNoun", "ProperNoun", "Guess", "Guess"])
            r = rnd.choice(ODD_STRINGS + ["".join(rnd.choice(alpha) for _ in range(rnd.randint(1, 3)))] * 6)
            w = rnd.choice(ODD_STRINGS + ["".join(rnd.choice(KANJI) for _ in range(rnd.randint(1, 2)))] * 6)
            if wk == "Guess" and rnd.random() < 0.8:
                end = rnd.choice([c + "ない" for c in "かがさたなばまらわいきぎしじちにびみりえけげせぜてでねべめれ"] + ["い", "だ", "しい"])
                if rnd.random() < 0.7:
                    r, w = r + end, w + end          # consistent pair
                else:
                    w = w + end                       # inconsistent pair
            if rnd.random() < 0.3 and wk != "Guess":
                # a new word for exactly what was converted last and is converted next: the answer must show it, as a fresh server would
                r = rnd.choice(probes)
                cx = rnd.choice(["Normal", "Normal", "ForeignWord"])
                reqs.append({"kind": "convert", "input": r, "context": cx})
                reqs.append({"kind": "register", "wkind": wk, "reading": r, "word": w})
                reqs.append({"kind": "convert", "input": r, "context": cx})
                nconv += 2
            else:
                reqs.append({"kind": "register", "wkind": wk, "reading": r, "word": w})
            if rnd.random() < 0.4:
                probe()
                nconv += len(probes)
        elif k < 0.65:
            reqs.append({"kind": "confirm", "session": rnd.choice([None, rnd.randrange(nconv), rnd.randrange(nconv)]), "cid": rnd.choice(["0", "1", "99", "-1", "", "x", "0 "])})
        elif k < 0.8:
            reqs.append({"kind": "malformed", "method": rnd.choice(["GetCandidates", "GetProperCandidates", "GetTankanCandidates", "UpdateFrequency", "RegisterWord", "GetAlphabeticCandidate", "Nope", ""]),
                         "params": rnd.choice([{}, [], None, {"input": 1}, {"input": None}, {"input": "あ", "context": {"kind": "Bogus"}}, {"kind": "Verb", "reading": "あ", "word": "亜"},
                                               {"session_id": 1, "candidate_id": 2}, {"session_id": "x"}, "str", 42])})
        else:
            reqs.append({"kind": "convert", "input": rnd.choice(words)["reading"], "context": rnd.choice(["Normal", "ForeignWord", "Numeral"])})
            nconv += 1
        if rnd.random() < 0.3:
            probe()
            nconv += len(probes)
    probe()
    reqs.append({"kind": "restart"})
    probe()
    return base, reqs


def f16_entry(line):
    parts = line.split("\t")
    return len(parts) >= 3 and (parts[0] == "" or parts[1] == "")


def predicate(res, hr):
    """judged on the implementation alone"""
    for what, detail in hr.problems:
        res.violation(what, {"base": hr.base, "requests": hr.requests, "detail": detail})
    # probes: the same probe must be answered identically by the restarted server (which holds the same saved data)
    restart_idx = next((i for i, (ev, _) in enumerate(hr.events) if ev["t"] == "restart"), None)
    if restart_idx is None:
        return False
    before = {}
    applied = []          # acknowledged and applied noun registrations (reading, word) whose reading the dictionary alphabet spells
    for ev, obs in hr.events[:restart_idx]:
        if ev["t"] == "register" and obs == {} and ev["wkind"] in ("CommonNoun", "ProperNoun") and ev["reading"] and all(c in ALPHABET for c in ev["reading"]):
            applied.append((ev["reading"], ev["word"]))
        if ev["t"] == "convert" and obs is not None:
            before[(ev["input"], ev["ctx"])] = obs["texts"]
            # a freshly started server holding the same user data offers every registered word for its reading
            for r, w in applied:
                if ev["input"] == r and len(obs["texts"]) < 100 and w not in obs["texts"]:
                    res.violation(f"after RegisterWord({r!r}, {w!r}) was acknowledged and applied, converting {r!r} is answered {obs['texts']} - without the word, "
                                  f"unlike a freshly started server holding the same data", {"base": hr.base, "requests": hr.requests})
    known = False
    f16_stems = []
    _, robs = hr.events[restart_idx]
    if robs and robs.get("before") and robs.get("after"):
        lost = [l for l in robs["before"]["user_entries"] if l not in robs["after"]["user_entries"]]
        # known finding F16: guessed entries with an empty stem or stem reading are lost at the restart; what they made convertible
        # (their stem + an okurigana) disappears with them.  Other lost lines are judged by their own effect on the answers.
        f16_stems = [l.split("\t")[1] for l in lost if f16_entry(l)]
        known = bool(f16_stems)
    for ev, obs in hr.events[restart_idx + 1:]:
        if ev["t"] == "convert":
            if obs is None:
                res.violation(f"after the restart the conversion of {ev['input']!r} is not answered", {"base": hr.base, "requests": hr.requests})
            elif (ev["input"], ev["ctx"]) in before and before[(ev["input"], ev["ctx"])] != obs["texts"]:
                b4 = before[(ev["input"], ev["ctx"])]
                gone = [t for t in b4 if t not in obs["texts"]]
                only_f16 = known and not [t for t in obs["texts"] if t not in b4] and all(any(t.startswith(st) for st in f16_stems) for t in gone) \
                    and [t for t in b4 if t not in gone] == obs["texts"]
                if only_f16:
                    res.known("F16", "a guessed entry with an empty stem (word = a bare ending such as い) is convertible until the restart and lost afterwards")
                else:
                    res.violation(f"the restarted server answers {ev['input']!r} differently from the server that wrote the data: {before[(ev['input'], ev['ctx'])]} vs {obs['texts']}",
                                  {"base": hr.base, "requests": hr.requests})
    return any(r["kind"] == "malformed" or (r["kind"] == "register" and (r["reading"] in ODD_STRINGS or r["word"] in ODD_STRINGS)) for r in hr.requests)


def run(tier, seed):
    res = Result(PROP, tier, seed)
    rnd = random.Random(seed)
    info = standard_proof_steps(res, SRV_GENS + ["gen_protocol"], "Props/C05.v", CONE, "Props.C05", THEOREMS)
    okh, hlog = build_harness()
    okb, blog = build_binaries()
    if not (okh and okb):
        res.tie_broken("the repository no longer builds with the hooks", (hlog + blog)[-1500:])
        return res.finish({"obligations": info["obligations"], "discharged": info["discharged"], "checker_cmd": "make", "trusted_base": TRUSTED_COMMON}, [])
    n = 24 if tier == "quick" else 400
    items = [gen_c05_history(rnd, tier) for _ in range(n)]
    # corpus: the defects that were found and repaired
    fixed_base = {"std": [{"reading": "くるま", "stem": "車", "speech": {"Noun": "Common"}}], "anc": [{"reading": "で", "stem": "で", "speech": {"Particle": "Case"}}], "tankan": []}
    corpus = [
        [{"kind": "convert", "input": "", "context": "Normal"}, {"kind": "convert", "input": "くるまで", "context": "Normal"}, {"kind": "restart"}, {"kind": "convert", "input": "くるまで", "context": "Normal"}],
        [{"kind": "register", "wkind": "Guess", "reading": "べんきょうしない", "word": "勉強しない"}, {"kind": "convert", "input": "べんきょうし", "context": "Normal"},
         {"kind": "register", "wkind": "CommonNoun", "reading": "あ", "word": "亜"}, {"kind": "convert", "input": "あ", "context": "Normal"}, {"kind": "restart"}, {"kind": "convert", "input": "あ", "context": "Normal"}],
        [{"kind": "register", "wkind": "CommonNoun", "reading": "か", "word": "x\nあ\ty\t/ア行五段/\n;"}, {"kind": "convert", "input": "くるまで", "context": "Normal"}, {"kind": "restart"},
         {"kind": "convert", "input": "くるまで", "context": "Normal"}],
        [{"kind": "register", "wkind": "CommonNoun", "reading": "らーめん", "word": "拉麺"}, {"kind": "convert", "input": "らーめん", "context": "Normal"}, {"kind": "restart"},
         {"kind": "convert", "input": "らーめん", "context": "Normal"}],
    ]
    # semantically odd guessed registrations: every ending the guesser recognises on an empty / ASCII / mixed-width stem reading
    endings = [c + "ない" for c in "かこがごさそたとなのばぼまもらろわおいきぎしじちにびみりえけげせぜてでねべめれ"] + ["い", "だ", "しい"]
    for sr in ["", "k", "kk", "é", "aあ", "あa", "ー"]:
        hist = []
        for e in endings:
            hist.append({"kind": "register", "wkind": "Guess", "reading": sr + e, "word": "欠" + e})
        hist += [{"kind": "convert", "input": "くるまで", "context": "Normal"}, {"kind": "restart"}, {"kind": "convert", "input": "くるまで", "context": "Normal"}]
        corpus.append(hist)
    # every odd string through every method that takes a string (lengths and widths around any internal preview / slice)
    widths = ["a" * i + "あ" * j for i in (1, 2, 3) for j in (10, 15, 16, 21, 31, 42)] + ["あ" * j + "a" for j in (15, 16, 21, 31)]
    for chunk in [ODD_STRINGS, widths]:
        hist = []
        for x in chunk:
            hist += [{"kind": "tankan", "input": x}, {"kind": "alpha", "input": x}, {"kind": "convert", "input": x[:40], "context": "Normal"}]
        hist += [{"kind": "convert", "input": "くるまで", "context": "Normal"}, {"kind": "tankan", "input": "く"}, {"kind": "restart"}, {"kind": "convert", "input": "くるまで", "context": "Normal"}]
        corpus.append(hist)
    # sizes: a registered word of 90 KB (one very long line of user.dic, one very long request) and an answer of some 20 KB (100 candidates
    # of 61 characters each) - any cap on a request, a response or a line shows here
    corpus.append([{"kind": "register", "wkind": "CommonNoun", "reading": "おおきい", "word": "大" * 30000}, {"kind": "convert", "input": "おおきい", "context": "Normal"},
                   {"kind": "register", "wkind": "ProperNoun", "reading": "あ", "word": "亜"}, {"kind": "convert", "input": "あ", "context": "Normal"}, {"kind": "restart"},
                   {"kind": "convert", "input": "あ", "context": "Normal"}, {"kind": "convert", "input": "おおきい", "context": "Normal"}, {"kind": "convert", "input": "くるまで", "context": "Normal"}])
    wide_base = {"std": [{"reading": "き", "stem": chr(0x4E00 + 7 * i), "speech": {"Noun": "Common"}} for i in range(120)], "anc": [], "tankan": []}
    wide = [{"kind": "convert", "input": "き" + "ぬ" * 60, "context": c} for c in ("Normal", "ForeignWord")] + [{"kind": "proper", "input": "き" + "ぬ" * 60}, {"kind": "convert", "input": "き", "context": "Normal"}]
    # one client that stays connected (the Emacs client keeps ONE WebSocket for the whole session): 300 requests on the same connection
    long_ws = []
    for i in range(100):
        long_ws += [{"kind": "convert", "input": "くるまで", "context": "Normal"}, {"kind": "confirm", "session": i, "cid": "0"}, {"kind": "tankan", "input": "く"}]
    items = [(fixed_base, c) for c in corpus] + [(wide_base, wide), (dict(fixed_base, transport="ws"), long_ws + [{"kind": "restart"}, {"kind": "convert", "input": "くるまで", "context": "Normal"}])] + items
    runs = run_histories(items, threads=12)
    nontrivial = sum(1 for hr in runs if predicate(res, hr))
    n_model = model_histories(res, PROP, runs)
    # bounded time under concurrency: the extracted lock protocol is validated against the running server and
    # concurrent clients with sleeps injected at the lock sites must all be answered (C05_no_deadlock)
    from checks import c14
    from checks.conc_common import POINTS
    wd = workdir("c05c")
    conc = 0
    try:
        c14.trace_conformance(res, wd)
        plans = [({"convert.before_pref_lock": 8, "confirm.before_pref_lock": 8, "updater.before_dict_lock": 8}, 16, 8, "delays between nested lock acquisitions"),
                 ({"convert.before_store_lock": 6, "confirm.before_store_lock": 6, "updater.before_pref_lock": 6}, 12, 8, "delays before the outer lock acquisitions")]
        if tier != "quick":
            plans += [({p: rnd.choice([1, 5, 20]) for p in rnd.sample(POINTS, 4)}, rnd.choice([2, 8, 32]), 20, "random delays") for _ in range(8)]
        for dl, c, k, tag in plans:
            conc += c14.stress(res, wd, dl, c, k, rnd, tag)["requests"]
            shutil.rmtree(os.path.join(wd, "user"), ignore_errors=True)
    finally:
        cleanup(wd)
    cov = {
        "obligations": info["obligations"], "discharged": info["discharged"],
        "checker_cmd": f"cd /verif/coq && make Props/C05.vo + Print Assumptions on {len(THEOREMS)} theorems",
        "trusted_base": TRUSTED_COMMON + ["jsonrpsee / HTTP framing and what happens to a panicking callback (observed: connection closed)", "Mutex poisoning and task death are the only ways a panic wedges the server",
                                          "i32 score overflow and the cubic lattice construction on very long inputs are outside the model", "tokio / OS scheduling (responses are awaited with a 20 s timeout)"],
        "axioms": info["axioms"],
        "evaluations": sum(len(hr.requests) for hr in runs), "distinct_nontrivial": nontrivial,
        "rule": "request histories over the six RPC methods mixing well-formed requests with empty / non-kana / very long / control-character strings, unknown ids, every RegisterWord kind with consistent and "
                "inconsistent pairs, unparsable parameters and unknown methods; well-formed probe conversions before, in between and after; a restart on the same user directory followed by the same probes; "
                "non-trivial = the history contains a malformed request or an odd registration",
        "histories": len(runs), "traces_validated_against_impl": n_model, "concurrent_requests": conc,
        "samples": [runs[0].requests[:4], runs[len(corpus)].requests[:6]],
    }
    return res.finish(cov, ["partial: wall-clock bounds, jsonrpsee's handling of a panicking handler and HTTP behaviour are observed, not proved"])


def replay(path):
    d = json.load(open(path))
    build_harness(); build_binaries()
    bad = 0
    for v in d.get("violations", []):
        r = v["replay"]
        if "requests" in r:
            hr = HistoryRun(r["base"], r["requests"]).run()
            res = Result(PROP, "replay", 0)
            predicate(res, hr)
            print(v["what"][:100], "->", "reproduced" if res.violations else "not reproduced")
            bad += bool(res.violations)
    return 1 if bad else 0
