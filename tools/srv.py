"""Driving the real chokan-server / chokan-dic binaries: build, dictionary construction, process control, JSON-RPC over HTTP."""
import json, os, socket, subprocess, time, shutil, tempfile, http.client, signal
from vlib import *

TARGET_REPO = os.path.join(CACHE, "target_repo")
SERVER_BIN = os.path.join(TARGET_REPO, "debug", "chokan-server")
DIC_BIN = os.path.join(TARGET_REPO, "debug", "chokan-dic")
RUN = os.path.join(CACHE, "run")
_built = False


def build_binaries():
    global _built
    if _built:
        return True, ""
    env = dict(os.environ, CARGO_NET_OFFLINE="true", CARGO_TARGET_DIR=TARGET_REPO, RUSTFLAGS="--cfg chokan_verif")
    rc, out = sh(["timeout", "1500", "cargo", "build", "--offline", "-p", "chokan-server", "-p", "chokan-dic"], cwd=REPO, env=env)
    _built = rc == 0
    return rc == 0, out


def workdir(tag="w"):
    os.makedirs(RUN, exist_ok=True)
    return tempfile.mkdtemp(prefix=f"{tag}_{os.getpid()}_", dir=RUN)


def dic_line(reading, stem, speech_name):
    return f"{reading}\t{stem}\t/{speech_name}/"


def make_dictionary(wd, std_lines, anc_lines, tankan_lines, name="dictionary.dat"):
    """run the real chokan-dic on text sources; returns path of the binary dictionary"""
    paths = []
    for fn, lines in (("std.dic", std_lines), ("anc.dic", anc_lines), ("tankan.dic", tankan_lines)):
        p = os.path.join(wd, fn)
        with open(p, "w", encoding="utf-8") as f:
            f.write("\n".join(lines) + ("\n" if lines else ""))
        paths.append(p)
    out = os.path.join(wd, name)
    rc, log_ = sh([DIC_BIN] + paths + [out], timeout=600)
    if rc != 0 or not os.path.exists(out):
        raise RuntimeError("chokan-dic failed: " + log_[-500:])
    return out


PORT_DIR = "/tmp/chokan_verif_ports"


def free_port():
    """a port nobody else of this machinery is using: reserved by an O_EXCL file until release_port (concurrent server
    starts in threads and in parallel runs must never pick the same port: a client would silently talk to the wrong server)"""
    os.makedirs(PORT_DIR, exist_ok=True)
    rnd = random.Random(os.getpid() * 1000003 + time.time_ns())
    for _ in range(2000):
        p = rnd.randint(20000, 32000)          # below the kernel's ephemeral range (32768..): an outgoing connection of a parallel check can never take it
        f = os.path.join(PORT_DIR, str(p))
        try:
            fd = os.open(f, os.O_CREAT | os.O_EXCL | os.O_WRONLY)
        except FileExistsError:
            try:
                pid = int(open(f).read().strip() or "0")
                os.kill(pid, 0)
            except (ValueError, ProcessLookupError, FileNotFoundError):
                try:
                    os.unlink(f)          # the reserving process is gone
                except OSError:
                    pass
            except PermissionError:
                pass
            continue
        os.write(fd, str(os.getpid()).encode())
        os.close(fd)
        s = socket.socket()
        try:
            s.bind(("127.0.0.1", p))
            s.close()
            return p
        except OSError:
            s.close()
            os.unlink(f)
    raise RuntimeError("no free port")


def release_port(p):
    try:
        os.unlink(os.path.join(PORT_DIR, str(p)))
    except OSError:
        pass


def listens_on(pid, port):
    """does process pid itself own a listening TCP socket on 127.0.0.1:port?  (the server keeps running when its bind fails,
    so "something answers on the port" does not prove that it is the process we started)"""
    want = "0100007F:%04X" % port
    inodes = set()
    for fn in ("/proc/net/tcp",):
        try:
            for line in open(fn).read().split("\n")[1:]:
                f = line.split()
                if len(f) > 9 and f[1] == want and f[3] == "0A":
                    inodes.add(f[9])
        except OSError:
            return True          # cannot tell: do not block
    if not inodes:
        return False
    try:
        for fd in os.listdir(f"/proc/{pid}/fd"):
            try:
                l = os.readlink(f"/proc/{pid}/fd/{fd}")
            except OSError:
                continue
            if l.startswith("socket:[") and l[8:-1] in inodes:
                return True
    except OSError:
        return True
    return False


class WsClient:
    """a minimal WebSocket JSON-RPC client (RFC 6455 text frames, client side masked): the Emacs client talks to the server this way"""
    def __init__(self, port, timeout=10.0):
        import base64
        self.sock = socket.create_connection(("127.0.0.1", port), timeout=timeout)
        key = base64.b64encode(os.urandom(16)).decode()
        self.sock.sendall((f"GET / HTTP/1.1\r\nHost: 127.0.0.1:{port}\r\nUpgrade: websocket\r\nConnection: Upgrade\r\n"
                           f"Sec-WebSocket-Key: {key}\r\nSec-WebSocket-Version: 13\r\n\r\n").encode())
        buf = b""
        while b"\r\n\r\n" not in buf:
            c = self.sock.recv(4096)
            if not c:
                break
            buf += c
        self.status = buf.split(b"\r\n", 1)[0].decode("latin1")
        self.ok = " 101 " in self.status
        self.rest = buf.split(b"\r\n\r\n", 1)[1] if b"\r\n\r\n" in buf else b""
        self.id = 0

    def _recv(self, n):
        while len(self.rest) < n:
            c = self.sock.recv(65536)
            if not c:
                raise OSError("closed")
            self.rest += c
        out, self.rest = self.rest[:n], self.rest[n:]
        return out

    def call(self, method, params):
        """('ok', result) | ('error', e) | ('closed', msg)"""
        import struct
        self.id += 1
        payload = json.dumps({"jsonrpc": "2.0", "id": self.id, "method": method, "params": params}, ensure_ascii=False).encode("utf-8")
        mask = os.urandom(4)
        hdr = bytes([0x81])
        n = len(payload)
        hdr += bytes([0x80 | n]) if n < 126 else (bytes([0x80 | 126]) + struct.pack(">H", n) if n < 65536 else bytes([0x80 | 127]) + struct.pack(">Q", n))
        try:
            self.sock.sendall(hdr + mask + bytes(b ^ mask[i % 4] for i, b in enumerate(payload)))
            while True:
                b0, b1 = self._recv(2)
                ln = b1 & 0x7F
                if ln == 126:
                    ln = struct.unpack(">H", self._recv(2))[0]
                elif ln == 127:
                    ln = struct.unpack(">Q", self._recv(8))[0]
                data = self._recv(ln)
                if b0 & 0x0F == 0x1:
                    break
                if b0 & 0x0F == 0x8:
                    return ("closed", "close frame")
        except (OSError, socket.timeout) as e:
            return ("closed", str(e))
        j = json.loads(data)
        return ("ok", j["result"]) if "result" in j else ("error", j.get("error"))

    def close(self):
        try:
            self.sock.close()
        except OSError:
            pass


class Server:
    def __init__(self, dictionary, user_dir=None, workers=None, save_seconds=None, env=None, wait=True):
        e = dict(os.environ)
        e.pop("RUST_LOG", None)
        if workers is not None:
            e["TOKIO_WORKER_THREADS"] = str(workers)
        if env:
            e.update(env)
        self.id = 0
        self.timeout = 5.0       # default time limit of one call (histories raise it: a loaded machine must not look like a hang)
        self.timeouts = 0
        for attempt in range(3):
            self.port = free_port()
            cmd = [SERVER_BIN, "-p", str(self.port), "-d", dictionary]
            if user_dir:
                cmd += ["-u", user_dir]
            if save_seconds is not None:
                cmd += ["-s", str(save_seconds)]
            self.log = tempfile.NamedTemporaryFile(prefix="srvlog_", dir=RUN, delete=False)
            self.proc = subprocess.Popen(cmd, stdout=self.log, stderr=subprocess.STDOUT, env=e)
            self.up = self.wait_up(20.0) if wait else None
            if not wait:
                break
            if self.up:
                time.sleep(0.05)
                if self.proc.poll() is None and listens_on(self.proc.pid, self.port):
                    break            # our own process is the one listening
                if self.proc.poll() is None:
                    # something else answers on the port and our process (which survives a failed bind) does not listen: again elsewhere
                    self.proc.kill()
                    self.proc.wait(3)
                    release_port(self.port)
                    self.up = False
                    continue
            # the process died or never came up: once more on another port only when the port can be the reason (the bind failed, or the
            # process lives on without listening - the server survives a failed bind silently); a start that fails for a reason in the code
            # fails on every attempt and is reported after the third
            silent = self.proc.poll() is None
            if not silent and "Address already in use" not in self.logtext() and "AddrInUse" not in self.logtext():
                break
            if silent:
                if attempt == 2:
                    break
                self.proc.kill()
                self.proc.wait(3)
            release_port(self.port)

    def wait_up(self, timeout):
        t0 = time.time()
        while time.time() - t0 < timeout:
            if self.proc.poll() is not None:
                return False
            try:
                s = socket.create_connection(("127.0.0.1", self.port), timeout=0.2)
                s.close()
                return True
            except OSError:
                time.sleep(0.02)
        return False

    def call(self, method, params, timeout=None):
        """returns ('ok', result) | ('error', err) | ('timeout', None) | ('closed', msg)"""
        self.id += 1
        timeout = self.timeout if timeout is None else timeout
        body = json.dumps({"jsonrpc": "2.0", "id": self.id, "method": method, "params": params}, ensure_ascii=False).encode("utf-8")
        try:
            c = http.client.HTTPConnection("127.0.0.1", self.port, timeout=timeout)
            c.request("POST", "/", body=body, headers={"Content-Type": "application/json"})
            r = c.getresponse()
            data = r.read()
            c.close()
        except socket.timeout:
            self.timeouts += 1
            return ("timeout", None)
        except (OSError, http.client.HTTPException) as e:
            return ("closed", str(e))
        try:
            j = json.loads(data)
        except Exception:
            return ("closed", f"http {r.status}: {data[:200]!r}")
        if "result" in j:
            return ("ok", j["result"])
        return ("error", j.get("error"))

    def call_batch(self, calls, timeout=None):
        """calls = [(method, params)]: one JSON-RPC batch; returns one ('ok'|'error'|'timeout'|'closed', value) per call, in call order"""
        timeout = self.timeout if timeout is None else timeout
        ids = []
        arr = []
        for m, p_ in calls:
            self.id += 1
            ids.append(self.id)
            arr.append({"jsonrpc": "2.0", "id": self.id, "method": m, "params": p_})
        try:
            c = http.client.HTTPConnection("127.0.0.1", self.port, timeout=timeout)
            c.request("POST", "/", body=json.dumps(arr, ensure_ascii=False).encode("utf-8"), headers={"Content-Type": "application/json"})
            r = c.getresponse()
            data = r.read()
            c.close()
        except socket.timeout:
            self.timeouts += 1
            return [("timeout", None)] * len(calls)
        except (OSError, http.client.HTTPException) as e:
            return [("closed", str(e))] * len(calls)
        try:
            j = json.loads(data)
            by = {x.get("id"): x for x in j} if isinstance(j, list) else {}
        except Exception:
            by = {}
        out = []
        for i in ids:
            x = by.get(i)
            out.append(("closed", f"no answer in the batch response: {data[:200]!r}") if x is None else (("ok", x["result"]) if "result" in x else ("error", x.get("error"))))
        return out

    def alive(self):
        return self.proc.poll() is None

    def dump(self):
        return self.call("Verif.Dump", {})

    def quiesce(self, cap=8.0):
        """wait until every asynchronous hand-off has been applied"""
        t0 = time.time()
        last = None
        while time.time() - t0 < cap:
            st, d = self.dump()
            if st != "ok":
                return False, (st, d)
            last = d
            if d["entries_sent"] == d["entries_applied"]:
                return True, d
            time.sleep(0.005)
        return False, last

    def stop(self, kill=False):
        if self.proc.poll() is None:
            self.proc.send_signal(signal.SIGKILL if kill else signal.SIGTERM)
            try:
                self.proc.wait(3)
            except subprocess.TimeoutExpired:
                self.proc.kill()
                self.proc.wait(3)
        release_port(self.port)
        try:
            self.log.close()
            os.unlink(self.log.name)
        except OSError:
            pass

    def logtext(self):
        try:
            return open(self.log.name, errors="replace").read()[-3000:]
        except OSError:
            return ""


def cleanup(wd):
    shutil.rmtree(wd, ignore_errors=True)
