#!/usr/bin/env python3
"""Stores an already confirmed seeded change as /verif/seeded/<ID>/ after running the registered checks against it.
usage: seedkeep.py <seed dir> <confirmation json written by seedtest.py> <ID> <checks,comma separated>"""
import json, os, shutil, sys
sys.path.insert(0, os.path.dirname(os.path.abspath(__file__)))
import seedtest

d, conf_path, sid, checks = os.path.abspath(sys.argv[1]), sys.argv[2], sys.argv[3], sys.argv[4].split(",")
conf = json.load(open(conf_path))["confirmation"]
if not conf.get("confirmed"):
    raise SystemExit(f"{sid}: not confirmed")
meta = json.load(open(os.path.join(d, "meta.json")))
det = seedtest.detect(d, checks)
dst = os.path.join(seedtest.VERIF, "seeded", sid)
if os.path.exists(dst):
    shutil.rmtree(dst)
os.makedirs(dst)
shutil.copyfile(os.path.join(d, "patch.diff"), os.path.join(dst, "patch.diff"))
if os.path.isdir(os.path.join(d, "demo")):
    shutil.copytree(os.path.join(d, "demo"), os.path.join(dst, "demo"))
m = {"breaks_property": meta.get("property"), "summary": meta.get("summary"), "needs_to_manifest": meta.get("needs"), "files": meta.get("files"),
     "author": "independent sub-agent given only the property text and a scratch worktree",
     "confirmed_by_me": {"scratch_worktree": "git worktree of /repo HEAD under /tmp (removed afterwards)", "without_patch": conf.get("without_patch"), "with_patch": conf.get("with_patch"),
                         "builds_with_hooks": conf.get("builds_with_hooks")},
     "checks_run_against_it": det}
json.dump(m, open(os.path.join(dst, "meta.json"), "w"), ensure_ascii=False, indent=1)
print(sid, {c: (v.get("exit"), (v.get("lines") or [""])[-1][:110]) for c, v in det.items()} if isinstance(det, dict) and "error" not in det else det)
