#!/bin/sh
# independent re-check of every compiled property file (and everything it depends on) with coqchk; prints the axioms they rely on.
# ~4-5 minutes; not part of the per-change checks (each check runs Print Assumptions on its own theorems instead).
cd "$(dirname "$0")/../coq" || exit 2
exec timeout 3000 coqchk -o -silent -Q . Chokan $(ls Props/*.v | sed 's|/|.|; s|\.v$||; s|^|Chokan.|')
