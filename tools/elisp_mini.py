"""A mini Emacs-Lisp reader and evaluator, just large enough to run the three romaji defuns of
chokan.el FROM THE SOURCE TEXT (Emacs is not installed in this sandbox).  Anything outside the
supported subset raises ElispError (fail closed).  Strings are Python str, characters are ints,
lists are Python lists with dotted pairs as Cons objects, nil = None / [], t = True."""
import re


class ElispError(Exception):
    pass


class Sym:
    __slots__ = ("name",)
    _tab = {}

    def __new__(cls, name):
        if name in cls._tab:
            return cls._tab[name]
        o = object.__new__(cls)
        o.name = name
        cls._tab[name] = o
        return o

    def __repr__(self):
        return self.name


class Cons:
    """a dotted pair (car . cdr) whose cdr is not a list"""
    __slots__ = ("car", "cdr")

    def __init__(self, car, cdr):
        self.car, self.cdr = car, cdr

    def __repr__(self):
        return f"({self.car!r} . {self.cdr!r})"


class Vec(list):
    pass


QUOTE, BQUOTE, UNQUOTE, FUNCTION = Sym("quote"), Sym("`"), Sym(","), Sym("function")


def read_all(src):
    pos = [0]
    n = len(src)

    def skip():
        while pos[0] < n:
            c = src[pos[0]]
            if c in " \t\n\r\f":
                pos[0] += 1
            elif c == ";":
                while pos[0] < n and src[pos[0]] != "\n":
                    pos[0] += 1
            else:
                break

    def read():
        skip()
        if pos[0] >= n:
            raise ElispError("unexpected end of input")
        c = src[pos[0]]
        if c == "(":
            pos[0] += 1
            items = []
            while True:
                skip()
                if pos[0] >= n:
                    raise ElispError("unterminated list")
                if src[pos[0]] == ")":
                    pos[0] += 1
                    return items
                if src[pos[0]] == "." and pos[0] + 1 < n and src[pos[0] + 1] in " \t\n":
                    pos[0] += 1
                    cdr = read()
                    skip()
                    if src[pos[0]] != ")":
                        raise ElispError("bad dotted pair")
                    pos[0] += 1
                    if len(items) == 1 and not isinstance(cdr, list):
                        return Cons(items[0], cdr)
                    if isinstance(cdr, list):
                        return items + cdr
                    # (a b . c): represent as nested Cons
                    r = cdr
                    for x in reversed(items):
                        r = Cons(x, r)
                    return r
                items.append(read())
        if c == ")":
            raise ElispError("unexpected )")
        if c == "[":
            pos[0] += 1
            items = Vec()
            while True:
                skip()
                if src[pos[0]] == "]":
                    pos[0] += 1
                    return items
                items.append(read())
        if c == "'":
            pos[0] += 1
            return [QUOTE, read()]
        if c == "`":
            pos[0] += 1
            return [BQUOTE, read()]
        if c == ",":
            pos[0] += 1
            return [UNQUOTE, read()]
        if c == "#" and src[pos[0] + 1] == "'":
            pos[0] += 2
            return [FUNCTION, read()]
        if c == '"':
            j = pos[0] + 1
            out = []
            while src[j] != '"':
                if src[j] == "\\":
                    j += 1
                    e = src[j]
                    if e == "n":
                        out.append("\n")
                    elif e == "t":
                        out.append("\t")
                    elif e == "\n":
                        pass
                    elif e in '"\\':
                        out.append(e)
                    else:
                        out.append(e)
                else:
                    out.append(src[j])
                j += 1
            pos[0] = j + 1
            return "".join(out)
        if c == "?":
            ch = src[pos[0] + 1]
            if ch == "\\":
                e = src[pos[0] + 2]
                pos[0] += 3
                return ord({"n": "\n", "t": "\t", "s": " ", "\\": "\\"}.get(e, e))
            pos[0] += 2
            return ord(ch)
        m = re.compile(r"[^\s()\[\]\"';`,]+").match(src, pos[0])
        if not m:
            raise ElispError(f"cannot read at {src[pos[0]:pos[0] + 20]!r}")
        tok = m.group(0)
        pos[0] = m.end()
        if re.fullmatch(r"-?\d+", tok):
            return int(tok)
        if tok == "nil":
            return None
        if tok == "t":
            return True
        return Sym(tok)

    forms = []
    while True:
        skip()
        if pos[0] >= n:
            return forms
        forms.append(read())


class Return(Exception):
    def __init__(self, v):
        self.v = v


def truthy(v):
    return not (v is None or v == [] and isinstance(v, list) and not isinstance(v, Vec))


def l_equal(a, b):
    if isinstance(a, Cons) and isinstance(b, Cons):
        return l_equal(a.car, b.car) and l_equal(a.cdr, b.cdr)
    if type(a) != type(b) and not (isinstance(a, (int, bool)) and isinstance(b, (int, bool))):
        if (a is None and b == []) or (b is None and a == []):
            return True
        return False
    return a == b


def car(x):
    if x is None or x == []:
        return None
    if isinstance(x, Cons):
        return x.car
    return x[0]


def cdr(x):
    if x is None or x == []:
        return None
    if isinstance(x, Cons):
        return x.cdr
    r = x[1:]
    return r if r else None


def seq_len(x):
    if x is None:
        return 0
    return len(x)


def substring(s, a, b=None):
    n = len(s)
    if b is None:
        b = n
    if a < 0:
        a += n
    if b < 0:
        b += n
    if not (0 <= a <= b <= n):
        raise ElispError(f"args-out-of-range: (substring {s!r} {a} {b})")
    return s[a:b]


def split_string(s, sep):
    if sep != "":
        raise ElispError("split-string: only the empty separator is supported")
    if s == "":
        return [""]
    return [""] + list(s) + [""]


class Env:
    def __init__(self, parent=None):
        self.vars = {}
        self.parent = parent

    def lookup(self, name):
        e = self
        while e is not None:
            if name in e.vars:
                return e
            e = e.parent
        return None

    def get(self, name):
        e = self.lookup(name)
        if e is None:
            raise ElispError(f"void variable {name}")
        return e.vars[name]

    def set(self, name, v):
        e = self.lookup(name)
        if e is None:
            raise ElispError(f"setq of unbound variable {name}")
        e.vars[name] = v


class Interp:
    def __init__(self):
        self.globals = Env()
        self.funs = {}
        self.steps = 0
        self.max_steps = 10_000_000

    def load(self, src, wanted_defuns, wanted_vars):
        for f in read_all(src):
            if isinstance(f, list) and f and isinstance(f[0], Sym):
                h = f[0].name
                if h in ("defconst", "defvar") and isinstance(f[1], Sym) and f[1].name in wanted_vars:
                    self.globals.vars[f[1].name] = self.eval(f[2], self.globals)
                elif h == "defun" and f[1].name in wanted_defuns:
                    body = f[3:]
                    if body and isinstance(body[0], str) and len(body) > 1:
                        body = body[1:]
                    self.funs[f[1].name] = ([p.name for p in (f[2] or [])], body)
        for w in wanted_defuns:
            if w not in self.funs:
                raise ElispError(f"defun {w} not found")
        for w in wanted_vars:
            if w not in self.globals.vars:
                raise ElispError(f"variable {w} not found")

    def call(self, name, *args):
        params, body = self.funs[name]
        env = Env(self.globals)
        if len(params) != len(args):
            raise ElispError(f"wrong number of arguments for {name}")
        for p, a in zip(params, args):
            env.vars[p] = a
        r = None
        for b in body:
            r = self.eval(b, env)
        return r

    def progn(self, forms, env):
        r = None
        for f in forms:
            r = self.eval(f, env)
        return r

    def eval(self, x, env):
        self.steps += 1
        if self.steps > self.max_steps:
            raise ElispError("step limit exceeded (non-termination?)")
        if isinstance(x, Sym):
            return env.get(x.name)
        if not isinstance(x, list) or isinstance(x, Vec):
            return x
        if not x:
            return None
        h = x[0]
        if not isinstance(h, Sym):
            raise ElispError(f"cannot call {h!r}")
        n = h.name
        a = x[1:]
        if n == "quote":
            return a[0]
        if n == "function":
            return a[0]
        if n in ("let", "let*"):
            new = Env(env)
            for b in (a[0] or []):
                if isinstance(b, Sym):
                    new.vars[b.name] = None
                else:
                    v = self.eval(b[1], new if n == "let*" else env) if len(b) > 1 else None
                    new.vars[b[0].name] = v
            return self.progn(a[1:], new)
        if n == "setq":
            v = None
            for i in range(0, len(a), 2):
                v = self.eval(a[i + 1], env)
                env.set(a[i].name, v)
            return v
        if n == "while":
            while truthy(self.eval(a[0], env)):
                self.progn(a[1:], env)
            return None
        if n == "if":
            if truthy(self.eval(a[0], env)):
                return self.eval(a[1], env)
            return self.progn(a[2:], env)
        if n == "when":
            if truthy(self.eval(a[0], env)):
                return self.progn(a[1:], env)
            return None
        if n == "progn":
            return self.progn(a, env)
        if n == "and":
            v = True
            for f in a:
                v = self.eval(f, env)
                if not truthy(v):
                    return None
            return v
        if n == "or":
            for f in a:
                v = self.eval(f, env)
                if truthy(v):
                    return v
            return None
        if n == "lambda":
            return ("closure", [p.name for p in (a[0] or [])], a[1:], env)
        if n == "if-let":
            new = Env(env)
            for b in a[0]:
                v = self.eval(b[1], new)
                if not truthy(v):
                    return self.progn(a[2:], env)
                new.vars[b[0].name] = v
            return self.eval(a[1], new)
        if n == "cl-dotimes":
            var, count = a[0][0].name, self.eval(a[0][1], env)
            new = Env(env)
            try:
                for i in range(count):
                    new.vars[var] = i
                    self.progn(a[1:], new)
            except Return as r:
                return r.v
            return self.eval(a[0][2], new) if len(a[0]) > 2 else None
        if n == "cl-return":
            raise Return(self.eval(a[0], env) if a else None)
        if n == "pcase":
            v = self.eval(a[0], env)
            for clause in a[1:]:
                pat, body = clause[0], clause[1:]
                new = Env(env)
                if self.pmatch(pat, v, new):
                    return self.progn(body, new)
            return None
        # ---- functions
        args = [self.eval(f, env) for f in a]
        return self.apply(n, args)

    def pmatch(self, pat, v, env):
        # only `(,_ . ,x)  (a backquoted dotted pair of two unquotes) and _ are supported
        if isinstance(pat, Sym) and pat.name == "_":
            return True
        if isinstance(pat, list) and len(pat) == 2 and pat[0] is BQUOTE:
            q = pat[1]
            # `(,a . ,b) reads as the list [, a , b]?  the reader returns [[UNQUOTE a], UNQUOTE, b] for "(,_ . ,ret)"
            if isinstance(q, list) and len(q) == 3 and isinstance(q[0], list) and q[0][0] is UNQUOTE and q[1] is UNQUOTE:
                carp, cdrp = q[0][1], q[2]
            elif isinstance(q, Cons) and isinstance(q.car, list) and q.car[0] is UNQUOTE and isinstance(q.cdr, list) and q.cdr[0] is UNQUOTE:
                carp, cdrp = q.car[1], q.cdr[1]
            else:
                raise ElispError(f"unsupported pcase pattern {pat!r}")
            if isinstance(v, Cons):
                va, vd = v.car, v.cdr
            elif isinstance(v, list) and not isinstance(v, Vec) and v:
                va, vd = v[0], (v[1:] or None)
            else:
                return False
            for p, val in ((carp, va), (cdrp, vd)):
                if isinstance(p, Sym) and p.name != "_":
                    env.vars[p.name] = val
            return True
        raise ElispError(f"unsupported pcase pattern {pat!r}")

    def funcall(self, f, args):
        if isinstance(f, tuple) and f[0] == "closure":
            _, params, body, cenv = f
            new = Env(cenv)
            for p, v in zip(params, args):
                new.vars[p] = v
            return self.progn(body, new)
        if isinstance(f, Sym):
            return self.apply(f.name, args)
        raise ElispError(f"cannot funcall {f!r}")

    def apply(self, n, args):
        if n in self.funs:
            return self.call(n, *args)
        if n == "not" or n == "null":
            return True if not truthy(args[0]) else None
        if n == ">=":
            return True if args[0] >= args[1] else None
        if n == "<=":
            return True if args[0] <= args[1] else None
        if n == "<":
            return True if args[0] < args[1] else None
        if n == ">":
            return True if args[0] > args[1] else None
        if n == "=":
            return True if args[0] == args[1] else None
        if n == "+":
            return sum(args)
        if n == "-":
            return args[0] - sum(args[1:]) if len(args) > 1 else -args[0]
        if n == "1+":
            return args[0] + 1
        if n == "1-":
            return args[0] - 1
        if n == "min":
            return min(args)
        if n == "max":
            return max(args)
        if n in ("equal", "string="):
            return True if l_equal(args[0], args[1]) else None
        if n == "aref":
            s, i = args
            if not (0 <= i < len(s)):
                raise ElispError("args-out-of-range in aref")
            return ord(s[i]) if isinstance(s, str) else s[i]
        if n == "member":
            x, l = args
            l = l or []
            for k in range(len(l)):
                if l_equal(l[k], x):
                    return l[k:]
            return None
        if n in ("length", "seq-length"):
            return seq_len(args[0])
        if n == "seq-empty-p":
            return True if seq_len(args[0]) == 0 else None
        if n == "substring":
            return substring(*args)
        if n == "seq-concatenate":
            if not (isinstance(args[0], Sym) and args[0].name == "string"):
                raise ElispError("seq-concatenate: only 'string")
            return "".join(args[1:])
        if n == "concat":
            return "".join(args)
        if n == "seq-reduce":
            f, seq, acc = args
            for it in (seq or []):
                acc = self.funcall(f, [acc, it])
            return acc
        if n == "assoc":
            k, l = args
            for it in (l or []):
                if isinstance(it, (Cons, list)) and not isinstance(it, Vec) and l_equal(car(it), k):
                    return it
            return None
        if n == "car":
            return car(args[0])
        if n == "cdr":
            return cdr(args[0])
        if n == "split-string":
            return split_string(*args)
        if n == "mapconcat":
            f, seq = args[0], args[1]
            sep = args[2] if len(args) > 2 and args[2] is not None else ""
            return sep.join(self.funcall(f, [c]) for c in (seq or []))
        if n == "list":
            return list(args)
        raise ElispError(f"unsupported function {n}")


DEFUNS = ["chokan--roman-sokuon-p", "chokan--roman-to-hiragana", "chokan--roman-hira-to-kata"]
VARS = ["chokan--roman-table", "chokan--katakana-table", "chokan--target-character-regexp"]


def load_chokan(path):
    it = Interp()
    it.load(open(path, encoding="utf-8").read(), DEFUNS, VARS)
    return it


if __name__ == "__main__":
    import sys
    it = load_chokan(sys.argv[1] if len(sys.argv) > 1 else "/repo/chokan.el")
    tests = [("lx", "lx"), ("l", "l"), ("si", "し"), ("sizi", "しじ"), ("sitenn", "してん"), ("z", "z"), ("a", "あ"), ("qi", "qい"),
             ("tt", "っt"), ("ssu", "っす"), ("ttta", "っった"), ("kattara", "かったら"), ("pろgらm", "pろgらm"), ("とtyuu", "とちゅう")]
    for i, o in tests:
        it.steps = 0
        r = it.call("chokan--roman-to-hiragana", i)
        print(i, "->", r, "OK" if r == o else f"MISMATCH (want {o})")
    for i, o in [("か", "カ"), ("っt", "ッt"), ("t", "t"), ("しゅ", "シュ")]:
        r = it.call("chokan--roman-hira-to-kata", i)
        print(i, "->", r, "OK" if r == o else f"MISMATCH (want {o})")
    print("xtsu ->", it.call("chokan--roman-to-hiragana", "xtsu"))
    print(len(it.globals.vars["chokan--roman-table"]), "keys")
