#!/usr/bin/env python3
"""Evaluates seeded changes in parallel WITHOUT touching /repo or /verif's build state: every worker owns
   /tmp/sw_<i>/repo (a git worktree of /repo HEAD), /tmp/sw_<i>/verif (a copy of /verif whose harness points at that
   worktree) and its own cargo targets; the checks run there with CHOKAN_REPO set.  This is tooling for measuring the
   checks - the registered checks and the committed evidence always come from /verif run against /repo.

usage: seedpar.py [--workers N] [--no-confirm] <job> ...      job = <seed dir>:<ID>:<check,check,...>
For each job: confirm (87 pinned tests + demo, without / with the patch) in the worker's scratch worktree, apply the
patch to the worker's repo, run the quick checks in the worker's verif copy, revert; store /verif/seeded/<ID>/."""
import concurrent.futures, json, os, queue, shutil, subprocess, sys, time
sys.path.insert(0, os.path.dirname(os.path.abspath(__file__)))
import seedtest

VERIF = seedtest.VERIF


def sh(cmd, cwd=None, env=None, timeout=7200):
    p = subprocess.run(cmd, shell=isinstance(cmd, str), cwd=cwd, env=env, stdout=subprocess.PIPE, stderr=subprocess.STDOUT, text=True, timeout=timeout)
    return p.returncode, p.stdout


def setup_worker(i):
    root = f"/tmp/sw_{i}"
    repo, verif = os.path.join(root, "repo"), os.path.join(root, "verif")
    os.makedirs(root, exist_ok=True)
    head = sh(["git", "-C", "/repo", "rev-parse", "HEAD"])[1].strip()
    if os.path.isdir(repo) and sh(["git", "-C", repo, "rev-parse", "HEAD"])[1].strip() != head:
        sh(["git", "-C", "/repo", "worktree", "remove", "--force", repo])
    if not os.path.isdir(repo):
        sh(["git", "-C", "/repo", "worktree", "prune"])
        rc, out = sh(["git", "-C", "/repo", "worktree", "add", "--detach", repo, "HEAD"])
        if rc != 0:
            raise SystemExit(out)
    sh(["git", "-C", repo, "checkout", "--", "."])
    sh(["git", "-C", repo, "clean", "-fdq"])
    # the verif copy: sources + built .vo (so only what a patch changes is rebuilt); its own .cache
    os.makedirs(verif, exist_ok=True)
    sh(["rsync", "-a", "--delete", "--exclude", ".git", "--exclude", ".cache", "--exclude", "seeded", "--exclude", "replay", "--exclude", "evidence",
        "--exclude", "harness/target", "--exclude", "coq/cases", VERIF + "/", verif + "/"])
    for f in ("harness/Cargo.toml", "harness/src/main.rs"):
        p = os.path.join(verif, f)
        s = open(p).read().replace('"/repo/', f'"{repo}/')
        open(p, "w").write(s)
    os.makedirs(os.path.join(verif, "evidence"), exist_ok=True)
    return root, repo, verif


def run_job(job, i, confirm=True):
    d, sid, checks = job
    d = os.path.abspath(d)
    root, repo, verif = setup_worker(i)
    meta = json.load(open(os.path.join(d, "meta.json"))) if os.path.exists(os.path.join(d, "meta.json")) else {}
    conf = seedtest.confirm(d, target=os.path.join(root, "target_confirm")) if confirm else {"confirmed": None}
    det = {}
    if conf.get("confirmed") or not confirm:
        rc, o = sh(["git", "-C", repo, "apply", os.path.join(d, "patch.diff")])
        if rc != 0:
            det = {"error": "patch does not apply: " + o[-300:]}
        else:
            env = dict(os.environ, CHOKAN_REPO=repo, CARGO_NET_OFFLINE="true")
            for c in checks:
                t0 = time.time()
                rc, o = sh(["./check", c, "--tier", "quick"], cwd=verif, env=env, timeout=3600)
                lines = [l.replace(verif, "/verif") for l in o.split("\n") if l.startswith(("VIOLATION", "OK ", "KNOWN-FINDING"))]
                first = [l.strip()[:300] for l in o.split("\n") if l.strip().startswith(("violation:", "broken:"))][:2]
                det[c] = {"exit": rc, "lines": lines[-3:], "first_reports": first, "wall_s": round(time.time() - t0, 1)}
            sh(["git", "-C", repo, "checkout", "--", "."])
            sh(["git", "-C", repo, "clean", "-fdq"])
    if conf.get("confirmed") or (not confirm and det and "error" not in det):
        dst = os.path.join(VERIF, "seeded", sid)
        if os.environ.get("SEEDPAR_NOWRITE"):
            return sid, conf.get("confirmed"), {c: (v.get("exit"), (v.get("lines") or [""])[-1][:100]) for c, v in det.items()} if "error" not in det else det
        if os.path.realpath(dst) == os.path.realpath(d):
            # re-evaluation of a kept change in place: only the verdicts are refreshed
            old = json.load(open(os.path.join(dst, "meta.json")))
            old["checks_run_against_it"] = det
            old["how_run"] = "tools/seedpar.py: the quick checks of a copy of /verif run with CHOKAN_REPO = a worktree of /repo HEAD with the patch applied"
            json.dump(old, open(os.path.join(dst, "meta.json"), "w"), ensure_ascii=False, indent=1)
            return sid, conf.get("confirmed"), {c: (v.get("exit"), (v.get("lines") or [""])[-1][:100]) for c, v in det.items()} if "error" not in det else det
        if os.path.exists(dst):
            old = json.load(open(os.path.join(dst, "meta.json"))) if os.path.exists(os.path.join(dst, "meta.json")) else {}
            if not confirm:
                conf = {"without_patch": (old.get("confirmed_by_me") or {}).get("without_patch"), "with_patch": (old.get("confirmed_by_me") or {}).get("with_patch"),
                        "builds_with_hooks": (old.get("confirmed_by_me") or {}).get("builds_with_hooks")}
            shutil.rmtree(dst)
        os.makedirs(dst)
        shutil.copyfile(os.path.join(d, "patch.diff"), os.path.join(dst, "patch.diff"))
        if os.path.isdir(os.path.join(d, "demo")):
            shutil.copytree(os.path.join(d, "demo"), os.path.join(dst, "demo"))
        m = {"breaks_property": meta.get("property") or meta.get("breaks_property"), "summary": meta.get("summary"), "needs_to_manifest": meta.get("needs") or meta.get("needs_to_manifest"),
             "files": meta.get("files"), "author": "independent sub-agent given only the property text and a scratch worktree",
             "confirmed_by_me": {"scratch_worktree": "git worktree of /repo HEAD under /tmp (removed afterwards)", "without_patch": conf.get("without_patch"),
                                 "with_patch": conf.get("with_patch"), "builds_with_hooks": conf.get("builds_with_hooks")},
             "checks_run_against_it": det,
             "how_run": "tools/seedpar.py: the quick checks of a copy of /verif run with CHOKAN_REPO = a worktree of /repo HEAD with the patch applied"}
        json.dump(m, open(os.path.join(dst, "meta.json"), "w"), ensure_ascii=False, indent=1)
    return sid, conf.get("confirmed"), {c: (v.get("exit"), (v.get("lines") or [""])[-1][:100]) for c, v in det.items()} if "error" not in det else det


def main():
    args = sys.argv[1:]
    workers, confirm = 4, True
    jobs = []
    while args:
        a = args.pop(0)
        if a == "--workers":
            workers = int(args.pop(0))
        elif a == "--no-confirm":
            confirm = False
        else:
            d, sid, cs = a.split(":")
            jobs.append((d, sid, cs.split(",")))
    free = queue.Queue()
    for i in range(workers):
        free.put(i)

    def work(job):
        i = free.get()
        try:
            return run_job(job, i, confirm)
        except Exception as e:
            return job[1], "ERROR", repr(e)
        finally:
            free.put(i)

    with concurrent.futures.ThreadPoolExecutor(max_workers=workers) as ex:
        for r in ex.map(work, jobs):
            print(*r, flush=True)


if __name__ == "__main__":
    main()
