"""conversions between the harness' JSON (serde's encoding of the Rust types) and Coq terms"""
from vlib import cstr, clist

NOUN = {"Sahen": "NSahen", "Proper": "NProper", "Common": "NCommon"}
PART = {"Case": "PCase", "Adverbial": "PAdverbial", "Conjunctive": "PConjunctive", "SentenceFinal": "PSentenceFinal", "Other": "POther"}
AFFIX = {"Prefix": "APrefix", "Suffix": "ASuffix"}
VCLASSES = ["Godan", "Yodan", "SimoIchidan", "KamiIchidan", "SimoNidan", "KamiNidan", "Hen"]
ROWS14 = "アカサタナハマヤワラダバガザ"


def all_speeches_json(rows=ROWS14):
    out = [{"Noun": v} for v in ["Sahen", "Proper", "Common"]]
    for c in VCLASSES:
        for r in rows:
            out.append({"Verb": {c: r}})
    out += ["Adjective", "Adverb", "AdjectivalVerb", "Verbatim", "Conjunction"]
    out += [{"Particle": p} for p in ["Case", "Adverbial", "Conjunctive", "SentenceFinal", "Other"]]
    out += ["AuxiliaryVerb", "PreNounAdjectival", "Counter", {"Affix": "Prefix"}, {"Affix": "Suffix"}]
    return out


def coq_speech(sp):
    """JSON speech -> Coq term (None when the row is not a single character)"""
    if isinstance(sp, str):
        return sp
    (k, v), = sp.items()
    if k == "Noun":
        return f"(Noun {NOUN[v]})"
    if k == "Particle":
        return f"(Particle {PART[v]})"
    if k == "Affix":
        return f"(Affix {AFFIX[v]})"
    if k == "Verb":
        (c, row), = v.items()
        if len(row) != 1:
            return None
        return f"(Verb {c} {ord(row)})"
    raise ValueError(sp)


def coq_entry(e):
    return "{| e_reading := %s; e_stem := %s; e_speech := %s |}" % (cstr(e["reading"]), cstr(e["stem"]), coq_speech(e["speech"]))


def coq_word(w):
    return "{| w_word := %s; w_reading := %s; w_speech := %s |}" % (cstr(w["word"]), cstr(w["reading"]), coq_speech(w["speech"]))


def speech_key(sp):
    return repr(sp)
