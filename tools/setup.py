import os, sys, glob, importlib
sys.path.insert(0, os.path.dirname(os.path.abspath(__file__)))
from vlib import *

gens = sorted(os.path.basename(p)[:-3] for p in glob.glob(os.path.join(VERIF, "tools", "gen", "gen_*.py")))
errs = regen(gens)
for e in errs:
    print("translator error:", e)
ok, out = coq_make(coq_files(), timeout=3000)
print(out[-3000:])
if not ok:
    print("coq build failed")
okh, hlog = build_harness()
if not okh:
    print(hlog[-3000:])
sys.exit(0 if (ok and okh and not errs) else 1)
