import os, sys, glob, importlib
sys.path.insert(0, os.path.dirname(os.path.abspath(__file__)))
from vlib import *

gens = sorted(os.path.basename(p)[:-3] for p in glob.glob(os.path.join(VERIF, "tools", "gen", "gen_*.py")))
errs = regen(gens)
for e in errs:
    print("translator error:", e)
ok, out = coq_make(coq_files(), timeout=3000)
print(out[-3000:])
if not ok:
    print("coq build failed")
okh, hlog = build_harness()
if not okh:
    print(hlog[-3000:])
# setup only warms the caches (generated files, .vo files, the harness): every check regenerates, rebuilds and audits what it needs
# itself and reports a translator / proof / build failure as a violation of ITS property, so a failure here is a warning, not an error
print("setup:", "translators ok" if not errs else f"{len(errs)} translator error(s)", "| coq build", "ok" if ok else "FAILED", "| harness build", "ok" if okh else "FAILED")
sys.exit(0)
