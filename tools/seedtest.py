#!/usr/bin/env python3
"""Confirms a seeded change (patch.diff + demo/) in a scratch worktree, then runs the registered checks against it.

usage: seedtest.py <dir with patch.diff, demo/, meta.json> [--checks C04,C03] [--keep-as ID]

1. scratch worktree of /repo HEAD (outside /repo and /verif), demo files copied in:
   - without the patch the whole test suite (87 pinned tests + the demo tests) passes,
   - with the patch the 87 pinned tests still pass and at least one demo test fails.
2. the patch is applied to /repo, the given checks run (quick tier), the patch is reverted.
3. with --keep-as the change is stored as /verif/seeded/<ID>/ (patch.diff, demo/, meta.json incl. what was run and seen)."""
import json, os, re, shutil, subprocess, sys, tempfile, time

VERIF = os.path.dirname(os.path.dirname(os.path.abspath(__file__)))
REPO = "/repo"
ENV = dict(os.environ, CARGO_NET_OFFLINE="true")


def sh(cmd, cwd=None, env=None, timeout=3600):
    p = subprocess.run(cmd, shell=isinstance(cmd, str), cwd=cwd, env=env or ENV, stdout=subprocess.PIPE, stderr=subprocess.STDOUT, text=True, timeout=timeout)
    return p.returncode, p.stdout


def run_tests(wt, target):
    env = dict(ENV, CARGO_TARGET_DIR=target)
    rc, out = sh(["cargo", "test", "--workspace", "--no-fail-fast", "--offline"], cwd=wt, env=env)
    passed = sum(int(x) for x in re.findall(r"test result: \w+\. (\d+) passed", out))
    failed_names = re.findall(r"^test (\S+) \.\.\. FAILED", out, re.M)
    compile_error = "error: could not compile" in out or "error[E" in out
    return passed, failed_names, compile_error, out


def confirm(d, target="/tmp/seedcheck_target"):
    wt = tempfile.mkdtemp(prefix="seedcheck_", dir="/tmp")
    os.rmdir(wt)
    rc, out = sh(["git", "-C", REPO, "worktree", "add", "--detach", wt, "HEAD"])
    res = {"applies": False}
    try:
        demo = os.path.join(d, "demo")
        demo_files = []
        for root, _, files in os.walk(demo):
            for f in files:
                if f.lower().startswith("readme"):
                    continue
                rel = os.path.relpath(os.path.join(root, f), demo)
                demo_files.append(rel)
                os.makedirs(os.path.dirname(os.path.join(wt, rel)) or wt, exist_ok=True)
                shutil.copyfile(os.path.join(root, f), os.path.join(wt, rel))
                # demonstrations written in an agent's worktree may name it: point them at the scratch worktree
                orig_wt = d.split("/out/")[0]
                try:
                    txt = open(os.path.join(wt, rel), encoding="utf-8").read()
                    if orig_wt in txt:
                        open(os.path.join(wt, rel), "w", encoding="utf-8").write(txt.replace(orig_wt + "/target", target).replace(orig_wt, wt))
                except UnicodeDecodeError:
                    pass
        res["demo_files"] = demo_files
        py_demos = [f for f in demo_files if os.path.basename(f).startswith("run") and f.endswith((".py", ".sh"))]
        def run_py():
            outs = []
            for f in py_demos:
                env = dict(ENV, CARGO_TARGET_DIR=target, CHOKAN_ROOT=wt, PORT=str(20000 + (os.getpid() * 7 + sum(map(ord, wt))) % 20000))
                cmd = ["python3", f] if f.endswith(".py") else ["bash", f]
                rc, o = sh(cmd, cwd=wt, env=env, timeout=1800)
                outs.append((f, rc, o[-1500:]))
            return outs
        p0, f0, ce0, out0 = run_tests(wt, target)
        res["without_patch"] = {"passed": p0, "failed": f0, "compile_error": ce0}
        if py_demos:
            res["without_patch"]["py"] = [(f, rc) for f, rc, _ in run_py()]
        rc, out = sh(["git", "apply", os.path.join(d, "patch.diff")], cwd=wt)
        res["applies"] = rc == 0
        if rc != 0:
            res["apply_error"] = out[-500:]
            return res
        p1, f1, ce1, out1 = run_tests(wt, target)
        res["with_patch"] = {"passed": p1, "failed": f1, "compile_error": ce1}
        if py_demos:
            res["with_patch"]["py"] = [(f, rc) for f, rc, _ in run_py()]
        rc, out = sh(["cargo", "build", "--offline", "-p", "chokan-server", "-p", "chokan-dic"], cwd=wt, env=dict(ENV, CARGO_TARGET_DIR=target, RUSTFLAGS="--cfg chokan_verif"))
        res["builds_with_hooks"] = rc == 0
        demo_fail = bool(f1) or any(rc != 0 for _, rc in res["with_patch"].get("py", []))
        demo_pass_before = not f0 and not ce0 and all(rc == 0 for _, rc in res["without_patch"].get("py", []))
        n_demo_tests = p0 - 87
        res["confirmed"] = bool(demo_pass_before and demo_fail and not ce1 and p1 + len(f1) == p0 and len(f1) <= max(n_demo_tests, 0) and res["builds_with_hooks"])
        res["pinned_suite_still_passes"] = (not ce1) and p1 + len(f1) == p0 and len(f1) <= max(n_demo_tests, 0)
    finally:
        sh(["git", "-C", REPO, "worktree", "remove", "--force", wt])
    return res


def detect(d, checks):
    out = {}
    rc, o = sh(["git", "-C", REPO, "status", "--porcelain"])
    if o.strip():
        raise SystemExit("/repo is not clean")
    rc, o = sh(["git", "-C", REPO, "apply", os.path.join(d, "patch.diff")])
    if rc != 0:
        return {"error": "patch does not apply to /repo: " + o[-300:]}
    try:
        for c in checks:
            t0 = time.time()
            rc, o = sh(["./check", c, "--tier", "quick"], cwd=VERIF, timeout=3600)
            lines = [l for l in o.split("\n") if l.startswith(("VIOLATION", "OK ", "KNOWN-FINDING"))]
            out[c] = {"exit": rc, "lines": lines[-3:], "wall_s": round(time.time() - t0, 1)}
    finally:
        sh(["git", "-C", REPO, "checkout", "--", "."])
        sh(["git", "-C", REPO, "clean", "-fdq", "--", "libs", "chokan-server", "chokan-dic", "skk-dic-parser", "skk-notes-converter"])
    return out


def main():
    d = os.path.abspath(sys.argv[1])
    checks, keep = [], None
    for i, a in enumerate(sys.argv):
        if a == "--checks":
            checks = sys.argv[i + 1].split(",")
        if a == "--keep-as":
            keep = sys.argv[i + 1]
    meta = json.load(open(os.path.join(d, "meta.json"))) if os.path.exists(os.path.join(d, "meta.json")) else {}
    conf = confirm(d) if "--no-confirm" not in sys.argv else {"confirmed": None}
    det = detect(d, checks) if checks and (conf.get("confirmed") or "--no-confirm" in sys.argv) else {}
    report = {"dir": d, "meta": meta, "confirmation": conf, "detection": det}
    print(json.dumps(report, ensure_ascii=False, indent=1))
    if keep and conf.get("confirmed"):
        dst = os.path.join(VERIF, "seeded", keep)
        if os.path.exists(dst):
            shutil.rmtree(dst)
        os.makedirs(dst)
        shutil.copyfile(os.path.join(d, "patch.diff"), os.path.join(dst, "patch.diff"))
        if os.path.isdir(os.path.join(d, "demo")):
            shutil.copytree(os.path.join(d, "demo"), os.path.join(dst, "demo"))
        m = {"breaks_property": meta.get("property"), "summary": meta.get("summary"), "needs_to_manifest": meta.get("needs"), "files": meta.get("files"),
             "author": "independent sub-agent given only the property text and a scratch worktree",
             "confirmed_by_me": {"scratch_worktree": "git worktree of /repo HEAD under /tmp (removed afterwards)", "without_patch": conf.get("without_patch"), "with_patch": conf.get("with_patch"),
                                 "builds_with_hooks": conf.get("builds_with_hooks")},
             "checks_run_against_it": det}
        json.dump(m, open(os.path.join(dst, "meta.json"), "w"), ensure_ascii=False, indent=1)


if __name__ == "__main__":
    main()
