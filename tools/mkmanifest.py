"""writes /verif/MANIFEST.json from the table below"""
import json, os
VERIF = os.path.dirname(os.path.dirname(os.path.abspath(__file__)))

CLAIMED = {
    "C10": dict(
        technique="Coq proof (round-trip theorems over a PEG interpretation) + generated grammar/name tables + model-vs-implementation correspondence",
        text="Kernel-checked theorems (entry/multi-speech/file round trip, injectivity, line isolation, all 116 speeches under the ordered choice) about a "
             "PEG interpretation of dic_grammer.rs whose classes, literals and alternative order are regenerated from the source on every run; printer and parser "
             "are run side by side with the model on generated valid, multi-speech and corrupted lines and files.",
        note="full: the modelled code is the whole mechanism. Trusted: Coq kernel, translators gen_speech/gen_dicgrammar, peg 0.8 semantics as interpreted in Dic/PegAlt.v, the harness; rows are single characters.",
        ref="6/C10"),
}
CLAIMED["C12"] = dict(
    technique="Coq proof (alignment by construction, finite table facts by computation over the regenerated conjugation/guess tables) + correspondence",
    text="Kernel-checked theorems: every form is stem++okuri / reading++okuri with one okurigana of the rule (k-irregular: reading's last kana replaced); for EVERY row of the "
         "table regenerated from speech.rs the okurigana start in the row or are a euphonic variant and the class's core forms are present (computed over the finite table, bound = the table); "
         "every class guess_form can return for ANY character conjugates; new_guessed accepts every well-formed pair. Conjugation, guess_form and new_guessed are run against the model.",
    note="full. Trusted: Coq kernel, translator gen_conj, the hand-written gojuon/euphonic/core-form vocabulary (Dic/Gojuon.v) as the specification, UTF-8 length by range, rows are single characters.",
    ref="6/C12")
CLAIMED["C19"] = dict(
    technique="Coq proof over tables regenerated from chokan.el + correspondence against the elisp source run by a purpose-built evaluator",
    text="Kernel-checked theorems: every one of the 259 table spellings types to its kana (computed over the regenerated table), conversion terminates for every input (fuel S|s| suffices, "
         "no empty key), characters in no key pass through in order, a doubled consonant yields っ + the rest - for every consonant of the client's list, which (C19_sokuon_class, computed on both regenerated tables) contains every consonant that the repository's kana-alpha conversion doubles -, hira-to-kata is character-wise and maps exactly the table kana. "
         "conversion is idempotent on its own output for EVERY input (C19_idempotent: induction over the engine, resting on two facts computed on the regenerated table - no value is empty, the characters of every value and っ occur in no key and are no doubling consonant). "
         "The three defuns are executed from chokan.el's text by a mini elisp evaluator and compared with the model on exhaustive short strings and random strings.",
    note="full for the modelled engine; Emacs is absent, so the evaluator /verif/tools/elisp_mini.py (reproduces chokan-tests.el) is trusted to stand in for it when the model is compared with chokan.el's text. Trusted: Coq kernel, translators gen_elisp and gen_kana.",
    ref="6/C19")
CLAIMED["C04"] = dict(
    technique="Coq proof (invariant + refinement to a key set, all admissible free-slot choices) + step-refinement correspondence with the implementation's own choices",
    text="Kernel-checked theorems about a Gallina model that mirrors libs/trie function by function: for every trie reachable by any insertion history under ANY admissible xcheck choice "
         "(every HashSet iteration order, hence every layout, clone and deserialised copy) lookup is true iff the key was inserted (C04_set_semantics, C04_insert_spec), keys outside the alphabet are rejected "
         "and leave the trie unchanged (C04_reject), no expect/assert/index panic is reachable (C04_insert_total, C04_panic_only_bad_hint), the structural invariant holds (C04_inv). "
         "Every run replays random histories (prefix chains, relocations, clone, postcard round trips) in the model with the implementation's own free-slot choices and compares arrays and free set exactly.",
    note="full. Trusted: Coq kernel, the hand model Trie/TrieModel.v being tied by per-insertion array equality (sampled), serde views of the arrays, indices < 2^31, postcard round trip observed not proved.",
    ref="6/C04, A.1")
KKC_NOTE = ("Trusted: Coq kernel; translators gen_speech/gen_score (edge/virtual/head tables, mergeability, node-score constants regenerated every run); the hand models "
            "Kkc/Lattice.v, Score.v, Heap.v (replica of std BinaryHeap), Search.v tied by exact comparison of lattice, forward scores and candidate lists (order, chains, priorities) on every run; "
            "i32 overflow of scores not modelled; dictionary = words looked up by their own reading.")
CLAIMED["C01"] = dict(
    technique="Coq proof (lattice invariant by induction over the five construction passes, composed with the n-best theorem) + exact lattice/candidate correspondence",
    text="C01_tiling: for every non-empty input, dictionary, context, learned state and n, every candidate returned by the model of get_candidates is BOS, dictionary words, at most one verbatim tail, EOS, "
         "whose readings concatenate to the input and whose written forms concatenate to the text; construction never panics (C01_from_input_total) and the search terminates (C01_search_terminates).",
    note="full. " + KKC_NOTE, ref="6/C01")
CLAIMED["C02"] = dict(
    technique="Coq proof (Viterbi exactness, A* invariant, binary-heap replica correctness, termination measure) + correspondence incl. tie order + exhaustive path oracle on the implementation",
    text="C02_nbest: at most n entries, distinct texts, non-increasing priority, each entry a connectable BOS-EOS path whose priority is its score and the best score of its text, and every connectable path's "
         "text is present unless the list is full and the path scores no better than the last entry; forward scores are exact maxima (C02_forward_exact); the heap replica pops a maximum (C02_heap_pop); enough fuel always exists (C02_fuel).",
    note="full. " + KKC_NOTE, ref="6/C02, A.2")
CLAIMED["C03"] = dict(
    technique="Coq proof (lattice theorems + n-best completeness + trie set semantics of C04) + correspondence through the real trie",
    text="C03_only_dictionary, C03_offers_prefix_words, C03_after_prefix (independent words), and C03_with_trie: a trie built by any insertion history in front of the map shows the engine exactly the words whose readings were inserted.",
    note="full; the after-prefix clause is proved for independent words (a standard-dictionary particle after a prefix is formally refuted in Props/Lattice.v as a statement artefact, not a code defect). " + KKC_NOTE, ref="6/C03")
CLAIMED["C16"] = dict(
    technique="Coq proof (context-independence of edge validity, proper bonus algebra, lattice monotonicity in head-mergeability) + kernel-checked refutation witness + four-context correspondence",
    text="Proved: proper mode builds the same lattice, has the same edges, same candidate set, and adds exactly PROPER_BONUS per proper noun; every context only adds to the normal set; no result begins with an ancillary particle/auxiliary. "
         "Refuted with a witness (C16_added_begin_with_suffix_refuted, known finding F10): foreign-word context adds 新は, which begins with a prefix.",
    note="full, with one recorded known finding (F10). " + KKC_NOTE, ref="6/C16")
CLAIMED["C17"] = dict(
    technique="Coq proof (termination, ASCII-only on the client class, ASCII in place, longest-match units; client round trip computed over the two regenerated tables) + correspondence + client evaluator",
    text="Kernel-checked: convert terminates on every input; on [a-zA-Z0-9ぁ-ん] the output is lower-case ASCII letters/digits only (C17_ascii_only, by induction with table facts computed on the regenerated table); "
         "ASCII characters stay in place lower-cased (C17_ascii_in_place); the result is the concatenation of unit spellings, a table unit being a longest match (C17_units, C17_longest_unit); "
         "for every table unit except ん the spelling, alone and after a sokuon, is typed back to exactly that unit by the model of the client's romaji engine over chokan.el's table (C17_client_roundtrip), "
         "and the server's doubling consonants are exactly the client's (C17_same_consonants).",
    note="full on NFC input over the client class; NFC normalisation, Unicode to_lowercase of non-ASCII cased letters, katakana/NFD equivalence are exercised on the implementation only. "
         "Three genuine defects were repaired (F8a-c). Trusted: Coq kernel, translators gen_kana/gen_elisp, the elisp evaluator standing in for Emacs.",
    ref="6/C17")
SRV_NOTE = ("Trusted: Coq kernel; translators (gen_speech, gen_dicgrammar, gen_conj, gen_score, gen_kana); the hand model Server/ServerModel.v, tied on every run by driving the REAL server over HTTP "
            "through request histories (quiesced via the Verif.Dump hook) and comparing every response, the learned counts with time stamps, the user dictionary, the live sessions and the live standard dictionary (Verif.Words hook: words per reading in the engine's order, trie membership) with the model, restarts included; "
            "jsonrpsee/HTTP, tokio, Mutex/mpsc semantics, postcard, the file system and wall-clock behaviour are observed, not proved; i32 overflow and very long inputs are outside the model.")
CLAIMED["C05"] = dict(
    technique="Coq proof (invariant over all request histories of a sequential server model composed of the library models: no panic under a lock, restart included) + real-server request histories",
    text="C05_no_panic: for every finite history of the six RPC methods with arbitrary strings and ids, the internal updater steps and restarts on the saved files, every request is answered (or, for "
         "RegisterWord{Guess} on an inconsistent pair only, fails before touching anything shared) and the invariant holds afterwards, so no mutex is poisoned and no background task dies; a conversion's answer is a function of "
         "(effective dictionary, learned counts) only. Rests on C01/C02 (search total), C12 (guessed entries conjugate), C17 (romaji total), and on the proof that a restore only yields entries the server held (no line injection). "
         "'Answered in bounded time' under concurrency is C05_no_deadlock: the lock protocol extracted from the server source on every run is ranked, so no interleaving of any number of requests with the tasks deadlocks; "
         "each run also validates the extraction against the lock-site trace and drives concurrent clients with injected delays.",
    note="partial: runtime semantics trusted. " + SRV_NOTE, ref="6/C05")
CLAIMED["C06"] = dict(
    technique="Coq proof (frequency-table algebra, context isolation by extensionality through the whole search, score shift, candidate-set invariance) + real-server histories + real ConversionFrequency at the expiry boundary",
    text="C06_confirm_exact (exactly one count +1, stamped now, every other key untouched unless unused for more than three days), C06_unknown_changes_nothing, C06_same_candidate_set, C06_score_shift, C06_context_isolation, "
         "expiry boundary (exactly 3 d kept, +1 ms dropped). Histories include JSON-RPC batches, a 14-candidate list with every id confirmed, one word learned in two contexts with one stale count, "
         "and six confirmations of one session sent at the same moment under delays at the lock sites (rise of exactly one).",
    note="full for the logic; " + SRV_NOTE, ref="6/C06")
CLAIMED["C07"] = dict(
    technique="Coq proof (composition of C03's offer theorem, the trie/key-set abstraction of C04 and dictionary monotonicity) + real-server histories with every guessable ending",
    text="C07_registered_convertible: once applied, every conjugated form whose reading is spelled in the dictionary alphabet is offered for its reading (untruncated list); C07_only_adds; guessed classes always contain the form before ない; "
         "C07_no_deadlock: the updater and the handlers take their mutexes in one rank order on this run's extracted protocol. The real server is driven with registrations of every kind and ending; expected forms come from the real library AND from a "
         "hand-written grammar corpus (行かない→行っ, 可愛い, 静かだ ...), so a defect in the conjugation itself is seen too; registrations race with conversions under injected delays; "
         "groups of same-reading registrations (40 homophones, guessed verbs) also travel as ONE JSON-RPC batch so that the updater finds several entries waiting; "
         "every third history travels over one long-lived WebSocket connection; after a save, SIGHUP (ending the server, which is started again, or handled by it) must leave every registered word offered.",
    note="partial: 'within bounded time' = no deadlock (proved on the extracted protocol) + the asynchronous hand-off observed by polling; the server's n = 100 truncation is outside the offer clause. " + SRV_NOTE, ref="6/C07")
CLAIMED["C08"] = dict(
    technique="Coq proof (restore = filter of printable entries, synced invariant, exact restart theorem) + kernel-checked refutation witness + real-server save/stop/start histories",
    text="C08_restore_filter (reading the written user dictionary back yields exactly its printable entries, nothing else), C08_idempotent, C08_synced_invariant, C08_restart_exact (standard map, key set, counts with time stamps and user "
         "dictionary reproduced exactly, hence every answer in the same order), C08_produced_entries_printable; refuted in full generality by a guessed entry with an empty stem (F16) and by a reading outside the format's reading class (F20), both known findings.",
    note="partial: the binary half of the saved state rests on postcard's round trip (observed, not proved). " + SRV_NOTE, ref="6/C08")
CLAIMED["C20"] = dict(
    technique="Coq proof (extractor shapes; end-to-end through C07/C08) + real session protocol on the real server",
    text="C20_learns_prefix_word / word_suffix / prefix_word_suffix (followed by nothing or the unconverted tail), C20_no_affix_no_learning; the learned noun is applied (C07), saved and restored (C08). "
         "The extractor as it was (blind to BOS-headed chains) is kept as C20_old_extractor_blind; the defect F3 was repaired.",
    note="full for the extractor; the end-to-end part shares C07/C08's trust. " + SRV_NOTE, ref="6/C20")
CLAIMED["C11"] = dict(
    technique="Coq proof (stable sort keeps per-reading source order; no loss / no invention over the conjugation and text-format models) + the real chokan-dic binary reloaded through postcard",
    text="C11_no_loss, C11_no_invention, C11_order about the builder model (read_all, conjugate, stable sort by reading, trie = accepted readings, map = words per reading); "
         "the real binary is run on generated sources up to 300 lines (quick) / 50 000 lines (thorough), its dictionary.dat reloaded and every reading and many non-readings looked up the way the engine does.",
    note="full for the builder logic; postcard's image of the dictionary is exercised, not proved; the trie is C04's. One known finding (F17: a format-valid line with an unsupported conjugation row aborts the build).",
    ref="6/C11")
CLAIMED["C18"] = dict(
    technique="Coq proof (parser postconditions by induction over PEG interpretations, converter totality and emitted-line round trip, finite okurigana/conjugation table facts by computation) + model-vs-implementation correspondence on the converters compiled from source",
    text="Kernel-checked theorems: the SKK line parser returns exactly the written reading / okuri letters / words of a well-formed line (C18_skk_faithful) and the notes parser exactly the written structure of a well-formed notes line - all tags, fixed/class okuri, headers, notes, derived / okuri-nasi / bare candidates (C18_notes_faithful); for ANY line without newline that the noun, jinmei, tankan "
         "and notes parsers accept, every emitted entry is accepted by the dictionary text format and reads back as the same reading, written form and speech (C18_*_line_to_dictionary, via parser postconditions C18_parse_note_wf); "
         "the notes converter returns entries or takes its explicit unsupported-conjugation rejection, nothing else (C18_notes_total, C18_notes_fail_only_unsupported); every supported (class,row) except ワ行上二 conjugates "
         "in chokan-dic to a non-empty set with the row's core forms, okurigana beginning in the row (C18_base_verb_conjugates; the exception is proved: C18_base_verb_refuted, known finding F19). "
         "All four parsers/converters are compiled from the repository into the harness and compared with the models on generated well-formed SKK and notes lines, mutations and random Unicode; emitted lines are read back by the real dictionary parser; "
         "the four converter PROGRAMS are run on generated EUC-JP files with undecodable lines in between and what they write is compared with what the per-line functions emit; "
         "the parts of speech a generated note names must be the parts of speech of the emitted entries (prefix / suffix copies of [<] / [>] classes aside).",
    note="full for the modelled parsers and converters; totality of the implementation (no panic where the model returns a value) is what the correspondence observes. "
         "Three genuine defects repaired (F11a, F11b, F18), one recorded (F19). Trusted: Coq kernel; translators gen_skk (rule shapes pinned, classes generated) and gen_skknotes (okurigana table generated; notes grammar and converter text hash-pinned to the hand models Skk/Notes.v, Skk/NotesConv.v); "
         "EUC-JP decoding, line splitting and HashSet de-duplication in the converters' main.rs are not modelled.",
    ref="6a/C18")
PROTO_NOTE = ("Trusted: Coq kernel; translator gen_protocol (extracts, by scope tracking of guards, the sequence of lock / channel / commit / respond / file operations of every handler and background task "
              "from chokan-server/src/{main,method,user_pref}.rs; fail-closed on shapes it does not know) -- validated on every run against the running server (lock-site trace / strace); "
              "std Mutex = mutual exclusion, mpsc FIFO, tokio semantics, the OS file system are assumed, not proved.")
CLAIMED["C09"] = dict(
    technique="Coq proof (crash-state semantics of the extracted save program, rename discipline => every crash state is old-or-new) + strace conformance + crash-state materialisation on the real server",
    text="Kernel-checked: for the save program extracted from save_user_dictionary on every run, and arbitrary old and new contents, in EVERY state a process death can leave (before any operation, inside any write after any number of bytes) "
         "frequency.bin and user.dic are each exactly the old or exactly the new version (C09_crash_safe, generic in the program: C09_generic; the in-place save before repair F6 is refuted). "
         "Every run traces a real save with strace (every create / write / rename / unlink in the user directory, whatever the file) and compares it with the extracted program, then materialises every operation boundary and byte-granular partial writes of THAT trace as directories, "
         "starts the real server on each and checks the restored state and that a word registered afterwards reaches user.dic through the periodic save.",
    category="proof",
    note="partial: process death only (no power loss / reordering below the VFS); atomic rename and sequential write are OS assumptions; restoring from complete files and 'saving keeps working' are observed on the implementation for the materialised states, not proved. " + PROTO_NOTE,
    ref="6/C09")
CLAIMED["C13"] = dict(
    technique="Coq proof (worker-counting model over the task table extracted from main.rs) + real server runs under 1..4 runtime workers",
    text="Kernel-checked: in the task table extracted from main.rs on every run no task that blocks (std mpsc recv / thread::sleep loops) is spawned on an async worker (C13_no_blocking_async_task), hence for every worker count k >= 1 the runtime keeps a worker for requests (C13_serves); "
         "the state before repair F4 (four blocking async tasks) is refuted for k <= 4. Every run starts the real server with TOKIO_WORKER_THREADS = 1, 2, 3, 4 and default and requires conversions, registrations (updater duty) and periodic saves (saver duty) to happen.",
    note="partial: tokio's scheduler is modelled as worker counting (a blocking task occupies a worker for ever; spawn_blocking uses its own pool); the duties themselves are observed, not proved. " + PROTO_NOTE,
    ref="6/C13")
CLAIMED["C14"] = dict(
    technique="Coq proof (lock-ranking deadlock freedom and atomic-section theorems over the protocol extracted from the server source) + lock-site trace conformance + concurrent stress with injected delays",
    text="Kernel-checked: every handler and background task of the protocol extracted on every run acquires the mutexes in one global rank order (C14_protocol_ranked), so no reachable configuration of any number of concurrent handler instances and the tasks is a deadlock (C14_no_deadlock, induction over reachability); "
         "every read of dictionary+preferences and every commit happens while its guarding mutexes are held (C14_reads_and_commits_atomic) and, in EVERY reachable configuration, held by nobody else (C14_guarded_exclusive, induction over reachability with the mutual-exclusion invariant): "
         "while a conversion is at its read no other thread is at a read or commit of dictionary or learned data (C14_read_is_snapshot), i.e. the read is one atomic snapshot ordered between the commits; a confirmation pops its session before it commits anything, so overlapping confirmations of one session learn once (C14_confirm_consumes_first); a registered entry's words are merged in ONE dictionary section (C14_entry_atomic). "
         "Every run validates the extraction against the lock-site trace of the running server and drives 1..32 concurrent connections with sleeps injected at the lock sites; outcomes must be sequentially explainable.",
    note="partial: the linearisation points (the read step, each commit step) are shown exclusive and therefore totally ordered per mutex; that the value computed from a snapshot equals the sequential model's answer is C05-C08's correspondence, not a composed theorem; interleavings are sampled only to validate the extraction. Fair scheduling assumed for completion. " + PROTO_NOTE,
    ref="6/C14")
CLAIMED["C15"] = dict(
    technique="Coq proof (ordering facts over the extracted handler programs) + real-server confirmation immediately after the response with delays injected",
    text="Kernel-checked: in both conversion handlers extracted on every run the session is inserted into the store before the response is produced (C15_insert_before_respond, C15_responded_implies_stored; the send-to-recorder-then-respond shape before repair F5 is refuted); "
         "a registration is sent to the single consuming updater before it is acknowledged (C15_registration_sent_before_ack, C15_single_consumer); in the sequential server model the session a conversion issues is stored when it returns and survives ANY history "
         "that neither confirms it nor restarts the server - no eviction, however many sessions pile up (C15_conversion_stores_session, C15_session_survives, induction over histories). "
         "Every run confirms candidates the instant the response arrives, with delays injected at the store sites, lets 1100 conversions go unconfirmed while confirming fresh ones at 127..1025 outstanding and the very first one at the end, and checks that each confirmation is counted. The outstanding-sessions scenario runs once more on ONE WebSocket connection that stays open (300 conversions), as the Emacs client talks to the server.",
    note="partial: mpsc delivery and the updater's liveness are assumptions (observed by quiescing the real server). " + PROTO_NOTE,
    ref="6/C15")
PENDING = {}

def main():
    props = [json.loads(l) for l in open(os.path.join(VERIF, "properties.jsonl"))]
    checks, na = [], []
    for p in props:
        pid = p["id"]
        if pid in CLAIMED:
            c = CLAIMED[pid]
            checks.append({
                "property_id": pid,
                "quick_cmd": f"./check {pid} --tier quick",
                "thorough_cmd": f"./check {pid} --tier thorough",
                "evidence_file": f"/verif/evidence/{pid}.json",
                "replay_cmd_template": f"./check {pid} --replay {{path}}",
                "engine": "coq-proof+correspondence",
                "level_claimed": {"category": c.get("category", "proof"), "text": c["text"], "design_ref": c["ref"]},
                "level_note": c["note"],
                "technique": c["technique"],
            })
        else:
            na.append({"property_id": pid, "reason": PENDING.get(pid, "check not built yet in this round (design in DESIGN.md section 6); not claimed until it exists")})
    m = {
        "version": 1,
        "setup_cmd": "./setup.sh",
        "hooks": {
            "guard": "--cfg chokan_verif",
            "enable": "RUSTFLAGS=\"--cfg chokan_verif\" cargo build --offline (harness crate /verif/harness with path dependencies on /repo; target dir /verif/.cache/target)",
            "baseline_off_cmd": "cd /repo && cargo test --workspace --no-fail-fast --offline",
            "source_commits": open(os.path.join(VERIF, "hooks_commits.txt")).read().split() if os.path.exists(os.path.join(VERIF, "hooks_commits.txt")) else [],
            "add_only": True,
        },
        "engines": [
            {"name": "coq-proof+correspondence", "path": "/verif/check", "serves_properties": [c["property_id"] for c in checks],
             "kind_free_text": "Coq 8.16 theorems over Gallina models; facts regenerated from /repo by translators; models run against the implementation through a Rust harness"},
        ],
        "checks": checks,
        "not_applicable": na,
        "notes": "Known findings and fixed defects: /verif/known_findings.json. Design: /verif/DESIGN.md.",
    }
    json.dump(m, open(os.path.join(VERIF, "MANIFEST.json"), "w"), indent=1, ensure_ascii=False)

if __name__ == "__main__":
    main()
