"""T9b: skk-notes-converter/src/converter.rs -> Gen/SkkOkuri.v : the dictionary-form okurigana per (class,row)
   (form_to_skk_okuri; every other row is the converter's explicit panic!), and pinned shapes of the converter's functions
   and of the notes grammar (the interpretation is Skk/Notes.v, Skk/NotesConv.v)."""
import re, hashlib
from rsutil import *
from gen_speech import ENUMS

SRC = "skk-notes-converter/src/converter.rs"
GSRC = "skk-notes-converter/src/note_grammer.rs"
# sha256 of the whitespace-normalised grammar block the hand interpretation Skk/Notes.v implements
GRAMMAR_SHA = None


def norm(s):
    return re.sub(r"\s+", " ", s).strip()


def main():
    src = cut_tests(strip_comments(read(SRC)))
    body = block_after(src, r"fn form_to_skk_okuri\(form: &VerbForm\) -> &str\s*\{", "form_to_skk_okuri")
    rows = []
    seen = []
    for m in re.finditer(r"VerbForm::(\w+)\(row\)\s*=>\s*match row\.as_str\(\)\s*\{", body):
        cls = m.group(1)
        seen.append(cls)
        b = body.find("{", m.end() - 1)
        e = balanced(body, b)
        inner = body[b + 1:e - 1]
        for pat, val in re.findall(r'"(.)"\s*=>\s*"([^"]*)"\s*,', inner):
            rows.append((cls, pat, val))
        rest = re.sub(r'"(.)"\s*=>\s*"([^"]*)"\s*,', "", inner)
        if not re.fullmatch(r"\s*_\s*=>\s*panic!\([^;]*\),?\s*", rest, re.S):
            raise TranslateError(f"{SRC}: form_to_skk_okuri {cls}: unexpected arm {rest.strip()[:60]!r}")
    if seen != ENUMS["VerbForm"]:
        raise TranslateError(f"{SRC}: form_to_skk_okuri covers {seen}")
    gsrc = cut_tests(strip_comments(read(GSRC)))
    g = norm(block_after(gsrc, r"grammar note_parser\(\) for str\s*\{", "grammar note_parser"))
    sha = hashlib.sha256(g.encode()).hexdigest()
    pinned = open(os.path.join(os.path.dirname(os.path.abspath(__file__)), "note_grammar.sha256")).read().strip() if os.path.exists(os.path.join(os.path.dirname(os.path.abspath(__file__)), "note_grammar.sha256")) else None
    if pinned is not None and sha != pinned:
        raise TranslateError(f"{GSRC}: the notes grammar changed (sha256 {sha[:12]} != pinned {pinned[:12]}); the hand interpretation Skk/Notes.v implements the pinned text")
    conv_fns = norm(src[src.index("fn drop_dictionary_okuri"):])
    csha = hashlib.sha256(conv_fns.encode()).hexdigest()
    cp = os.path.join(os.path.dirname(os.path.abspath(__file__)), "notes_converter.sha256")
    if os.path.exists(cp) and open(cp).read().strip() != csha:
        raise TranslateError(f"{SRC}: the converter functions changed (sha256 {csha[:12]}); the hand model Skk/NotesConv.v implements the pinned text")
    out = ["From Chokan Require Import Base.Str Dic.Speech.", "Local Open Scope N_scope.", ""]
    out.append("Definition skk_okuri_table : list (verb_class * N * str) :=\n  [ " + ";\n    ".join(f"({cls}, {ord(r)}, {cstr(v)})" for cls, r, v in rows) + " ].\n")
    out.append("Fixpoint lookup_okuri (t : list (verb_class * N * str)) (c : verb_class) (row : N) : option str :=\n  match t with\n  | [] => None\n  | (c', row', k) :: t' => if verb_class_eqb c c' && N.eqb row row' then Some k else lookup_okuri t' c row\n  end.\n")
    out.append("Definition skk_okuri (c : verb_class) (row : N) : option str := lookup_okuri skk_okuri_table c row.")
    write_gen("SkkOkuri", "\n".join(out) + "\n", [SRC, GSRC])
    return sha, csha


if __name__ == "__main__":
    print(main())
