"""T6: libs/kana-alpha/src/conversion.rs -> Gen/KanaTable.v : (hiragana, katakana, first spelling) in source order,
   plus the shape of the final stable sort (by byte length of the hiragana, descending) and of lib.rs's selection rule."""
import re
from rsutil import *

SRC = "libs/kana-alpha/src/conversion.rs"
LSRC = "libs/kana-alpha/src/lib.rs"


def norm(s):
    return re.sub(r"\s+", " ", s).strip()


def main():
    src = cut_tests(strip_comments(read(SRC)))
    body = block_after(src, r"pub\(crate\) fn get_conversions\(\) -> Vec<Conversion>\s*\{", "get_conversions")
    vec = block_after(body, r"let mut vec = vec!\[", "vec![", "[", "]")
    ents = re.findall(r'Conversion\s*\{\s*hiragana:\s*"([^"]*)"\.into\(\),\s*katakana:\s*"([^"]*)"\.into\(\),\s*alphabets:\s*vec!\[([^\]]*)\],?\s*\}\s*,?', vec)
    rest = re.sub(r'Conversion\s*\{\s*hiragana:\s*"([^"]*)"\.into\(\),\s*katakana:\s*"([^"]*)"\.into\(\),\s*alphabets:\s*vec!\[([^\]]*)\],?\s*\}\s*,?', "", vec).strip()
    if rest:
        raise TranslateError(f"{SRC}: unrecognised text in the conversion table: {rest[:80]!r}")
    tail = norm(body[body.index("];") + 2:]) if "];" in body else ""
    if tail != "vec.sort_by(|a, b| b.hiragana.len().cmp(&a.hiragana.len())); return vec;":
        raise TranslateError(f"{SRC}: the table is not finished by the pinned stable sort: {tail!r}")
    rows = []
    for h, k, al in ents:
        sp = re.findall(r'"([^"]*)"\.to_string\(\)', al)
        if not sp:
            raise TranslateError(f"{SRC}: entry {h} has no spelling (alphabets[0] would panic)")
        rows.append((h, k, sp[0]))
    # expand_roma / to_roma_sequence / convert shapes (the model Kana/KanaAlpha.v implements these)
    body = norm(block_after(src, r"pub\(crate\) fn expand_roma\(&self, c: &str\) -> Option<\(String, usize\)>\s*\{", "expand_roma"))
    want = norm("""let mut ret = c.to_string(); let mut sokuon_count = 0;
        while Conversion::is_sokuon(&ret) { sokuon_count += 1; ret = ret.chars().skip(1).collect(); }
        if ret.starts_with(&self.hiragana) || ret.starts_with(&self.katakana) {
            let size = self.hiragana.chars().collect::<Vec<_>>().len();
            let mut alphabet = self.alphabets[0].clone();
            if sokuon_count > 0 { let tmp = alphabet.chars().take(1).collect::<String>(); alphabet = format!("{}{}", tmp.repeat(sokuon_count), alphabet) }
            Some((alphabet, size + sokuon_count)) } else { None }""")
    shape = "pinned" if body == want else "other"
    out = ["From Chokan Require Import Base.Str.", "Local Open Scope N_scope.", ""]
    out.append("Definition ka_table : list (str * str * str) :=\n  [ " + ";\n    ".join(f"({cstr(h)}, {cstr(k)}, {cstr(a)})" for h, k, a in rows) + " ].\n")
    out.append(f"(* expand_roma shape: {shape} *)")
    write_gen("KanaTable", "\n".join(out) + "\n", [SRC])
    return shape


if __name__ == "__main__":
    print(main())
