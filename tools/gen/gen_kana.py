"""T6: libs/kana-alpha/src/conversion.rs -> Gen/KanaTable.v : (hiragana, katakana, first spelling) in source order,
   plus the shape of the final stable sort (by byte length of the hiragana, descending) and of lib.rs's selection rule."""
import re
from rsutil import *

SRC = "libs/kana-alpha/src/conversion.rs"
LSRC = "libs/kana-alpha/src/lib.rs"


def norm(s):
    return re.sub(r"\s+", " ", s).strip()


def main():
    src = cut_tests(strip_comments(read(SRC)))
    body = block_after(src, r"pub\(crate\) fn get_conversions\(\) -> Vec<Conversion>\s*\{", "get_conversions")
    vec = block_after(body, r"let mut vec = vec!\[", "vec![", "[", "]")
    ents = re.findall(r'Conversion\s*\{\s*hiragana:\s*"([^"]*)"\.into\(\),\s*katakana:\s*"([^"]*)"\.into\(\),\s*alphabets:\s*vec!\[([^\]]*)\],?\s*\}\s*,?', vec)
    rest = re.sub(r'Conversion\s*\{\s*hiragana:\s*"([^"]*)"\.into\(\),\s*katakana:\s*"([^"]*)"\.into\(\),\s*alphabets:\s*vec!\[([^\]]*)\],?\s*\}\s*,?', "", vec).strip()
    if rest:
        raise TranslateError(f"{SRC}: unrecognised text in the conversion table: {rest[:80]!r}")
    tail = norm(body[body.index("];") + 2:]) if "];" in body else ""
    if tail != "vec.sort_by(|a, b| b.hiragana.len().cmp(&a.hiragana.len())); return vec;":
        raise TranslateError(f"{SRC}: the table is not finished by the pinned stable sort: {tail!r}")
    rows = []
    for h, k, al in ents:
        sp = re.findall(r'"([^"]*)"\.to_string\(\)', al)
        if not sp:
            raise TranslateError(f"{SRC}: entry {h} has no spelling (alphabets[0] would panic)")
        rows.append((h, k, sp[0]))
    # expand_roma / spell_sokuon / expand_lonely_sokuon / to_roma_sequence shapes (the model Kana/KanaAlpha.v implements these)
    def pinned(text, header, what, want):
        body = norm(block_after(text, header, what))
        if body != norm(want):
            raise TranslateError(f"{what} has an unexpected shape: {body!r}")
    pinned(src, r"pub\(crate\) fn expand_roma\(&self, c: &str\) -> Option<\(String, usize\)>\s*\{", f"{SRC}: expand_roma", """
        let mut ret = c.to_string(); let mut sokuon_count = 0;
        while Conversion::is_sokuon(&ret) { sokuon_count += 1; ret = ret.chars().skip(1).collect(); }
        if ret.starts_with(&self.hiragana) || ret.starts_with(&self.katakana) {
            let size = self.hiragana.chars().collect::<Vec<_>>().len();
            let mut alphabet = self.alphabets[0].clone();
            if sokuon_count > 0 { alphabet = format!( "{}{}", spell_sokuon(alphabet.chars().next(), sokuon_count), alphabet ) }
            Some((alphabet, size + sokuon_count)) } else { None }""")
    pinned(src, r"fn is_sokuon\(c: &str\) -> bool\s*\{", f"{SRC}: is_sokuon", """
        if let Some(v) = c.chars().position(|v| v == 'っ' || v == 'ッ') { v == 0 } else { false }""")
    pinned(src, r"pub\(crate\) fn spell_sokuon\(next: Option<char>, count: usize\) -> String\s*\{", f"{SRC}: spell_sokuon", """
        match next.map(|c| c.to_ascii_lowercase()) {
            Some(c) if DOUBLING_CONSONANTS.contains(&c) => c.to_string().repeat(count),
            _ => SOKUON_SPELLING.repeat(count), }""")
    pinned(src, r"pub\(crate\) fn expand_lonely_sokuon\(s: &str\) -> Option<\(String, usize\)>\s*\{", f"{SRC}: expand_lonely_sokuon", """
        let count = s.chars().take_while(|c| *c == 'っ' || *c == 'ッ').count();
        if count == 0 { return None; }
        Some((spell_sokuon(s.chars().nth(count), count), count))""")
    m = re.search(r"const DOUBLING_CONSONANTS: \[char; (\d+)\] = \[(.*?)\];", src, re.S)
    if not m:
        raise TranslateError(f"{SRC}: DOUBLING_CONSONANTS not found")
    doubling = re.findall(r"'(.)'", m.group(2))
    if len(doubling) != int(m.group(1)):
        raise TranslateError(f"{SRC}: DOUBLING_CONSONANTS length")
    m = re.search(r'const SOKUON_SPELLING: &str = "([^"]*)";', src)
    if not m:
        raise TranslateError(f"{SRC}: SOKUON_SPELLING not found")
    sokuon_spelling = m.group(1)
    lsrc = cut_tests(strip_comments(read(LSRC)))
    pinned(lsrc, r"fn to_roma_sequence\(s: &str\) -> \(String, String\)\s*\{", f"{LSRC}: to_roma_sequence", """
        let conversions = get_conversions();
        let mut conversions = conversions .into_iter() .filter_map(|conv| conv.expand_roma(s)) .collect::<Vec<_>>();
        conversions.sort_by(|(_, s1), (_, s2)| s1.cmp(s2)); conversions.reverse();
        if let Some((v, len)) = conversions.get(0) { let rest = s.chars().skip(*len).collect(); (v.clone(), rest) }
        else if let Some((v, len)) = conversion::expand_lonely_sokuon(s) { (v, s.chars().skip(len).collect()) }
        else { let v = s.to_string(); let ret: String = v.chars().take(1).collect(); let rest = v.chars().skip(1).collect(); (ret.to_lowercase(), rest) }""")
    pinned(lsrc, r"pub fn convert\(str: &str\) -> String\s*\{", f"{LSRC}: convert", """
        let mut normalized = nfc_normalize(str); let mut ret = String::new();
        while !normalized.is_empty() { let (v, rest) = to_roma_sequence(&normalized); normalized = rest; ret.push_str(&v); }
        ret""")
    shape = "pinned"
    out = ["From Chokan Require Import Base.Str.", "Local Open Scope N_scope.", ""]
    out.append("Definition ka_table : list (str * str * str) :=\n  [ " + ";\n    ".join(f"({cstr(h)}, {cstr(k)}, {cstr(a)})" for h, k, a in rows) + " ].\n")
    out.append("Definition ka_doubling : list N := [" + "; ".join(str(ord(c)) for c in doubling) + "].")
    out.append(f"Definition ka_sokuon_spelling : str := {cstr(sokuon_spelling)}.")
    write_gen("KanaTable", "\n".join(out) + "\n", [SRC])
    return shape


if __name__ == "__main__":
    print(main())
