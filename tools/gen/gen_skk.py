"""T9: skk-dic-parser/src/lib.rs (SKK-JISYO line grammar) and the three simple converters -> Gen/SkkGrammar.v
   character classes; the shapes of the rules and of the converters are pinned (the interpretation is Skk/SkkLine.v)"""
import re
from rsutil import *
from gen_dicgrammar import char_class, coq_class, norm, unesc

SRC = "skk-dic-parser/src/lib.rs"
CONV = {"skk-noun-converter/src/noun_converter.rs": ("parse_nouns", "Common"),
        "skk-jinmei-converter/src/jinmei_converter.rs": ("parse_propers", "Proper"),
        "skk-tankan-converter/src/tankan_grammer.rs": ("parse_tankan", "Common")}


def rules_of(src, gname):
    g = block_after(src, r"grammar %s\(\) for str\s*\{" % gname, f"grammar {gname}")
    parts = re.split(r"(?:^|\s)(?:pub\s+)?rule\s+", g)
    rules = {}
    for p in parts[1:]:
        m = re.match(r"(\w+)\(\)\s*(?:->\s*([\w<>]+)\s*)?=\s*(.*)$", p, re.S)
        if not m:
            raise TranslateError(f"{SRC}: cannot read rule starting {p[:40]!r}")
        rules[m.group(1)] = norm(m.group(3))
    return rules


def main():
    src = cut_tests(strip_comments(read(SRC)))
    rules = rules_of(src, "skk_dic_parser")
    fixed = {
        "eof": "![_]", "any": "[_]",
        "annotation": '";" [^ \'/\']*',
        "reading": "n:kana()+ { n.concat() }",
        "okuri": "n:alphabet()* { if n.is_empty() { None } else { Some(n.concat()) } }",
        "kanji": 'n:$([^ \' \' | \'\\t\' | \'/\' | \';\']+) annotation()? "/" { n.to_string() }',
        "entry": 'r:reading() o:okuri() space()+ "/" s:kanji()+ { SkkEntry {reading: r, okuri: o, words: s} }',
        "root": "comment() {None} / n:entry() { Some(n) }",
        "comment": '";" any()* "\\n"',
    }
    for r, shape in fixed.items():
        if r not in rules or norm(rules[r]) != norm(shape):
            raise TranslateError(f"{SRC}: rule {r} has shape {rules.get(r)!r}; the interpretation implements {shape!r}")
    neg, space, _ = char_class(rules["space"], "space")
    neg2, kana, rest = char_class(rules["kana"].split("$(", 1)[1], "kana")
    neg3, alpha, rest3 = char_class(rules["alphabet"].split("$(", 1)[1], "alphabet")
    if neg or neg2 or neg3:
        raise TranslateError(f"{SRC}: negated class where a positive one is expected")
    for path, (fn, variant) in CONV.items():
        s = cut_tests(strip_comments(read(path)))
        if not re.search(r"Entry::from_jisyo\(&self\.reading, e, Speech::Noun\(NounVariant::%s\)\)" % variant, s):
            raise TranslateError(f"{path}: to_entries does not build (reading, word, {variant} noun) entries")
        body = norm(block_after(s, r"pub fn %s\(s: &str\) -> Result<Option<\w+>, ParseError<LineCol>>\s*\{" % fn, fn))
        want = {
            "parse_nouns": "let entry = skk_dic_parser::parse_skk_entry(s)?; if let Some(entry) = entry { if entry.okuri().is_some() { Ok(None) } else { Ok(Some(Noun { reading: entry.reading(), entries: entry.words(), })) } } else { Ok(None) }",
            "parse_propers": "let entry = skk_dic_parser::parse_skk_entry(s)?; if let Some(entry) = entry { Ok(Some(Proper { reading: entry.reading(), entries: entry.words(), })) } else { Ok(None) }",
            "parse_tankan": "let tankan = skk_dic_parser::parse_skk_entry(s)?; if let Some(entry) = tankan { let entries = entry .words() .iter() .filter(|&v| v.chars().collect::<Vec<char>>().len() == 1) .cloned() .collect::<Vec<_>>(); if entries.is_empty() { Ok(None) } else { Ok(Some(Tankan { reading: entry.reading(), entries, })) } } else { Ok(None) }",
        }[fn]
        if body != norm(want):
            raise TranslateError(f"{path}: {fn} has an unexpected shape: {body!r}")
    out = ["From Chokan Require Import Base.Str.", "Local Open Scope N_scope.", ""]
    out.append(f"Definition skk_space_class : list (N * N) := {coq_class(space)}.")
    out.append(f"Definition skk_kana_class : list (N * N) := {coq_class(kana)}.")
    out.append(f"Definition skk_alpha_class : list (N * N) := {coq_class(alpha)}.")
    write_gen("SkkGrammar", "\n".join(out) + "\n", [SRC] + list(CONV))


if __name__ == "__main__":
    main()
