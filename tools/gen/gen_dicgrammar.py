"""T4: libs/dic/src/standard/dic_grammer.rs (a rust-peg grammar) -> Gen/DicGrammar.v
   character classes, the literal(s) and result of every speech rule, the ORDER of
   the alternatives of speech(); the shapes of speechs/entry/comment/root are checked
   against the shapes the hand-written PEG interpretation (Dic/TextFormat.v) implements."""
import re
from rsutil import *
from gen_speech import ENUMS, COQ_CTOR

SRC = "libs/dic/src/standard/dic_grammer.rs"


def norm(s):
    return re.sub(r"\s+", " ", s).strip()


def rules_of(src):
    g = block_after(src, r"grammar entry_parser\(\) for str\s*\{", "grammar entry_parser")
    parts = re.split(r"(?:^|\s)(?:pub\s+)?rule\s+", g)
    rules = {}
    order = []
    for p in parts[1:]:
        m = re.match(r"(\w+)\(\)\s*(?:->\s*([\w<>]+)\s*)?=\s*(.*)$", p, re.S)
        if not m:
            raise TranslateError(f"{SRC}: cannot read rule starting {p[:40]!r}")
        rules[m.group(1)] = (m.group(2), norm(m.group(3)))
        order.append(m.group(1))
    return rules, order


def char_class(body, what):
    """['a'..='z' | 'x' | ...]  or [^ ' ' | '\\t']  ->  (negated, [(lo,hi)])"""
    m = re.match(r"\[(\^?)\s*(.*?)\]", body, re.S)
    if not m:
        raise TranslateError(f"{SRC}: {what}: not a character class: {body[:40]!r}")
    neg = m.group(1) == "^"
    items = [x.strip() for x in m.group(2).split("|")]
    out = []
    for it in items:
        m1 = re.fullmatch(r"'(\\?.)'\s*\.\.=\s*'(\\?.)'", it)
        m2 = re.fullmatch(r"'(\\?.)'", it)
        if m1:
            out.append((unesc(m1.group(1)), unesc(m1.group(2))))
        elif m2:
            out.append((unesc(m2.group(1)), unesc(m2.group(1))))
        else:
            raise TranslateError(f"{SRC}: {what}: unsupported class item {it!r}")
    return neg, out, body[m.end():].strip()


def unesc(c):
    if len(c) == 1:
        return c
    return {"\\t": "\t", "\\n": "\n", "\\r": "\r", "\\\\": "\\", "\\'": "'"}[c]


def coq_class(cls):
    return "[" + "; ".join(f"({ord(a)}, {ord(b)})" for a, b in cls) + "]"


def speech_term(expr):
    """Speech::Noun(NounVariant::Common) -> Noun NCommon ; Speech::Adjective -> Adjective"""
    m = re.fullmatch(r"Speech::(\w+)(?:\((\w+)::(\w+)\))?", expr.strip())
    if not m or m.group(1) not in ENUMS["Speech"] or m.group(1) == "Verb":
        raise TranslateError(f"{SRC}: unsupported speech expression {expr!r}")
    if m.group(2):
        return f"{m.group(1)} {COQ_CTOR[(m.group(2), m.group(3))]}"
    return m.group(1)


def literal_choice(body, what):
    """$("a" / "b" / "c")  -> ([a,b,c], rest)"""
    m = re.match(r"\$\(\s*((?:\"[^\"]*\"\s*/?\s*)+)\)", body)
    if not m:
        raise TranslateError(f"{SRC}: {what}: expected $(\"..\" / ..): {body[:50]!r}")
    lits = re.findall(r"\"([^\"]*)\"", m.group(1))
    return lits, body[m.end():].strip()


def match_table(body, what, conv):
    """{? match t { "a" => Ok(X), ..., _ => Err("..") } }"""
    m = re.match(r"\{\?\s*(?:let form = )?match (\w+) \{(.*)\}", body, re.S)
    if not m:
        raise TranslateError(f"{SRC}: {what}: expected {{? match .. }}: {body[:50]!r}")
    arms = re.findall(r"(\"[^\"]*\"|_)\s*=>\s*(Ok\((.*?)\)|Err\(\"[^\"]*\"\))\s*(?:,|$|\})", m.group(2))
    table = {}
    default_err = False
    for pat, rhs, okv in arms:
        if pat == "_":
            if not rhs.startswith("Err"):
                raise TranslateError(f"{SRC}: {what}: default arm is not Err")
            default_err = True
        else:
            table[pat[1:-1]] = conv(okv) if rhs.startswith("Ok") else None
    if not default_err:
        raise TranslateError(f"{SRC}: {what}: no default Err arm")
    return table


def main():
    src = cut_tests(strip_comments(read(SRC)))
    rules, order = rules_of(src)
    need = ["eof", "any", "space", "no_space", "kana", "katakana", "speech", "speechs", "entry", "comment", "root"]
    for r in need:
        if r not in rules:
            raise TranslateError(f"{SRC}: rule {r} missing")
    # fixed shapes interpreted by Dic/TextFormat.v
    fixed = {
        "eof": "![_]",
        "any": "[_]",
        "speechs": 'n:speech()+ "/" { n }',
        "entry": 'k:$(kana()+) "\\t" stem:$(no_space()+) "\\t" ss:speechs() { ss.into_iter().map(|s| Entry::from_jisyo(k, stem, s)).collect::<Vec<_>>() }',
        "comment": '";" any()*',
        "root": "comment() {Vec::default()} / n:entry() { n }",
    }
    for r, shape in fixed.items():
        got = rules[r][1]
        if r == "root":
            got = got.rstrip()
        if norm(got) != norm(shape):
            raise TranslateError(f"{SRC}: rule {r} has shape {got!r}; the PEG interpretation implements {shape!r}")
    neg, space, _ = char_class(rules["space"][1], "space")
    if neg:
        raise TranslateError("space is negated")
    neg, nospace, _ = char_class(rules["no_space"][1], "no_space")
    if not neg:
        raise TranslateError("no_space is not a negated class")
    neg, kana, rest = char_class(rules["kana"][1].split("$(", 1)[1], "kana")
    if neg or not rules["kana"][1].startswith("n:$(") or norm(rest) != ") { n.to_string() }":
        raise TranslateError(f"{SRC}: kana rule shape")
    neg, kata, rest = char_class(rules["katakana"][1].split("$(", 1)[1], "katakana")
    if neg or not rules["katakana"][1].startswith("n:$(") or norm(rest) != ") { n.to_string() }":
        raise TranslateError(f"{SRC}: katakana rule shape")

    # speech(): "/" n:( a() / b() / ... ) { n }
    m = re.fullmatch(r'"/" n:\(\s*((?:\w+\(\)\s*/?\s*)+)\)\s*\{ n \}', rules["speech"][1])
    if not m:
        raise TranslateError(f"{SRC}: speech rule shape: {rules['speech'][1]!r}")
    alts = re.findall(r"(\w+)\(\)", m.group(1))
    coq_alts = []
    for a in alts:
        if a not in rules:
            raise TranslateError(f"{SRC}: speech alternative {a} undefined")
        ty, body = rules[a]
        if ty != "Speech":
            raise TranslateError(f"{SRC}: rule {a} does not return Speech")
        if body.startswith('"'):
            m1 = re.fullmatch(r'"([^"]*)"\s*\{\s*(.*?)\s*\}', body)
            if not m1:
                raise TranslateError(f"{SRC}: rule {a}: shape {body!r}")
            coq_alts.append(f"AltLit [({cstr(m1.group(1))}, Some ({speech_term(m1.group(2))}))]")
        elif body.startswith("k:katakana() n:$("):
            lits, rest = literal_choice(body[len("k:katakana() n:"):], a)
            if not rest.endswith("form.map(|form|{Speech::Verb(form)}) }"):
                raise TranslateError(f"{SRC}: rule {a}: unexpected tail {rest[-60:]!r}")

            def conv(okv):
                m2 = re.fullmatch(r"VerbForm::(\w+)\(k\)", okv.strip())
                if not m2 or m2.group(1) not in ENUMS["VerbForm"]:
                    raise TranslateError(f"{SRC}: rule {a}: arm {okv!r}")
                return m2.group(1)
            table = match_table(rest.split(";")[0] + "}", a, conv) if False else match_table(rest, a, conv)
            items = []
            for l in lits:
                v = table.get(l)
                items.append(f"({cstr(l)}, {'Some ' + v if v else 'None'})")
            coq_alts.append("AltVerb [" + "; ".join(items) + "]")
        elif re.match(r"\w+:\$\(", body):
            lits, rest = literal_choice(body.split(":", 1)[1], a)
            table = match_table(rest, a, speech_term)
            items = []
            for l in lits:
                v = table.get(l)
                items.append(f"({cstr(l)}, {'Some (' + v + ')' if v else 'None'})")
            coq_alts.append("AltLit [" + "; ".join(items) + "]")
        else:
            raise TranslateError(f"{SRC}: rule {a}: unsupported shape {body[:60]!r}")

    out = ["From Chokan Require Import Base.Str Dic.Speech Dic.PegAlt.", "Local Open Scope N_scope.", ""]
    out.append(f"Definition g_space_class : list (N * N) := {coq_class(space)}.")
    out.append(f"Definition g_no_space_excluded : list (N * N) := {coq_class(nospace)}.")
    out.append(f"Definition g_kana_class : list (N * N) := {coq_class(kana)}.")
    out.append(f"Definition g_katakana_class : list (N * N) := {coq_class(kata)}.")
    out.append("Definition g_speech_alts : list alt :=\n  [ " + ";\n    ".join(coq_alts) + " ].")
    out.append(f"(* alternatives of speech(), in order: {' / '.join(alts)} *)")
    write_gen("DicGrammar", "\n".join(out) + "\n", [SRC])


if __name__ == "__main__":
    main()
