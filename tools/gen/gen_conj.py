"""T1/T2: libs/dic/src/base/speech.rs -> Gen/ConjTables.v
   VerbForm::to_forms (per class,row okurigana rule; everything else is panic!), Speech::to_forms,
   VerbForm::guess_form (char -> class,row), Speech::guess (ordered suffix tests),
   libs/dic/src/base/entry.rs Entry::new_guessed (shape only)."""
import re
from rsutil import *
from gen_speech import ENUMS

SRC = "libs/dic/src/base/speech.rs"
ESRC = "libs/dic/src/base/entry.rs"
MAP_STD = ".iter() .map(|v| (format!(\"{}{}\", stem, v), format!(\"{}{}\", stem_reading, v))) .collect::<Vec<_>>()"


def norm(s):
    return re.sub(r"\s+", " ", s).strip()


def top_arms(body):
    """split a match body into (pattern, rhs) at depth 0"""
    arms, i, n = [], 0, len(body)
    depth = 0
    start = 0
    pieces = []
    cur = ""
    # tokenise respecting strings and brackets; arms are separated by ',' at depth 0 or end after a '}' block
    while i < n:
        c = body[i]
        if c == '"':
            j = i + 1
            while body[j] != '"':
                if body[j] == "\\":
                    j += 1
                j += 1
            cur += body[i:j + 1]
            i = j + 1
            continue
        if c in "([{":
            depth += 1
        elif c in ")]}":
            depth -= 1
        if c == "," and depth == 0:
            pieces.append(cur)
            cur = ""
        else:
            cur += c
        i += 1
    if cur.strip():
        pieces.append(cur)
    out = []
    for p in pieces:
        p = p.strip()
        if not p:
            continue
        # a piece may contain several arms when a block arm `X => { .. }` is not followed by a comma
        while p:
            m = re.match(r"(\"[^\"]*\"|_|'.'(?:\s*\|\s*'.')*|\w+::\w+(?:\([^)]*\))?)\s*=>\s*", p)
            if not m:
                raise TranslateError(f"{SRC}: cannot read arm {p[:60]!r}")
            rest = p[m.end():]
            if rest.startswith("{"):
                end = balanced(rest, 0)
                # a block followed directly by method calls belongs to the same expression
                tail = rest[end:]
                m2 = re.match(r"(\s*\.[^\"]*?)(?=(\"[^\"]*\"|_)\s*=>|$)", tail, re.S)
                out.append((m.group(1), rest[:end].strip()))
                p = tail.strip()
            else:
                out.append((m.group(1), rest.strip()))
                p = ""
    return out


def str_list(s, what):
    m = re.fullmatch(r"(?:vec!)?\[(.*)\]", s.strip(), re.S)
    if not m:
        raise TranslateError(f"{SRC}: {what}: expected a list of string literals, got {s[:60]!r}")
    items = re.findall(r"\"([^\"]*)\"", m.group(1))
    rest = re.sub(r"\"[^\"]*\"", "", m.group(1)).replace(",", "").strip()
    if rest:
        raise TranslateError(f"{SRC}: {what}: unexpected text in list: {rest!r}")
    return items


def coq_strs(l):
    return "[" + "; ".join(cstr(x) for x in l) + "]"


def rule_of(rhs, what):
    r = norm(rhs)
    m = re.fullmatch(r"\{ if stem_reading\.len\(\) == 1 \{ (vec!\[.*?\]) \} else \{ (vec!\[.*?\]) \} \}", r)
    if m:
        return f"OIfOneByte {coq_strs(str_list(m.group(1), what))} {coq_strs(str_list(m.group(2), what))}"
    m = re.fullmatch(r"match stem_reading \.chars\(\) \.last\(\) \.map\(\|v\| v\.to_string\(\)\) \.unwrap_or_default\(\) \.as_str\(\) \{ \"(.)\" => (vec!\[.*?\]), _ => (vec!\[.*?\]), \}", r)
    if m:
        return f"OIfLastChar {ord(m.group(1))} {coq_strs(str_list(m.group(2), what))} {coq_strs(str_list(m.group(3), what))}"
    if r.startswith("vec!["):
        return f"OFixed {coq_strs(str_list(r, what))}"
    raise TranslateError(f"{SRC}: {what}: unsupported okurigana expression {r[:80]!r}")


def main():
    src = cut_tests(strip_comments(read(SRC)))
    impl = block_after(src, r"impl VerbForm\s*\{", "impl VerbForm")
    body = block_after(impl, r"pub fn to_forms\(&self, stem: &str, stem_reading: &str\) -> HashSet<\(String, String\)>\s*\{", "VerbForm::to_forms")
    nb = norm(body)
    if not nb.startswith("let vec = match self {") or not nb.endswith("}; vec.iter().cloned().collect()"):
        raise TranslateError(f"{SRC}: VerbForm::to_forms outer shape")
    mbody = block_after(body, r"let vec = match self\s*\{", "match self")
    rows = []          # (class, row, rule)
    classes_seen = []
    pos = 0
    for m in re.finditer(r"VerbForm::(\w+)\(row\)\s*=>\s*match row\.as_str\(\)\s*\{", mbody):
        cls = m.group(1)
        classes_seen.append(cls)
        start = m.end() - 1
        end = balanced(mbody, start)
        inner = mbody[start + 1:end - 1]
        tail = norm(mbody[end:end + 200])
        arms = top_arms(inner)
        if cls == "Hen":
            for pat, rhs in arms:
                if pat == "_":
                    if not norm(rhs).startswith("panic!("):
                        raise TranslateError(f"{SRC}: {cls}: default arm is not panic!")
                    continue
                row = pat.strip('"')
                r = norm(rhs)
                if row == "カ":
                    want_tail = (".iter() .cloned() .map(|v| { let reading_last = stem_reading.char_indices().last().unwrap().0; "
                                 "( format!(\"{}{}\", stem, v.chars().skip(1).collect::<String>()), format!(\"{}{}\", &stem_reading[0..reading_last], v), ) }) .collect::<Vec<_>>()")
                    m2 = re.match(r"(\[.*?\]) (.*)$", r)
                    if not m2 or norm(m2.group(2)) != want_tail:
                        raise TranslateError(f"{SRC}: Hen カ shape {r[:120]!r}")
                    rows.append((cls, row, f"OKaHen {coq_strs(str_list(m2.group(1), 'Hen カ'))}"))
                else:
                    m2 = re.match(r"(\[.*?\]) (.*)$", r)
                    if not m2 or norm(m2.group(2)) != norm(MAP_STD):
                        raise TranslateError(f"{SRC}: Hen {row} shape {r[:120]!r}")
                    rows.append((cls, row, f"OFixed {coq_strs(str_list(m2.group(1), 'Hen ' + row))}"))
        else:
            if not tail.startswith(norm(MAP_STD)):
                raise TranslateError(f"{SRC}: {cls}: the okurigana list is not mapped onto (stem+v, stem_reading+v): {tail[:80]!r}")
            for pat, rhs in arms:
                if pat == "_":
                    if not norm(rhs).startswith("panic!("):
                        raise TranslateError(f"{SRC}: {cls}: default arm is not panic!")
                    continue
                rows.append((cls, pat.strip('"'), rule_of(rhs, f"{cls} {pat}")))
    if classes_seen != ENUMS["VerbForm"]:
        raise TranslateError(f"{SRC}: VerbForm::to_forms covers {classes_seen}, expected {ENUMS['VerbForm']}")
    for cls, row, _ in rows:
        if len(row) != 1:
            raise TranslateError(f"{SRC}: row {row!r} of {cls} is not a single character")

    out = ["From Chokan Require Import Base.Str Dic.Speech Dic.ConjRule.", "Local Open Scope N_scope.", ""]
    out.append("Definition verb_table : list (verb_class * N * okuri_rule) :=\n  [ " +
               ";\n    ".join(f"({c}, {ord(r)}, {rule})" for c, r, rule in rows) + " ].\n")

    # ---- Speech::to_forms
    simpl = block_after(src, r"impl Speech\s*\{", "impl Speech")
    body = block_after(simpl, r"pub fn to_forms\(&self, stem: &str, stem_reading: &str\) -> HashSet<\(String, String\)>\s*\{", "Speech::to_forms")
    mbody = block_after(body, r"match self\s*\{", "match self")
    arms = top_arms(mbody)
    ident = norm("[(stem.to_string(), stem_reading.to_string())] .iter() .cloned() .collect()")
    mapped = norm(".iter() .map(|v| (format!(\"{}{}\", stem, v), format!(\"{}{}\", stem_reading, v))) .collect()")
    out.append("Definition speech_rule (sp : speech) : option okuri_rule :=\n  match sp with")
    got = []
    for pat, rhs in arms:
        m = re.fullmatch(r"Speech::(\w+)(?:\((\w+)\))?", pat)
        if not m:
            raise TranslateError(f"{SRC}: Speech::to_forms arm {pat!r}")
        ctor = m.group(1)
        got.append(ctor)
        r = norm(rhs)
        cpat = ctor if ctor not in ("Noun", "Particle", "Affix") else f"{ctor} _"
        if ctor == "Verb":
            if r != "form.to_forms(stem, stem_reading)":
                raise TranslateError(f"{SRC}: Speech::Verb arm {r!r}")
            out.append("  | Verb c row => lookup_rule verb_table c row")
        elif r == ident:
            out.append(f"  | {cpat} => Some (OFixed [[]])")
        else:
            m2 = re.match(r"(\[.*?\]) (.*)$", r)
            if not m2 or norm(m2.group(2)) != mapped:
                raise TranslateError(f"{SRC}: Speech::{ctor} arm {r[:100]!r}")
            out.append(f"  | {cpat} => Some (OFixed {coq_strs(str_list(m2.group(1), ctor))})")
    if got != ENUMS["Speech"]:
        raise TranslateError(f"{SRC}: Speech::to_forms covers {got}")
    out.append("  end.\n")

    # ---- guess_form
    body = block_after(impl, r"pub fn guess_form\(ch: char\) -> Option<VerbForm>\s*\{", "guess_form")
    mbody = block_after(body, r"match ch\s*\{", "match ch")
    arms = top_arms(mbody)
    out.append("Definition guess_table : list (N * (verb_class * N)) :=\n  [ ")
    items = []
    for pat, rhs in arms:
        if pat == "_":
            if norm(rhs) != "None":
                raise TranslateError(f"{SRC}: guess_form default is not None")
            continue
        chars = re.findall(r"'(.)'", pat)
        m = re.fullmatch(r"Some\(VerbForm::(\w+)\(\"(.)\"\.to_string\(\)\)\)", norm(rhs))
        if not m or not chars:
            raise TranslateError(f"{SRC}: guess_form arm {pat} => {rhs!r}")
        for c in chars:
            items.append(f"({ord(c)}, ({m.group(1)}, {ord(m.group(2))}))")
    out[-1] += ";\n    ".join(items) + " ].\n"

    # ---- Speech::guess : fixed shape, three ordered suffix tests
    body = norm(block_after(simpl, r"pub\(crate\) fn guess\(word: &str\) -> \(Speech, String\)\s*\{", "Speech::guess"))
    want = norm("""let word = word.chars().collect::<Vec<_>>();
        if word.ends_with(&['な', 'い']) && word.len() >= 3 {
            let char = word[word.len() - 3];
            if let Some(form) = VerbForm::guess_form(char) {
                return ( Speech::Verb(form), word[0..(word.len() - 3)].iter().collect(), );
            }
        }
        if word.ends_with(&['い']) { return ( Speech::Adjective, word[0..(word.len() - 1)].iter().collect(), ); }
        if word.ends_with(&['だ']) { return ( Speech::AdjectivalVerb, word[0..(word.len() - 1)].iter().collect(), ); }
        (Speech::Noun(NounVariant::Common), word.iter().collect())""")
    if body != want:
        raise TranslateError(f"{SRC}: Speech::guess has an unexpected shape (the model Dic/Conjugation.v:guess implements the pinned one)")
    esrc = cut_tests(strip_comments(read(ESRC)))
    body = norm(block_after(esrc, r"pub fn new_guessed\(reading: &str, kanji: &str\) -> Entry\s*\{", "new_guessed"))
    want = norm("""let (speech, stem) = Speech::guess(kanji);
        let len_diff = kanji.len() - stem.len();
        if len_diff > 0 { Entry { stem, stem_reading: reading[0..(reading.len() - len_diff)].to_string(), speech, } }
        else { Entry { stem: stem.to_string(), stem_reading: reading.to_string(), speech, } }""")
    if body != want:
        raise TranslateError(f"{ESRC}: Entry::new_guessed has an unexpected shape")
    write_gen("ConjTables", "\n".join(out), [SRC, ESRC])


if __name__ == "__main__":
    main()
