"""T5: libs/kkc/src/score.rs and graph.rs:is_mergeable_ancillary -> Gen/ScoreTables.v
   edge-score match tables (first match wins), virtual-tail rule, head bonuses,
   node-score constants, the head-mergeability table by context."""
import re
from rsutil import *
from gen_speech import ENUMS, COQ_CTOR, SPEECH_ARG

SRC = "libs/kkc/src/score.rs"
GSRC = "libs/kkc/src/graph.rs"
CTX_PRED = {"context.is_numeral()": "is_numeral ctx", "context.is_foreign_word()": "is_foreign_word ctx", "context.is_proper()": "is_proper ctx"}


def norm(s):
    return re.sub(r"\s+", " ", s).strip()


def fn_body(src, name, what=None):
    return block_after(src, r"fn %s\s*\(" % name + r"[^{]*\{", what or name)


def speech_pat(p):
    p = p.strip().lstrip("&")
    if p == "_":
        return "_"
    m = re.fullmatch(r"Speech::(\w+)(?:\((.*)\))?", p)
    if not m or m.group(1) not in ENUMS["Speech"]:
        raise TranslateError(f"unsupported speech pattern {p!r}")
    ctor, arg = m.group(1), m.group(2)
    if arg is None:
        if ctor in SPEECH_ARG:
            raise TranslateError(f"pattern {p!r} lacks an argument")
        return ctor
    arg = arg.strip()
    if ctor == "Verb":
        if arg != "_":
            raise TranslateError(f"unsupported verb pattern {p!r}")
        return "Verb _ _"
    if arg == "_":
        return f"{ctor} _"
    m2 = re.fullmatch(r"(\w+)::(\w+)", arg)
    if not m2 or (m2.group(1), m2.group(2)) not in COQ_CTOR:
        raise TranslateError(f"unsupported pattern {p!r}")
    return f"{ctor} {COQ_CTOR[(m2.group(1), m2.group(2))]}"


def score_val(v):
    v = v.strip().rstrip(",")
    m = re.fullmatch(r"Score\((\d+)\)", v)
    if m:
        return m.group(1)
    if v in ("Score::non_connect()", "MIN_SCORE"):
        return "NON_CONNECT"
    if v == "Default::default()":
        return "0"
    raise TranslateError(f"unsupported score value {v!r}")


def split_arms(mbody):
    """arms of a match body whose right-hand sides are simple expressions ending in ','"""
    arms = []
    for line in [l.strip() for l in mbody.split("\n")]:
        if not line:
            continue
        m = re.fullmatch(r"(.*?)\s*=>\s*(.*?),?", line)
        if not m:
            raise TranslateError(f"cannot read match arm {line!r}")
        arms.append((m.group(1).strip(), m.group(2).strip()))
    return arms


def main():
    src = cut_tests(strip_comments(read(SRC)))
    out = ["From Chokan Require Import Base.Str Dic.Speech Gen.SpeechNames Kkc.Context.", "Local Open Scope Z_scope.", ""]

    # ---- Score representation: negative = not connectable
    if not re.search(r"pub const MIN_SCORE: Score = Score\(i32::MIN\);", src):
        raise TranslateError(f"{SRC}: MIN_SCORE is not Score(i32::MIN)")
    body = norm(fn_body(src, "is_valid"))
    if body not in ("let var_name = self.0 >= 0; var_name", "self.0 >= 0"):
        raise TranslateError(f"{SRC}: Score::is_valid shape {body!r}")
    body = norm(fn_body(src, "add"))
    if body != "if self.0 < 0 || rhs.0 < 0 { return Score::non_connect(); } Score(self.0 + rhs.0)":
        raise TranslateError(f"{SRC}: Score + Score shape {body!r}")
    body = norm(fn_body(src, "partial_cmp"))
    want = ("if self.0 < 0 && other.0 < 0 { Some(Ordering::Equal) } else if self.0 < 0 { return Some(Ordering::Less); } "
            "else if other.0 < 0 { return Some(Ordering::Greater); } else { return self.0.partial_cmp(&other.0); }")
    if body != want:
        raise TranslateError(f"{SRC}: Score::partial_cmp shape {body!r}")
    body = norm(block_after(src, r"impl From<Score> for Option<i32>\s*\{", "From<Score> for Option<i32>"))
    if "if value.0 < 0 { None } else { Some(value.0) }" not in body:
        raise TranslateError(f"{SRC}: From<Score> for Option<i32> shape")
    out.append("Definition NON_CONNECT : Z := - 2147483648.")

    # ---- node score
    body = norm(fn_body(src, "get_node_score"))
    m = re.search(r"let proper_priority = if context\.is_proper\(\) && w\.speech\.is_noun_proper\(\) \{ (\d+) \} else \{ 0 \};", body)
    m2 = re.search(r"Score\( \(frequency \+ \(\(w\.reading\.len\(\) - 1\) as u64\)\.pow\((\d+)\) \+ proper_priority\) \.try_into\(\) \.unwrap\(\), \)", body)
    m3 = re.search(r"frequencies\.get_frequency_of_word\(&w\.word\.iter\(\)\.collect::<String>\(\), context\)", body)
    if not (m and m2 and m3) or not re.search(r"Node::Virtual\(_, _, _\) => Default::default\(\), Node::Bos => Default::default\(\), Node::Eos => Default::default\(\),", body):
        raise TranslateError(f"{SRC}: get_node_score shape {body!r}")
    out.append(f"Definition PROPER_BONUS : Z := {m.group(1)}.")
    out.append(f"Definition LENGTH_EXPONENT : Z := {m2.group(1)}.")

    # ---- head edge
    body = fn_body(src, "get_edge_score_of_head")
    nb = norm(body)
    m = re.fullmatch(r"match current \{ Node::Word\(_, w, _\) => match w\.speech \{(.*)\}, _ => Default::default\(\), \}", nb)
    if not m:
        raise TranslateError(f"{SRC}: get_edge_score_of_head shape {nb!r}")
    inner = block_after(body, r"match w\.speech\s*\{", "head match")
    arms = split_arms(inner)
    out.append("Definition edge_head (ctx : context) (cur : speech) : Z :=\n  match cur with")
    default = None
    for pat, rhs in arms:
        g = re.fullmatch(r"(.*?)\s+if\s+(.*)", pat)
        if pat == "_":
            default = score_val(rhs)
            out.append(f"  | _ => {default}")
        elif g:
            if g.group(2) not in CTX_PRED:
                raise TranslateError(f"{SRC}: head guard {g.group(2)!r}")
            out.append(f"  | {speech_pat(g.group(1))} => if {CTX_PRED[g.group(2)]} then {score_val(rhs)} else HEAD_DEFAULT")
        else:
            out.append(f"  | {speech_pat(pat)} => {score_val(rhs)}")
    if default is None or arms[-1][0] != "_":
        raise TranslateError(f"{SRC}: head match has no final wildcard")
    out.insert(len(out) - len(arms) - 1, f"Definition HEAD_DEFAULT : Z := {default}.")
    out.append("  end.\n")

    # ---- virtual tail
    body = fn_body(src, "get_edge_score_allow_virtual_word")
    inner = block_after(body, r"match &prev\.speech\s*\{", "virtual match")
    if norm(body) != norm("match &prev.speech {" + inner + "}"):
        raise TranslateError(f"{SRC}: get_edge_score_allow_virtual_word has more than one match")
    arms = split_arms(inner)
    out.append("Definition edge_virtual (ctx : context) (prev : speech) : Z :=\n  match prev with")
    if arms[-1][0] != "_":
        raise TranslateError(f"{SRC}: virtual match has no final wildcard")
    last = score_val(arms[-1][1])
    i = 0
    while i < len(arms) - 1:
        pat, rhs = arms[i]
        g = re.fullmatch(r"(\w+) if !\1\.is_ancillary\(\)", pat)
        if g:
            if i != len(arms) - 2:
                raise TranslateError(f"{SRC}: guarded arm must be the last before the wildcard")
            out.append(f"  | v => if negb (is_ancillary v) then {score_val(rhs)} else {last}")
            break
        out.append(f"  | {speech_pat(pat)} => {score_val(rhs)}")
        i += 1
    else:
        out.append(f"  | _ => {last}")
    out.append("  end.\n")

    # ---- between words
    body = fn_body(src, "get_edge_score_between_words")
    inner = block_after(body, r"match \(&prev\.speech, &current\.speech\)\s*\{", "between match")
    if norm(body) != norm("match (&prev.speech, &current.speech) {" + inner + "}"):
        raise TranslateError(f"{SRC}: get_edge_score_between_words has more than one match")
    arms = split_arms(inner)
    out.append("Definition edge_between (ctx : context) (prev cur : speech) : Z :=\n  match prev, cur with")
    for pat, rhs in arms:
        if pat == "_":
            out.append(f"  | _, _ => {score_val(rhs)}")
            continue
        m = re.fullmatch(r"\((.*)\)", pat)
        if not m:
            raise TranslateError(f"{SRC}: between arm {pat!r}")
        # split at the top-level comma
        depth, cut = 0, None
        for k, ch in enumerate(m.group(1)):
            if ch == "(":
                depth += 1
            elif ch == ")":
                depth -= 1
            elif ch == "," and depth == 0:
                cut = k
                break
        if cut is None:
            raise TranslateError(f"{SRC}: between arm {pat!r}")
        a, b = m.group(1)[:cut], m.group(1)[cut + 1:]
        out.append(f"  | {speech_pat(a)}, {speech_pat(b)} => {score_val(rhs)}")
    if arms[-1][0] != "_":
        raise TranslateError(f"{SRC}: between match has no final wildcard")
    out.append("  end.\n")

    # ---- dispatch shapes
    body = norm(fn_body(src, "get_edge_score"))
    if body != "match prev { Node::Bos => get_edge_score_of_head(context, current), _ => get_edge_score_impl(context, prev, current), }":
        raise TranslateError(f"{SRC}: get_edge_score shape {body!r}")
    body = norm(fn_body(src, "get_edge_score_impl"))
    want = ("match (prev, current) { (Node::Word(_, prev, _), Node::Word(_, current, _)) => { get_edge_score_between_words(context, prev, current) } "
            "(Node::Word(_, prev, _), Node::Virtual(_, _, _)) => { get_edge_score_allow_virtual_word(context, prev) } _ => Default::default(), }")
    if body != want:
        raise TranslateError(f"{SRC}: get_edge_score_impl shape {body!r}")

    # ---- head mergeability (graph.rs)
    gsrc = cut_tests(strip_comments(read(GSRC)))
    body = fn_body(gsrc, "is_mergeable_ancillary")
    nb = norm(body)
    m = re.search(r"if start_at == 0 \{ match ancillary \{ Node::Word\(_, w, _\) => match w\.speech \{(.*?)\}, _ => false, \} \} else \{(.*)\}$", nb)
    if not m:
        raise TranslateError(f"{GSRC}: is_mergeable_ancillary shape {nb!r}")
    want_else = ("match self.nodes.get(start_at - 1) { Some(v) if v.iter().any(|v| match v { Node::Word(_, w, _) => { matches!(w.speech, Speech::Affix(AffixVariant::Suffix)) } _ => false, }) => { true } "
                 "Some(v) if v.iter().any(|v| !v.is_ancillary()) => true, Some(_) => false, None => false, }")
    if norm(m.group(2)) != want_else:
        raise TranslateError(f"{GSRC}: is_mergeable_ancillary non-head branch shape {m.group(2)!r}")
    if not nb.startswith("let start_at = ancillary.start_at();"):
        raise TranslateError(f"{GSRC}: is_mergeable_ancillary prologue")
    inner = block_after(body, r"match w\.speech\s*\{", "head mergeable match")
    arms = split_arms(inner)
    out.append("Definition head_mergeable (ctx : context) (sp : speech) : bool :=\n  match sp with")
    for pat, rhs in arms:
        if rhs in ("true", "false"):
            v = rhs
        elif rhs in CTX_PRED:
            v = CTX_PRED[rhs]
        else:
            raise TranslateError(f"{GSRC}: head mergeable value {rhs!r}")
        out.append(f"  | {speech_pat(pat)} => {v}")
    if arms[-1][0] != "_":
        raise TranslateError(f"{GSRC}: head mergeable match has no final wildcard")
    out.append("  end.\n")
    write_gen("ScoreTables", "\n".join(out), [SRC, GSRC])


if __name__ == "__main__":
    main()
