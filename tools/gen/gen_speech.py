"""T3: libs/dic/src/base/speech.rs -> Gen/SpeechNames.v
   - enum constructor lists (checked against the mirrored Coq inductives)
   - Display impls (printed names)
   - is_ancillary / is_prefix / is_suffix / is_noun_proper / is_affix predicate tables"""
import re
from rsutil import *

SRC = "libs/dic/src/base/speech.rs"

ENUMS = {
    "Speech": ["Noun", "Verb", "Adjective", "Adverb", "AdjectivalVerb", "Verbatim", "Conjunction",
               "Particle", "AuxiliaryVerb", "PreNounAdjectival", "Counter", "Affix"],
    "AffixVariant": ["Prefix", "Suffix"],
    "NounVariant": ["Sahen", "Proper", "Common"],
    "ParticleType": ["Case", "Adverbial", "Conjunctive", "SentenceFinal", "Other"],
    "VerbForm": ["Godan", "Yodan", "SimoIchidan", "KamiIchidan", "SimoNidan", "KamiNidan", "Hen"],
}
COQ_CTOR = {
    ("NounVariant", "Sahen"): "NSahen", ("NounVariant", "Proper"): "NProper", ("NounVariant", "Common"): "NCommon",
    ("AffixVariant", "Prefix"): "APrefix", ("AffixVariant", "Suffix"): "ASuffix",
    ("ParticleType", "Case"): "PCase", ("ParticleType", "Adverbial"): "PAdverbial",
    ("ParticleType", "Conjunctive"): "PConjunctive", ("ParticleType", "SentenceFinal"): "PSentenceFinal",
    ("ParticleType", "Other"): "POther",
}
for c in ENUMS["VerbForm"]:
    COQ_CTOR[("VerbForm", c)] = c
for c in ENUMS["Speech"]:
    COQ_CTOR[("Speech", c)] = c
SPEECH_ARG = {"Noun": "NounVariant", "Verb": "VerbForm", "Particle": "ParticleType", "Affix": "AffixVariant"}


def check_enums(src):
    for name, ctors in ENUMS.items():
        body = block_after(src, r"pub enum %s\s*\{" % name, f"enum {name}")
        found = re.findall(r"^\s*([A-Z]\w*)\s*(?:\([^)]*\))?\s*,", body, re.M)
        if found != ctors:
            raise TranslateError(f"{SRC}: enum {name} has constructors {found}, the model mirrors {ctors}")


def display_arms(src, name):
    body = block_after(src, r"impl (?:fmt::)?Display for %s\s*\{" % name, f"Display for {name}")
    arms = re.findall(r"%s::(\w+)(?:\((\w+)\))?\s*=>\s*write!\(\s*f\s*,\s*\"([^\"]*)\"\s*(?:,\s*(\w+)\s*)?\)" % name, body)
    got = [a[0] for a in arms]
    if got != ENUMS[name]:
        raise TranslateError(f"{SRC}: Display for {name}: arms {got} do not cover {ENUMS[name]} in order")
    out = {}
    for ctor, binder, fmt, arg in arms:
        if fmt.count("{}") == 0:
            if binder and name != "VerbForm" and False:
                pass
            out[ctor] = ("lit", fmt)
        elif fmt.count("{}") == 1 and fmt.startswith("{}") and binder and arg == binder:
            out[ctor] = ("arg_then", fmt[2:])
        else:
            raise TranslateError(f"{SRC}: Display for {name}::{ctor}: unsupported format {fmt!r}")
    return out


def bool_pred(src, fname):
    """pub fn is_x(&self) -> bool { match self { Pat => true/false, ... _ => b } } -> list of (pattern, bool)"""
    body = block_after(src, r"pub fn %s\(&self\)\s*->\s*bool\s*\{" % fname, fname)
    mbody = block_after(body, r"match self\s*\{", f"match in {fname}")
    arms = re.findall(r"(Speech::\w+(?:\([^)]*\))?|_)\s*=>\s*(true|false)\s*,?", mbody)
    if not arms:
        raise TranslateError(f"{SRC}: {fname}: no arms recognised")
    rest = re.sub(r"(Speech::\w+(?:\([^)]*\))?|_)\s*=>\s*(true|false)\s*,?", "", mbody).strip()
    if rest:
        raise TranslateError(f"{SRC}: {fname}: unrecognised text in match: {rest[:60]!r}")
    return arms


def coq_pat(p):
    if p == "_":
        return "_"
    m = re.fullmatch(r"Speech::(\w+)(?:\((.*)\))?", p)
    ctor, arg = m.group(1), m.group(2)
    if ctor not in ENUMS["Speech"]:
        raise TranslateError(f"unknown Speech constructor {ctor}")
    if arg is None:
        if ctor in SPEECH_ARG:
            raise TranslateError(f"pattern {p} lacks its argument")
        return ctor
    if ctor == "Verb":
        if arg.strip() != "_":
            raise TranslateError(f"unsupported verb pattern {p}")
        return "Verb _ _"
    if arg.strip() == "_":
        return f"{ctor} _"
    m2 = re.fullmatch(r"\s*(\w+)::(\w+)\s*", arg)
    if not m2 or (m2.group(1), m2.group(2)) not in COQ_CTOR:
        raise TranslateError(f"unsupported pattern {p}")
    return f"{ctor} {COQ_CTOR[(m2.group(1), m2.group(2))]}"


def main():
    src = cut_tests(strip_comments(read(SRC)))
    check_enums(src)
    out = ["From Chokan Require Import Base.Str Dic.Speech.", "Local Open Scope N_scope.", ""]
    for name, fn in [("NounVariant", "noun_variant_name"), ("ParticleType", "particle_type_name"), ("AffixVariant", "affix_variant_name")]:
        arms = display_arms(src, name)
        ty = {"NounVariant": "noun_variant", "ParticleType": "particle_type", "AffixVariant": "affix_variant"}[name]
        out.append(f"Definition {fn} (x : {ty}) : str :=\n  match x with")
        for c in ENUMS[name]:
            kind, lit = arms[c]
            if kind != "lit":
                raise TranslateError(f"Display for {name}::{c} takes an argument")
            out.append(f"  | {COQ_CTOR[(name, c)]} => {cstr(lit)}")
        out.append("  end.\n")
    arms = display_arms(src, "VerbForm")
    out.append("Definition verb_class_suffix (c : verb_class) : str :=\n  match c with")
    for c in ENUMS["VerbForm"]:
        kind, lit = arms[c]
        if kind != "arg_then":
            raise TranslateError(f"Display for VerbForm::{c}: expected \"{{}}<suffix>\"")
        out.append(f"  | {c} => {cstr(lit)}")
    out.append("  end.\n")
    arms = display_arms(src, "Speech")
    out.append("Definition speech_name (s : speech) : str :=\n  match s with")
    sub = {"Noun": "noun_variant_name", "Particle": "particle_type_name", "Affix": "affix_variant_name"}
    for c in ENUMS["Speech"]:
        kind, lit = arms[c]
        if c == "Verb":
            if (kind, lit) != ("arg_then", ""):
                raise TranslateError("Display for Speech::Verb is not \"{}\" of the form")
            out.append("  | Verb c row => row :: verb_class_suffix c")
        elif c in sub:
            if kind != "arg_then":
                raise TranslateError(f"Display for Speech::{c}: expected \"{{}}<suffix>\"")
            out.append(f"  | {c} x => {sub[c]} x ++ {cstr(lit)}")
        else:
            if kind != "lit":
                raise TranslateError(f"Display for Speech::{c}: expected a literal")
            out.append(f"  | {c} => {cstr(lit)}")
    out.append("  end.\n")
    for fname in ["is_ancillary", "is_affix", "is_prefix", "is_suffix", "is_noun_proper"]:
        arms = bool_pred(src, fname)
        out.append(f"Definition {fname} (s : speech) : bool :=\n  match s with")
        seen_wild = False
        for p, b in arms:
            out.append(f"  | {coq_pat(p)} => {b}")
            seen_wild = seen_wild or p == "_"
        out.append("  end.\n")
    write_gen("SpeechNames", "\n".join(out), [SRC])


if __name__ == "__main__":
    main()
