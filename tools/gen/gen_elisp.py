"""T7: chokan.el -> Gen/ElispTables.v : chokan--roman-table, chokan--katakana-table (string keys),
   the consonant list of chokan--roman-sokuon-p, the cl-dotimes bound of chokan--roman-to-hiragana,
   the character class of chokan--target-character-regexp."""
import os, sys, re
sys.path.insert(0, os.path.join(os.path.dirname(os.path.abspath(__file__)), ".."))
from rsutil import *
import elisp_mini as E

SRC = "chokan.el"


def find(form, pred):
    """first sub-form satisfying pred (depth first)"""
    if pred(form):
        return form
    if isinstance(form, list):
        for x in form:
            r = find(x, pred)
            if r is not None:
                return r
    return None


def main():
    try:
        forms = E.read_all(read(SRC))
    except E.ElispError as e:
        raise TranslateError(f"{SRC}: {e}")
    defs = {}
    for f in forms:
        if isinstance(f, list) and len(f) >= 3 and isinstance(f[0], E.Sym) and f[0].name in ("defconst", "defvar", "defun") and isinstance(f[1], E.Sym):
            defs[f[1].name] = f

    def table(name):
        if name not in defs:
            raise TranslateError(f"{SRC}: {name} not found")
        q = defs[name][2]
        if not (isinstance(q, list) and q and q[0] is E.QUOTE):
            raise TranslateError(f"{SRC}: {name} is not a quoted list")
        out = []
        for it in q[1]:
            if isinstance(it, E.Cons) and isinstance(it.car, str) and isinstance(it.cdr, str):
                out.append((it.car, it.cdr))
            elif isinstance(it, E.Cons) and isinstance(it.car, E.Vec):
                continue            # [return] etc: never equal to a one-character string
            else:
                raise TranslateError(f"{SRC}: {name}: unsupported entry {it!r}")
        return out

    roman = table("chokan--roman-table")
    kata = table("chokan--katakana-table")
    # consonants
    f = defs.get("chokan--roman-sokuon-p")
    if f is None:
        raise TranslateError(f"{SRC}: chokan--roman-sokuon-p not found")
    b = find(f, lambda x: isinstance(x, list) and len(x) == 2 and isinstance(x[0], E.Sym) and x[0].name == "consonants" and isinstance(x[1], list) and x[1] and x[1][0] is E.QUOTE)
    if b is None:
        raise TranslateError(f"{SRC}: consonants binding not found")
    cons = b[1][1]
    if not all(isinstance(c, int) for c in cons):
        raise TranslateError(f"{SRC}: consonants is not a list of characters")
    # dotimes bound
    f = defs.get("chokan--roman-to-hiragana")
    if f is None:
        raise TranslateError(f"{SRC}: chokan--roman-to-hiragana not found")
    d = find(f, lambda x: isinstance(x, list) and x and isinstance(x[0], E.Sym) and x[0].name == "cl-dotimes")
    if d is None:
        raise TranslateError(f"{SRC}: cl-dotimes not found")
    bound = d[1][1]
    if isinstance(bound, E.Sym) and bound.name == "max-table-key-size":
        bound_coq = "m"
    elif isinstance(bound, list) and len(bound) == 2 and isinstance(bound[0], E.Sym) and bound[0].name == "1+" and isinstance(bound[1], E.Sym) and bound[1].name == "max-table-key-size":
        bound_coq = "S m"
    elif isinstance(bound, list) and len(bound) == 3 and isinstance(bound[0], E.Sym) and bound[0].name == "+" and set(map(repr, bound[1:])) == {"max-table-key-size", "1"}:
        bound_coq = "S m"
    else:
        raise TranslateError(f"{SRC}: unsupported cl-dotimes bound {bound!r}")
    # target regexp  "[a-zA-Z0-9あ-ん]+"
    t = defs.get("chokan--target-character-regexp")
    if t is None or not isinstance(t[2], str):
        raise TranslateError(f"{SRC}: chokan--target-character-regexp not found")
    m = re.fullmatch(r"\[((?:.-.)+)\]\+", t[2])
    if not m:
        raise TranslateError(f"{SRC}: target regexp shape {t[2]!r}")
    ranges = re.findall(r"(.)-(.)", m.group(1))
    out = ["From Chokan Require Import Base.Str.", "Local Open Scope N_scope.", ""]
    out.append("Definition el_roman_table : list (str * str) :=\n  [ " + ";\n    ".join(f"({cstr(k)}, {cstr(v)})" for k, v in roman) + " ].\n")
    out.append("Definition el_katakana_table : list (str * str) :=\n  [ " + ";\n    ".join(f"({cstr(k)}, {cstr(v)})" for k, v in kata) + " ].\n")
    out.append("Definition el_consonants : list N := [" + "; ".join(str(c) for c in cons) + "].")
    out.append(f"Definition el_scan_bound (m : nat) : nat := {bound_coq}.")
    out.append("Definition el_target_class : list (N * N) := [" + "; ".join(f"({ord(a)}, {ord(b)})" for a, b in ranges) + "].")
    write_gen("ElispTables", "\n".join(out) + "\n", [SRC])


if __name__ == "__main__":
    main()
