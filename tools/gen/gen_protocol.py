"""T10: chokan-server/src/{main.rs,method.rs,user_pref.rs} -> Gen/Protocol.v
   - per RPC handler and per background task: the sequence of lock / unlock / channel / store / respond operations,
     obtained by tracking brace scopes of `let g = <m>.lock().unwrap();` guards and statement-level temporaries
   - per background task: how it is spawned (async task that blocks / blocking thread)
   - the file operations of save_user_dictionary"""
import re
from rsutil import *

MAIN, METHOD, PREF = "chokan-server/src/main.rs", "chokan-server/src/method.rs", "chokan-server/src/user_pref.rs"
MUTEX = {"ctx.dictionary": "MDict", "dict": "MDict", "dictionary": "MDict",
         "ctx.user_pref": "MPref", "user_pref": "MPref", "pref": "MPref",
         "store": "MStore", "store_in_thread": "MStore"}


def strip_cfg_verif(src):
    """drop statements guarded by #[cfg(chokan_verif)] (the hooks)"""
    out, lines, skip = [], src.split("\n"), False
    i = 0
    while i < len(lines):
        if lines[i].strip() == "#[cfg(chokan_verif)]":
            # skip the next statement (up to the line ending with ';' or a single line item)
            i += 1
            while i < len(lines) and not lines[i].rstrip().endswith((";", "}")):
                i += 1
            i += 1
            continue
        out.append(lines[i])
        i += 1
    return "\n".join(out)


def ops_of(body, what):
    """walk a block body; returns list of ops"""
    ops = []
    stack = [[]]         # guards per open block
    loops = []           # per open block: is it the body of a for / while loop
    i, n = 0, len(body)
    stmt_temps = []      # temporaries of the current statement
    paren = 0
    while i < n:
        c = body[i]
        if c == '"':
            j = i + 1
            while body[j] != '"':
                if body[j] == "\\":
                    j += 1
                j += 1
            i = j + 1
            continue
        if c == "{":
            stack.append([])
            # is this the body of a for / while loop?  (header = the text since the previous ; { or })
            k = i - 1
            while k >= 0 and body[k] not in ";{}":
                k -= 1
            loops.append(bool(re.match(r"\s*(?:'\w+\s*:\s*)?(for|while)\b", body[k + 1:i])))
        elif c == "}":
            for g in reversed(stack.pop()):
                ops.append(f"Rel {g}")
            if loops:
                loops.pop()
            if not stack:
                raise TranslateError(f"{what}: unbalanced braces")
        elif c == ";" :
            for g in reversed(stmt_temps):
                ops.append(f"Rel {g}")
            stmt_temps = []
        m = re.compile(r"(?:let\s+(?:mut\s+)?(\w+)\s*=\s*)?([\w.]+)\s*\.lock\(\)\s*\.unwrap\(\)\s*(;)?").match(body, i)
        if m and (i == 0 or not (body[i - 1].isalnum() or body[i - 1] in "._")):
            name = m.group(2)
            if name not in MUTEX:
                raise TranslateError(f"{what}: unknown mutex expression {name!r}")
            mx = MUTEX[name]
            if any(loops):
                # the op list has no repetition: a critical section per iteration (e.g. the dictionary lock taken once per conjugated word)
                # would be flattened into ONE section and the atomicity theorems would be proved about the wrong protocol
                raise TranslateError(f"{what}: mutex {name!r} is taken inside a for / while loop; critical sections per iteration are not representable in the protocol model")
            ops.append(f"Acq {mx}")
            if m.group(1) and m.group(3):
                stack[-1].append(mx)          # a named guard: lives to the end of its block
                i = m.end()
                continue
            stmt_temps.append(mx)             # a temporary: lives to the end of the statement
            i = m.end() - (1 if m.group(3) else 0)
            continue
        for pat, op in ((r"get_candidates\(", "ReadDictFreq"), (r"get_tankan_candidates\(", "ReadDict"),
                        (r"\.add_session\(", "StoreInsert"), (r"\.pop_session\(", "StorePop"),
                        (r"\.update_frequency\(", "CommitFreq"), (r"\.update_compound_words\(", "LearnCompound"),
                        (r"entry_updater\s*\.send\(|entry_updater\.send\(", "SendEntry"), (r"\btx\s*\.send\(", "SendOther"),
                        (r"\btx\.recv\(\)", "Recv"), (r"\.add_entry\(", "CommitUserEntry"), (r"standard_trie\s*\.insert\(|\.standard_trie\.insert\(", "CommitWord"),
                        (r"\.save_user_dictionary\(\)", "SaveFiles"), (r"RpcResult::Ok\(", "Respond"), (r"\bsleep\(", "Sleep")):
            m2 = re.compile(pat).match(body, i)
            if m2:
                ops.append(op)
                break
        i += 1
    if len(stack) != 1 or stack[0] or stmt_temps:
        for g in reversed(stack[0]):
            ops.append(f"Rel {g}")
    # fail closed: every lock acquisition in the text must have been understood, and no other locking primitive may occur
    if len(re.findall(r"\.lock\(", body)) != sum(1 for o in ops if o.startswith("Acq ")):
        raise TranslateError(f"{what}: a .lock() call of an unknown shape (only `<mutex>.lock().unwrap()` is understood)")
    if re.search(r"try_lock|\.read\(\)\s*\.unwrap|\.write\(\)\s*\.unwrap|RwLock|Condvar|\bdrop\(|mem::drop", body):
        raise TranslateError(f"{what}: a synchronisation primitive or an explicit drop the protocol model does not know")
    return ops


def closure_body(src, start_re, what):
    m = re.search(start_re, src)
    if not m:
        raise TranslateError(f"cannot find {what}")
    b = src.find("{", m.end() - 1)
    e = balanced(src, b)
    return src[b + 1:e - 1]


def main():
    method = strip_cfg_verif(cut_tests(strip_comments(read(METHOD))))
    mainrs = strip_cfg_verif(cut_tests(strip_comments(read(MAIN))))
    handlers = []
    for name in re.findall(r'module\.register_method\("(\w+)"', method):
        body = closure_body(method, r'module\.register_method\("%s",\s*(?:move\s*)?\|[^|]*\|\s*\{' % name, f"handler {name}")
        handlers.append((name, ops_of(body, f"{METHOD}: {name}")))
    want = ["GetCandidates", "GetProperCandidates", "GetTankanCandidates", "UpdateFrequency", "RegisterWord", "GetAlphabeticCandidate"]
    if [h[0] for h in handlers] != want:
        raise TranslateError(f"{METHOD}: handlers {[h[0] for h in handlers]} (expected {want})")
    # channels are unbounded std mpsc channels (a send never blocks): anything else is a shape the concurrency model does not know
    for src_name, src_text in ((MAIN, mainrs), (METHOD, method)):
        if re.search(r"sync_channel|SyncSender|crossbeam|tokio::sync::mpsc|flume|\bbounded\(", src_text):
            raise TranslateError(f"{src_name}: a bounded or foreign channel; the concurrency model assumes unbounded std::sync::mpsc channels whose send never blocks")
    if len(re.findall(r"mpsc::channel\(\)", mainrs)) != len(re.findall(r"channel\(", mainrs)):
        raise TranslateError(f"{MAIN}: a channel constructor other than std::sync::mpsc::channel()")
    # background tasks: every spawn in main.rs whose closure contains a loop
    tasks = []
    for m in re.finditer(r"(tokio::spawn\(async move|tokio::task::spawn_blocking\(move \|\||std::thread::spawn\(move \|\|)\s*\{", mainrs):
        b = mainrs.find("{", m.end() - 1)
        e = balanced(mainrs, b)
        body = mainrs[b + 1:e - 1]
        if "loop" not in body:
            continue
        kind = "SpawnAsync" if m.group(1).startswith("tokio::spawn") else "SpawnBlocking"
        blocking = bool(re.search(r"\.recv\(\)|\bsleep\(", body)) and ".await" not in body
        ops = ops_of(body, f"{MAIN}: background task")
        tasks.append((kind, blocking, ops))
    # the file operations of save_user_dictionary
    pref = cut_tests(strip_comments(read(PREF)))
    body = block_after(pref, r"pub fn save_user_dictionary\(&self\) -> anyhow::Result<\(\)>\s*\{", "save_user_dictionary")
    names = {}
    for m in re.finditer(r"let (\w+) = dir\.join\((.*?)\);", body):
        expr = m.group(2)
        if "tmp" in expr:
            names[m.start()] = (m.group(1), "Tmp")
        else:
            names[m.start()] = (m.group(1), "Final")
    fops = []
    cur = {"path": None, "tmp_path": None}
    which = None
    for m in re.finditer(r"let (\w+) = dir\.join\(([^;]*)\);|File::create\(&?(\w+)\)|(file\.write_all\(|writer\.write_all\()|fs::rename\(&?(\w+), &?(\w+)\)|fs::remove_file\(&?(\w+)\)|USER_FREQUENCY_NAME|USER_DICTIONARY_NAME", body):
        t = m.group(0)
        if t == "USER_FREQUENCY_NAME":
            which = "Freq"
        elif t == "USER_DICTIONARY_NAME":
            which = "Dic"
        elif m.group(1):
            if "USER_FREQUENCY_NAME" in m.group(2):
                which = "Freq"
            elif "USER_DICTIONARY_NAME" in m.group(2):
                which = "Dic"
        elif m.group(3):
            var = m.group(3)
            target = ("Tmp" if "tmp" in var else "Fin") + which
            fops.append(f"FCreate {target}")
            cur["open"] = target
        elif m.group(4):
            if "open" not in cur:
                raise TranslateError(f"{PREF}: save_user_dictionary writes to a file that this function did not create (the file operations moved into a helper?)")
            fops.append(f"FWrite {cur['open']}")
        elif m.group(5):
            a, b = m.group(5), m.group(6)
            fops.append(f"FRename {('Tmp' if 'tmp' in a else 'Fin') + which} {('Tmp' if 'tmp' in b else 'Fin') + which}")
        elif m.group(7):
            fops.append(f"FRemove {('Tmp' if 'tmp' in m.group(7) else 'Fin') + which}")
    # fail closed: any other file-system call in the function is a shape this translator does not know
    known = {"fs::create_dir_all", "fs::rename", "fs::remove_file", "File::create", "fs::File"}
    for m in re.finditer(r"\b(fs|File|OpenOptions|io)::(\w+)", body):
        if m.group(0) not in known:
            raise TranslateError(f"{PREF}: save_user_dictionary uses {m.group(0)}, which the crash model does not know")
    if re.search(r"\.set_len\(|\.seek\(|\.sync_|\.flush\(|hard_link|symlink", body):
        raise TranslateError(f"{PREF}: save_user_dictionary uses a file operation the crash model does not know")
    if not fops:
        raise TranslateError(f"{PREF}: no file operation recognised in save_user_dictionary")
    out = ["From Chokan Require Import Base.Str Server.Protocol.", ""]
    out.append("Definition p_handlers : list (hname * list op) :=\n  [ " + ";\n    ".join(f"(H{n}, [{'; '.join(o)}])" for n, o in handlers) + " ].\n")
    out.append("Definition p_tasks : list (spawn_kind * bool * list op) :=\n  [ " + ";\n    ".join(f"({k}, {'true' if b else 'false'}, [{'; '.join(o)}])" for k, b, o in tasks) + " ].\n")
    out.append("Definition p_save : list fop := [" + "; ".join(fops) + "].\n")
    write_gen("Protocol", "\n".join(out), [MAIN, METHOD, PREF])


if __name__ == "__main__":
    main()
