"""Shared machinery of the checks: translators, Coq build + audit, case evaluation
inside Coq, the Rust harness, evidence / violation / known-finding bookkeeping."""
import json, os, re, subprocess, sys, time, hashlib, random, shutil, glob, concurrent.futures

VERIF = os.path.dirname(os.path.dirname(os.path.abspath(__file__)))
REPO = os.environ.get("CHOKAN_REPO", "/repo")
COQ = os.path.join(VERIF, "coq")
CACHE = os.path.join(VERIF, ".cache")
TARGET = os.path.join(CACHE, "target")
HARNESS_BIN = os.path.join(TARGET, "debug", "chokan-harness")
EVID = os.path.join(VERIF, "evidence")
REPLAY = os.path.join(VERIF, "replay")
sys.path.insert(0, os.path.join(VERIF, "tools", "gen"))

CARGO_ENV = dict(os.environ, CARGO_NET_OFFLINE="true", CARGO_TARGET_DIR=TARGET,
                 RUSTFLAGS="--cfg chokan_verif")

FORBIDDEN = re.compile(r"\b(Admitted|admit|Axiom|Axioms|Parameter|Parameters|Conjecture|Conjectures|Unset Guard|bypass_check|Admit Obligations|Hypothesis|Variable)\b")
# axioms of the standard library that may appear in Print Assumptions (none is expected)
AXIOM_ALLOW = set()


def log(*a):
    print(*a, file=sys.stderr, flush=True)


def sh(cmd, timeout=None, cwd=None, env=None, input=None):
    p = subprocess.run(cmd, shell=isinstance(cmd, str), cwd=cwd, env=env, input=input,
                       stdout=subprocess.PIPE, stderr=subprocess.STDOUT, timeout=timeout, text=True)
    return p.returncode, p.stdout


# --------------------------------------------------------------------------
# translators
# --------------------------------------------------------------------------
def regen(names):
    """run the named translators (modules under tools/gen); returns list of error strings"""
    import importlib
    errs = []
    for n in names:
        try:
            mod = importlib.import_module(n)
            importlib.reload(mod)
            mod.main()
        except Exception as e:  # TranslateError or anything else: the tie is broken
            errs.append(f"{n}: {type(e).__name__}: {e}")
    return errs


# --------------------------------------------------------------------------
# Coq
# --------------------------------------------------------------------------
def coq_files():
    out = []
    for root, _, files in os.walk(COQ):
        if "/cases" in root or root.endswith("cases"):
            continue
        for f in files:
            if f.endswith(".v"):
                out.append(os.path.relpath(os.path.join(root, f), COQ))
    return sorted(out)


def coq_makefile():
    files = coq_files()
    stamp = os.path.join(COQ, ".filelist")
    txt = "\n".join(files)
    old = open(stamp).read() if os.path.exists(stamp) else None
    if old != txt or not os.path.exists(os.path.join(COQ, "Makefile")):
        rc, out = sh(["coq_makefile", "-f", "_CoqProject", "-o", "Makefile"] + files, cwd=COQ)
        if rc != 0:
            raise RuntimeError("coq_makefile failed: " + out)
        open(stamp, "w").write(txt)


def coq_make(targets, timeout=1500):
    """full .vo build of the given targets (relative .v paths); returns (ok, log)"""
    coq_makefile()
    vos = [t[:-2] + ".vo" if t.endswith(".v") else t for t in targets]
    rc, out = sh(["timeout", str(timeout), "make", "-j16"] + vos, cwd=COQ)
    return rc == 0, out


def coq_failing_file(makelog):
    m = re.findall(r'File "\./([^"]+)", line (\d+), characters [\d-]+:\n(Error:.*?)(?:\n\n|\nmake)', makelog, re.S)
    if m:
        f, line, err = m[-1]
        return f, int(line), err.strip()[:600]
    m = re.search(r"\*\*\* \[.*?: (\S+\.vo)\]", makelog)
    return (m.group(1) if m else "?"), 0, makelog[-600:]


def audit_sources(files):
    """forbidden vernacular in the given .v files (comments stripped)"""
    bad = []
    for f in files:
        p = os.path.join(COQ, f)
        if not os.path.exists(p):
            continue
        src = open(p, encoding="utf-8").read()
        src = strip_coq_comments(src)
        for i, line in enumerate(src.split("\n"), 1):
            m = FORBIDDEN.search(line)
            if m:
                # Variable/Hypothesis are fine inside a Section; checked by a crude section depth count
                if m.group(1) in ("Hypothesis", "Variable") and in_section(src, i):
                    continue
                bad.append(f"{f}:{i}: {line.strip()[:100]}")
    return bad


def strip_coq_comments(src):
    out, depth, i = [], 0, 0
    while i < len(src):
        if src.startswith("(*", i):
            depth += 1
            i += 2
        elif src.startswith("*)", i) and depth > 0:
            depth -= 1
            i += 2
        else:
            if depth == 0:
                out.append(src[i])
            elif src[i] == "\n":
                out.append("\n")
            i += 1
    return "".join(out)


def in_section(src, lineno):
    depth = 0
    for i, line in enumerate(src.split("\n"), 1):
        if i >= lineno:
            break
        if re.match(r"\s*Section\s+\w+", line):
            depth += 1
        elif re.match(r"\s*End\s+\w+", line) and depth > 0:
            depth -= 1
    return depth > 0


def print_assumptions(prop, module, theorems):
    """compile a tiny file that prints the assumptions of every property theorem.
    returns (ok, {thm: [axioms]}, log)"""
    d = os.path.join(COQ, "cases")
    os.makedirs(d, exist_ok=True)
    path = os.path.join(d, f"Audit_{prop}.v")
    with open(path, "w") as f:
        f.write(f"From Chokan Require Import {module}.\n")
        for t in theorems:
            f.write(f'Print Assumptions {t}.\n')
    rc, out = sh(["timeout", "600", "coqc", "-noglob", "-Q", COQ, "Chokan", path], cwd=d)
    res = {}
    if rc != 0:
        return False, res, out
    # output: either "Closed under the global context" or "Axioms:\n name : type ..." per theorem, in order
    chunks = re.split(r"(?=Closed under the global context|Axioms:)", out)
    chunks = [c for c in chunks if c.startswith("Closed") or c.startswith("Axioms:")]
    if len(chunks) != len(theorems):
        return False, res, "cannot parse Print Assumptions output:\n" + out
    for t, c in zip(theorems, chunks):
        if c.startswith("Closed"):
            res[t] = []
        else:
            res[t] = re.findall(r"^(\S+)\s*:", c[len("Axioms:"):], re.M)
    return True, res, out


def count_obligations(files):
    n = 0
    for f in files:
        p = os.path.join(COQ, f)
        if os.path.exists(p):
            src = strip_coq_comments(open(p, encoding="utf-8").read())
            n += len(re.findall(r"^\s*(?:Theorem|Lemma|Example|Corollary|Fact|Remark|Proposition)\s+\w+", src, re.M))
    return n


def cstr(s):
    if s == "":
        return "[]"
    return "[" + "; ".join(str(ord(c)) for c in s) + "]"


def clist(items):
    return "[" + "; ".join(items) + "]"


def copt(x, f=lambda v: v):
    return "None" if x is None else f"(Some {f(x)})"


def cbool(b):
    return "true" if b else "false"


def run_coq_cases(name, imports, case_type, check_fn, cases, shard=400, extra_defs="", timeout=900):
    """cases: list of Coq terms of type case_type.  check_fn: Coq term of type case_type -> bool.
    Evaluates check_fn on every case inside Coq (vm_compute), sharded over parallel coqc processes.
    returns (ok, failing_indices, log)."""
    d = os.path.join(COQ, "cases")
    os.makedirs(d, exist_ok=True)
    for old in glob.glob(os.path.join(d, f"{name}_*.v")) + glob.glob(os.path.join(d, f"{name}_*.vo")):
        os.remove(old)
    shards = [cases[i:i + shard] for i in range(0, len(cases), shard)]
    jobs = []
    for k, sh_cases in enumerate(shards):
        path = os.path.join(d, f"{name}_{k}.v")
        with open(path, "w") as f:
            f.write(imports + "\nLocal Open Scope N_scope.\n" + extra_defs + "\n")
            f.write(f"Definition the_cases : list ({case_type}) :=\n [ " + ";\n   ".join(sh_cases) + " ].\n")
            f.write("Fixpoint failing (i : N) (l : list (%s)) : list N :=\n"
                    "  match l with [] => [] | c :: l' => if (%s) c then failing (i + 1) l' else i :: failing (i + 1) l' end.\n" % (case_type, check_fn))
            f.write("Eval vm_compute in (failing 0 the_cases).\n")
        jobs.append((k, path))

    def run(job):
        k, path = job
        rc, out = sh(["timeout", str(timeout), "coqc", "-noglob", "-Q", COQ, "Chokan", path], cwd=d)
        return k, rc, out

    failing, logs, ok = [], [], True
    with concurrent.futures.ThreadPoolExecutor(max_workers=16) as ex:
        for k, rc, out in ex.map(run, jobs):
            if rc != 0:
                ok = False
                logs.append(f"shard {k}: coqc rc={rc}\n{out[-1500:]}")
                continue
            m = re.search(r"=\s*(\[.*?\])\s*(?:%N)?\s*:\s*list N", out, re.S)
            if not m:
                ok = False
                logs.append(f"shard {k}: cannot parse output\n{out[-800:]}")
                continue
            for x in re.findall(r"\d+", m.group(1)):
                failing.append(k * shard + int(x))
    for old in (glob.glob(os.path.join(d, f"{name}_*.vo")) + glob.glob(os.path.join(d, f".{name}_*.aux")) + glob.glob(os.path.join(d, f"{name}_*.glob"))
                + glob.glob(os.path.join(d, f"{name}_*.vok")) + glob.glob(os.path.join(d, f"{name}_*.vos"))):
        os.remove(old)
    if ok and not failing:
        for old in glob.glob(os.path.join(d, f"{name}_*.v")):      # nothing to look at: do not let the shards pile up
            os.remove(old)
    return ok, sorted(failing), "\n".join(logs)


# --------------------------------------------------------------------------
# Rust harness
# --------------------------------------------------------------------------
_harness_built = False


def build_harness():
    """build the harness (and with it the /repo crates it depends on) from /repo's working tree, hooks on"""
    global _harness_built
    if _harness_built:
        return True, ""
    hd = os.path.join(VERIF, "harness")
    shutil.copyfile(os.path.join(REPO, "Cargo.lock"), os.path.join(hd, "Cargo.lock"))
    rc, out = sh(["timeout", "1200", "cargo", "build", "--offline"], cwd=hd, env=CARGO_ENV)
    _harness_built = rc == 0
    return rc == 0, out


def harness(cases, timeout=900):
    """run the harness on a list of JSON-able case dicts; returns list of result dicts"""
    inp = "\n".join(json.dumps(c, ensure_ascii=False) for c in cases) + "\n"
    p = subprocess.run([HARNESS_BIN], input=inp, stdout=subprocess.PIPE, stderr=subprocess.PIPE, text=True, timeout=timeout)
    lines = [l for l in p.stdout.split("\n") if l.strip()]
    if len(lines) != len(cases):
        raise RuntimeError(f"harness returned {len(lines)} results for {len(cases)} cases (rc={p.returncode}): {p.stderr[-500:]}")
    return [json.loads(l) for l in lines]


def harness_parallel(cases, chunk=2000, timeout=1800):
    chunks = [cases[i:i + chunk] for i in range(0, len(cases), chunk)]
    out = []
    with concurrent.futures.ThreadPoolExecutor(max_workers=16) as ex:
        for r in ex.map(lambda c: harness(c, timeout), chunks):
            out.extend(r)
    return out


# --------------------------------------------------------------------------
# results
# --------------------------------------------------------------------------
def load_known():
    p = os.path.join(VERIF, "known_findings.json")
    if not os.path.exists(p):
        return []
    return json.load(open(p))["findings"]


class Result:
    """collects what one check run found and writes evidence / replay / exit status"""

    def __init__(self, prop, tier, seed):
        self.prop, self.tier, self.seed = prop, tier, seed
        self.t0 = time.time()
        self.violations = []      # (kind, what, replay_obj)   concrete failing inputs
        self.broken = []          # (what, detail)              proof / translator / correspondence that no longer checks
        self.known_hits = []
        self.coverage = {}
        self.assumptions = []
        self.samples = []
        self.notes = []

    def violation(self, what, replay):
        self.violations.append((what, replay))

    def tie_broken(self, what, detail):
        self.broken.append((what, detail))

    def known(self, fid, what):
        # only a finding that known_findings.json lists for this property suppresses anything; anything else is a violation
        listed = [f for f in load_known() if f.get("id") == fid and f.get("status") == "known" and self.prop in (f.get("properties") or [f.get("property")])]
        if not listed:
            self.violation(f"{fid} is not a finding listed for {self.prop}: {what}", {"kind": "unlisted_finding", "finding": fid})
            return
        if (fid, what) not in self.known_hits:
            self.known_hits.append((fid, what))

    def finish(self, coverage, assumptions, level="proof"):
        global EVID, REPLAY
        if os.environ.get("VERIF_REPLAY"):
            # a replay run does not rewrite the evidence or the replay files of the registered checks
            EVID = os.path.join(CACHE, "replay_run", "evidence")
            REPLAY = os.path.join(CACHE, "replay_run", "replay")
        os.makedirs(EVID, exist_ok=True)
        os.makedirs(REPLAY, exist_ok=True)
        wall = time.time() - self.t0
        nviol = len(self.violations) + (1 if (self.broken and not self.violations) else 0)
        ev = {
            "property_id": self.prop, "tier": self.tier, "seed": self.seed, "level": level,
            "coverage": coverage, "assumptions": assumptions, "wall_s": round(wall, 2),
            "violations": nviol,
            "known_findings_hit": [f"{a}: {b}" for a, b in self.known_hits],
            "broken_ties": [w for w, _ in self.broken],
            "notes": self.notes,
        }
        with open(os.path.join(EVID, f"{self.prop}.json"), "w") as f:
            json.dump(ev, f, ensure_ascii=False, indent=1)
        for fid, what in self.known_hits:
            print(f"KNOWN-FINDING: property={self.prop} {fid}: {what}")
        if self.violations:
            path = os.path.join(REPLAY, f"{self.prop}_{self.tier}_{self.seed}.json")
            with open(path, "w") as f:
                json.dump({"property": self.prop, "violations": [{"what": w, "replay": r} for w, r in self.violations[:20]],
                           "broken_ties": [{"what": w, "detail": d} for w, d in self.broken]}, f, ensure_ascii=False, indent=1)
            print(f"VIOLATION property={self.prop} replay={path}")
            for w, _ in self.violations[:5]:
                log("  violation:", w)
            return 1
        if self.broken:
            path = os.path.join(REPLAY, f"{self.prop}_{self.tier}_{self.seed}.json")
            with open(path, "w") as f:
                json.dump({"property": self.prop, "violations": [],
                           "no_longer_checks": [{"what": w, "detail": d} for w, d in self.broken]}, f, ensure_ascii=False, indent=1)
            print(f"VIOLATION property={self.prop} replay={path} no-failing-input-found")
            for w, d in self.broken[:5]:
                log("  broken:", w, "|", str(d)[:300])
            return 1
        print(f"OK property={self.prop} tier={self.tier} wall_s={wall:.1f}")
        return 0


TRUSTED_COMMON = [
    "Coq 8.16.1 kernel (coqc); vm_compute used for finite-table side conditions and for evaluating cases; no native_compute",
    "translators under /verif/tools/gen (Python, fail closed, unverified)",
    "correspondence harness /verif/harness (Rust) and /verif/tools (Python); cases rendered as Coq terms and evaluated by vm_compute",
]


def standard_proof_steps(res, gens, props_file, cone_files, module, theorems):
    """steps 1-2 of every check: regenerate, build the property's cone, audit.
    returns dict with keys ok_gen, ok_make, obligations, discharged, axioms"""
    info = {"ok_gen": True, "ok_make": True, "axioms": {}, "obligations": 0, "discharged": 0}
    errs = regen(gens)
    if errs:
        info["ok_gen"] = False
        for e in errs:
            res.tie_broken("translator: " + e.split(":")[0], e)
    ok, mlog = coq_make([props_file])
    info["obligations"] = count_obligations(cone_files)
    if not ok:
        info["ok_make"] = False
        f, line, err = coq_failing_file(mlog)
        res.tie_broken(f"proof obligation: coq/{f} line {line}", err)
    else:
        info["discharged"] = info["obligations"]
        bad = audit_sources(cone_files)
        if bad:
            info["ok_make"] = False
            res.tie_broken("audit: forbidden vernacular", bad)
        okp, ax, plog = print_assumptions(res.prop, module, theorems)
        if not okp:
            info["ok_make"] = False
            res.tie_broken("audit: Print Assumptions failed", plog[-800:])
        else:
            info["axioms"] = ax
            for t, a in ax.items():
                extra = [x for x in a if x not in AXIOM_ALLOW]
                if extra:
                    info["ok_make"] = False
                    res.tie_broken(f"audit: theorem {t} depends on axioms {extra}", extra)
    return info
