(** Effect of the array primitives of the model on the function view [nd], the length,
    and the well-formedness [WF] of the free list. *)
From Chokan Require Import Base.Str Trie.TrieModel Trie.TrieAbs.
From Coq Require Import Arith ZifyBool.

(** * reading a modified array *)

Lemma nd_set ns i f e j :
  nd {| arr := set_nth (arr ns) i f; empties := e |} j =
  if (Nat.eqb j i && (i <? len ns)%nat)%bool then f (nd ns i) else nd ns j.
Proof. unfold nd, len. cbn [arr]. apply nth_set_nth. Qed.

Lemma len_set ns i f e : len {| arr := set_nth (arr ns) i f; empties := e |} = len ns.
Proof. unfold len. cbn [arr]. apply length_set_nth. Qed.

(** * expand *)

Lemma expand_len ns k : len (expand ns k) = (len ns + k)%nat.
Proof. unfold len, expand. cbn [arr]. rewrite app_length, repeat_length. reflexivity. Qed.

Lemma expand_nd ns k i : nd (expand ns k) i = nd ns i.
Proof.
  unfold nd, expand. cbn [arr]. destruct (Nat.lt_ge_cases i (length (arr ns))) as [H|H].
  - apply app_nth1. exact H.
  - rewrite app_nth2 by exact H. rewrite nth_repeat. symmetry. apply nth_overflow. exact H.
Qed.

Lemma Shape_ext f g : (forall i, g i = f i) -> Shape f -> Shape g.
Proof.
  intros He [H1 H2]. split; intros i.
  - rewrite !He. apply H1.
  - rewrite He. apply H2.
Qed.

Lemma expand_WF ns k : WF ns -> WF (expand ns k).
Proof.
  intros [Hnd [Hem Hsh]]. split; [|split].
  - unfold expand. cbn [empties]. apply NoDup_fold_insert. exact Hnd.
  - intros e. rewrite expand_len, expand_nd. unfold expand. cbn [empties].
    rewrite In_fold_insert, in_seq, Hem. fold (len ns). split.
    + intros [[H1 H2]|[H1 H2]].
      * split; [lia|]. rewrite (nd_beyond ns e H1). cbn. lia.
      * split; [lia|exact H2].
    + intros [H1 H2]. destruct (Nat.lt_ge_cases e (len ns)) as [H|H].
      * right. split; assumption.
      * left. lia.
  - apply (Shape_ext (nd ns)); [apply expand_nd|exact Hsh].
Qed.

(** * record_transition_at *)

Lemma rta_spec ns idx l :
  WF ns -> (0 <= check (nd ns idx))%Z -> (0 <= base (nd ns idx))%Z ->
  exists ns', record_transition_at ns idx l = Ok (ns', (Z.to_nat (base (nd ns idx)) + l)%nat) /\
     (forall i, nd ns' i = upd (nd ns) (Z.to_nat (base (nd ns idx)) + l)%nat
                             {| base := base (nd ns (Z.to_nat (base (nd ns idx)) + l)%nat);
                                check := Z.of_nat idx |} i) /\
     (len ns <= len ns')%nat /\ (Z.to_nat (base (nd ns idx)) + l < len ns')%nat /\ WF ns'.
Proof.
  intros HWF Hck Hbs. pose proof (nd_used_lt ns idx Hck) as Hlt.
  unfold record_transition_at. rewrite (nth_error_nd ns idx Hlt).
  destruct (Z.ltb_spec (base (nd ns idx)) 0) as [Hb|_]; [lia|].
  set (ci := (Z.to_nat (base (nd ns idx)) + l)%nat).
  fold (len ns).
  set (ns1 := if (len ns <=? ci)%nat then expand ns (ci - len ns + 1) else ns).
  assert (Hnd1 : forall i, nd ns1 i = nd ns i).
  { intros i. unfold ns1. destruct (len ns <=? ci)%nat; [apply expand_nd|reflexivity]. }
  assert (Hlen1 : (len ns <= len ns1)%nat /\ (ci < len ns1)%nat).
  { unfold ns1. destruct (Nat.leb_spec (len ns) ci) as [H|H]; [rewrite expand_len|]; lia. }
  assert (HWF1 : WF ns1).
  { unfold ns1. destruct (len ns <=? ci)%nat; [apply expand_WF|]; exact HWF. }
  destruct Hlen1 as [Hl1 Hl2].
  eexists. split; [reflexivity|].
  assert (Hnd' : forall i,
    nd {| arr := set_nth (arr ns1) ci (fun m => {| base := base m; check := Z.of_nat idx |});
          empties := remove_nat ci (empties ns1) |} i =
    upd (nd ns) ci {| base := base (nd ns ci); check := Z.of_nat idx |} i).
  { intros i. rewrite nd_set. unfold upd. destruct (Nat.eqb_spec i ci) as [He|He]; cbn [andb].
    - destruct (Nat.ltb_spec ci (len ns1)) as [_|H]; [|lia]. rewrite Hnd1. reflexivity.
    - apply Hnd1. }
  split; [exact Hnd'|]. rewrite len_set. split; [exact Hl1|]. split; [exact Hl2|].
  destruct HWF1 as [Hnd [Hem [Hsh1 Hsh2]]]. split; [|split; [|split]].
  - cbn [empties]. apply NoDup_remove_nat. exact Hnd.
  - intros e. rewrite len_set, Hnd'. cbn [empties]. rewrite In_remove_nat, Hem. unfold upd.
    destruct (Nat.eqb_spec e ci) as [He|He].
    + cbn [check]. split; [intros [_ H]; contradiction|intros [_ H]; lia].
    + rewrite Hnd1. tauto.
  - intros i. rewrite Hnd'. unfold upd. destruct (Nat.eqb_spec i ci) as [He|He].
    + cbn [check]. lia.
    + rewrite <- Hnd1. apply Hsh1.
  - intros i. rewrite Hnd'. unfold upd. destruct (Nat.eqb_spec i ci) as [He|He].
    + cbn [base]. rewrite <- Hnd1. apply Hsh2.
    + rewrite <- Hnd1. apply Hsh2.
Qed.

(** * record_transition_base_at *)

Lemma setbase_spec ns idx b :
  WF ns -> (0 <= check (nd ns idx))%Z -> (0 <= b)%Z ->
  exists ns', record_transition_base_at ns idx b = Ok ns' /\
     (forall i, nd ns' i = upd (nd ns) idx {| base := b; check := check (nd ns idx) |} i) /\
     len ns' = len ns /\ WF ns'.
Proof.
  intros HWF Hck Hb. pose proof (nd_used_lt ns idx Hck) as Hlt.
  unfold record_transition_base_at. destruct (Z.ltb_spec b 0) as [H|_]; [lia|].
  fold (len ns). destruct (Nat.ltb_spec idx (len ns)) as [_|H]; [|lia].
  eexists. split; [reflexivity|].
  assert (Hnd' : forall i,
    nd {| arr := set_nth (arr ns) idx (fun m => {| base := b; check := check m |}); empties := empties ns |} i =
    upd (nd ns) idx {| base := b; check := check (nd ns idx) |} i).
  { intros i. rewrite nd_set. unfold upd. destruct (Nat.eqb_spec i idx) as [He|He]; cbn [andb]; [|reflexivity].
    destruct (Nat.ltb_spec idx (len ns)) as [_|H]; [reflexivity|lia]. }
  split; [exact Hnd'|]. rewrite len_set. split; [reflexivity|].
  destruct HWF as [Hnd [Hem [Hsh1 Hsh2]]]. split; [|split; [|split]].
  - exact Hnd.
  - intros e. rewrite len_set, Hnd'. cbn [empties]. rewrite Hem. unfold upd.
    destruct (Nat.eqb_spec e idx) as [He|He]; [subst e; cbn [check]|]; tauto.
  - intros i. rewrite Hnd'. unfold upd. destruct (Nat.eqb_spec i idx) as [He|He].
    + cbn [check]. lia.
    + apply Hsh1.
  - intros i. rewrite Hnd'. unfold upd. destruct (Nat.eqb_spec i idx) as [He|He].
    + cbn [base]. lia.
    + apply Hsh2.
Qed.

(** * releasing a slot *)

Lemma release_spec ns i :
  WF ns -> (i < len ns)%nat ->
  let ns' := {| arr := set_nth (arr ns) i (fun _ => empty_node); empties := insert_nat i (empties ns) |} in
  (forall j, nd ns' j = upd (nd ns) i empty_node j) /\ len ns' = len ns /\ WF ns'.
Proof.
  intros HWF Hlt ns'.
  assert (Hnd' : forall j, nd ns' j = upd (nd ns) i empty_node j).
  { intros j. unfold ns'. rewrite nd_set. unfold upd. destruct (Nat.eqb_spec j i) as [He|He]; cbn [andb]; [|reflexivity].
    destruct (Nat.ltb_spec i (len ns)) as [_|H]; [reflexivity|lia]. }
  assert (Hlen' : len ns' = len ns) by (unfold ns'; apply len_set).
  assert (Hem' : empties ns' = insert_nat i (empties ns)) by reflexivity.
  split; [exact Hnd'|]. split; [exact Hlen'|].
  destruct HWF as [Hnd [Hem [Hsh1 Hsh2]]]. split; [|split; [|split]].
  - rewrite Hem'. apply NoDup_insert_nat. exact Hnd.
  - intros e. rewrite Hlen', Hnd', Hem', In_insert_nat, Hem. unfold upd.
    destruct (Nat.eqb_spec e i) as [He|He].
    + subst e. cbn [check empty_node]. split; [intros _; split; lia|intros _; left; reflexivity].
    + split; [intros [H|H]; [contradiction|exact H]|intros H; right; exact H].
  - intros j. rewrite Hnd'. unfold upd. destruct (Nat.eqb_spec j i) as [He|He].
    + reflexivity.
    + apply Hsh1.
  - intros j. rewrite Hnd'. unfold upd. destruct (Nat.eqb_spec j i) as [He|He].
    + cbn. lia.
    + apply Hsh2.
Qed.

(** * find_labels_of *)

Definition flabels (T : nat) (f : nat -> node) (idx : nat) : list nat :=
  if (base (f idx) <? 0)%Z then []
  else filter (fun l => (check (f (Z.to_nat (base (f idx)) + l)%nat) =? Z.of_nat idx)%Z) (seq 1 T).

Lemma In_flabels T f idx l :
  In l (flabels T f idx) <->
  (1 <= l <= T)%nat /\ (0 <= base (f idx))%Z /\ check (f (Z.to_nat (base (f idx)) + l)%nat) = Z.of_nat idx.
Proof.
  unfold flabels. destruct (Z.ltb_spec (base (f idx)) 0) as [Hb|Hb].
  - cbn [In]. split; [tauto|]. intros [_ [H _]]. lia.
  - rewrite filter_In, in_seq, Z.eqb_eq. split; intros H; repeat split; try lia; tauto.
Qed.

Lemma NoDup_flabels T f idx : NoDup (flabels T f idx).
Proof.
  unfold flabels. destruct (base (f idx) <? 0)%Z; [constructor|].
  apply NoDup_filter. apply seq_NoDup.
Qed.

Lemma flabels_ext T f g idx : (forall i, f i = g i) -> flabels T f idx = flabels T g idx.
Proof.
  intros H. unfold flabels. rewrite H. destruct (base (g idx) <? 0)%Z; [reflexivity|].
  apply filter_ext. intros l. rewrite H. reflexivity.
Qed.

Lemma find_labels_spec ns idx a :
  (idx < len ns)%nat -> find_labels_of ns idx a = Ok (flabels (terminal_label a) (nd ns) idx).
Proof.
  intros Hlt. unfold find_labels_of, flabels. rewrite (nth_error_nd ns idx Hlt).
  destruct (base (nd ns idx) <? 0)%Z; [reflexivity|]. f_equal.
  unfold label_set, terminal_label. apply filter_ext. intros l.
  rewrite check_of_nd. destruct (Nat.ltb_spec (Z.to_nat (base (nd ns idx)) + l) (len ns)) as [H|H].
  - unfold is_transition_from.
    destruct (Z.eqb_spec (check (nd ns (Z.to_nat (base (nd ns idx)) + l)%nat)) (Z.of_nat idx)) as [He|He].
    + rewrite He. destruct (Z.leb_spec 0 (Z.of_nat idx)); [reflexivity|lia].
    + apply andb_false_r.
  - rewrite (nd_beyond ns _ H). cbn [check empty_node].
    destruct (Z.eqb_spec (-1) (Z.of_nat idx)); [lia|reflexivity].
Qed.

(** * xcheck *)

Lemma valid_base_spec ns ls t :
  valid_base ns ls t = true <-> forall l, In l ls -> In (t + l)%nat (empties ns).
Proof.
  unfold valid_base. rewrite forallb_forall. split; intros H l Hl.
  - apply mem_nat_In. apply H. exact Hl.
  - apply mem_nat_In. apply H. exact Hl.
Qed.

Lemma valid_base_free ns ls t : WF ns -> valid_base ns ls t = true ->
  forall l, In l ls -> (check (nd ns (t + l)%nat) < 0)%Z.
Proof.
  intros [_ [Hem _]] H l Hl. rewrite valid_base_spec in H. apply Hem. apply H. exact Hl.
Qed.

Lemma beyond_free ns i : (len ns <= i)%nat -> (check (nd ns i) < 0)%Z.
Proof. intros H. rewrite (nd_beyond ns i H). cbn. lia. Qed.

Lemma xcheck_ok ns ls hint nb : WF ns -> xcheck ns ls hint = Ok nb ->
  ls <> [] /\ forall l, In l ls -> (check (nd ns (nb + l)%nat) < 0)%Z.
Proof.
  intros HWF H. unfold xcheck in H. destruct ls as [|l0 ls0] eqn:Els; [discriminate|].
  rewrite <- Els in *. split; [rewrite Els; discriminate|].
  destruct hint as [t|].
  - destruct (xcheck_admissible ns ls t) eqn:Ha; [|discriminate]. inversion H; subst nb.
    unfold xcheck_admissible in Ha. rewrite Els in Ha. rewrite <- Els in Ha.
    apply orb_true_iff in Ha. destruct Ha as [Ha|Ha].
    + apply (valid_base_free ns ls t HWF Ha).
    + apply andb_true_iff in Ha. destruct Ha as [_ Ha]. apply Nat.eqb_eq in Ha.
      intros l _. apply beyond_free. unfold len. lia.
  - inversion H; subst nb. unfold xcheck_canonical.
    destruct (find _ (empties ns)) as [e|] eqn:Hf.
    + apply find_some in Hf. destruct Hf as [_ Hf]. apply andb_true_iff in Hf. destruct Hf as [_ Hf].
      apply (valid_base_free ns ls _ HWF Hf).
    + intros l _. apply beyond_free. unfold len. lia.
Qed.

Lemma xcheck_none_ok ns ls : ls <> [] -> xcheck ns ls None = Ok (xcheck_canonical ns ls).
Proof. intros H. unfold xcheck. destruct ls; [contradiction|reflexivity]. Qed.

Lemma xcheck_cases ns ls hint : ls <> [] ->
  (exists nb, xcheck ns ls hint = Ok nb) \/
  (xcheck ns ls hint = Panic /\ exists t, hint = Some t /\ xcheck_admissible ns ls t = false).
Proof.
  intros H. unfold xcheck. destruct ls as [|l0 ls0] eqn:Els; [contradiction|]. rewrite <- Els.
  destruct hint as [t|].
  - destruct (xcheck_admissible ns ls t) eqn:Ha.
    + left. eexists; reflexivity.
    + right. split; [reflexivity|]. exists t. split; [reflexivity|exact Ha].
  - left. eexists; reflexivity.
Qed.
