(** Abstraction layer over the double-array model: the array seen as a total function
    [nat -> node] (slots beyond the array read as empty), [childf] / [walkf] on such
    functions, the structural invariant [Inv], and the facts about keys and labels. *)
From Chokan Require Import Base.Str Trie.TrieModel.
From Coq Require Import Arith ZifyBool.

(** * Statement-level definitions (used by Props/C04.v) *)

Definition alphabet_ok (a : list N) : Prop := NoDup a /\ (1 <= length a <= 254)%nat.
Definition key_in_alphabet (a : list N) (k : str) : Prop := forall c, In c k -> In c a.

Inductive reachable (a : list N) : trie -> list str -> Prop :=
| R_init : reachable a (from_keys a) []
| R_ok t ks k hints t' : reachable a t ks -> insert t k hints = Ok t' -> reachable a t' (k :: ks)
| R_err t ks k hints : reachable a t ks -> insert t k hints = Err -> reachable a t ks.

(** * The array as a total function *)

Definition nd (ns : nodes) (i : nat) : node := nth i (arr ns) empty_node.
Definition len (ns : nodes) : nat := length (arr ns).
Definition upd (f : nat -> node) (i : nat) (v : node) : nat -> node :=
  fun j => if Nat.eqb j i then v else f j.

Lemma upd_same f i v : upd f i v i = v.
Proof. unfold upd. rewrite Nat.eqb_refl. reflexivity. Qed.

Lemma upd_other f i v j : j <> i -> upd f i v j = f j.
Proof. intros H. unfold upd. destruct (Nat.eqb_spec j i); [contradiction|reflexivity]. Qed.

Lemma nd_beyond ns i : (len ns <= i)%nat -> nd ns i = empty_node.
Proof. intros H. unfold nd. apply nth_overflow. exact H. Qed.

Lemma nth_error_nd ns i : (i < len ns)%nat -> nth_error (arr ns) i = Some (nd ns i).
Proof. intros H. unfold nd. apply nth_error_nth'. exact H. Qed.

Lemma nth_error_beyond ns i : (len ns <= i)%nat -> nth_error (arr ns) i = None.
Proof. intros H. apply nth_error_None. exact H. Qed.

Lemma nd_used_lt ns i : (0 <= check (nd ns i))%Z -> (i < len ns)%nat.
Proof.
  intros H. destruct (Nat.lt_ge_cases i (len ns)) as [Hlt|Hge]; [exact Hlt|].
  rewrite (nd_beyond ns i Hge) in H. cbn in H. lia.
Qed.

Lemma check_of_nd ns i : check_of ns i = if (i <? len ns)%nat then Some (check (nd ns i)) else None.
Proof.
  unfold check_of. destruct (Nat.ltb_spec i (len ns)) as [H|H].
  - rewrite (nth_error_nd ns i H). reflexivity.
  - rewrite (nth_error_beyond ns i H). reflexivity.
Qed.

Lemma base_of_nd ns i : base_of ns i = if (i <? len ns)%nat then Some (base (nd ns i)) else None.
Proof.
  unfold base_of. destruct (Nat.ltb_spec i (len ns)) as [H|H].
  - rewrite (nth_error_nd ns i H). reflexivity.
  - rewrite (nth_error_beyond ns i H). reflexivity.
Qed.

(** * Small list facts: [mem_nat], [remove_nat], [insert_nat], [set_nth] *)

Lemma mem_nat_In x l : mem_nat x l = true <-> In x l.
Proof.
  unfold mem_nat. rewrite existsb_exists. split.
  - intros [y [Hin Hy]]. apply Nat.eqb_eq in Hy. subst. exact Hin.
  - intros H. exists x. split; [exact H|apply Nat.eqb_refl].
Qed.

Lemma mem_nat_false x l : mem_nat x l = false <-> ~ In x l.
Proof.
  rewrite <- mem_nat_In. destruct (mem_nat x l); split; intro H; try congruence; try discriminate.
  all: try (exfalso; apply H; reflexivity).
Qed.

Lemma In_remove_nat x y l : In y (remove_nat x l) <-> In y l /\ y <> x.
Proof.
  unfold remove_nat. rewrite filter_In. split; intros [H1 H2]; split; try exact H1.
  - destruct (Nat.eqb_spec x y); [discriminate|congruence].
  - destruct (Nat.eqb_spec x y); [congruence|reflexivity].
Qed.

Lemma NoDup_remove_nat x l : NoDup l -> NoDup (remove_nat x l).
Proof. intros H. unfold remove_nat. apply NoDup_filter. exact H. Qed.

Lemma In_insert_nat x y l : In y (insert_nat x l) <-> y = x \/ In y l.
Proof.
  unfold insert_nat. destruct (mem_nat x l) eqn:Hm.
  - apply mem_nat_In in Hm. split; [intro H; right; exact H|intros [->|H]; assumption].
  - cbn [In]. split; intros [H|H]; auto.
Qed.

Lemma NoDup_insert_nat x l : NoDup l -> NoDup (insert_nat x l).
Proof.
  intros H. unfold insert_nat. destruct (mem_nat x l) eqn:Hm; [exact H|].
  apply mem_nat_false in Hm. constructor; assumption.
Qed.

Lemma In_fold_insert xs : forall l y,
  In y (fold_left (fun e i => insert_nat i e) xs l) <-> In y xs \/ In y l.
Proof.
  induction xs as [|x xs IH]; intros l y; cbn [fold_left In].
  - tauto.
  - rewrite IH, In_insert_nat. split; intros H; intuition.
Qed.

Lemma NoDup_fold_insert xs : forall l,
  NoDup l -> NoDup (fold_left (fun e i => insert_nat i e) xs l).
Proof.
  induction xs as [|x xs IH]; intros l H; cbn [fold_left]; [exact H|].
  apply IH. apply NoDup_insert_nat. exact H.
Qed.

Lemma length_set_nth {A} (l : list A) i f : length (set_nth l i f) = length l.
Proof.
  revert i; induction l as [|x l IH]; intros [|i]; cbn [set_nth length]; try reflexivity.
  rewrite IH. reflexivity.
Qed.

Lemma nth_set_nth {A} (l : list A) i f j d :
  nth j (set_nth l i f) d = if (Nat.eqb j i && (i <? length l)%nat)%bool then f (nth i l d) else nth j l d.
Proof.
  revert i j; induction l as [|x l IH]; intros i j.
  - cbn [set_nth length]. destruct i; rewrite andb_false_r; reflexivity.
  - destruct i as [|i]; destruct j as [|j]; cbn [set_nth nth length]; try reflexivity.
    rewrite IH. cbn [Nat.eqb]. reflexivity.
Qed.

Lemma nodup_nat_NoDup l : nodup_nat l = true <-> NoDup l.
Proof.
  induction l as [|x l IH]; cbn [nodup_nat].
  - split; [constructor|reflexivity].
  - rewrite andb_true_iff, negb_true_iff, mem_nat_false, IH. split.
    + intros [H1 H2]. constructor; assumption.
    + intros H. inversion H; subst. split; assumption.
Qed.

Lemma forallb_i_nth {A} (f : nat -> A -> bool) l : forall k,
  (forall i x, nth_error l i = Some x -> f (k + i)%nat x = true) -> forallb_i f k l = true.
Proof.
  induction l as [|y l IH]; intros k H; cbn [forallb_i]; [reflexivity|].
  apply andb_true_iff. split.
  - specialize (H O y eq_refl). rewrite Nat.add_0_r in H. exact H.
  - apply IH. intros i x Hx. specialize (H (S i) x Hx). rewrite Nat.add_succ_r in H. exact H.
Qed.

(** * children and walks on functions *)

Definition childf (f : nat -> node) (p l : nat) : option nat :=
  if Nat.eqb l 0 then None
  else if (base (f p) <? 0)%Z then None
  else let s := (Z.to_nat (base (f p)) + l)%nat in
       if (check (f s) =? Z.of_nat p)%Z then Some s else None.

Lemma childf_some f p l s :
  childf f p l = Some s <->
  l <> O /\ (0 <= base (f p))%Z /\ s = (Z.to_nat (base (f p)) + l)%nat /\ check (f s) = Z.of_nat p.
Proof.
  unfold childf. destruct (Nat.eqb_spec l 0) as [Hl|Hl].
  - split; [discriminate|]. intros [H _]. contradiction.
  - destruct (Z.ltb_spec (base (f p)) 0) as [Hb|Hb].
    + split; [discriminate|]. intros [_ [H _]]. lia.
    + cbv zeta. destruct (Z.eqb_spec (check (f (Z.to_nat (base (f p)) + l)%nat)) (Z.of_nat p)) as [Hc|Hc].
      * split.
        -- intros H. inversion H; subst. repeat split; assumption.
        -- intros [_ [_ [Hs _]]]. subst. reflexivity.
      * split; [discriminate|]. intros [_ [_ [Hs Hck]]]. subst. contradiction.
Qed.

Lemma childf_none f p l :
  childf f p l = None <->
  l = O \/ (base (f p) < 0)%Z \/ check (f (Z.to_nat (base (f p)) + l)%nat) <> Z.of_nat p.
Proof.
  unfold childf. destruct (Nat.eqb_spec l 0) as [Hl|Hl].
  - split; auto.
  - destruct (Z.ltb_spec (base (f p)) 0) as [Hb|Hb].
    + split; auto.
    + cbv zeta. destruct (Z.eqb_spec (check (f (Z.to_nat (base (f p)) + l)%nat)) (Z.of_nat p)) as [Hc|Hc].
      * split; [discriminate|]. intros [H|[H|H]]; [contradiction|lia|contradiction].
      * split; auto.
Qed.

Definition wstep (f : nat -> node) (st : option nat) (l : nat) : option nat :=
  match st with Some c => childf f c l | None => None end.

Definition walkf (f : nat -> node) (ls : list nat) : option nat := fold_left (wstep f) ls (Some O).

Lemma fold_wstep_none f ls : fold_left (wstep f) ls None = None.
Proof. induction ls as [|l ls IH]; cbn [fold_left wstep]; [reflexivity|exact IH]. Qed.

Lemma walkf_nil f : walkf f [] = Some O.
Proof. reflexivity. Qed.

Lemma walkf_app f a b : walkf f (a ++ b) = fold_left (wstep f) b (walkf f a).
Proof. unfold walkf. apply fold_left_app. Qed.

Lemma walkf_snoc f a l : walkf f (a ++ [l]) = wstep f (walkf f a) l.
Proof. rewrite walkf_app. reflexivity. Qed.

Lemma walkf_app_none f a b : walkf f a = None -> walkf f (a ++ b) = None.
Proof. intros H. rewrite walkf_app, H. apply fold_wstep_none. Qed.

(** pointwise-equal functions have the same children and walks *)
Lemma childf_ext f g : (forall i, f i = g i) -> forall p l, childf f p l = childf g p l.
Proof. intros H p l. unfold childf. rewrite !H. reflexivity. Qed.

Lemma walkf_ext f g : (forall p l, childf f p l = childf g p l) -> forall ls, walkf f ls = walkf g ls.
Proof.
  intros H ls. induction ls as [|l ls IH] using rev_ind; [reflexivity|].
  rewrite !walkf_snoc, IH. destruct (walkf g ls); cbn [wstep]; [apply H|reflexivity].
Qed.

(** * Invariants *)

(** free slots are exactly the empty node; bases are >= -1 *)
Definition Shape (f : nat -> node) : Prop :=
  (forall i, (check (f i) < 0)%Z -> f i = empty_node) /\ (forall i, (-1 <= base (f i))%Z).

(** the parent structure *)
Definition Tree (T : nat) (f : nat -> node) : Prop :=
  check (f O) = 0%Z /\ (0 <= base (f O))%Z /\
  forall i q, i <> O -> check (f i) = Z.of_nat q ->
    (0 <= check (f q))%Z /\ (0 <= base (f q))%Z /\
    (Z.to_nat (base (f q)) < i)%nat /\ (i <= Z.to_nat (base (f q)) + T)%nat.

(** array-level well-formedness: the free list is the set of free slots *)
Definition WF (ns : nodes) : Prop :=
  NoDup (empties ns) /\
  (forall e, In e (empties ns) <-> (e < len ns)%nat /\ (check (nd ns e) < 0)%Z) /\
  Shape (nd ns).

Definition Inv (T : nat) (ns : nodes) : Prop := WF ns /\ Tree T (nd ns).

Definition InvT (t : trie) : Prop := Inv (terminal_label (t_alphabet t)) (t_nodes t).

Lemma Inv_inv_b t : InvT t -> inv_b t = true.
Proof.
  intros [[Hnd [Hem [Hfree Hbs]]] [Hr0 [Hr1 Hpar]]].
  unfold inv_b. rewrite !andb_true_iff. split; [split|].
  - apply forallb_i_nth. intros i x Hx. cbn [Nat.add].
    assert (Hlt : (i < len (t_nodes t))%nat) by (apply nth_error_Some; unfold len; congruence).
    assert (Hxi : x = nd (t_nodes t) i) by (rewrite (nth_error_nd _ _ Hlt) in Hx; congruence).
    subst x. unfold inv_slot. destruct (Nat.eqb_spec i 0) as [Hi|Hi].
    + subst i. rewrite !andb_true_iff. repeat split.
      * apply Z.eqb_eq. exact Hr0.
      * apply Z.leb_le. exact Hr1.
      * apply negb_true_iff. apply mem_nat_false. intros Hin. apply Hem in Hin. lia.
    + unfold slot_used. destruct (Z.leb_spec 0 (check (nd (t_nodes t) i))) as [Hu|Hu].
      * destruct (Hpar i (Z.to_nat (check (nd (t_nodes t) i))) Hi ltac:(lia)) as [Hq1 [Hq2 [Hq3 Hq4]]].
        pose proof (nd_used_lt _ _ Hq1) as Hql.
        fold (len (t_nodes t)) in *.
        rewrite (nth_error_nd _ _ Hql).
        rewrite !andb_true_iff. repeat split.
        -- apply negb_true_iff. apply mem_nat_false. intros Hin. apply Hem in Hin. lia.
        -- apply Z.leb_le. exact Hq2.
        -- apply Nat.ltb_lt. exact Hq3.
        -- apply Nat.leb_le. unfold terminal_label in *. lia.
        -- apply orb_true_iff. right. apply Z.leb_le. exact Hq1.
      * rewrite (Hfree i Hu). cbn [base check empty_node].
        rewrite !andb_true_iff. repeat split.
        apply mem_nat_In. apply Hem. split; assumption.
  - apply nodup_nat_NoDup. exact Hnd.
  - apply forallb_forall. intros e He. apply Nat.ltb_lt. apply Hem in He. unfold len in He. lia.
Qed.

(** * Consequences of [Tree] *)

Section TreeFacts.
Variables (T : nat) (f : nat -> node).
Hypothesis HT : Tree T f.

Lemma tree_root_ck : check (f O) = 0%Z. Proof. exact (proj1 HT). Qed.
Lemma tree_root_bs : (0 <= base (f O))%Z. Proof. exact (proj1 (proj2 HT)). Qed.
Lemma tree_par i q : i <> O -> check (f i) = Z.of_nat q ->
    (0 <= check (f q))%Z /\ (0 <= base (f q))%Z /\
    (Z.to_nat (base (f q)) < i)%nat /\ (i <= Z.to_nat (base (f q)) + T)%nat.
Proof. exact (proj2 (proj2 HT) i q). Qed.

Lemma childf_nonzero p l s : childf f p l = Some s -> s <> O.
Proof. intros H. apply childf_some in H. lia. Qed.

(** a slot whose check is p is a child of p *)
Lemma tree_child_of i q : i <> O -> check (f i) = Z.of_nat q ->
  exists l, (1 <= l <= T)%nat /\ childf f q l = Some i.
Proof.
  intros Hi Hc. destruct (tree_par i q Hi Hc) as [H1 [H2 [H3 H4]]].
  exists (i - Z.to_nat (base (f q)))%nat. split; [lia|].
  apply childf_some. repeat split; try lia.
Qed.

Lemma childf_label_range p l s : childf f p l = Some s -> (1 <= l <= T)%nat.
Proof.
  intros H. pose proof (childf_nonzero _ _ _ H) as Hs. apply childf_some in H.
  destruct H as [Hl [Hb [Hs' Hc]]]. destruct (tree_par s p Hs Hc) as [_ [_ [H3 H4]]]. lia.
Qed.

Lemma childf_inj p l p' l' s : childf f p l = Some s -> childf f p' l' = Some s -> p = p' /\ l = l'.
Proof.
  intros H H'. apply childf_some in H. apply childf_some in H'.
  destruct H as [Hl [Hb [Hs Hc]]]. destruct H' as [Hl' [Hb' [Hs' Hc']]].
  assert (p = p') by lia. subst p'. split; [reflexivity|lia].
Qed.

Lemma childf_used p l s : childf f p l = Some s -> (0 <= check (f s))%Z.
Proof. intros H. apply childf_some in H. lia. Qed.

Lemma walkf_used ls x : walkf f ls = Some x -> (0 <= check (f x))%Z.
Proof.
  destruct ls as [|l ls] using rev_ind.
  - cbn. intros H. inversion H; subst. rewrite tree_root_ck. lia.
  - rewrite walkf_snoc. destruct (walkf f ls) as [c|]; cbn [wstep]; [|discriminate].
    apply childf_used.
Qed.

Lemma walkf_root_only ls : walkf f ls = Some O -> ls = [].
Proof.
  destruct ls as [|l ls _] using rev_ind; [reflexivity|].
  rewrite walkf_snoc. destruct (walkf f ls) as [c|]; cbn [wstep]; [|discriminate].
  intros H. apply childf_nonzero in H. contradiction.
Qed.

(** each slot has at most one path from the root *)
Lemma walkf_inj : forall a b x, walkf f a = Some x -> walkf f b = Some x -> a = b.
Proof.
  induction a as [|la a IH] using rev_ind; intros b x Ha Hb.
  - cbn in Ha. inversion Ha; subst. symmetry. apply walkf_root_only. exact Hb.
  - destruct b as [|lb b _] using rev_ind.
    + cbn in Hb. inversion Hb; subst. apply walkf_root_only in Ha. exact Ha.
    + rewrite walkf_snoc in Ha, Hb.
      destruct (walkf f a) as [ca|] eqn:Hwa; cbn [wstep] in Ha; [|discriminate].
      destruct (walkf f b) as [cb|] eqn:Hwb; cbn [wstep] in Hb; [|discriminate].
      destruct (childf_inj _ _ _ _ _ Ha Hb) as [Hc Hl]. subst cb lb.
      rewrite (IH b ca eq_refl Hwb). reflexivity.
Qed.

(** no reachable slot lies in a set closed under "parent" that misses the root *)
Lemma reach_avoid (S : nat -> Prop) :
  ~ S O -> (forall s q, S s -> check (f s) = Z.of_nat q -> S q) ->
  forall ls x, walkf f ls = Some x -> ~ S x.
Proof.
  intros H0 Hcl ls. induction ls as [|l ls IH] using rev_ind; intros x Hx.
  - cbn in Hx. inversion Hx; subst. exact H0.
  - rewrite walkf_snoc in Hx. destruct (walkf f ls) as [c|] eqn:Hw; cbn [wstep] in Hx; [|discriminate].
    intros HS. apply childf_some in Hx. destruct Hx as [_ [_ [_ Hc]]].
    apply (IH c eq_refl). apply (Hcl x c HS Hc).
Qed.

(** a reachable slot is not its own child *)
Lemma reach_not_own_child ls x l : walkf f ls = Some x -> childf f x l <> Some x.
Proof.
  intros Hw Hc. pose proof (childf_nonzero _ _ _ Hc) as Hx0.
  apply childf_some in Hc. destruct Hc as [_ [_ [_ Hck]]].
  apply (reach_avoid (fun s => s = x)) with (ls := ls) (x := x); auto.
  intros s q Hs Hq. subst s. lia.
Qed.

(** a reachable slot is not its own grandchild *)
Lemma reach_not_own_grandchild ls x c : walkf f ls = Some x ->
  check (f x) = Z.of_nat c -> check (f c) = Z.of_nat x -> x = O.
Proof.
  intros Hw H1 H2. destruct (Nat.eq_dec x 0) as [Hx|Hx]; [exact Hx|]. exfalso.
  assert (Hc : c <> O).
  { intros ->. rewrite tree_root_ck in H2. lia. }
  apply (reach_avoid (fun s => s = x \/ s = c)) with (ls := ls) (x := x); auto.
  - intros [H|H]; congruence.
  - intros s q [Hs|Hs] Hq; subst s; [right|left]; lia.
Qed.

End TreeFacts.

(** * search is walk *)

Lemma search_step_childf ns c l : l <> O -> search_step ns (Some c) l = childf (nd ns) c l.
Proof.
  intros Hl. unfold search_step, childf. destruct (Nat.eqb_spec l 0) as [H|_]; [contradiction|].
  rewrite base_of_nd. destruct (Nat.ltb_spec c (len ns)) as [Hc|Hc].
  - destruct (Z.ltb_spec (base (nd ns c)) 0) as [Hb|Hb]; [reflexivity|].
    cbv zeta. rewrite check_of_nd.
    destruct (Nat.ltb_spec (Z.to_nat (base (nd ns c)) + l) (len ns)) as [Hs|Hs].
    + unfold is_transition_from.
      destruct (Z.eqb_spec (check (nd ns (Z.to_nat (base (nd ns c)) + l)%nat)) (Z.of_nat c)) as [He|He].
      * rewrite He. destruct (Z.leb_spec 0 (Z.of_nat c)); [reflexivity|lia].
      * rewrite andb_false_r. reflexivity.
    + rewrite (nd_beyond ns _ Hs). cbn [check empty_node].
      destruct (Z.eqb_spec (-1) (Z.of_nat c)); [lia|reflexivity].
  - rewrite (nd_beyond ns c Hc). cbn [base empty_node]. reflexivity.
Qed.

Lemma search_fold_walk ns ls : Forall (fun l => l <> O) ls -> forall st,
  fold_left (search_step ns) ls st = fold_left (wstep (nd ns)) ls st.
Proof.
  induction 1 as [|l ls Hl Hls IH]; intros st; cbn [fold_left]; [reflexivity|].
  rewrite IH. f_equal. destruct st as [c|]; [|reflexivity].
  cbn [wstep]. apply search_step_childf. exact Hl.
Qed.

(** * keys and labels *)

Lemma index_of_lt c a i : index_of c a = Some i -> (i < length a)%nat /\ nth_error a i = Some c.
Proof.
  revert i; induction a as [|x a IH]; intros i; cbn [index_of]; [discriminate|].
  destruct (N.eqb_spec c x) as [->|Hne].
  - intros H; inversion H; subst. cbn. split; [lia|reflexivity].
  - destruct (index_of c a) as [j|]; cbn [option_map]; [|discriminate].
    intros H; inversion H; subst. destruct (IH j eq_refl) as [H1 H2]. cbn. split; [lia|exact H2].
Qed.

Lemma index_of_some_iff c a : (exists i, index_of c a = Some i) <-> In c a.
Proof.
  induction a as [|x a IH]; cbn [index_of In].
  - split; [intros [i H]; discriminate|tauto].
  - destruct (N.eqb_spec c x) as [->|Hne].
    + split; [auto|]. intros _. exists O. reflexivity.
    + split.
      * intros [i H]. destruct (index_of c a) as [j|]; [|discriminate]. right. apply IH. exists j. reflexivity.
      * intros [H|H]; [congruence|]. apply IH in H. destruct H as [j Hj]. rewrite Hj. exists (S j). reflexivity.
Qed.

Lemma key_to_labels_some_iff a k : (exists ls, key_to_labels a k = Some ls) <-> key_in_alphabet a k.
Proof.
  unfold key_in_alphabet. induction k as [|c k IH]; cbn [key_to_labels].
  - split; [intros _ c []|intros _; eexists; reflexivity].
  - split.
    + intros [ls H]. destruct (index_of c a) as [i|] eqn:Hi; [|discriminate].
      destruct (key_to_labels a k) as [ls'|]; [|discriminate].
      intros c' [<-|Hc'].
      * apply index_of_some_iff. exists i. exact Hi.
      * apply (proj1 IH); [eexists; reflexivity|exact Hc'].
    + intros H. assert (Hc : In c a) by (apply H; left; reflexivity).
      apply index_of_some_iff in Hc. destruct Hc as [i Hi]. rewrite Hi.
      destruct (proj2 IH) as [ls Hls]; [intros c' Hc'; apply H; right; exact Hc'|].
      rewrite Hls. eexists; reflexivity.
Qed.

Lemma key_to_labels_none_iff a k : key_to_labels a k = None <-> ~ key_in_alphabet a k.
Proof.
  rewrite <- key_to_labels_some_iff. destruct (key_to_labels a k) as [ls|].
  - split; [discriminate|]. intros H. exfalso. apply H. exists ls. reflexivity.
  - split; [|reflexivity]. intros _ [ls H]. discriminate.
Qed.

(** shape: character labels (all in 1..length a) followed by the terminal label *)
Lemma key_to_labels_shape a k ls : key_to_labels a k = Some ls ->
  exists m, ls = m ++ [terminal_label a] /\ Forall (fun l => 1 <= l <= length a)%nat m.
Proof.
  revert ls; induction k as [|c k IH]; intros ls; cbn [key_to_labels].
  - intros H; inversion H; subst. exists []. split; [reflexivity|constructor].
  - destruct (index_of c a) as [i|] eqn:Hi; [|discriminate].
    destruct (key_to_labels a k) as [ls'|]; [|discriminate].
    intros H; inversion H; subst. destruct (IH ls' eq_refl) as [m [Hm Hf]].
    exists (S i :: m). split; [rewrite Hm; reflexivity|].
    constructor; [|exact Hf]. apply index_of_lt in Hi. lia.
Qed.

Lemma key_to_labels_range a k ls : key_to_labels a k = Some ls ->
  Forall (fun l => 1 <= l <= terminal_label a)%nat ls.
Proof.
  intros H. destruct (key_to_labels_shape a k ls H) as [m [-> Hf]].
  apply Forall_app. split.
  - eapply Forall_impl; [|exact Hf]. cbn. intros l Hl. unfold terminal_label. lia.
  - constructor; [unfold terminal_label; lia|constructor].
Qed.

Lemma key_to_labels_inj a k k' ls : key_to_labels a k = Some ls -> key_to_labels a k' = Some ls -> k = k'.
Proof.
  revert k' ls; induction k as [|c k IH]; intros k' ls; cbn [key_to_labels].
  - intros H; inversion H; subst. destruct k' as [|c' k']; [reflexivity|].
    cbn [key_to_labels]. destruct (index_of c' a) as [i|] eqn:Hi; [|discriminate].
    destruct (key_to_labels a k') as [ls'|]; [|discriminate].
    intros H'; inversion H'. apply index_of_lt in Hi. unfold terminal_label in *. lia.
  - destruct (index_of c a) as [i|] eqn:Hi; [|discriminate].
    destruct (key_to_labels a k) as [ls1|] eqn:Hk; [|discriminate].
    intros H; inversion H; subst. destruct k' as [|c' k'].
    + cbn [key_to_labels]. intros H'; inversion H'. apply index_of_lt in Hi. unfold terminal_label in *. lia.
    + cbn [key_to_labels]. destruct (index_of c' a) as [i'|] eqn:Hi'; [|discriminate].
      destruct (key_to_labels a k') as [ls2|] eqn:Hk'; [|discriminate].
      intros H'; inversion H'; subst.
      apply index_of_lt in Hi. apply index_of_lt in Hi'.
      assert (c = c') by (destruct Hi as [_ Hi]; destruct Hi' as [_ Hi']; congruence).
      subst c'. f_equal. apply (IH k' ls1 eq_refl Hk').
Qed.

(** the label string of one key is a prefix of that of another only if the keys are equal *)
Lemma key_labels_prefix a k k' ls ls' r :
  key_to_labels a k = Some ls -> key_to_labels a k' = Some ls' -> ls = ls' ++ r -> k' = k.
Proof.
  intros Hk Hk' Hp.
  destruct (key_to_labels_shape a k ls Hk) as [m [Hm Hf]].
  destruct (key_to_labels_shape a k' ls' Hk') as [m' [Hm' Hf']].
  revert Hp. induction r as [|x r _] using rev_ind; intros Hp.
  - rewrite app_nil_r in Hp. rewrite <- Hp in Hk'. symmetry. exact (key_to_labels_inj a k k' ls Hk Hk').
  - exfalso. subst ls ls'. rewrite app_assoc in Hp. apply app_inj_tail in Hp. destruct Hp as [Hp _].
    rewrite Hp in Hf. rewrite <- app_assoc in Hf. apply Forall_app in Hf. destruct Hf as [_ Hf].
    apply Forall_app in Hf. destruct Hf as [Hf _]. inversion Hf; subst. unfold terminal_label in *. lia.
Qed.
