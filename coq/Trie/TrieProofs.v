(** The whole insertion, and the set semantics of every reachable trie. *)
From Chokan Require Import Base.Str Trie.TrieModel Trie.TrieAbs Trie.TrieOps Trie.TrieEdge Trie.TrieRebase Trie.TrieInsert.
From Coq Require Import Arith ZifyBool.

(** * the fold over the labels *)

(** along the execution of the fold, some hint was consulted and was not admissible *)
Inductive bad_hint_somewhere (a : list N) : nodes -> nat -> list nat -> list (option nat) -> Prop :=
| bh_here ns cur l ls hints :
    hint_bad a ns cur l (hd None hints) -> bad_hint_somewhere a ns cur (l :: ls) hints
| bh_later ns cur l ls hints ns' cur' :
    insert_step a (Ok (ns, cur)) (l, hd None hints) = Ok (ns', cur') ->
    bad_hint_somewhere a ns' cur' ls (tl hints) ->
    bad_hint_somewhere a ns cur (l :: ls) hints.

Lemma bad_hint_has_some a ns cur ls hints :
  bad_hint_somewhere a ns cur ls hints -> exists t, In (Some t) hints.
Proof.
  induction 1 as [ns cur l ls hints [t [Ht _]]|ns cur l ls hints ns' cur' _ _ [t IH]].
  - exists t. destruct hints as [|h hints]; cbn [hd] in Ht; [discriminate|]. left. exact Ht.
  - exists t. destruct hints as [|h hints]; cbn [tl] in IH; [destruct IH|]. right. exact IH.
Qed.

Lemma fold_step_err a xs : fold_left (insert_step a) xs Err = Err.
Proof. induction xs as [|x xs IH]; cbn [fold_left]; [reflexivity|exact IH]. Qed.

Lemma fold_step_panic a xs : fold_left (insert_step a) xs Panic = Panic.
Proof. induction xs as [|x xs IH]; cbn [fold_left]; [reflexivity|exact IH]. Qed.

Definition ext_dom (d : list nat -> Prop) (pre ls x : list nat) : Prop :=
  d x \/ exists m rest, m <> [] /\ ls = m ++ rest /\ x = pre ++ m.

Lemma insert_fold_spec a : forall ls hints ns cur pre,
  let T := terminal_label a in
  Inv T ns -> walkf (nd ns) pre = Some cur -> Forall (fun l => 1 <= l <= T)%nat ls ->
  (exists r, fold_left (insert_step a) (zip_hints ls hints) (Ok (ns, cur)) = Ok r /\
     Inv T (fst r) /\ walkf (nd (fst r)) (pre ++ ls) = Some (snd r) /\
     forall x, dom (nd (fst r)) x <-> ext_dom (dom (nd ns)) pre ls x) \/
  (fold_left (insert_step a) (zip_hints ls hints) (Ok (ns, cur)) = Panic /\
   bad_hint_somewhere a ns cur ls hints).
Proof.
  intros ls. induction ls as [|l ls IH]; intros hints ns cur pre T HInv Hpre Hls.
  - left. exists (ns, cur). cbn [zip_hints fold_left fst snd]. split; [reflexivity|].
    split; [exact HInv|]. rewrite app_nil_r. split; [exact Hpre|].
    intros x. unfold ext_dom. split; [intros H; left; exact H|].
    intros [H|[m [rest [Hm [He _]]]]]; [exact H|].
    symmetry in He. apply app_eq_nil in He. destruct He; contradiction.
  - inversion Hls as [|? ? Hl Hls']; subst.
    cbn [zip_hints fold_left].
    destruct (insert_step_spec a ns cur pre l (hd None hints) HInv Hpre Hl) as [[[ns1 cur1] [Hs [P1 [P2 P3]]]]|[Hs Hbad]].
    + rewrite Hs. cbn [fst snd] in P1, P2, P3.
      destruct (IH (tl hints) ns1 cur1 (pre ++ [l]) P1 P2 Hls') as [[r [Hf [Q1 [Q2 Q3]]]]|[Hf Hbad]].
      * left. exists r. split; [exact Hf|]. split; [exact Q1|].
        split; [rewrite <- app_assoc in Q2; exact Q2|].
        intros x. rewrite Q3. unfold ext_dom. rewrite P3. split.
        -- intros [[H|H]|[m [rest [Hm [He Hx]]]]].
           ++ left. exact H.
           ++ right. exists [l], ls. split; [discriminate|]. split; [reflexivity|exact H].
           ++ right. exists (l :: m), rest. split; [discriminate|]. split; [cbn; f_equal; exact He|].
              rewrite Hx, <- app_assoc. reflexivity.
        -- intros [H|[m [rest [Hm [He Hx]]]]].
           ++ left. left. exact H.
           ++ destruct m as [|l0 m]; [contradiction|]. cbn in He. inversion He; subst l0.
              destruct m as [|l1 m].
              ** left. right. exact Hx.
              ** right. exists (l1 :: m), rest. split; [discriminate|]. split; [reflexivity|].
                 rewrite Hx, <- app_assoc. reflexivity.
      * right. split; [exact Hf|]. apply (bh_later a ns cur l ls hints ns1 cur1 Hs Hbad).
    + right. rewrite Hs. split; [apply fold_step_panic|]. apply bh_here. exact Hbad.
Qed.

(** * membership is a walk *)

Definition tdom (t : trie) : list nat -> Prop := dom (nd (t_nodes t)).

Lemma member_dom t k :
  member t k = true <-> exists ls, key_to_labels (t_alphabet t) k = Some ls /\ tdom t ls.
Proof.
  unfold member, search, tdom, dom. destruct (key_to_labels (t_alphabet t) k) as [ls|] eqn:Hk.
  - assert (Hnz : Forall (fun l => l <> O) ls).
    { eapply Forall_impl; [|exact (key_to_labels_range _ _ _ Hk)]. cbn. intros l Hl. lia. }
    rewrite (search_fold_walk (t_nodes t) ls Hnz). fold (walkf (nd (t_nodes t)) ls).
    destruct (walkf (nd (t_nodes t)) ls) as [x|] eqn:Hw.
    + split; [|reflexivity]. intros _. exists ls. split; [reflexivity|rewrite Hw; discriminate].
    + split; [discriminate|]. intros [ls' [He H]]. assert (ls = ls') by congruence. subst ls'.
      rewrite Hw in H. contradiction.
  - split; [discriminate|]. intros [ls [He _]]. discriminate.
Qed.

(** * one insertion *)

Lemma insert_alphabet t k hints t' : insert t k hints = Ok t' -> t_alphabet t' = t_alphabet t.
Proof.
  unfold insert. destruct (key_to_labels (t_alphabet t) k) as [ls|]; [|discriminate].
  destruct (fold_left _ _ _) as [r| |]; cbn [obind]; try discriminate.
  intros H; inversion H; subst. reflexivity.
Qed.

Lemma insert_core t k hints ls :
  InvT t -> key_to_labels (t_alphabet t) k = Some ls ->
  (exists t', insert t k hints = Ok t' /\ InvT t' /\ t_alphabet t' = t_alphabet t /\
     forall x, tdom t' x <-> ext_dom (tdom t) [] ls x) \/
  (insert t k hints = Panic /\ bad_hint_somewhere (t_alphabet t) (t_nodes t) O ls hints).
Proof.
  intros HInv Hk. unfold insert. rewrite Hk.
  destruct (insert_fold_spec (t_alphabet t) ls hints (t_nodes t) O [] HInv eq_refl
              (key_to_labels_range _ _ _ Hk)) as [[r [Hf [Q1 [Q2 Q3]]]]|[Hf Hbad]].
  - left. rewrite Hf. cbn [obind]. eexists. split; [reflexivity|].
    split; [exact Q1|]. split; [reflexivity|exact Q3].
  - right. rewrite Hf. split; [reflexivity|exact Hbad].
Qed.

Lemma insert_ok_spec t k hints t' :
  InvT t -> insert t k hints = Ok t' ->
  InvT t' /\ t_alphabet t' = t_alphabet t /\
  forall k', member t' k' = (str_eqb k' k || member t k')%bool.
Proof.
  intros HInv Hins.
  destruct (key_to_labels (t_alphabet t) k) as [ls|] eqn:Hk;
    [|unfold insert in Hins; rewrite Hk in Hins; discriminate].
  destruct (insert_core t k hints ls HInv Hk) as [[t'' [Hi [Q1 [Q2 Q3]]]]|[Hi _]];
    [|rewrite Hi in Hins; discriminate].
  rewrite Hi in Hins. inversion Hins; subst t''. split; [exact Q1|]. split; [exact Q2|].
  intros k'. apply Bool.eq_iff_eq_true. rewrite orb_true_iff, str_eqb_spec, !member_dom, Q2. split.
  - intros [ls' [Hk' Hd]]. apply Q3 in Hd. destruct Hd as [Hd|[m [rest [Hm [He Hx]]]]].
    + right. exists ls'. split; assumption.
    + left. cbn [app] in Hx. subst m. exact (key_labels_prefix _ k k' ls ls' rest Hk Hk' He).
  - intros [->|[ls' [Hk' Hd]]].
    + exists ls. split; [exact Hk|]. apply Q3. right. exists ls, []. rewrite app_nil_r.
      split; [|split; reflexivity].
      destruct (key_to_labels_shape _ _ _ Hk) as [m [-> _]]. intros H. apply app_eq_nil in H. destruct H; discriminate.
    + exists ls'. split; [exact Hk'|]. apply Q3. left. exact Hd.
Qed.

(** * reachable tries *)

Lemma Inv_new a : InvT (from_keys a).
Proof.
  unfold InvT, from_keys. cbn [t_nodes t_alphabet].
  assert (Hnd : forall i, i <> O -> nd new_nodes i = empty_node).
  { intros i Hi. apply nd_beyond. unfold len. cbn. lia. }
  split; [split; [|split; [|split]]|split; [|split]].
  - constructor.
  - intros e. cbn [empties new_nodes In]. split; [tauto|]. intros [H1 H2].
    unfold len in H1. cbn in H1. assert (e = O) by lia. subst e. cbn in H2. lia.
  - intros i Hc. destruct (Nat.eq_dec i 0) as [->|Hi]; [cbn in Hc; lia|]. apply Hnd. exact Hi.
  - intros i. destruct (Nat.eq_dec i 0) as [->|Hi]; [cbn; lia|]. rewrite (Hnd i Hi). cbn. lia.
  - reflexivity.
  - cbn. lia.
  - intros i q Hi Hc. rewrite (Hnd i Hi) in Hc. cbn in Hc. lia.
Qed.

Lemma new_dom a x : tdom (from_keys a) x <-> x = [].
Proof.
  unfold tdom, dom, from_keys. cbn [t_nodes]. split.
  - intros H. destruct x as [|l x]; [reflexivity|]. exfalso. apply H.
    change (l :: x) with ([l] ++ x). apply walkf_app_none. cbn.
    apply childf_none. destruct (Nat.eq_dec l 0) as [Hl|Hl]; [left; exact Hl|].
    right. right. change (Z.to_nat (base (nd new_nodes 0)) + l)%nat with l.
    rewrite nd_beyond by (unfold len; cbn; lia). cbn. lia.
  - intros ->. cbn. discriminate.
Qed.

Lemma reachable_inv a t ks : reachable a t ks -> InvT t /\ t_alphabet t = a.
Proof.
  induction 1 as [|t ks k hints t' _ [IH1 IH2] Hins|t ks k hints _ IH _].
  - split; [apply Inv_new|reflexivity].
  - destruct (insert_ok_spec t k hints t' IH1 Hins) as [H1 [H2 _]]. split; [exact H1|congruence].
  - exact IH.
Qed.

Lemma set_semantics a t ks : reachable a t ks -> forall k, member t k = true <-> In k ks.
Proof.
  induction 1 as [|t ks k hints t' Hr IH Hins|t ks k hints _ IH _]; intros k0.
  - cbn [In]. split; [|tauto]. intros H. apply member_dom in H. destruct H as [ls [Hk Hd]].
    apply new_dom in Hd. subst ls. cbn [from_keys t_alphabet] in Hk.
    destruct (key_to_labels_shape _ _ _ Hk) as [m [H _]]. destruct m; discriminate.
  - destruct (reachable_inv a t ks Hr) as [HInv _].
    destruct (insert_ok_spec t k hints t' HInv Hins) as [_ [_ Hm]].
    rewrite Hm, orb_true_iff, str_eqb_spec, IH. cbn [In]. split; intros [H|H]; auto.
  - apply IH.
Qed.

Lemma insert_spec a t ks k hints t' : reachable a t ks -> insert t k hints = Ok t' ->
  forall k', member t' k' = (str_eqb k' k || member t k')%bool.
Proof.
  intros Hr Hins. destruct (reachable_inv a t ks Hr) as [HInv _].
  exact (proj2 (proj2 (insert_ok_spec t k hints t' HInv Hins))).
Qed.

Lemma reject a t ks k hints : reachable a t ks ->
  (insert t k hints = Err <-> ~ key_in_alphabet a k) /\ (~ key_in_alphabet a k -> member t k = false).
Proof.
  intros Hr. destruct (reachable_inv a t ks Hr) as [HInv Ha]. split.
  - rewrite <- key_to_labels_none_iff, <- Ha.
    destruct (key_to_labels (t_alphabet t) k) as [ls|] eqn:Hk.
    + split; [|discriminate]. intros He.
      destruct (insert_core t k hints ls HInv Hk) as [[t' [Hi _]]|[Hi _]]; rewrite Hi in He; discriminate.
    + split; [reflexivity|]. intros _. unfold insert. rewrite Hk. reflexivity.
  - intros H. apply key_to_labels_none_iff in H. unfold member, search. rewrite Ha, H. reflexivity.
Qed.

Lemma insert_total a t ks k : reachable a t ks -> key_in_alphabet a k -> exists t', insert t k [] = Ok t'.
Proof.
  intros Hr Hk. destruct (reachable_inv a t ks Hr) as [HInv Ha].
  apply key_to_labels_some_iff in Hk. destruct Hk as [ls Hk]. rewrite <- Ha in Hk.
  destruct (insert_core t k [] ls HInv Hk) as [[t' [Hi _]]|[_ Hbad]].
  - exists t'. exact Hi.
  - apply bad_hint_has_some in Hbad. destruct Hbad as [t' []].
Qed.

(** stronger: under arbitrary hints an insertion never fails except by consulting a hint
    that [xcheck] could not have returned *)
Lemma insert_panic_only_bad_hint a t ks k hints : reachable a t ks -> insert t k hints = Panic ->
  exists ls, key_to_labels a k = Some ls /\ bad_hint_somewhere a (t_nodes t) O ls hints.
Proof.
  intros Hr Hp. destruct (reachable_inv a t ks Hr) as [HInv Ha].
  destruct (key_to_labels (t_alphabet t) k) as [ls|] eqn:Hk;
    [|unfold insert in Hp; rewrite Hk in Hp; discriminate].
  destruct (insert_core t k hints ls HInv Hk) as [[t' [Hi _]]|[_ Hbad]]; [rewrite Hi in Hp; discriminate|].
  rewrite Ha in *. exists ls. split; [exact Hk|exact Hbad].
Qed.

Lemma reachable_inv_b a t ks : reachable a t ks -> inv_b t = true.
Proof. intros Hr. apply Inv_inv_b. exact (proj1 (reachable_inv a t ks Hr)). Qed.

(** * the statements of Props/C04.v (the hypothesis [alphabet_ok a] is not needed by any of them) *)

Lemma C04_set_semantics_proof : forall a t ks, alphabet_ok a -> reachable a t ks ->
  forall k, member t k = true <-> In k ks.
Proof. intros a t ks _. exact (set_semantics a t ks). Qed.

Lemma C04_insert_spec_proof : forall a t ks k hints t', alphabet_ok a -> reachable a t ks ->
  insert t k hints = Ok t' -> forall k', member t' k' = (str_eqb k' k || member t k')%bool.
Proof. intros a t ks k hints t' _. exact (insert_spec a t ks k hints t'). Qed.

Lemma C04_reject_proof : forall a t ks k hints, alphabet_ok a -> reachable a t ks ->
  (insert t k hints = Err <-> ~ key_in_alphabet a k) /\ (~ key_in_alphabet a k -> member t k = false).
Proof. intros a t ks k hints _. exact (reject a t ks k hints). Qed.

Lemma C04_insert_total_proof : forall a t ks k, alphabet_ok a -> reachable a t ks -> key_in_alphabet a k ->
  exists t', insert t k [] = Ok t'.
Proof. intros a t ks k _. exact (insert_total a t ks k). Qed.

Lemma C04_inv_proof : forall a t ks, alphabet_ok a -> reachable a t ks -> inv_b t = true.
Proof. intros a t ks _. exact (reachable_inv_b a t ks). Qed.

Lemma C04_panic_only_bad_hint_proof : forall a t ks k hints, alphabet_ok a -> reachable a t ks ->
  insert t k hints = Panic ->
  exists ls, key_to_labels a k = Some ls /\ bad_hint_somewhere a (t_nodes t) O ls hints.
Proof. intros a t ks k hints _. exact (insert_panic_only_bad_hint a t ks k hints). Qed.
