(** [rebase], [move_conflicted], [insert_step] and [insert] on the array, tied to the
    function-level facts. *)
From Chokan Require Import Base.Str Trie.TrieModel Trie.TrieAbs Trie.TrieOps Trie.TrieEdge Trie.TrieRebase.
From Coq Require Import Arith ZifyBool.

(** * rebase *)

Section RebaseLoop.
Variables (a : list N) (f0 : nat -> node) (p nb : nat).
Let T := terminal_label a.
Hypothesis HT : Tree T f0.
Hypothesis HS : Shape f0.
Hypothesis Hpu : (0 <= check (f0 p))%Z.
Hypothesis Hpb : (0 <= base (f0 p))%Z.
Hypothesis Hnew : forall l, In l (flabels T f0 p) -> (check (f0 (nb + l)%nat) < 0)%Z.
Hypothesis Hreach : exists ls, walkf f0 ls = Some p.

Lemma rebase_loop : forall rest done ns,
  flabels T f0 p = done ++ rest -> WF ns -> RB f0 p nb done (nd ns) ->
  exists ns',
    fold_left (fun acc l => obind acc (fun ns2 => rebase_one a p (base (f0 p)) ns2 l)) rest (Ok ns) = Ok ns' /\
    WF ns' /\ RB f0 p nb (flabels T f0 p) (nd ns') /\ (len ns <= len ns')%nat.
Proof.
  induction rest as [|l rest IH]; intros done ns Hsplit HWF HRB.
  - exists ns. cbn [fold_left]. rewrite app_nil_r in Hsplit. rewrite Hsplit.
    split; [reflexivity|]. split; [exact HWF|]. split; [exact HRB|lia].
  - cbn [fold_left obind].
    destruct (step_side T f0 p nb Hpu Hpb Hnew Hreach done rest l (nd ns) Hsplit HRB)
      as [S1 [S2 [S3 [S4 S5]]]].
    pose proof (nd_used_lt ns _ S3) as Hold.
    destruct (rebase_one_spec a ns p (base (f0 p)) l HWF S1 S2 Hpb Hold S4 S5)
      as [ns1 [Hr [Hnd1 [Hl1 HWF1]]]].
    rewrite Hr.
    pose proof (RB_step T f0 p nb HT HS Hpu Hpb Hnew Hreach done rest l (nd ns) (nd ns1) Hsplit HRB Hnd1) as HRB1.
    assert (Hsplit1 : flabels T f0 p = (done ++ [l]) ++ rest).
    { rewrite <- app_assoc. exact Hsplit. }
    destruct (IH (done ++ [l]) ns1 Hsplit1 HWF1 HRB1) as [ns' [Hf [HWF' [HRB' Hl']]]].
    exists ns'. split; [exact Hf|]. split; [exact HWF'|]. split; [exact HRB'|lia].
Qed.

End RebaseLoop.

Lemma rebase_spec a ns p nb :
  let T := terminal_label a in
  WF ns -> Tree T (nd ns) -> (0 <= check (nd ns p))%Z -> (0 <= base (nd ns p))%Z ->
  (forall l, In l (flabels T (nd ns) p) -> (check (nd ns (nb + l)%nat) < 0)%Z) ->
  (exists ls, walkf (nd ns) ls = Some p) ->
  exists ns', rebase ns p nb a = Ok ns' /\ WF ns' /\
    RB (nd ns) p nb (flabels T (nd ns) p) (nd ns') /\ (len ns <= len ns')%nat.
Proof.
  intros T HWF HT Hpu Hpb Hnew Hreach.
  pose proof (nd_used_lt ns p Hpu) as Hlt.
  unfold rebase. rewrite (nth_error_nd ns p Hlt).
  rewrite (find_labels_spec ns p a Hlt). cbn [obind].
  destruct (setbase_spec ns p (Z.of_nat nb) HWF Hpu ltac:(lia)) as [ns1 [Hs [Hnd1 [Hl1 HWF1]]]].
  rewrite Hs. cbn [obind].
  pose proof (RB_init (nd ns) p nb (nd ns1) Hnd1) as HRB.
  destruct (rebase_loop a (nd ns) p nb HT (proj2 (proj2 HWF)) Hpu Hpb Hnew Hreach
              (flabels T (nd ns) p) [] ns1 eq_refl HWF1 HRB) as [ns' [Hf [HWF' [HRB' Hl']]]].
  exists ns'. split; [exact Hf|]. split; [exact HWF'|]. split; [exact HRB'|lia].
Qed.

(** * one step of an insertion *)

Definition step_post (T : nat) (ns : nodes) (pre : list nat) (l : nat) (r : nodes * nat) : Prop :=
  Inv T (fst r) /\ walkf (nd (fst r)) (pre ++ [l]) = Some (snd r) /\
  forall ls, dom (nd (fst r)) ls <-> dom (nd ns) ls \/ ls = pre ++ [l].

(** the hint was not a choice [xcheck] could have made, at the point where it was consulted *)
Definition hint_bad (a : list N) (ns : nodes) (cur l : nat) (hint : option nat) : Prop :=
  exists t, hint = Some t /\
    (((base (nd ns cur) < 0)%Z /\ xcheck_admissible ns [l] t = false) \/
     ((0 <= base (nd ns cur))%Z /\
      xcheck_admissible ns (flabels (terminal_label a) (nd ns) cur ++ [l]) t = false)).

Section Step.
Variables (a : list N).
Let T := terminal_label a.

(** writing the new edge into a free slot *)
Lemma record_edge ns cur pre l :
  Inv T ns -> walkf (nd ns) pre = Some cur -> (0 <= base (nd ns cur))%Z -> (1 <= l <= T)%nat ->
  (check (nd ns (Z.to_nat (base (nd ns cur)) + l)%nat) < 0)%Z ->
  exists r, record_transition_at ns cur l = Ok r /\ step_post T ns pre l r.
Proof.
  intros [HWF HT] Hpre Hb Hl Hfree.
  pose proof (walkf_used T (nd ns) HT pre cur Hpre) as Hu.
  destruct (rta_spec ns cur l HWF Hu Hb) as [ns' [Hr [Hnd' [Hlen [_ HWF']]]]].
  set (s := (Z.to_nat (base (nd ns cur)) + l)%nat) in *.
  exists (ns', s). split; [exact Hr|].
  pose proof (proj2 (proj2 HWF)) as HS.
  split; [split|split]; cbn [fst snd].
  - exact HWF'.
  - exact (add_edge_tree T (nd ns) (nd ns') cur l s HT HS Hu Hb eq_refl Hl Hfree Hnd').
  - exact (add_edge_walk_new T (nd ns) (nd ns') cur l s HS Hu Hb eq_refl Hl Hfree Hnd' pre Hpre).
  - exact (add_edge_dom T (nd ns) (nd ns') cur l s HS Hu Hb eq_refl Hl Hfree Hnd' pre Hpre).
Qed.

(** relocation of the children of the current node *)
Lemma move_spec ns cur pre l hint :
  Inv T ns -> walkf (nd ns) pre = Some cur -> (0 <= base (nd ns cur))%Z -> (1 <= l <= T)%nat ->
  (0 <= check (nd ns (Z.to_nat (base (nd ns cur)) + l)%nat))%Z ->
  check (nd ns (Z.to_nat (base (nd ns cur)) + l)%nat) <> Z.of_nat cur ->
  (exists ns2, move_conflicted ns a cur l hint = Ok ns2 /\ Inv T ns2 /\
     walkf (nd ns2) pre = Some cur /\ (forall ls, dom (nd ns2) ls <-> dom (nd ns) ls) /\
     (0 <= base (nd ns2 cur))%Z /\
     (check (nd ns2 (Z.to_nat (base (nd ns2 cur)) + l)%nat) < 0)%Z) \/
  (move_conflicted ns a cur l hint = Panic /\
   exists t, hint = Some t /\ xcheck_admissible ns (flabels T (nd ns) cur ++ [l]) t = false).
Proof.
  intros [HWF HT] Hpre Hb Hl Hsu Hsn.
  pose proof (walkf_used T (nd ns) HT pre cur Hpre) as Hu.
  pose proof (nd_used_lt ns cur Hu) as Hclt.
  set (slot := (Z.to_nat (base (nd ns cur)) + l)%nat) in *.
  pose proof (nd_used_lt ns slot Hsu) as Hslt.
  unfold move_conflicted. rewrite base_of_nd.
  destruct (Nat.ltb_spec cur (len ns)) as [_|H]; [|lia].
  destruct (Z.ltb_spec (base (nd ns cur)) 0) as [H|_]; [lia|].
  fold slot. rewrite check_of_nd.
  destruct (Nat.ltb_spec slot (len ns)) as [_|H]; [|lia].
  destruct (Z.ltb_spec (check (nd ns slot)) 0) as [H|_]; [lia|].
  destruct (Nat.eqb_spec cur (Z.to_nat (check (nd ns slot)))) as [H|_]; [lia|].
  rewrite (find_labels_spec ns cur a Hclt). cbn [obind].
  assert (Hs0 : slot <> O) by (unfold slot; lia).
  assert (Hq : check (nd ns slot) = Z.of_nat (Z.to_nat (check (nd ns slot)))) by lia.
  destruct (tree_par T (nd ns) HT slot _ Hs0 Hq) as [Hqu _].
  rewrite (find_labels_spec ns _ a (nd_used_lt ns _ Hqu)). cbn [obind].
  fold T.
  set (trs := flabels T (nd ns) cur).
  assert (Hne : trs ++ [l] <> []) by (intros H; apply app_eq_nil in H; destruct H; discriminate).
  destruct (xcheck_cases ns (trs ++ [l]) hint Hne) as [[nb Hx]|[Hx Hbad]].
  - left. rewrite Hx. cbn [obind].
    destruct (xcheck_ok ns _ hint nb HWF Hx) as [_ Hfree].
    assert (Hnew : forall l', In l' trs -> (check (nd ns (nb + l')%nat) < 0)%Z).
    { intros l' Hl'. apply Hfree. apply in_or_app. left. exact Hl'. }
    assert (Hreach : exists ls, walkf (nd ns) ls = Some cur) by (exists pre; exact Hpre).
    destruct (rebase_spec a ns cur nb HWF HT Hu Hb Hnew Hreach) as [ns2 [Hr [HWF2 [HRB _]]]].
    fold T in HRB. fold trs in HRB.
    exists ns2. split; [exact Hr|].
    pose proof (final_tree T (nd ns) cur nb HT Hu Hb Hnew Hreach (nd ns2) HRB) as HT2.
    split; [split; assumption|].
    split; [exact (final_walk_p T (nd ns) cur nb HT Hu Hb Hnew Hreach (nd ns2) HRB pre Hpre)|].
    split; [exact (final_dom T (nd ns) cur nb HT Hu Hb Hnew Hreach (nd ns2) HRB)|].
    rewrite (fin_p T (nd ns) cur nb (nd ns2) HRB). cbn [base]. split; [lia|].
    rewrite Nat2Z.id.
    apply (final_free T (nd ns) cur nb Hu (nd ns2) HRB l).
    + intros Hin. apply In_flabels in Hin. fold slot in Hin. tauto.
    + apply Hfree. apply in_or_app. right. left. reflexivity.
  - right. rewrite Hx. cbn [obind]. split; [reflexivity|exact Hbad].
Qed.

(** the part of [insert_step] after the base of the current node is known *)
Definition step_tail (ns1 : nodes) (cur l : nat) (hint : option nat) (bb : Z) : outcome (nodes * nat) :=
  let slot := (Z.to_nat bb + l)%nat in
  match check_of ns1 slot with
  | Some ck =>
    if is_transition_from ck cur then Ok (ns1, slot)
    else if (0 <=? ck)%Z then
      obind (move_conflicted ns1 a cur l hint) (fun ns2 => record_transition_at ns2 cur l)
    else record_transition_at ns1 cur l
  | None => record_transition_at ns1 cur l
  end.

Lemma step_tail_free ns1 cur l hint bb :
  (check (nd ns1 (Z.to_nat bb + l)%nat) < 0)%Z -> step_tail ns1 cur l hint bb = record_transition_at ns1 cur l.
Proof.
  intros H. unfold step_tail. rewrite check_of_nd.
  destruct (Z.to_nat bb + l <? len ns1)%nat; [|reflexivity].
  unfold is_transition_from. destruct (Z.leb_spec 0 (check (nd ns1 (Z.to_nat bb + l)%nat))) as [H'|_]; [lia|].
  reflexivity.
Qed.

Lemma step_tail_spec ns cur pre l hint :
  Inv T ns -> walkf (nd ns) pre = Some cur -> (0 <= base (nd ns cur))%Z -> (1 <= l <= T)%nat ->
  (exists r, step_tail ns cur l hint (base (nd ns cur)) = Ok r /\ step_post T ns pre l r) \/
  (step_tail ns cur l hint (base (nd ns cur)) = Panic /\
   exists t, hint = Some t /\ xcheck_admissible ns (flabels T (nd ns) cur ++ [l]) t = false).
Proof.
  intros HInv Hpre Hb Hl.
  set (slot := (Z.to_nat (base (nd ns cur)) + l)%nat).
  destruct (Z_lt_ge_dec (check (nd ns slot)) 0) as [Hfree|Hused].
  - left. rewrite step_tail_free by exact Hfree. apply record_edge; assumption.
  - assert (Hslt : (slot < len ns)%nat) by (apply nd_used_lt; lia).
    unfold step_tail. fold slot. rewrite check_of_nd.
    destruct (Nat.ltb_spec slot (len ns)) as [_|H]; [|lia].
    unfold is_transition_from.
    destruct (Z.leb_spec 0 (check (nd ns slot))) as [_|H]; [|lia]. cbn [andb].
    destruct (Z.eqb_spec (check (nd ns slot)) (Z.of_nat cur)) as [He|He].
    + (* the edge exists *)
      left. exists (ns, slot). split; [reflexivity|].
      assert (Hc : childf (nd ns) cur l = Some slot).
      { apply childf_some. repeat split; try lia; try exact He. }
      split; [exact HInv|]. cbn [fst snd]. split.
      * rewrite walkf_snoc, Hpre. exact Hc.
      * intros ls. split; [intros H; left; exact H|].
        intros [H|H]; [exact H|]. subst ls. unfold dom. rewrite walkf_snoc, Hpre. cbn [wstep]. rewrite Hc. discriminate.
    + (* collision *)
      destruct (move_spec ns cur pre l hint HInv Hpre Hb Hl ltac:(fold slot; lia) He)
        as [[ns2 [Hm [HInv2 [Hpre2 [Hdom2 [Hb2 Hfree2]]]]]]|[Hm Hbad]].
      * left. rewrite Hm. cbn [obind].
        destruct (record_edge ns2 cur pre l HInv2 Hpre2 Hb2 Hl Hfree2) as [r [Hr [P1 [P2 P3]]]].
        exists r. split; [exact Hr|]. split; [exact P1|]. split; [exact P2|].
        intros ls. rewrite P3, Hdom2. reflexivity.
      * right. rewrite Hm. cbn [obind]. split; [reflexivity|exact Hbad].
Qed.

Lemma insert_step_unfold ns cur l hint :
  insert_step a (Ok (ns, cur)) (l, hint) =
  match base_of ns cur with
  | None => Err
  | Some b =>
    obind (if (b <? 0)%Z then
             obind (xcheck ns [l] hint) (fun nb =>
             obind (record_transition_base_at ns cur (Z.of_nat nb)) (fun ns1 => Ok (ns1, Z.of_nat nb)))
           else Ok (ns, b)) (fun x => step_tail (fst x) cur l hint (snd x))
  end.
Proof.
  unfold insert_step. cbn [obind]. destruct (base_of ns cur) as [b|]; [|reflexivity].
  match goal with |- obind ?o _ = obind ?o _ => destruct o as [[ns1 bb]| |] end; reflexivity.
Qed.

Lemma insert_step_spec ns cur pre l hint :
  Inv T ns -> walkf (nd ns) pre = Some cur -> (1 <= l <= T)%nat ->
  (exists r, insert_step a (Ok (ns, cur)) (l, hint) = Ok r /\ step_post T ns pre l r) \/
  (insert_step a (Ok (ns, cur)) (l, hint) = Panic /\ hint_bad a ns cur l hint).
Proof.
  intros HInv Hpre Hl. pose proof HInv as [HWF HT].
  pose proof (walkf_used T (nd ns) HT pre cur Hpre) as Hu.
  pose proof (nd_used_lt ns cur Hu) as Hclt.
  rewrite insert_step_unfold, base_of_nd.
  destruct (Nat.ltb_spec cur (len ns)) as [_|H]; [|lia].
  destruct (Z.ltb_spec (base (nd ns cur)) 0) as [Hb|Hb].
  - (* a leaf: choose a base first *)
    destruct (xcheck_cases ns [l] hint ltac:(discriminate)) as [[nb Hx]|[Hx [t [Ht Hbad]]]].
    + rewrite Hx. cbn [obind].
      destruct (xcheck_ok ns _ hint nb HWF Hx) as [_ Hfree].
      specialize (Hfree l (or_introl eq_refl)).
      destruct (setbase_spec ns cur (Z.of_nat nb) HWF Hu ltac:(lia)) as [ns1 [Hs [Hnd1 [Hl1 HWF1]]]].
      rewrite Hs. cbn [obind fst snd].
      pose proof (setbase_leaf_tree T (nd ns) (nd ns1) cur (Z.of_nat nb) HT Hb Hnd1) as HT1.
      pose proof (setbase_leaf_walk T (nd ns) (nd ns1) cur (Z.of_nat nb) HT Hb Hnd1) as Hw1.
      assert (Hb1 : base (nd ns1 cur) = Z.of_nat nb).
      { rewrite Hnd1, upd_same. reflexivity. }
      assert (Hfree1 : (check (nd ns1 (Z.to_nat (Z.of_nat nb) + l)%nat) < 0)%Z).
      { rewrite Nat2Z.id, Hnd1. unfold upd. destruct (Nat.eqb_spec (nb + l) cur) as [He|_]; [|exact Hfree].
        exfalso. rewrite He in Hfree. lia. }
      rewrite step_tail_free by exact Hfree1.
      assert (HInv1 : Inv T ns1) by (split; assumption).
      assert (Hpre1 : walkf (nd ns1) pre = Some cur) by (rewrite Hw1; exact Hpre).
      destruct (record_edge ns1 cur pre l HInv1 Hpre1 ltac:(lia) Hl ltac:(rewrite Hb1; exact Hfree1))
        as [r [Hr [P1 [P2 P3]]]].
      left. exists r. split; [exact Hr|]. split; [exact P1|]. split; [exact P2|].
      intros ls. rewrite P3. unfold dom. rewrite Hw1. reflexivity.
    + right. rewrite Hx. cbn [obind]. split; [reflexivity|].
      exists t. split; [exact Ht|]. left. split; assumption.
  - cbn [obind fst snd].
    destruct (step_tail_spec ns cur pre l hint HInv Hpre Hb Hl) as [H|[Hp [t [Ht Hbad]]]].
    + left. exact H.
    + right. split; [exact Hp|]. exists t. split; [exact Ht|]. right. split; assumption.
Qed.

End Step.
