(** Function-level effect of the two simple updates of an insertion:
    giving a base to a leaf, and adding one edge into a free slot. *)
From Chokan Require Import Base.Str Trie.TrieModel Trie.TrieAbs.
From Coq Require Import Arith ZifyBool.

Definition dom (f : nat -> node) (ls : list nat) : Prop := walkf f ls <> None.

Lemma Tree_ext T f g : (forall i, g i = f i) -> Tree T f -> Tree T g.
Proof.
  intros He [H0 [H1 H2]]. split; [|split].
  - rewrite He. exact H0.
  - rewrite He. exact H1.
  - intros i q Hi Hc. rewrite He in Hc. rewrite !He. apply H2; assumption.
Qed.

(** * giving a base to a node without children *)

Section SetBaseLeaf.
Variables (T : nat) (f g : nat -> node) (c : nat) (b : Z).
Hypothesis HT : Tree T f.
Hypothesis Hleaf : (base (f c) < 0)%Z.
Hypothesis Hb : (0 <= b)%Z.
Hypothesis Hg : forall i, g i = upd f c {| base := b; check := check (f c) |} i.

Lemma sbl_check i : check (g i) = check (f i).
Proof. rewrite Hg. unfold upd. destruct (Nat.eqb_spec i c) as [->|_]; reflexivity. Qed.

Lemma sbl_other i : i <> c -> g i = f i.
Proof. intros H. rewrite Hg. apply upd_other. exact H. Qed.

Lemma sbl_no_child i : i <> O -> check (f i) <> Z.of_nat c.
Proof.
  intros Hi Hc. destruct (tree_par T f HT i c Hi Hc) as [_ [H _]]. lia.
Qed.

Lemma sbl_c_nonroot : c <> O.
Proof. intros ->. pose proof (tree_root_bs T f HT). lia. Qed.

Lemma setbase_leaf_tree : Tree T g.
Proof.
  pose proof sbl_c_nonroot as Hc0.
  split; [|split].
  - rewrite sbl_check. apply (tree_root_ck T f HT).
  - rewrite sbl_other by auto. apply (tree_root_bs T f HT).
  - intros i q Hi Hc. rewrite sbl_check in Hc.
    assert (Hq : q <> c) by (intros ->; exact (sbl_no_child i Hi Hc)).
    rewrite sbl_check, (sbl_other q Hq). apply (tree_par T f HT i q Hi Hc).
Qed.

Lemma setbase_leaf_child x l : childf g x l = childf f x l.
Proof.
  destruct (Nat.eq_dec x c) as [->|Hx].
  - assert (Hf : childf f c l = None) by (apply childf_none; right; left; exact Hleaf).
    rewrite Hf. apply childf_none. destruct (Nat.eq_dec l 0) as [Hl|Hl]; [left; exact Hl|].
    right. right. rewrite sbl_check. apply sbl_no_child. lia.
  - unfold childf. rewrite (sbl_other x Hx), sbl_check. reflexivity.
Qed.

Lemma setbase_leaf_walk ls : walkf g ls = walkf f ls.
Proof. apply walkf_ext. exact setbase_leaf_child. Qed.

End SetBaseLeaf.

(** * adding the edge (p, l) into the free slot s = base p + l *)

Section AddEdge.
Variables (T : nat) (f g : nat -> node) (p l s : nat).
Hypothesis HT : Tree T f.
Hypothesis HS : Shape f.
Hypothesis Hpu : (0 <= check (f p))%Z.
Hypothesis Hpb : (0 <= base (f p))%Z.
Hypothesis Hs : s = (Z.to_nat (base (f p)) + l)%nat.
Hypothesis Hl : (1 <= l <= T)%nat.
Hypothesis Hfree : (check (f s) < 0)%Z.
Hypothesis Hg : forall i, g i = upd f s {| base := base (f s); check := Z.of_nat p |} i.

Lemma ae_s_empty : f s = empty_node.
Proof. apply (proj1 HS). exact Hfree. Qed.

Lemma ae_other i : i <> s -> g i = f i.
Proof. intros H. rewrite Hg. apply upd_other. exact H. Qed.

Lemma ae_s : g s = {| base := -1; check := Z.of_nat p |}.
Proof. rewrite Hg, upd_same, ae_s_empty. reflexivity. Qed.

Lemma ae_base i : base (g i) = base (f i).
Proof. rewrite Hg. unfold upd. destruct (Nat.eqb_spec i s) as [->|_]; reflexivity. Qed.

Lemma ae_p_ne_s : p <> s.
Proof. intros H. rewrite <- H in Hfree. lia. Qed.

Lemma add_edge_tree : Tree T g.
Proof.
  pose proof ae_p_ne_s as Hps.
  split; [|split].
  - rewrite ae_other by lia. apply (tree_root_ck T f HT).
  - rewrite ae_base. apply (tree_root_bs T f HT).
  - intros i q Hi Hc. destruct (Nat.eq_dec i s) as [->|His].
    + rewrite ae_s in Hc. cbn [check] in Hc. assert (q = p) by lia. subst q.
      rewrite (ae_other p Hps). repeat split; lia.
    + rewrite (ae_other i His) in Hc. destruct (tree_par T f HT i q Hi Hc) as [H1 H2].
      assert (Hq : q <> s) by (intros ->; lia).
      rewrite (ae_other q Hq). split; assumption.
Qed.

Lemma add_edge_shape : Shape g.
Proof.
  destruct HS as [H1 H2]. split; intros i.
  - destruct (Nat.eq_dec i s) as [->|His].
    + rewrite ae_s. cbn [check]. lia.
    + rewrite (ae_other i His). apply H1.
  - rewrite ae_base. apply H2.
Qed.

Lemma add_edge_child x l' :
  childf g x l' = if (Nat.eqb x p && Nat.eqb l' l)%bool then Some s else childf f x l'.
Proof.
  pose proof ae_p_ne_s as Hps.
  destruct (Nat.eqb_spec x p) as [->|Hx]; cbn [andb].
  - destruct (Nat.eqb_spec l' l) as [->|Hl'].
    + apply childf_some. rewrite (ae_other p Hps). repeat split; try lia.
      rewrite ae_s. reflexivity.
    + unfold childf. rewrite (ae_other p Hps).
      destruct (Nat.eqb l' 0); [reflexivity|]. destruct (base (f p) <? 0)%Z; [reflexivity|].
      cbv zeta. rewrite ae_other by lia. reflexivity.
  - destruct (Nat.eq_dec x s) as [->|Hxs].
    + transitivity (@None nat).
      * apply childf_none. right. left. rewrite ae_s. cbn. lia.
      * symmetry. apply childf_none. right. left. rewrite ae_s_empty. cbn. lia.
    + unfold childf. rewrite (ae_other x Hxs).
      destruct (Nat.eqb l' 0); [reflexivity|]. destruct (base (f x) <? 0)%Z; [reflexivity|].
      cbv zeta. destruct (Nat.eq_dec (Z.to_nat (base (f x)) + l') s) as [He|He].
      * rewrite He, ae_s. cbn [check].
        destruct (Z.eqb_spec (Z.of_nat p) (Z.of_nat x)) as [H|H]; [lia|].
        destruct (Z.eqb_spec (check (f s)) (Z.of_nat x)) as [H'|H']; [lia|reflexivity].
      * rewrite (ae_other _ He). reflexivity.
Qed.

Lemma ae_s_no_child l' : childf f s l' = None.
Proof. apply childf_none. right. left. rewrite ae_s_empty. cbn. lia. Qed.

Lemma ae_p_no_l : childf f p l = None.
Proof. apply childf_none. right. right. rewrite <- Hs. lia. Qed.

Lemma add_edge_walk_mono ls y : walkf f ls = Some y -> walkf g ls = Some y.
Proof.
  revert y. induction ls as [|l' ls IH] using rev_ind; intros y Hy; [exact Hy|].
  rewrite walkf_snoc in *. destruct (walkf f ls) as [x|]; cbn [wstep] in Hy; [|discriminate].
  rewrite (IH x eq_refl). cbn [wstep]. rewrite add_edge_child.
  destruct (Nat.eqb_spec x p) as [->|Hx]; cbn [andb]; [|exact Hy].
  destruct (Nat.eqb_spec l' l) as [->|Hl']; [|exact Hy].
  rewrite ae_p_no_l in Hy. discriminate.
Qed.

Lemma add_edge_walk_new pre : walkf f pre = Some p -> walkf g (pre ++ [l]) = Some s.
Proof.
  intros H. rewrite walkf_snoc, (add_edge_walk_mono pre p H). cbn [wstep].
  rewrite add_edge_child, !Nat.eqb_refl. reflexivity.
Qed.

Lemma add_edge_walk_inv pre : walkf f pre = Some p ->
  forall ls y, walkf g ls = Some y -> walkf f ls = Some y \/ (ls = pre ++ [l] /\ y = s).
Proof.
  intros Hpre ls. induction ls as [|l' ls IH] using rev_ind; intros y Hy.
  - left. exact Hy.
  - rewrite walkf_snoc in Hy. destruct (walkf g ls) as [x|] eqn:Hw; cbn [wstep] in Hy; [|discriminate].
    destruct (IH x eq_refl) as [Hf|[Hls Hx]].
    + rewrite add_edge_child in Hy.
      destruct (Nat.eqb_spec x p) as [->|Hxp]; cbn [andb] in Hy.
      * destruct (Nat.eqb_spec l' l) as [->|Hl'].
        -- right. inversion Hy; subst y. split; [|reflexivity].
           rewrite (walkf_inj f ls pre p Hf Hpre). reflexivity.
        -- left. rewrite walkf_snoc, Hf. exact Hy.
      * left. rewrite walkf_snoc, Hf. exact Hy.
    + subst x. rewrite add_edge_child in Hy.
      destruct (Nat.eqb_spec s p) as [Hsp|_]; [exfalso; apply ae_p_ne_s; auto|].
      cbn [andb] in Hy. rewrite ae_s_no_child in Hy. discriminate.
Qed.

Lemma add_edge_dom pre : walkf f pre = Some p ->
  forall ls, dom g ls <-> dom f ls \/ ls = pre ++ [l].
Proof.
  intros Hpre ls. unfold dom. split.
  - intros H. destruct (walkf g ls) as [y|] eqn:Hy; [|contradiction].
    destruct (add_edge_walk_inv pre Hpre ls y Hy) as [Hf|[Hls _]].
    + left. rewrite Hf. discriminate.
    + right. exact Hls.
  - intros [H|H].
    + destruct (walkf f ls) as [y|] eqn:Hy; [|contradiction].
      rewrite (add_edge_walk_mono ls y Hy). discriminate.
    + subst ls. rewrite (add_edge_walk_new pre Hpre). discriminate.
Qed.

End AddEdge.
