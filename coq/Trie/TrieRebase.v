(** The relocation ([rebase]) of all children of a node: function-level mirror of
    [rebase_one], the loop relation [RB], and its step. *)
From Chokan Require Import Base.Str Trie.TrieModel Trie.TrieAbs Trie.TrieOps Trie.TrieEdge.
From Coq Require Import Arith ZifyBool.

(** * function-level mirror of the loop body *)

Definition regrand_f (f : nat -> node) (idx : nat) (gls : list nat) : nat -> node :=
  fun i => if existsb (fun gl => Nat.eqb i (Z.to_nat (base (f idx)) + gl)) gls
           then {| base := base (f i); check := Z.of_nat idx |} else f i.

Definition rebase_one_f (T : nat) (pn : nat) (old_base : Z) (f : nat -> node) (l : nat) : nat -> node :=
  let ci := (Z.to_nat (base (f pn)) + l)%nat in
  let f1 := upd f ci {| base := base (f ci); check := Z.of_nat pn |} in
  let old := (Z.to_nat old_base + l)%nat in
  let f3 := if (0 <=? base (f1 old))%Z
            then let f2 := upd f1 ci {| base := base (f1 old); check := check (f1 ci) |} in
                 regrand_f f2 ci (flabels T f2 old)
            else f1 in
  upd f3 old empty_node.

Lemma regrand_f_ext f g idx gls : (forall i, f i = g i) -> forall i, regrand_f f idx gls i = regrand_f g idx gls i.
Proof. intros H i. unfold regrand_f. rewrite !H. reflexivity. Qed.

Lemma upd_ext f g i v : (forall j, f j = g j) -> forall j, upd f i v j = upd g i v j.
Proof. intros H j. unfold upd. destruct (Nat.eqb j i); [reflexivity|apply H]. Qed.

Lemma rebase_one_f_ext T pn ob f g l : (forall i, f i = g i) ->
  forall i, rebase_one_f T pn ob f l i = rebase_one_f T pn ob g l i.
Proof.
  intros H i. unfold rebase_one_f. rewrite !H.
  set (ci := (Z.to_nat (base (g pn)) + l)%nat).
  set (old := (Z.to_nat ob + l)%nat).
  assert (H1 : forall j, upd f ci {| base := base (g ci); check := Z.of_nat pn |} j =
                         upd g ci {| base := base (g ci); check := Z.of_nat pn |} j)
    by (apply upd_ext; exact H).
  rewrite !H1.
  set (f1 := upd f ci {| base := base (g ci); check := Z.of_nat pn |}) in *.
  set (g1 := upd g ci {| base := base (g ci); check := Z.of_nat pn |}) in *.
  apply upd_ext. intros j.
  destruct (0 <=? base (g1 old))%Z; [|apply H1].
  cbv zeta.
  assert (H2 : forall j, upd f1 ci {| base := base (g1 old); check := check (g1 ci) |} j =
                         upd g1 ci {| base := base (g1 old); check := check (g1 ci) |} j)
    by (apply upd_ext; exact H1).
  rewrite (flabels_ext T _ _ old H2). apply regrand_f_ext. exact H2.
Qed.

(** * array-level refinement *)

Lemma regrand_spec idx : forall gls ns,
  WF ns -> (0 <= check (nd ns idx))%Z -> (0 <= base (nd ns idx))%Z ->
  exists ns',
    fold_left (fun acc gl => obind acc (fun ns3 => obind (record_transition_at ns3 idx gl) (fun r => Ok (fst r))))
              gls (Ok ns) = Ok ns' /\
    (forall i, nd ns' i = regrand_f (nd ns) idx gls i) /\ (len ns <= len ns')%nat /\ WF ns'.
Proof.
  induction gls as [|gl gls IH]; intros ns HWF Hck Hbs.
  - exists ns. cbn [fold_left]. split; [reflexivity|]. split; [|split; [lia|exact HWF]].
    intros i. unfold regrand_f. cbn [existsb]. reflexivity.
  - cbn [fold_left obind]. destruct (rta_spec ns idx gl HWF Hck Hbs) as [ns1 [Hr [Hnd1 [Hl1 [_ HWF1]]]]].
    rewrite Hr. cbn [obind fst].
    set (bb := Z.to_nat (base (nd ns idx))) in *.
    assert (Hb1 : forall i, base (nd ns1 i) = base (nd ns i)).
    { intros i. rewrite Hnd1. unfold upd. destruct (Nat.eqb_spec i (bb + gl)) as [->|_]; reflexivity. }
    assert (Hc1 : (0 <= check (nd ns1 idx))%Z).
    { rewrite Hnd1. unfold upd. destruct (Nat.eqb_spec idx (bb + gl)) as [_|_]; cbn [check]; lia. }
    destruct (IH ns1 HWF1 Hc1 ltac:(rewrite Hb1; exact Hbs)) as [ns' [Hf [Hnd' [Hl' HWF']]]].
    exists ns'. split; [exact Hf|]. split; [|split; [lia|exact HWF']].
    intros i. rewrite Hnd'. unfold regrand_f. rewrite !Hb1. cbn [existsb]. fold bb.
    destruct (Nat.eqb_spec i (bb + gl)) as [He|He]; cbn [orb].
    + destruct (existsb _ gls); [reflexivity|].
      rewrite Hnd1, He, upd_same. reflexivity.
    + destruct (existsb _ gls); [reflexivity|].
      rewrite Hnd1. apply upd_other. exact He.
Qed.

Lemma rebase_one_spec a ns pn old_base l :
  WF ns -> (0 <= check (nd ns pn))%Z -> (0 <= base (nd ns pn))%Z -> (0 <= old_base)%Z ->
  (Z.to_nat old_base + l < len ns)%nat -> pn <> (Z.to_nat old_base + l)%nat ->
  (Z.to_nat (base (nd ns pn)) + l)%nat <> (Z.to_nat old_base + l)%nat ->
  exists ns', rebase_one a pn old_base ns l = Ok ns' /\
    (forall i, nd ns' i = rebase_one_f (terminal_label a) pn old_base (nd ns) l i) /\
    (len ns <= len ns')%nat /\ WF ns'.
Proof.
  intros HWF Hck Hbs Hob Hold Hno Hco.
  unfold rebase_one.
  destruct (rta_spec ns pn l HWF Hck Hbs) as [ns1 [Hr [Hnd1 [Hl1 [Hci1 HWF1]]]]].
  rewrite Hr. cbn [obind].
  set (ci := (Z.to_nat (base (nd ns pn)) + l)%nat) in *.
  set (old := (Z.to_nat old_base + l)%nat) in *.
  destruct (Z.ltb_spec old_base 0) as [H|_]; [lia|].
  rewrite (nth_error_nd ns1 old) by lia.
  unfold rebase_one_f. fold ci. fold old.
  set (f1 := upd (nd ns) ci {| base := base (nd ns ci); check := Z.of_nat pn |}) in *.
  rewrite (Hnd1 old).
  assert (Hrel : forall ns4, WF ns4 -> (len ns1 <= len ns4)%nat ->
     forall f3, (forall i, nd ns4 i = f3 i) ->
     exists ns',
       (if Nat.eqb pn old then Panic
        else if (old <? length (arr ns4))%nat
             then Ok {| arr := set_nth (arr ns4) old (fun _ => empty_node); empties := insert_nat old (empties ns4) |}
             else Panic) = Ok ns' /\
       (forall i, nd ns' i = upd f3 old empty_node i) /\ (len ns <= len ns')%nat /\ WF ns').
  { intros ns4 HWF4 Hl4 f3 Hf3.
    destruct (Nat.eqb_spec pn old) as [H|_]; [contradiction|].
    fold (len ns4). destruct (Nat.ltb_spec old (len ns4)) as [Ho4|Ho4]; [|lia].
    destruct (release_spec ns4 old HWF4 Ho4) as [Hnd' [Hlen' HWF']].
    eexists. split; [reflexivity|]. split; [|split; [lia|exact HWF']].
    intros i. rewrite Hnd'. apply upd_ext. exact Hf3. }
  destruct (Z.leb_spec 0 (base (f1 old))) as [Hbo|Hbo].
  - cbv zeta.
    assert (Hc1 : (0 <= check (nd ns1 ci))%Z).
    { rewrite Hnd1. unfold f1. rewrite upd_same. cbn [check]. lia. }
    destruct (setbase_spec ns1 ci (base (f1 old)) HWF1 Hc1 Hbo) as [ns2 [Hs [Hnd2 [Hl2 HWF2]]]].
    rewrite Hs. cbn [obind].
    rewrite (find_labels_spec ns2 old a) by lia. cbn [obind].
    assert (Hnd2' : forall i, nd ns2 i = upd f1 ci {| base := base (f1 old); check := check (f1 ci) |} i).
    { intros i. rewrite Hnd2. rewrite (Hnd1 ci). apply upd_ext. exact Hnd1. }
    set (f2 := upd f1 ci {| base := base (f1 old); check := check (f1 ci) |}) in *.
    assert (Hc2 : (0 <= check (nd ns2 ci))%Z).
    { rewrite Hnd2'. unfold f2. rewrite upd_same. cbn [check]. unfold f1. rewrite upd_same. cbn [check]. lia. }
    assert (Hb2 : (0 <= base (nd ns2 ci))%Z).
    { rewrite Hnd2'. unfold f2. rewrite upd_same. cbn [base]. exact Hbo. }
    destruct (regrand_spec ci (flabels (terminal_label a) (nd ns2) old) ns2 HWF2 Hc2 Hb2)
      as [ns3 [Hf [Hnd3 [Hl3 HWF3]]]].
    rewrite Hf.
    apply (Hrel ns3 HWF3 ltac:(lia)).
    intros i. rewrite Hnd3. rewrite (flabels_ext _ _ _ old Hnd2'). apply regrand_f_ext. exact Hnd2'.
  - apply (Hrel ns1 HWF1 ltac:(lia)). exact Hnd1.
Qed.

(** * the loop relation *)

Section Rebase.
Variables (T : nat) (f0 : nat -> node) (p nb : nat).
Let ob := Z.to_nat (base (f0 p)).
Let trs := flabels T f0 p.

Hypothesis HT : Tree T f0.
Hypothesis HS : Shape f0.
Hypothesis Hpu : (0 <= check (f0 p))%Z.
Hypothesis Hpb : (0 <= base (f0 p))%Z.
Hypothesis Hnew : forall l, In l trs -> (check (f0 (nb + l)%nat) < 0)%Z.
Hypothesis Hreach : exists ls, walkf f0 ls = Some p.

Lemma trs_in l : In l trs <-> (1 <= l <= T)%nat /\ check (f0 (ob + l)%nat) = Z.of_nat p.
Proof. unfold trs. rewrite In_flabels. fold ob. tauto. Qed.

Lemma trs_child l : In l trs -> childf f0 p l = Some (ob + l)%nat.
Proof.
  intros H. apply trs_in in H. apply childf_some. fold ob. repeat split; try lia; try tauto.
Qed.

Lemma trs_nodup : NoDup trs.
Proof. apply NoDup_flabels. Qed.

(** the node is none of its children *)
Lemma Hself l : In l trs -> p <> (ob + l)%nat.
Proof.
  intros H He. destruct Hreach as [ls Hls].
  apply (reach_not_own_child f0 ls p l Hls). rewrite (trs_child l H). f_equal. lia.
Qed.

(** ... nor one of its grandchildren *)
Lemma Hgself l : In l trs -> check (f0 p) <> Z.of_nat (ob + l).
Proof.
  intros H He. destruct Hreach as [ls Hls]. pose proof H as H'. apply trs_in in H'.
  assert (p = O) by (apply (reach_not_own_grandchild T f0 HT ls p (ob + l)%nat Hls He); tauto).
  subst p. rewrite (tree_root_ck T f0 HT) in He. lia.
Qed.

(** slots whose check is p are the old slots *)
Lemma child_is_old i : i <> O -> check (f0 i) = Z.of_nat p -> exists l, In l trs /\ i = (ob + l)%nat.
Proof.
  intros Hi Hc. destruct (tree_par T f0 HT i p Hi Hc) as [_ [_ [H3 H4]]]. fold ob in H3, H4.
  exists (i - ob)%nat. split; [|lia]. apply trs_in. split; [lia|].
  replace (ob + (i - ob))%nat with i by lia. exact Hc.
Qed.

Definition RB (done : list nat) (f : nat -> node) : Prop :=
  f p = {| base := Z.of_nat nb; check := check (f0 p) |} /\
  (forall l, In l done -> f (nb + l)%nat = {| base := base (f0 (ob + l)%nat); check := Z.of_nat p |}) /\
  (forall l, In l done -> f (ob + l)%nat = empty_node) /\
  (forall i l, In l done -> check (f0 i) = Z.of_nat (ob + l) ->
     f i = {| base := base (f0 i); check := Z.of_nat (nb + l) |}) /\
  (forall i, i <> p ->
     (forall l, In l done -> i <> (nb + l)%nat /\ i <> (ob + l)%nat /\ check (f0 i) <> Z.of_nat (ob + l)) ->
     f i = f0 i).

Lemma RB_init f : (forall i, f i = upd f0 p {| base := Z.of_nat nb; check := check (f0 p) |} i) -> RB [] f.
Proof.
  intros Hf. split; [|split; [|split; [|split]]].
  - rewrite Hf. apply upd_same.
  - intros l [].
  - intros l [].
  - intros i l [].
  - intros i Hi _. rewrite Hf. apply upd_other. exact Hi.
Qed.

Lemma classify (done : list nat) i :
  (exists l, In l done /\ (i = (nb + l)%nat \/ i = (ob + l)%nat \/ check (f0 i) = Z.of_nat (ob + l))) \/
  (forall l, In l done -> i <> (nb + l)%nat /\ i <> (ob + l)%nat /\ check (f0 i) <> Z.of_nat (ob + l)).
Proof.
  induction done as [|l done IH].
  - right. intros l [].
  - destruct IH as [[l' [Hin H]]|IH].
    + left. exists l'. split; [right; exact Hin|exact H].
    + destruct (Nat.eq_dec i (nb + l)) as [H1|H1]; [left; exists l; split; [left; reflexivity|auto]|].
      destruct (Nat.eq_dec i (ob + l)) as [H2|H2]; [left; exists l; split; [left; reflexivity|auto]|].
      destruct (Z.eq_dec (check (f0 i)) (Z.of_nat (ob + l))) as [H3|H3];
        [left; exists l; split; [left; reflexivity|auto]|].
      right. intros l' [<-|Hin]; [auto|apply IH; exact Hin].
Qed.

(** ** one step of the loop *)

Section Step.
Variables (done rest : list nat) (l : nat) (f f4 : nat -> node).
Hypothesis Hsplit : trs = done ++ l :: rest.
Hypothesis HRB : RB done f.
Hypothesis Hf4 : forall i, f4 i = rebase_one_f T p (base (f0 p)) f l i.

Let ci := (nb + l)%nat.
Let old := (ob + l)%nat.
Let bo := base (f0 old).

Lemma l_in : In l trs.
Proof. rewrite Hsplit. apply in_or_app. right. left. reflexivity. Qed.

Lemma done_in l' : In l' done -> In l' trs.
Proof. intros H. rewrite Hsplit. apply in_or_app. left. exact H. Qed.

Lemma l_notin l' : In l' done -> l' <> l.
Proof.
  intros H ->. pose proof trs_nodup as Hn. rewrite Hsplit in Hn.
  apply NoDup_remove_2 in Hn. apply Hn. apply in_or_app. left. exact H.
Qed.

Lemma old_ck : check (f0 old) = Z.of_nat p.
Proof. apply trs_in. exact l_in. Qed.

Lemma ci_free : (check (f0 ci) < 0)%Z.
Proof. apply Hnew. exact l_in. Qed.

Lemma old_ne_p : old <> p.
Proof. intros H. apply (Hself l l_in). symmetry. exact H. Qed.

Lemma old_pos : old <> O.
Proof. pose proof l_in as H. apply trs_in in H. unfold old. lia. Qed.

Lemma f_ci : f ci = empty_node.
Proof.
  destruct HRB as [_ [_ [_ [_ HE]]]]. pose proof ci_free as Hc.
  rewrite HE.
  - apply (proj1 HS). exact Hc.
  - intros H. rewrite H in Hc. lia.
  - intros l' Hl'. pose proof (l_notin l' Hl') as Hne.
    pose proof (proj1 (trs_in l') (done_in l' Hl')) as [_ Hc'].
    repeat split.
    + unfold ci. lia.
    + intros H. rewrite H in Hc. lia.
    + lia.
Qed.

Lemma f_old : f old = f0 old.
Proof.
  destruct HRB as [_ [_ [_ [_ HE]]]]. pose proof old_ck as Hc.
  apply HE.
  - exact old_ne_p.
  - intros l' Hl'. pose proof (l_notin l' Hl') as Hne.
    pose proof (Hnew l' (done_in l' Hl')) as Hn.
    pose proof (Hself l' (done_in l' Hl')) as Hs.
    repeat split.
    + intros H. rewrite <- H in Hn. lia.
    + unfold old. lia.
    + lia.
Qed.

Lemma ci_ne_old : ci <> old.
Proof. intros H. pose proof ci_free. pose proof old_ck. rewrite H in *. lia. Qed.

Lemma ci_ne_p : ci <> p.
Proof. intros H. pose proof ci_free as Hc. rewrite H in Hc. lia. Qed.

(** slots of the original array whose check is [old] are untouched so far *)
Lemma gc_untouched i : check (f0 i) = Z.of_nat old -> f i = f0 i /\ i <> ci /\ i <> old /\ i <> p.
Proof.
  intros Hc. pose proof old_ck as Ho. pose proof ci_free as Hcf.
  assert (Hip : i <> p).
  { intros ->. apply (Hgself l l_in). exact Hc. }
  assert (Hio : i <> old).
  { intros ->. apply old_ne_p. lia. }
  assert (Hic : i <> ci).
  { intros ->. lia. }
  split; [|auto].
  destruct HRB as [_ [_ [_ [_ HE]]]]. apply HE; [exact Hip|].
  intros l' Hl'. pose proof (l_notin l' Hl') as Hne.
  pose proof (Hnew l' (done_in l' Hl')) as Hn.
  pose proof (proj1 (trs_in l') (done_in l' Hl')) as [_ Hc'].
  repeat split.
  - intros ->. lia.
  - intros ->. apply old_ne_p. lia.
  - unfold old in Hc. lia.
Qed.

(** conversely: a slot whose check is [old] in the current state had it originally *)
Lemma gc_only i : i <> ci -> check (f i) = Z.of_nat old -> check (f0 i) = Z.of_nat old.
Proof.
  intros Hic Hc. destruct HRB as [HA [HB [HC [HD HE]]]].
  destruct (Nat.eq_dec i p) as [->|Hip].
  - rewrite HA in Hc. exact Hc.
  - destruct (classify done i) as [[l' [Hl' H]]|H].
    + exfalso. pose proof (Hnew l' (done_in l' Hl')) as Hn.
      pose proof (Hself l' (done_in l' Hl')) as Hs. pose proof old_ck as Ho.
      destruct H as [H|[H|H]].
      * subst i. rewrite (HB l' Hl') in Hc. cbn [check] in Hc. apply old_ne_p. lia.
      * subst i. rewrite (HC l' Hl') in Hc. cbn in Hc. lia.
      * rewrite (HD i l' Hl' H) in Hc. cbn [check] in Hc.
        assert (Heq : (nb + l')%nat = old) by lia. rewrite Heq in Hn. lia.
    + rewrite (HE i Hip H) in Hc. exact Hc.
Qed.

Lemma no_gc_when_leaf i : (bo < 0)%Z -> check (f0 i) <> Z.of_nat old.
Proof.
  intros Hb Hc. destruct (Nat.eq_dec i 0) as [->|Hi].
  - rewrite (tree_root_ck T f0 HT) in Hc. pose proof old_pos. lia.
  - destruct (tree_par T f0 HT i old Hi Hc) as [_ [H _]]. fold bo in H. lia.
Qed.

Lemma step_desc i :
  f4 i = if Nat.eqb i old then empty_node
         else if (check (f0 i) =? Z.of_nat old)%Z then {| base := base (f0 i); check := Z.of_nat ci |}
         else if Nat.eqb i ci then {| base := bo; check := Z.of_nat p |}
         else f i.
Proof.
  rewrite Hf4. unfold rebase_one_f.
  destruct HRB as [HA _]. rewrite HA. cbn [base]. rewrite Nat2Z.id. fold ob. fold ci. fold old.
  pose proof ci_ne_old as Hco. pose proof f_old as Hfo. pose proof f_ci as Hfc.
  set (f1 := upd f ci {| base := base (f ci); check := Z.of_nat p |}).
  assert (H1o : f1 old = f0 old).
  { unfold f1. rewrite upd_other by auto. exact Hfo. }
  assert (H1c : f1 ci = {| base := -1; check := Z.of_nat p |}).
  { unfold f1. rewrite upd_same, Hfc. reflexivity. }
  rewrite H1o. fold bo.
  unfold upd at 1. destruct (Nat.eqb_spec i old) as [Hio|Hio]; [reflexivity|].
  destruct (Z.leb_spec 0 bo) as [Hbo|Hbo].
  - cbv zeta. rewrite H1c. cbn [check].
    set (f2 := upd f1 ci {| base := bo; check := Z.of_nat p |}).
    assert (H2c : f2 ci = {| base := bo; check := Z.of_nat p |}) by (unfold f2; apply upd_same).
    assert (H2o : forall j, j <> ci -> f2 j = f j).
    { intros j Hj. unfold f2, f1. rewrite !upd_other by auto. reflexivity. }
    assert (H2old : f2 old = f0 old) by (rewrite H2o by auto; exact Hfo).
    unfold regrand_f. rewrite H2c. cbn [base].
    (* the test is exactly "check (f0 i) = old" *)
    assert (Hex : existsb (fun gl => Nat.eqb i (Z.to_nat bo + gl)) (flabels T f2 old) = (check (f0 i) =? Z.of_nat old)%Z).
    { destruct (Z.eqb_spec (check (f0 i)) (Z.of_nat old)) as [Hc|Hc].
      - apply existsb_exists. destruct (gc_untouched i Hc) as [Hfi [Hic [_ Hip]]].
        assert (Hi0 : i <> O).
        { intros ->. rewrite (tree_root_ck T f0 HT) in Hc. pose proof old_pos. lia. }
        destruct (tree_par T f0 HT i old Hi0 Hc) as [_ [_ [H3 H4]]]. fold bo in H3, H4.
        exists (i - Z.to_nat bo)%nat. split; [|apply Nat.eqb_eq; lia].
        apply In_flabels. rewrite H2old. fold bo. split; [lia|]. split; [exact Hbo|].
        replace (Z.to_nat bo + (i - Z.to_nat bo))%nat with i by lia.
        rewrite (H2o i Hic), Hfi. exact Hc.
      - destruct (existsb _ (flabels T f2 old)) eqn:He; [|reflexivity]. exfalso.
        apply existsb_exists in He. destruct He as [gl [Hgl He]]. apply Nat.eqb_eq in He.
        apply In_flabels in Hgl. rewrite H2old in Hgl. fold bo in Hgl. rewrite <- He in Hgl.
        destruct Hgl as [_ [_ Hgl]].
        destruct (Nat.eq_dec i ci) as [Hic|Hic].
        + rewrite Hic, H2c in Hgl. cbn [check] in Hgl. apply old_ne_p. lia.
        + rewrite (H2o i Hic) in Hgl. apply Hc. apply gc_only; assumption. }
    rewrite Hex. destruct (Z.eqb_spec (check (f0 i)) (Z.of_nat old)) as [Hc|Hc].
    + destruct (gc_untouched i Hc) as [Hfi [Hic _]]. rewrite (H2o i Hic), Hfi. reflexivity.
    + destruct (Nat.eqb_spec i ci) as [Hic|Hic].
      * rewrite Hic. exact H2c.
      * apply H2o. exact Hic.
  - destruct (Z.eqb_spec (check (f0 i)) (Z.of_nat old)) as [Hc|Hc].
    + exfalso. exact (no_gc_when_leaf i Hbo Hc).
    + destruct (Nat.eqb_spec i ci) as [Hic|Hic].
      * rewrite Hic, H1c. f_equal. pose proof (proj2 HS old) as Hb. fold bo in Hb. lia.
      * unfold f1. apply upd_other. exact Hic.
Qed.

Lemma RB_step : RB (done ++ [l]) f4.
Proof.
  pose proof HRB as [HA [HB [HC [HD HE]]]].
  pose proof old_ck as Hock. pose proof ci_free as Hcif. pose proof old_ne_p as Hop.
  pose proof ci_ne_old as Hco. pose proof ci_ne_p as Hcp. pose proof l_in as Hlin.
  split; [|split; [|split; [|split]]].
  - (* A *)
    rewrite step_desc.
    destruct (Nat.eqb_spec p old) as [H|_]; [exfalso; auto|].
    destruct (Z.eqb_spec (check (f0 p)) (Z.of_nat old)) as [H|_]; [exfalso; exact (Hgself l Hlin H)|].
    destruct (Nat.eqb_spec p ci) as [H|_]; [exfalso; auto|]. exact HA.
  - (* B *)
    intros l' Hl'. apply in_app_or in Hl'. destruct Hl' as [Hl'|[<-|[]]].
    + pose proof (l_notin l' Hl') as Hne. pose proof (Hnew l' (done_in l' Hl')) as Hn.
      rewrite step_desc.
      destruct (Nat.eqb_spec (nb + l') old) as [H|_]; [exfalso; rewrite H in Hn; lia|].
      destruct (Z.eqb_spec (check (f0 (nb + l')%nat)) (Z.of_nat old)) as [H|_]; [exfalso; lia|].
      destruct (Nat.eqb_spec (nb + l') ci) as [H|_]; [exfalso; unfold ci in H; lia|].
      apply HB. exact Hl'.
    + fold ci. fold old. rewrite step_desc.
      destruct (Nat.eqb_spec ci old) as [H|_]; [exfalso; auto|].
      destruct (Z.eqb_spec (check (f0 ci)) (Z.of_nat old)) as [H|_]; [exfalso; lia|].
      rewrite Nat.eqb_refl. reflexivity.
  - (* C *)
    intros l' Hl'. apply in_app_or in Hl'. destruct Hl' as [Hl'|[<-|[]]].
    + pose proof (l_notin l' Hl') as Hne.
      pose proof (proj1 (trs_in l') (done_in l' Hl')) as [_ Hc'].
      rewrite step_desc.
      destruct (Nat.eqb_spec (ob + l') old) as [H|_]; [reflexivity|].
      destruct (Z.eqb_spec (check (f0 (ob + l')%nat)) (Z.of_nat old)) as [H|_]; [exfalso; apply Hop; lia|].
      destruct (Nat.eqb_spec (ob + l') ci) as [H|_]; [exfalso; rewrite H in Hc'; lia|].
      apply HC. exact Hl'.
    + fold old. rewrite step_desc, Nat.eqb_refl. reflexivity.
  - (* D *)
    intros i l' Hl' Hc. apply in_app_or in Hl'. destruct Hl' as [Hl'|[<-|[]]].
    + pose proof (l_notin l' Hl') as Hne. pose proof (Hself l' (done_in l' Hl')) as Hs.
      rewrite step_desc.
      destruct (Nat.eqb_spec i old) as [H|_]; [exfalso; rewrite H in Hc; lia|].
      destruct (Z.eqb_spec (check (f0 i)) (Z.of_nat old)) as [H|_]; [exfalso; unfold old in H; lia|].
      destruct (Nat.eqb_spec i ci) as [H|_]; [exfalso; rewrite H in Hc; lia|].
      apply HD; assumption.
    + fold old in Hc. fold ci. rewrite step_desc.
      destruct (Nat.eqb_spec i old) as [H|_]; [exfalso; rewrite H in Hc; apply Hop; lia|].
      destruct (Z.eqb_spec (check (f0 i)) (Z.of_nat old)) as [_|H]; [reflexivity|contradiction].
  - (* E *)
    intros i Hip Hall.
    assert (Hl : i <> ci /\ i <> old /\ check (f0 i) <> Z.of_nat old).
    { apply (Hall l). apply in_or_app. right. left. reflexivity. }
    destruct Hl as [H1 [H2 H3]].
    rewrite step_desc.
    destruct (Nat.eqb_spec i old) as [H|_]; [contradiction|].
    destruct (Z.eqb_spec (check (f0 i)) (Z.of_nat old)) as [H|_]; [contradiction|].
    destruct (Nat.eqb_spec i ci) as [H|_]; [contradiction|].
    apply HE; [exact Hip|]. intros l' Hl'. apply Hall. apply in_or_app. left. exact Hl'.
Qed.

(** side conditions needed to run the step on the array *)
Lemma step_side :
  (0 <= check (f p))%Z /\ (0 <= base (f p))%Z /\ (0 <= check (f old))%Z /\
  p <> old /\ (Z.to_nat (base (f p)) + l)%nat <> old.
Proof.
  destruct HRB as [HA _]. rewrite HA. cbn [base check]. rewrite Nat2Z.id. fold ci.
  rewrite f_old, old_ck. pose proof old_ne_p. pose proof ci_ne_old. repeat split; try lia; auto.
Qed.

End Step.

(** ** consequences of the completed loop *)

Section Final.
Variable f' : nat -> node.
Hypothesis HRB : RB trs f'.

Definition sigma (x : nat) : nat :=
  if Nat.eqb x 0 then O
  else if (check (f0 x) =? Z.of_nat p)%Z then (x - ob + nb)%nat else x.

Lemma fin_p : f' p = {| base := Z.of_nat nb; check := check (f0 p) |}.
Proof. exact (proj1 HRB). Qed.

Lemma fin_new l : In l trs -> f' (nb + l)%nat = {| base := base (f0 (ob + l)%nat); check := Z.of_nat p |}.
Proof. exact (proj1 (proj2 HRB) l). Qed.

Lemma fin_old l : In l trs -> f' (ob + l)%nat = empty_node.
Proof. exact (proj1 (proj2 (proj2 HRB)) l). Qed.

Lemma fin_gc i l : In l trs -> check (f0 i) = Z.of_nat (ob + l) ->
  f' i = {| base := base (f0 i); check := Z.of_nat (nb + l) |}.
Proof. exact (proj1 (proj2 (proj2 (proj2 HRB))) i l). Qed.

Lemma fin_else i : i <> p ->
  (forall l, In l trs -> i <> (nb + l)%nat /\ i <> (ob + l)%nat /\ check (f0 i) <> Z.of_nat (ob + l)) ->
  f' i = f0 i.
Proof. exact (proj2 (proj2 (proj2 (proj2 HRB))) i). Qed.

Lemma p_not_own_parent : p <> O -> check (f0 p) <> Z.of_nat p.
Proof.
  intros Hp Hc. destruct (child_is_old p Hp Hc) as [l [Hl He]]. exact (Hself l Hl He).
Qed.

(** complete description of the checks of the result *)
Lemma ck_final g y : check (f' g) = Z.of_nat y ->
  (g = p /\ check (f0 p) = Z.of_nat y) \/
  (exists l, In l trs /\ g = (nb + l)%nat /\ y = p) \/
  (exists l, In l trs /\ check (f0 g) = Z.of_nat (ob + l) /\ y = (nb + l)%nat) \/
  (g <> p /\ f' g = f0 g /\ check (f0 g) = Z.of_nat y /\
   forall l, In l trs -> g <> (nb + l)%nat /\ g <> (ob + l)%nat /\ check (f0 g) <> Z.of_nat (ob + l)).
Proof.
  intros Hc. destruct (Nat.eq_dec g p) as [->|Hgp].
  - left. rewrite fin_p in Hc. cbn [check] in Hc. auto.
  - destruct (classify trs g) as [[l [Hl H]]|H].
    + destruct H as [H|[H|H]].
      * right. left. exists l. subst g. rewrite (fin_new l Hl) in Hc. cbn [check] in Hc.
        repeat split; [exact Hl|lia].
      * exfalso. subst g. rewrite (fin_old l Hl) in Hc. cbn in Hc. lia.
      * right. right. left. exists l. rewrite (fin_gc g l Hl H) in Hc. cbn [check] in Hc.
        repeat split; [exact Hl|exact H|lia].
    + right. right. right. pose proof (fin_else g Hgp H) as He. rewrite He in Hc. auto.
Qed.

(** used slots other than p and its children keep their base and stay used *)
Lemma fin_keep q : (0 <= check (f0 q))%Z -> q <> p -> (forall l, In l trs -> q <> (ob + l)%nat) ->
  (0 <= check (f' q))%Z /\ base (f' q) = base (f0 q).
Proof.
  intros Hu Hqp Hno. destruct (classify trs q) as [[l [Hl H]]|H].
  - destruct H as [H|[H|H]].
    + exfalso. subst q. pose proof (Hnew l Hl). lia.
    + exfalso. exact (Hno l Hl H).
    + rewrite (fin_gc q l Hl H). cbn [check base]. split; [lia|reflexivity].
  - rewrite (fin_else q Hqp H). split; [exact Hu|reflexivity].
Qed.

Lemma final_tree : Tree T f'.
Proof.
  split; [|split].
  - destruct (Nat.eq_dec p 0) as [Hp|Hp].
    + rewrite <- Hp at 1. rewrite fin_p. cbn [check]. rewrite Hp. apply (tree_root_ck T f0 HT).
    + rewrite fin_else; [apply (tree_root_ck T f0 HT)|auto|].
      intros l Hl. apply trs_in in Hl. rewrite (tree_root_ck T f0 HT). repeat split; lia.
  - destruct (Nat.eq_dec p 0) as [Hp|Hp].
    + rewrite <- Hp. rewrite fin_p. cbn [base]. lia.
    + rewrite fin_else; [apply (tree_root_bs T f0 HT)|auto|].
      intros l Hl. apply trs_in in Hl. rewrite (tree_root_ck T f0 HT). repeat split; lia.
  - intros i q Hi Hc. destruct (ck_final i q Hc) as [[-> Hq]|[[l [Hl [-> ->]]]|[[l [Hl [Hgc ->]]]|[Hip [He [Hq Hno]]]]]].
    + (* i = p *)
      destruct (tree_par T f0 HT p q Hi Hq) as [H1 [H2 [H3 H4]]].
      assert (Hqp : q <> p) by (intros ->; exact (p_not_own_parent Hi Hq)).
      assert (Hqo : forall l, In l trs -> q <> (ob + l)%nat).
      { intros l Hl ->. exact (Hgself l Hl Hq). }
      destruct (fin_keep q H1 Hqp Hqo) as [K1 K2]. rewrite K2. repeat split; assumption.
    + (* a new slot *)
      rewrite fin_p. cbn [check base]. pose proof (proj1 (trs_in l) Hl) as [Hr _].
      repeat split; lia.
    + (* a re-pointed grandchild *)
      rewrite (fin_new l Hl). cbn [check base].
      destruct (tree_par T f0 HT i (ob + l)%nat Hi Hgc) as [_ [H2 [H3 H4]]].
      repeat split; try lia; assumption.
    + (* untouched *)
      destruct (tree_par T f0 HT i q Hi Hq) as [H1 [H2 [H3 H4]]].
      assert (Hqp : q <> p).
      { intros ->. destruct (child_is_old i Hi Hq) as [l [Hl Hil]]. exact (proj1 (proj2 (Hno l Hl)) Hil). }
      assert (Hqo : forall l, In l trs -> q <> (ob + l)%nat).
      { intros l Hl ->. exact (proj2 (proj2 (Hno l Hl)) Hq). }
      destruct (fin_keep q H1 Hqp Hqo) as [K1 K2]. rewrite K2. repeat split; assumption.
Qed.

Lemma sigma_root : sigma O = O.
Proof. reflexivity. Qed.

Lemma sigma_p : sigma p = p.
Proof.
  unfold sigma. destruct (Nat.eqb_spec p 0) as [Hp|Hp]; [auto|].
  destruct (Z.eqb_spec (check (f0 p)) (Z.of_nat p)) as [H|_]; [|reflexivity].
  exfalso. exact (p_not_own_parent Hp H).
Qed.

Lemma sigma_old l : In l trs -> sigma (ob + l) = (nb + l)%nat.
Proof.
  intros Hl. pose proof (proj1 (trs_in l) Hl) as [Hr Hc]. unfold sigma.
  destruct (Nat.eqb_spec (ob + l) 0) as [H|_]; [lia|].
  destruct (Z.eqb_spec (check (f0 (ob + l)%nat)) (Z.of_nat p)) as [_|H]; [lia|contradiction].
Qed.

Lemma sigma_id x : (x = O \/ check (f0 x) <> Z.of_nat p) -> sigma x = x.
Proof.
  intros H. unfold sigma. destruct (Nat.eqb_spec x 0) as [Hx|Hx]; [auto|].
  destruct (Z.eqb_spec (check (f0 x)) (Z.of_nat p)) as [Hc|_]; [|reflexivity].
  destruct H as [H|H]; contradiction.
Qed.

(** the renaming law on children *)
Lemma sigma_child x l : (0 <= check (f0 x))%Z ->
  childf f' (sigma x) l = option_map sigma (childf f0 x l).
Proof.
  intros Hxu. destruct (Nat.eq_dec l 0) as [->|Hlz]; [reflexivity|].
  destruct (Nat.eq_dec x p) as [->|Hxp].
  - (* the node itself *)
    rewrite sigma_p. destruct (in_dec Nat.eq_dec l trs) as [Hl|Hl].
    + rewrite (trs_child l Hl). cbn [option_map]. rewrite (sigma_old l Hl).
      apply childf_some. rewrite fin_p. cbn [base]. rewrite Nat2Z.id. repeat split; try lia.
      rewrite (fin_new l Hl). reflexivity.
    + assert (Hn : childf f0 p l = None).
      { destruct (childf f0 p l) as [s|] eqn:Hs; [|reflexivity]. exfalso. apply Hl.
        pose proof (childf_label_range T f0 HT _ _ _ Hs) as Hr. apply childf_some in Hs.
        apply trs_in. fold ob in Hs. destruct Hs as [_ [_ [-> Hc]]]. split; assumption. }
      rewrite Hn. cbn [option_map]. apply childf_none. right. right.
      rewrite fin_p. cbn [base]. rewrite Nat2Z.id. intros Hc.
      destruct (ck_final _ _ Hc) as [[Hg Hq]|[[l' [Hl' [Hg _]]]|[[l' [Hl' [Hgc Hy]]]|[Hip [He [Hq Hno]]]]]].
      * assert (Hp0 : p <> O) by lia. exact (p_not_own_parent Hp0 Hq).
      * assert (l = l') by lia. subst l'. contradiction.
      * pose proof (Hnew l' Hl'). rewrite <- Hy in *. lia.
      * assert (Hg0 : (nb + l)%nat <> O) by lia.
        destruct (child_is_old _ Hg0 Hq) as [l' [Hl' Hgl]]. exact (proj1 (proj2 (Hno l' Hl')) Hgl).
  - destruct (Nat.eq_dec x 0) as [Hx0|Hx0];
      [|destruct (Z.eq_dec (check (f0 x)) (Z.of_nat p)) as [Hxc|Hxc]].
    + (* the root (not p) *)
      subst x. rewrite sigma_root.
      assert (Hno : forall l', In l' trs -> O <> (ob + l')%nat).
      { intros l' Hl'. apply trs_in in Hl'. lia. }
      destruct (fin_keep O Hxu Hxp Hno) as [K1 K2].
      destruct (childf f0 O l) as [g|] eqn:Hg.
      * cbn [option_map]. pose proof (childf_nonzero _ _ _ _ Hg) as Hg0.
        apply childf_some in Hg. destruct Hg as [_ [Hb [Hgs Hgc]]].
        assert (Hsg : sigma g = g).
        { apply sigma_id. right. rewrite Hgc. lia. }
        rewrite Hsg. apply childf_some. rewrite K2. repeat split; try assumption.
        destruct (Nat.eq_dec g p) as [->|Hgp]; [rewrite fin_p; exact Hgc|].
        rewrite fin_else; [exact Hgc|exact Hgp|].
        intros l' Hl'. pose proof (Hnew l' Hl') as Hn. pose proof (proj1 (trs_in l') Hl') as [Hr' Hc'].
        repeat split.
        -- intros ->. lia.
        -- intros ->. lia.
        -- rewrite Hgc. lia.
      * cbn [option_map]. apply childf_none. apply childf_none in Hg.
        destruct Hg as [Hg|[Hg|Hg]]; [contradiction|right; left; rewrite K2; exact Hg|].
        right. right. rewrite K2. intros Hc.
        destruct (ck_final _ _ Hc) as [[Hgp Hq]|[[l' [Hl' [_ Hy]]]|[[l' [Hl' [Hgc Hy]]]|[Hip [He [Hq _]]]]]].
        -- rewrite Hgp in Hg. contradiction.
        -- lia.
        -- pose proof (proj1 (trs_in l') Hl'). lia.
        -- contradiction.
    + (* a moved child *)
      destruct (child_is_old x Hx0 Hxc) as [l0 [Hl0 ->]]. rewrite (sigma_old l0 Hl0).
      set (x := (ob + l0)%nat) in *.
      destruct (childf f0 x l) as [g|] eqn:Hg.
      * cbn [option_map]. pose proof (childf_nonzero _ _ _ _ Hg) as Hg0.
        apply childf_some in Hg. destruct Hg as [_ [Hb [Hgs Hgc]]].
        assert (Hsg : sigma g = g).
        { apply sigma_id. right. rewrite Hgc. lia. }
        rewrite Hsg. apply childf_some. rewrite (fin_new l0 Hl0). cbn [base]. fold x.
        repeat split; try assumption.
        rewrite (fin_gc g l0 Hl0 Hgc). reflexivity.
      * cbn [option_map]. apply childf_none. apply childf_none in Hg. rewrite (fin_new l0 Hl0). cbn [base]. fold x.
        destruct Hg as [Hg|[Hg|Hg]]; [contradiction|right; left; exact Hg|].
        right. right. intros Hc. pose proof (Hnew l0 Hl0) as Hn0.
        destruct (ck_final _ _ Hc) as [[Hgp Hq]|[[l' [Hl' [_ Hy]]]|[[l' [Hl' [Hgc Hy]]]|[Hip [He [Hq _]]]]]].
        -- destruct (Nat.eq_dec p 0) as [Hp0|Hp0].
           ++ rewrite Hp0, (tree_root_ck T f0 HT) in Hq. pose proof (proj1 (trs_in l0) Hl0). lia.
           ++ destruct (tree_par T f0 HT p _ Hp0 Hq) as [H1 _]. lia.
        -- rewrite Hy in Hn0. lia.
        -- assert (l' = l0) by lia. subst l'. fold x in Hgc. contradiction.
        -- set (g := (Z.to_nat (base (f0 x)) + l)%nat) in *.
           assert (Hg0 : g <> O) by (unfold g; lia).
           destruct (tree_par T f0 HT g _ Hg0 Hq) as [H1 _]. lia.
    + (* any other used slot *)
      assert (Hsx : sigma x = x) by (apply sigma_id; right; exact Hxc).
      rewrite Hsx.
      assert (Hno : forall l', In l' trs -> x <> (ob + l')%nat).
      { intros l' Hl' ->. apply trs_in in Hl'. tauto. }
      destruct (fin_keep x Hxu Hxp Hno) as [K1 K2].
      destruct (childf f0 x l) as [g|] eqn:Hg.
      * cbn [option_map]. pose proof (childf_nonzero _ _ _ _ Hg) as Hg0.
        apply childf_some in Hg. destruct Hg as [_ [Hb [Hgs Hgc]]].
        assert (Hsg : sigma g = g).
        { apply sigma_id. right. rewrite Hgc. lia. }
        rewrite Hsg. apply childf_some. rewrite K2. repeat split; try assumption.
        destruct (Nat.eq_dec g p) as [->|Hgp]; [rewrite fin_p; exact Hgc|].
        rewrite fin_else; [exact Hgc|exact Hgp|].
        intros l' Hl'. pose proof (Hnew l' Hl') as Hn. pose proof (proj1 (trs_in l') Hl') as [Hr' Hc'].
        repeat split.
        -- intros ->. lia.
        -- intros ->. lia.
        -- rewrite Hgc. intros H. apply (Hno l' Hl'). lia.
      * cbn [option_map]. apply childf_none. apply childf_none in Hg.
        destruct Hg as [Hg|[Hg|Hg]]; [contradiction|right; left; rewrite K2; exact Hg|].
        right. right. rewrite K2. intros Hc.
        destruct (ck_final _ _ Hc) as [[Hgp Hq]|[[l' [Hl' [_ Hy]]]|[[l' [Hl' [Hgc Hy]]]|[Hip [He [Hq _]]]]]].
        -- rewrite Hgp in Hg. contradiction.
        -- contradiction.
        -- pose proof (Hnew l' Hl'). rewrite <- Hy in *. lia.
        -- contradiction.
Qed.

Lemma sigma_walk ls : walkf f' ls = option_map sigma (walkf f0 ls).
Proof.
  induction ls as [|l ls IH] using rev_ind; [reflexivity|].
  rewrite !walkf_snoc, IH. destruct (walkf f0 ls) as [x|] eqn:Hw; cbn [option_map wstep]; [|reflexivity].
  apply sigma_child. exact (walkf_used T f0 HT ls x Hw).
Qed.

Lemma final_walk_p pre : walkf f0 pre = Some p -> walkf f' pre = Some p.
Proof. intros H. rewrite sigma_walk, H. cbn [option_map]. rewrite sigma_p. reflexivity. Qed.

Lemma final_dom ls : dom f' ls <-> dom f0 ls.
Proof. unfold dom. rewrite sigma_walk. destruct (walkf f0 ls); cbn [option_map]; split; congruence. Qed.

(** a free slot nb + l (l not a moved label) is still free *)
Lemma final_free l : ~ In l trs -> (check (f0 (nb + l)%nat) < 0)%Z -> (check (f' (nb + l)%nat) < 0)%Z.
Proof.
  intros Hl Hc. destruct (Z_lt_ge_dec (check (f' (nb + l)%nat)) 0) as [H|H]; [exact H|exfalso].
  assert (Hy : check (f' (nb + l)%nat) = Z.of_nat (Z.to_nat (check (f' (nb + l)%nat)))) by lia.
  destruct (ck_final _ _ Hy) as [[Hgp Hq]|[[l' [Hl' [Hg _]]]|[[l' [Hl' [Hgc _]]]|[_ [_ [Hq _]]]]]].
  - rewrite Hgp in Hc. lia.
  - assert (l = l') by lia. subst l'. contradiction.
  - lia.
  - lia.
Qed.

End Final.

End Rebase.
