(** Executable model of libs/trie (lib.rs, nodes.rs, types.rs): a double-array trie.

    One Gallina function per Rust function, same control structure.  Every
    [expect] / [assert!] / slice index of the Rust code is an explicit [Panic].
    The free-slot set ([HashSet<Empty>]) is a duplicate-free list kept separately
    from the array, as in the code.  The base chosen by [xcheck] (which iterates a
    randomly seeded hash set) is an explicit argument: [xcheck_admissible] says
    which choices the code can make, the theorems quantify over all of them. *)
From Chokan Require Import Base.Str.
From Coq Require Import Arith.

Record node := { base : Z; check : Z }.
Definition root_node : node := {| base := 0; check := 0 |}.
Definition empty_node : node := {| base := -1; check := -1 |}.

Record nodes := { arr : list node; empties : list nat }.
Definition new_nodes : nodes := {| arr := [root_node]; empties := [] |}.

(** a trie: the arrays plus the alphabet; the label of the i-th alphabet character is i+1,
    the terminal label is (length alphabet)+1 *)
Record trie := { t_nodes : nodes; t_alphabet : list N }.

Definition from_keys (alphabet : list N) : trie := {| t_nodes := new_nodes; t_alphabet := alphabet |}.

Fixpoint index_of (c : N) (l : list N) : option nat :=
  match l with
  | [] => None
  | x :: l' => if N.eqb c x then Some O else option_map S (index_of c l')
  end.

Definition terminal_label (alphabet : list N) : nat := S (length alphabet).

(** Labels::key_to_labels: Err when a character is outside the alphabet *)
Fixpoint key_to_labels (alphabet : list N) (key : str) : option (list nat) :=
  match key with
  | [] => Some [terminal_label alphabet]
  | c :: key' =>
    match index_of c alphabet, key_to_labels alphabet key' with
    | Some i, Some ls => Some (S i :: ls)
    | _, _ => None
    end
  end.

Definition label_set (alphabet : list N) : list nat := seq 1 (S (length alphabet)).

(** * Array primitives *)

Definition check_of (ns : nodes) (i : nat) : option Z := option_map check (nth_error (arr ns) i).
Definition base_of (ns : nodes) (i : nat) : option Z := option_map base (nth_error (arr ns) i).

Fixpoint set_nth {A} (l : list A) (i : nat) (f : A -> A) : list A :=
  match l, i with
  | [], _ => []
  | x :: l', O => f x :: l'
  | x :: l', S i' => x :: set_nth l' i' f
  end.

Definition mem_nat (x : nat) (l : list nat) : bool := existsb (Nat.eqb x) l.
Definition remove_nat (x : nat) (l : list nat) : list nat := filter (fun y => negb (Nat.eqb x y)) l.
Definition insert_nat (x : nat) (l : list nat) : list nat := if mem_nat x l then l else x :: l.

(** empties::expand_empties *)
Definition expand (ns : nodes) (size : nat) : nodes :=
  {| arr := arr ns ++ repeat empty_node size;
     empties := fold_left (fun e i => insert_nat i e) (seq (length (arr ns)) size) (empties ns) |}.

(** check.is_transition_from(idx) *)
Definition is_transition_from (ck : Z) (idx : nat) : bool := (0 <=? ck)%Z && (ck =? Z.of_nat idx)%Z.

(** Nodes::record_transition_at: returns the slot written *)
Definition record_transition_at (ns : nodes) (idx : nat) (label : nat) : outcome (nodes * nat) :=
  match nth_error (arr ns) idx with
  | None => Panic
  | Some n =>
    if (base n <? 0)%Z then Panic
    else
      let ci := (Z.to_nat (base n) + label)%nat in
      let len := length (arr ns) in
      let ns1 := if (len <=? ci)%nat then expand ns (ci - len + 1) else ns in
      Ok ({| arr := set_nth (arr ns1) ci (fun m => {| base := base m; check := Z.of_nat idx |});
             empties := remove_nat ci (empties ns1) |}, ci)
  end.

(** Nodes::record_transition_base_at *)
Definition record_transition_base_at (ns : nodes) (idx : nat) (b : Z) : outcome nodes :=
  if (b <? 0)%Z then Panic
  else if (idx <? length (arr ns))%nat then
    Ok {| arr := set_nth (arr ns) idx (fun m => {| base := b; check := check m |}); empties := empties ns |}
  else Panic.

(** Nodes::find_labels_of (in ascending label order; the code iterates a HashMap) *)
Definition find_labels_of (ns : nodes) (idx : nat) (alphabet : list N) : outcome (list nat) :=
  match nth_error (arr ns) idx with
  | None => Panic
  | Some n =>
    if (base n <? 0)%Z then Ok []
    else Ok (filter (fun l =>
                       match check_of ns (Z.to_nat (base n) + l) with
                       | Some ck => is_transition_from ck idx
                       | None => false
                       end) (label_set alphabet))
  end.

(** * xcheck *)

Definition min_label (ls : list nat) : nat := fold_right Nat.min (hd O ls) ls.

(** every slot [t + l] is in the free set *)
Definition valid_base (ns : nodes) (ls : list nat) (t : nat) : bool :=
  forallb (fun l => mem_nat (t + l) (empties ns)) ls.

(** is there a free slot e whose implied base e - min works? *)
Definition some_valid_base (ns : nodes) (ls : list nat) : bool :=
  let m := min_label ls in
  existsb (fun e => (m <=? e)%nat && valid_base ns ls (e - m)) (empties ns).

(** the choices [Nodes::xcheck] can return: any base all of whose slots are free,
    or the array length when no such base exists *)
Definition xcheck_admissible (ns : nodes) (ls : list nat) (t : nat) : bool :=
  match ls with
  | [] => false
  | _ => valid_base ns ls t || (negb (some_valid_base ns ls) && Nat.eqb t (length (arr ns)))
  end.

(** canonical choice (first free slot in list order that works, else the length) *)
Definition xcheck_canonical (ns : nodes) (ls : list nat) : nat :=
  let m := min_label ls in
  match find (fun e => (m <=? e)%nat && valid_base ns ls (e - m)) (empties ns) with
  | Some e => (e - m)%nat
  | None => length (arr ns)
  end.

(** [xcheck] with an optional hint (the choice the implementation made) *)
Definition xcheck (ns : nodes) (ls : list nat) (hint : option nat) : outcome nat :=
  match ls with
  | [] => Panic
  | _ =>
    match hint with
    | Some t => if xcheck_admissible ns ls t then Ok t else Panic
    | None => Ok (xcheck_canonical ns ls)
    end
  end.

(** * rebase *)

(** one moved child: claim the new slot, copy the base, re-point the grandchildren, release the old slot *)
Definition rebase_one (alphabet : list N) (node : nat) (old_base : Z) (ns : nodes) (l : nat) : outcome nodes :=
  obind (record_transition_at ns node l) (fun '(ns1, idx) =>
  let old_idx := (Z.to_nat old_base + l)%nat in
  if (old_base <? 0)%Z then Panic else
  match nth_error (arr ns1) old_idx with
  | None => Panic
  | Some on =>
    obind (if (0 <=? base on)%Z then
             obind (record_transition_base_at ns1 idx (base on)) (fun ns2 =>
             obind (find_labels_of ns2 old_idx alphabet) (fun gls =>
             fold_left (fun acc gl => obind acc (fun ns3 => obind (record_transition_at ns3 idx gl) (fun r => Ok (fst r)))) gls (Ok ns2)))
           else Ok ns1) (fun ns4 =>
    if Nat.eqb node old_idx then Panic
    else if (old_idx <? length (arr ns4))%nat then
      Ok {| arr := set_nth (arr ns4) old_idx (fun _ => empty_node); empties := insert_nat old_idx (empties ns4) |}
    else Panic)
  end).

Definition rebase (ns : nodes) (node : nat) (new_base : nat) (alphabet : list N) : outcome nodes :=
  match nth_error (arr ns) node with
  | None => Panic
  | Some n =>
    let old_base := base n in
    obind (find_labels_of ns node alphabet) (fun transitions =>
    obind (record_transition_base_at ns node (Z.of_nat new_base)) (fun ns1 =>
    fold_left (fun acc l => obind acc (fun ns2 => rebase_one alphabet node old_base ns2 l)) transitions (Ok ns1)))
  end.

(** Trie::move_conflicted *)
Definition move_conflicted (ns : nodes) (alphabet : list N) (node : nat) (label : nat) (hint : option nat) : outcome nodes :=
  match base_of ns node with
  | None => Panic
  | Some b =>
    if (b <? 0)%Z then Panic else
    match check_of ns (Z.to_nat b + label) with
    | None => Panic
    | Some ck =>
      if (ck <? 0)%Z then Panic
      else if Nat.eqb node (Z.to_nat ck) then Panic
      else
        obind (find_labels_of ns node alphabet) (fun cur =>
        obind (find_labels_of ns (Z.to_nat ck) alphabet) (fun _ =>
        obind (xcheck ns (cur ++ [label]) hint) (fun nb =>
        rebase ns node nb alphabet)))
    end
  end.

(** * insert / search *)

Definition insert_step (alphabet : list N) (st : outcome (nodes * nat)) (lh : nat * option nat) : outcome (nodes * nat) :=
  obind st (fun '(ns, current) =>
  let '(label, hint) := lh in
  match base_of ns current with
  | None => Err
  | Some b =>
    obind (if (b <? 0)%Z then
             obind (xcheck ns [label] hint) (fun nb =>
             obind (record_transition_base_at ns current (Z.of_nat nb)) (fun ns1 => Ok (ns1, Z.of_nat nb)))
           else Ok (ns, b)) (fun '(ns1, bb) =>
    let slot := (Z.to_nat bb + label)%nat in
    match check_of ns1 slot with
    | Some ck =>
      if is_transition_from ck current then Ok (ns1, slot)
      else if (0 <=? ck)%Z then
        obind (move_conflicted ns1 alphabet current label hint) (fun ns2 =>
        record_transition_at ns2 current label)
      else record_transition_at ns1 current label
    | None => record_transition_at ns1 current label
    end)
  end).

Fixpoint zip_hints (ls : list nat) (hints : list (option nat)) : list (nat * option nat) :=
  match ls with
  | [] => []
  | l :: ls' => (l, hd None hints) :: zip_hints ls' (tl hints)
  end.

(** Trie::insert.  [Err] = the key has a character outside the alphabet (trie unchanged). *)
Definition insert (t : trie) (key : str) (hints : list (option nat)) : outcome trie :=
  match key_to_labels (t_alphabet t) key with
  | None => Err
  | Some ls =>
    obind (fold_left (insert_step (t_alphabet t)) (zip_hints ls hints) (Ok (t_nodes t, O))) (fun r =>
    Ok {| t_nodes := fst r; t_alphabet := t_alphabet t |})
  end.

Definition search_step (ns : nodes) (st : option nat) (label : nat) : option nat :=
  match st with
  | None => None
  | Some current =>
    match base_of ns current with
    | None => None
    | Some b =>
      if (b <? 0)%Z then None
      else
        let tr := (Z.to_nat b + label)%nat in
        match check_of ns tr with
        | Some ck => if is_transition_from ck current then Some tr else None
        | None => None
        end
    end
  end.

(** Trie::search: the node reached by the key and its terminal label *)
Definition search (t : trie) (key : str) : option nat :=
  match key_to_labels (t_alphabet t) key with
  | None => None
  | Some ls => fold_left (search_step (t_nodes t)) ls (Some O)
  end.

Definition member (t : trie) (key : str) : bool :=
  match search t key with Some _ => true | None => false end.

(** canonical insertion (no hints) *)
Definition insert_canonical (t : trie) (key : str) : outcome trie := insert t key [].

(** * The structural invariant, as a boolean (what the correspondence evaluates on the implementation's arrays) *)

Definition slot_used (n : node) : bool := (0 <=? check n)%Z.

Definition inv_slot (t : trie) (i : nat) (n : node) : bool :=
  let ns := t_nodes t in
  if Nat.eqb i 0 then (check n =? 0)%Z && (0 <=? base n)%Z && negb (mem_nat 0 (empties ns))
  else if slot_used n then
    negb (mem_nat i (empties ns)) &&
    match nth_error (arr ns) (Z.to_nat (check n)) with
    | Some p => ((0 <=? base p)%Z && (Z.to_nat (base p) <? i)%nat && (i - Z.to_nat (base p) <=? terminal_label (t_alphabet t))%nat
                 && ((Z.to_nat (check n) =? 0)%nat || slot_used p))
    | None => false
    end
  else (base n =? -1)%Z && (check n =? -1)%Z && mem_nat i (empties ns).

Fixpoint forallb_i {A} (f : nat -> A -> bool) (i : nat) (l : list A) : bool :=
  match l with [] => true | x :: l' => f i x && forallb_i f (S i) l' end.

Fixpoint nodup_nat (l : list nat) : bool :=
  match l with [] => true | x :: l' => negb (mem_nat x l') && nodup_nat l' end.

Definition inv_b (t : trie) : bool :=
  forallb_i (inv_slot t) 0 (arr (t_nodes t)) &&
  nodup_nat (empties (t_nodes t)) &&
  forallb (fun e => (e <? length (arr (t_nodes t)))%nat) (empties (t_nodes t)).
