(** Invariants of the sequential server model: no request history reaches a panic (C05), what a
    confirmation changes (C06), what a restart keeps (C08). *)
From Chokan Require Import Base.Str Base.ListUtil Dic.Speech Gen.SpeechNames Dic.PegAlt Gen.DicGrammar Dic.TextFormat Dic.TextFormatProofs Dic.RestoreProofs
  Dic.ConjRule Gen.ConjTables Dic.Conjugation Dic.ConjProofs Kkc.Context Gen.ScoreTables Kkc.Lattice Kkc.Score Kkc.Heap Kkc.Search Kkc.Paths Kkc.Affix
  Kkc.Compose Gen.KanaTable Kana.KanaAlpha Kana.KanaAlphaProofs Server.ServerModel.
From Chokan Require Props.C01 Props.C03 Props.C17.
From Coq Require Import Lia.
Local Open Scope Z_scope.

(** * cleanliness of strings: no TAB, NL, SPACE *)
Notation cs := clean_stem.

Lemma cs_app a b : cs (a ++ b) = cs a && cs b.
Proof. unfold clean_stem. apply forallb_app. Qed.
Lemma cs_sub a b c : cs (a ++ b ++ c) = true -> cs b = true.
Proof. rewrite !cs_app. intro H. apply andb_true_iff in H as [_ H]. apply andb_true_iff in H as [H _]. exact H. Qed.
Lemma cs_prefix a b : cs (a ++ b) = true -> cs a = true.
Proof. rewrite cs_app. intro H. apply andb_true_iff in H. tauto. Qed.
Lemma cs_suffix a b : cs (a ++ b) = true -> cs b = true.
Proof. rewrite cs_app. intro H. apply andb_true_iff in H. tauto. Qed.
Lemma cs_firstn n s : cs s = true -> cs (firstn n s) = true.
Proof. intro H. rewrite <- (firstn_skipn n s) in H. eapply cs_prefix; eassumption. Qed.
Lemma cs_removelast s : cs s = true -> cs (removelast s) = true.
Proof.
  intro H. destruct s as [|c s] using rev_ind; [reflexivity|]. rewrite removelast_last. eapply cs_prefix; eassumption.
Qed.
Lemma cs_tl s : cs s = true -> cs (tl s) = true.
Proof. destruct s as [|c s]; [auto|]. cbn [tl]. intro H. change (c :: s) with ([c] ++ s) in H. eapply cs_suffix; eassumption. Qed.

Lemma valid_param_cs s : valid_param s = true -> cs s = true.
Proof.
  unfold valid_param. intro H. apply andb_true_iff in H as [_ H]. unfold clean_stem. rewrite forallb_forall in *.
  intros c Hc. specialize (H c Hc). apply negb_true_iff in H. unfold blank_or_control in H.
  unfold TAB, NL, SPACE.
  destruct (N.eqb_spec c 9) as [->|]; [vm_compute in H; discriminate|].
  destruct (N.eqb_spec c 10) as [->|]; [vm_compute in H; discriminate|].
  destruct (N.eqb_spec c 32) as [->|]; [vm_compute in H; discriminate|]. reflexivity.
Qed.

(** * the tables produce clean okurigana *)
Definition tables_clean : bool :=
  forallb (fun x => forallb cs (rule_okuris (snd x))) verb_table.
Lemma tables_clean_true : tables_clean = true. Proof. vm_compute. reflexivity. Qed.

Lemma speech_rule_clean sp r : speech_rule sp = Some r -> forallb cs (rule_okuris r) = true.
Proof.
  destruct sp as [v|c row| | | | | |t| | | |a]; cbn [speech_rule]; try (intro H; inversion H; vm_compute; reflexivity).
  intro H. apply lookup_rule_in in H. pose proof tables_clean_true as Ht. unfold tables_clean in Ht. rewrite forallb_forall in Ht.
  exact (Ht _ H).
Qed.

Definition word_clean (w : word) : bool := cs (w_word w) && cs (w_reading w).
Definition eclean (e : entry) : bool := cs (e_reading e) && cs (e_stem e) && negb (mem_chr NL (speech_name (e_speech e))).
Definition entry_ok (e : entry) : Prop := exists ws, conjugate e = Ok ws.

Lemma eclean_clean2 e : eclean e = true -> clean_entry2 e = true.
Proof.
  unfold eclean, clean_entry2, clean_entry. intro H. apply andb_true_iff in H as [H H3]. apply andb_true_iff in H as [H1 H2].
  rewrite H2, H3. rewrite !andb_true_r. unfold clean_reading. unfold clean_stem in H1. rewrite forallb_forall in *.
  intros c Hc. specialize (H1 c Hc). apply andb_true_iff in H1 as [H1 _]. exact H1.
Qed.

Lemma okuri_list_clean r sr ok : forallb cs (rule_okuris r) = true -> In ok (okuri_list r sr) -> cs ok = true.
Proof. intros H Hin. apply okuri_list_in in Hin. rewrite forallb_forall in H. auto. Qed.

Lemma conjugate_clean e ws : eclean e = true -> conjugate e = Ok ws -> forallb word_clean ws = true.
Proof.
  unfold eclean. intro H. apply andb_true_iff in H as [H _]. apply andb_true_iff in H as [Hr Hs].
  unfold conjugate, to_forms. destruct (speech_rule (e_speech e)) as [r|] eqn:Er; [|discriminate].
  pose proof (speech_rule_clean _ _ Er) as Hc.
  destruct (apply_rule r (e_stem e) (e_reading e)) as [l| |] eqn:Ea; try discriminate. intro Hw. inversion Hw; subst ws.
  apply forallb_forall. intros w Hin. apply in_map_iff in Hin as ([fw fr] & <- & Hin). unfold word_clean. cbn [w_word w_reading fst snd].
  destruct (is_kahen r) eqn:Ek.
  - destruct r as [l0|a b|c a b|l0]; try discriminate.
    destruct (apply_rule_kahen l0 _ _ _ Ea) as [_ Hall]. destruct (Hall _ _ Hin) as (v & Hv & -> & ->).
    assert (Hk : cs v = true) by (cbn [rule_okuris] in Hc; rewrite forallb_forall in Hc; auto).
    rewrite !cs_app, Hs, (cs_tl _ Hk), (cs_removelast _ Hr), Hk. reflexivity.
  - destruct (apply_rule_aligned r _ _ _ Ek Ea _ _ Hin) as (ok & Hok & -> & ->).
    assert (Hk : cs ok = true) by (rewrite forallb_forall in Hc; auto).
    rewrite !cs_app, Hs, Hr, Hk. reflexivity.
Qed.

(** * the guesser produces clean, conjugable entries *)
Definition guess_rows_ok : bool :=
  forallb (fun x => let '(_, (c, row)) := x in
             negb (N.eqb row NL) &&
             match lookup_rule verb_table c row with Some (OKaHen _) => false | Some _ => true | None => false end) guess_table.
Lemma guess_rows_ok_true : guess_rows_ok = true. Proof. vm_compute. reflexivity. Qed.

Lemma suffix_no_nl c : mem_chr NL (verb_class_suffix c) = false.
Proof. destruct c; vm_compute; reflexivity. Qed.

Lemma byte_prefix_prefix s k p : byte_prefix s k = Ok p -> exists q, s = p ++ q.
Proof.
  revert k p; induction s as [|c s IH]; intros k p; destruct k as [|k]; cbn [byte_prefix]; try (intro H; inversion H; eexists; reflexivity); try discriminate.
  destruct (utf8_len c <=? S k)%nat; [|discriminate].
  destruct (byte_prefix s (S k - utf8_len c)) as [p'| |] eqn:E; try discriminate. intro H. inversion H; subst.
  destruct (IH _ _ E) as [q ->]. exists q. reflexivity.
Qed.

Lemma guess_speech_facts w : let sp := fst (guess w) in
  mem_chr NL (speech_name sp) = false /\ (forall r, speech_rule sp = Some r -> is_kahen r = false) /\ conjugable sp = true.
Proof.
  cbv zeta. pose proof (guess_speech_conjugable w) as Hconj. split; [|split; [|exact Hconj]].
  - unfold guess. destruct (ends_with [NA; II] w && (3 <=? length w)%nat).
    + destruct (guess_form _) as [[c row]|] eqn:Hg.
      * cbn [fst speech_name]. apply assoc_N_in in Hg. pose proof guess_rows_ok_true as H. unfold guess_rows_ok in H. rewrite forallb_forall in H.
        specialize (H _ Hg). cbv beta iota in H. apply andb_true_iff in H as [H _]. apply negb_true_iff in H.
        unfold mem_chr. cbn [existsb]. rewrite N.eqb_sym, H. apply suffix_no_nl.
      * destruct (ends_with [II] w); [vm_compute; reflexivity|]. destruct (ends_with [DA] w); vm_compute; reflexivity.
    + destruct (ends_with [II] w); [vm_compute; reflexivity|]. destruct (ends_with [DA] w); vm_compute; reflexivity.
  - intros r. unfold guess. destruct (ends_with [NA; II] w && (3 <=? length w)%nat).
    + destruct (guess_form _) as [[c row]|] eqn:Hg.
      * cbn [fst speech_rule]. intro Hr. apply assoc_N_in in Hg. pose proof guess_rows_ok_true as H. unfold guess_rows_ok in H. rewrite forallb_forall in H.
        specialize (H _ Hg). cbv beta iota in H. apply andb_true_iff in H as [_ H]. rewrite Hr in H. destruct r; try reflexivity. discriminate.
      * destruct (ends_with [II] w); [cbn; intro H; inversion H; reflexivity|]. destruct (ends_with [DA] w); cbn; intro H; inversion H; reflexivity.
    + destruct (ends_with [II] w); [cbn; intro H; inversion H; reflexivity|]. destruct (ends_with [DA] w); cbn; intro H; inversion H; reflexivity.
Qed.

Lemma new_guessed_ok reading w e : cs reading = true -> cs w = true -> new_guessed reading w = Ok e -> eclean e = true /\ entry_ok e.
Proof.
  intros Hr Hw. unfold new_guessed. destruct (guess w) as [sp stem] eqn:Hg.
  pose proof (guess_stem_prefix w) as [suf Hsuf]. rewrite Hg in Hsuf. cbn [snd] in Hsuf.
  pose proof (guess_speech_facts w) as (Hnl & Hk & Hconj). rewrite Hg in Hnl, Hk, Hconj. cbn [fst] in Hnl, Hk, Hconj.
  assert (Hstem : cs stem = true) by (rewrite Hsuf in Hw; eapply cs_prefix; eassumption).
  assert (Hok : forall rd, entry_ok {| e_reading := rd; e_stem := stem; e_speech := sp |}).
  { intro rd. unfold entry_ok, conjugate, to_forms. cbn [e_speech e_stem e_reading].
    unfold conjugable in Hconj. destruct (speech_rule sp) as [r|] eqn:Er; [|discriminate].
    destruct (apply_rule_total r stem rd) as [forms Hf]; [intro Hkk; rewrite (Hk r eq_refl) in Hkk; discriminate|].
    rewrite Hf. eexists. reflexivity. }
  destruct (0 <? byte_len w - byte_len stem)%nat.
  - destruct (byte_len reading <? byte_len w - byte_len stem)%nat; [discriminate|].
    destruct (byte_prefix reading _) as [p| |] eqn:Ep; try discriminate. intro H. inversion H; subst e.
    destruct (byte_prefix_prefix _ _ _ Ep) as [q Hq]. split; [|apply Hok].
    unfold eclean. cbn [e_reading e_stem e_speech]. rewrite Hstem, Hnl. rewrite Hq in Hr. rewrite (cs_prefix _ _ Hr). reflexivity.
  - intro H. inversion H; subst e. split; [|apply Hok]. unfold eclean. cbn [e_reading e_stem e_speech]. rewrite Hr, Hstem, Hnl. reflexivity.
Qed.

Lemma noun_entry_ok proper reading w : cs reading = true -> cs w = true ->
  eclean (noun_entry proper reading w) = true /\ entry_ok (noun_entry proper reading w).
Proof.
  intros Hr Hw. split.
  - unfold eclean, noun_entry. cbn [e_reading e_stem e_speech]. rewrite Hr, Hw. destruct proper; vm_compute; reflexivity.
  - unfold entry_ok, conjugate, to_forms, noun_entry. cbn [e_speech speech_rule apply_rule]. destruct proper; eexists; reflexivity.
Qed.

(** * the invariant *)
Definition chain_words_clean (ch : list pnode) : Prop :=
  forall n w, In (PNode n) ch -> n_kind n = KWord w -> word_clean w = true.

Record wf (s : sstate) : Prop := {
  wf_q_ok : Forall entry_ok (s_queue s); wf_q_clean : forallb eclean (s_queue s) = true;
  wf_u_ok : Forall entry_ok (s_user s); wf_u_clean : forallb eclean (s_user s) = true;
  wf_std : forallb word_clean (s_std s) = true; wf_anc : forallb word_clean (s_anc s) = true;
  wf_sess : forall ss c, In ss (s_sessions s) -> In c (ss_cands ss) -> chain_words_clean (c_chain c);
  wf_freq : forall e, In e (s_freq s) -> 0 <= fst (snd e) }.

Lemma ft_freq_ok f : (forall e, In e f -> 0 <= fst (snd e)) -> fq_ok (ft_freq f).
Proof.
  intros H c w. induction f as [|[[c' w'] [n l]] f IH]; cbn [ft_freq map freq_of fst snd]; [lia|].
  destruct (context_eqb c c' && str_eqb w w'); [apply (H (c', w', (n, l))); left; reflexivity|].
  apply IH. intros e He. apply H. right. assumption.
Qed.

Lemma word_if_clean f p a b ch : chain_words_clean ch -> In p ch -> word_if f p = Some (a, b) -> cs a = true /\ cs b = true.
Proof.
  intros Hc Hin. unfold word_if. destruct p as [| |n]; try discriminate. destruct (n_kind n) as [w|] eqn:Ek; [|discriminate].
  destruct (f (w_speech w)); [|discriminate]. intro H. inversion H; subst.
  specialize (Hc n w Hin Ek). unfold word_clean in Hc. apply andb_true_iff in Hc. exact Hc.
Qed.

Lemma affix_of_clean ch w r : chain_words_clean ch -> affix_of ch = Some (w, r) -> cs w = true /\ cs r = true.
Proof.
  intros Hc. unfold affix_of.
  set (c := match ch with PBos :: (_ :: _) as rest => rest | _ => ch end).
  assert (Hsub : forall x, In x c -> In x ch).
  { subst c. intros x Hx. destruct ch as [|[| |n] [|y r0]]; cbn in *; auto. }
  clearbody c. destruct c as [|cur rest]; [discriminate|]. destruct (is_word_p cur); cbn [negb]; [|discriminate].
  assert (Hcur : In cur ch) by (apply Hsub; left; reflexivity).
  destruct rest as [|nx rest]; [discriminate|]. assert (Hnx : In nx ch) by (apply Hsub; right; left; reflexivity).
  destruct (is_word_p nx); [|destruct rest as [|n2 r0]; [discriminate|destruct (is_word_p n2); discriminate]].
  assert (Hcat : forall a b, (exists p, In p ch /\ exists f, word_if f p = Some a) -> (exists p, In p ch /\ exists f, word_if f p = Some b) ->
                 cs (fst (cat2 a b)) = true /\ cs (snd (cat2 a b)) = true).
  { intros [a1 a2] [b1 b2] (p1 & Hp1 & f1 & H1) (p2 & Hp2 & f2 & H2).
    destruct (word_if_clean _ _ _ _ _ Hc Hp1 H1) as [? ?]. destruct (word_if_clean _ _ _ _ _ Hc Hp2 H2) as [? ?].
    unfold cat2. cbn [fst snd]. rewrite !cs_app. split; apply andb_true_iff; auto. }
  destruct rest as [|n2 r0].
  - destruct (as_prefix cur) as [p|] eqn:E1; destruct (as_independent nx) as [i|] eqn:E2;
      destruct (as_independent cur) as [i2|] eqn:E3; destruct (as_suffix nx) as [sf|] eqn:E4; try discriminate; intro H; injection H as Hw Hr'.
    + destruct (Hcat p i) as [X Y]; [eauto|eauto|]. unfold cat2 in X, Y. cbn [fst snd] in X, Y. rewrite Hw in X. rewrite Hr' in Y. auto.
    + destruct (Hcat i2 sf) as [X Y]; [eauto|eauto|]. unfold cat2 in X, Y. cbn [fst snd] in X, Y. rewrite Hw in X. rewrite Hr' in Y. auto.
  - assert (Hn2 : In n2 ch) by (apply Hsub; right; right; left; reflexivity).
    destruct (is_word_p n2).
    + destruct (as_prefix cur) as [p|] eqn:E1; [|discriminate]. destruct (as_independent nx) as [i|] eqn:E2; [|discriminate].
      destruct (as_suffix n2) as [sf|] eqn:E3; [|discriminate]. destruct p as [p1 p2], i as [i1 i2], sf as [s1 s2].
      destruct (word_if_clean _ _ _ _ _ Hc Hcur E1) as [? ?]. destruct (word_if_clean _ _ _ _ _ Hc Hnx E2) as [? ?].
      destruct (word_if_clean _ _ _ _ _ Hc Hn2 E3) as [? ?]. unfold cat2. cbn [fst snd]. intro Heq. injection Heq as Hw Hr'. subst w r.
      rewrite !cs_app. split; repeat (apply andb_true_iff; split); assumption.
    + destruct (as_prefix cur) as [p|] eqn:E1; destruct (as_independent nx) as [i|] eqn:E2;
        destruct (as_independent cur) as [i2|] eqn:E3; destruct (as_suffix nx) as [sf|] eqn:E4; try discriminate; intro H; injection H as Hw Hr'.
      * destruct (Hcat p i) as [X Y]; [eauto|eauto|]. unfold cat2 in X, Y. cbn [fst snd] in X, Y. rewrite Hw in X. rewrite Hr' in Y. auto.
      * destruct (Hcat i2 sf) as [X Y]; [eauto|eauto|]. unfold cat2 in X, Y. cbn [fst snd] in X, Y. rewrite Hw in X. rewrite Hr' in Y. auto.
Qed.

Lemma forallb_app_true {A} (f : A -> bool) a b : forallb f a = true -> forallb f b = true -> forallb f (a ++ b) = true.
Proof. intros. rewrite forallb_app. apply andb_true_iff; auto. Qed.

Lemma pop_session_sub ss sid found rest : pop_session ss sid = (found, rest) ->
  (forall x, In x rest -> In x ss) /\ (forall x, found = Some x -> In x ss).
Proof.
  revert found rest; induction ss as [|x ss IH]; intros found rest; cbn [pop_session].
  - intro H. inversion H; subst. split; [auto|discriminate].
  - destruct (Nat.eqb (ss_id x) sid).
    + intro H. inversion H; subst. split; [intros y Hy; right; assumption|intros y Hy; inversion Hy; left; reflexivity].
    + destruct (pop_session ss sid) as [r rs] eqn:E. intro H. inversion H; subst. destruct (IH _ _ eq_refl) as [H1 H2].
      split; [intros y [<-|Hy]; [left; reflexivity|right; auto]|intros y Hy; right; auto].
Qed.

Lemma find_cand_in cs0 i cid c : find_cand cs0 i cid = Some c -> In c cs0.
Proof.
  revert i; induction cs0 as [|x l IH]; intro i; cbn [find_cand]; [discriminate|].
  destruct (str_eqb (id_string i) cid); [intro H; inversion H; left; reflexivity|intro H; right; eapply IH; eassumption].
Qed.

Lemma ft_bump_nonneg f c w now : (forall e, In e f -> 0 <= fst (snd e)) -> forall e, In e (ft_bump f c w now) -> 0 <= fst (snd e).
Proof.
  induction f as [|[[c' w'] [n l]] f IH]; intros H e; cbn [ft_bump].
  - intros [<-|[]]. cbn. lia.
  - destruct (context_eqb c c' && str_eqb w w').
    + intros [<-|He]; [cbn [fst snd]; specialize (H (c', w', (n, l)) (or_introl eq_refl)); cbn [fst snd] in H; lia|apply H; right; assumption].
    + intros [<-|He]; [apply (H (c', w', (n, l))); left; reflexivity|]. apply IH; [intros e' He'; apply H; right; assumption|assumption].
Qed.

(** merging conjugated words keeps the dictionary clean *)
Lemma merge_words_wf s ws : wf s -> forallb word_clean ws = true -> wf (merge_words s ws).
Proof.
  intros [] Hws. constructor; cbn [merge_words s_queue s_user s_std s_anc s_sessions s_freq]; try assumption.
  apply forallb_app_true; assumption.
Qed.

Lemma startup_ok base f user : wf base -> Forall entry_ok user -> forallb eclean user = true ->
  (forall e, In e f -> 0 <= fst (snd e)) ->
  exists s', startup base f user = Ok s' /\ wf s' /\ s_sessions s' = [] /\ s_queue s' = [].
Proof.
  intros Hb Hok Hcl Hf. unfold startup.
  set (s0 := {| s_alpha := s_alpha base; s_std := s_std base; s_keys := s_keys base; s_anc := s_anc base; s_tankan := s_tankan base;
                s_freq := f; s_user := user; s_sessions := []; s_next := s_next base; s_queue := [] |}).
  assert (H0 : wf s0 /\ s_sessions s0 = [] /\ s_queue s0 = []).
  { split; [|split; reflexivity]. destruct Hb. constructor; cbn; try assumption; try constructor; try reflexivity. intros ss c []. }
  assert (Hgen : forall (es : list entry) s1, Forall entry_ok es -> forallb eclean es = true -> wf s1 /\ s_sessions s1 = [] /\ s_queue s1 = [] ->
            exists s', fold_left (fun acc e => obind acc (fun s => obind (conjugate e) (fun ws => Ok (merge_words s ws)))) es (Ok s1) = Ok s'
                       /\ wf s' /\ s_sessions s' = [] /\ s_queue s' = []).
  { induction es as [|e es IH]; intros s1 Ho Hc H1; cbn [fold_left]; [exists s1; auto|].
    inversion Ho as [|? ? [ws Hws] Ho']; subst. cbn [forallb] in Hc. apply andb_true_iff in Hc as [Hce Hc].
    cbn [obind]. rewrite Hws. cbn [obind]. apply IH; try assumption.
    destruct H1 as (Hw & Hs & Hq). split; [apply merge_words_wf; [assumption|eapply conjugate_clean; eassumption]|split; assumption]. }
  exact (Hgen user s0 Hok Hcl H0).
Qed.

(** * one step never panics and keeps the invariant *)
Definition is_guess (r : request) : bool := match r with RegisterGuess _ _ => true | _ => false end.

Lemma eff_dict_clean s w : wf s -> In w (d_std (eff_dict s)) \/ In w (d_anc (eff_dict s)) -> word_clean w = true.
Proof.
  intros [] [H|H]; cbn [eff_dict d_std d_anc] in H.
  - apply filter_In in H as [H _]. rewrite forallb_forall in wf_std0. auto.
  - rewrite forallb_forall in wf_anc0. auto.
Qed.

Lemma wf_set_freq_sessions s f ss : wf s -> (forall e, In e f -> 0 <= fst (snd e)) -> (forall x, In x ss -> In x (s_sessions s)) ->
  wf (set_freq_sessions s f ss).
Proof. intros [] Hf Hs. constructor; cbn; try assumption. intros x c Hx. apply wf_sess0. apply Hs. assumption. Qed.

Lemma wf_enqueue s e : wf s -> eclean e = true -> entry_ok e -> wf (set_queue s (s_queue s ++ [e])).
Proof.
  intros [] Hc Ho. constructor; cbn; try assumption.
  - apply Forall_app. split; [assumption|constructor; [assumption|constructor]].
  - apply forallb_app_true; [assumption|cbn; rewrite Hc; reflexivity].
Qed.

Lemma wf_add_user s e : wf s -> eclean e = true -> entry_ok e -> wf (set_user s (s_user s ++ [e])).
Proof.
  intros [] Hc Ho. constructor; cbn; try assumption.
  - apply Forall_app. split; [assumption|constructor; [assumption|constructor]].
  - apply forallb_app_true; [assumption|cbn; rewrite Hc; reflexivity].
Qed.

Theorem step_safe : forall base s r, wf base -> wf s ->
  exists fuel0, forall fuel, (fuel0 <= fuel)%nat ->
    (exists s' resp, step_f fuel base s r = Ok (s', resp) /\ wf s') \/ (step_f fuel base s r = Err /\ is_guess r = true).
Proof.
  intros base s r Hb Hs. destruct r as [input ctx|input|sid cid now|reading w|proper reading w|input| |].
  - (* GetCandidates *)
    pose proof (ft_freq_ok (s_freq s) (wf_freq s Hs)) as Hf.
    destruct (Props.C01.C01_search_terminates input (eff_dict s) ctx (ft_freq (s_freq s)) NCAND Hf) as (fuel0 & Hfuel).
    exists fuel0. intros fuel Hle. left. destruct (Hfuel fuel Hle) as (R & HR). cbn [step_f]. rewrite HR.
    eexists. eexists. split; [reflexivity|].
    destruct Hs. constructor; cbn; try assumption.
    intros ss c Hss Hc. apply in_app_or in Hss as [Hss|[<-|[]]]; [eapply wf_sess0; eassumption|].
    cbn [ss_cands] in Hc. intros nd wd Hnd Hk.
    assert (Hwf : wf s) by (constructor; assumption).
    destruct (Props.C03.C03_only_dictionary input (eff_dict s) ctx (ft_freq (s_freq s)) NCAND fuel R ltac:(unfold NCAND; lia) Hf HR c nd wd Hc Hnd Hk) as (Hin & _).
    exact (eff_dict_clean s wd Hwf Hin).
  - exists O. intros fuel _. left. cbn [step_f]. eexists. eexists. split; [reflexivity|assumption].
  - (* UpdateFrequency *)
    exists O. intros fuel _. left. cbn [step_f]. destruct sid as [sid|]; [|eexists; eexists; split; [reflexivity|assumption]].
    destruct (pop_session (s_sessions s) sid) as [found rest] eqn:Ep. destruct (pop_session_sub _ _ _ _ Ep) as [Hrest Hfound].
    destruct found as [sess|]; [|eexists; eexists; split; [reflexivity|assumption]].
    specialize (Hfound sess eq_refl).
    destruct (find_cand (ss_cands sess) 0 cid) as [c|] eqn:Ec.
    + apply find_cand_in in Ec.
      set (f1 := match chain_independent (c_chain c) with
                 | Some w => ft_expire (ft_bump (s_freq s) (ss_ctx sess) w now) now EXPIRATION
                 | None => s_freq s end).
      assert (Hf1 : forall e, In e f1 -> 0 <= fst (snd e)).
      { subst f1. destruct (chain_independent (c_chain c)); [|apply (wf_freq s Hs)].
        intros e He. unfold ft_expire in He. apply filter_In in He as [He _]. eapply ft_bump_nonneg; [apply (wf_freq s Hs)|eassumption]. }
      pose proof (wf_set_freq_sessions s f1 rest Hs Hf1 Hrest) as Hs1.
      destruct (affix_of (c_chain c)) as [[w reading]|] eqn:Ea.
      * destruct (affix_of_clean _ _ _ (wf_sess s Hs sess c Hfound Ec) Ea) as [Hw Hr].
        destruct (noun_entry_ok false reading w Hr Hw) as [Hcl Hok].
        eexists. eexists. split; [reflexivity|].
        apply wf_enqueue; assumption.
      * eexists. eexists. split; [reflexivity|assumption].
    + eexists. eexists. split; [reflexivity|]. apply wf_set_freq_sessions; [assumption|apply (wf_freq s Hs)|assumption].
  - (* RegisterGuess *)
    exists O. intros fuel _. cbn [step_f]. destruct (valid_param reading && valid_param w) eqn:Ev; cbn [negb].
    + apply andb_true_iff in Ev as [Hr Hw]. apply valid_param_cs in Hr, Hw.
      destruct (new_guessed reading w) as [e| |] eqn:Eg.
      * left. destruct (new_guessed_ok reading w e Hr Hw Eg) as [Hc Ho]. eexists. eexists. split; [reflexivity|apply wf_enqueue; assumption].
      * right. split; reflexivity.
      * right. split; reflexivity.
    + left. eexists. eexists. split; [reflexivity|assumption].
  - (* RegisterNoun *)
    exists O. intros fuel _. left. cbn [step_f]. destruct (valid_param reading && valid_param w) eqn:Ev; cbn [negb].
    + apply andb_true_iff in Ev as [Hr Hw]. apply valid_param_cs in Hr, Hw. destruct (noun_entry_ok proper reading w Hr Hw) as [Hc Ho].
      eexists. eexists. split; [reflexivity|apply wf_enqueue; assumption].
    + eexists. eexists. split; [reflexivity|assumption].
  - (* GetAlphabetic *)
    exists O. intros fuel _. left. cbn [step_f]. destruct (Props.C17.C17_total input) as [r Hr]. unfold Props.C17.CV in Hr. rewrite Hr.
    eexists. eexists. split; [reflexivity|assumption].
  - (* ApplyEntry *)
    exists O. intros fuel _. left. cbn [step_f]. destruct (s_queue s) as [|e q] eqn:Eq; [eexists; eexists; split; [reflexivity|assumption]|].
    pose proof (wf_q_ok s Hs) as Hq. rewrite Eq in Hq. inversion Hq as [|? ? [ws Hws] Hq']; subst. rewrite Hws.
    pose proof (wf_q_clean s Hs) as Hqc. rewrite Eq in Hqc. cbn [forallb] in Hqc. apply andb_true_iff in Hqc as [Hce Hqc].
    eexists. eexists. split; [reflexivity|]. apply merge_words_wf; [|eapply conjugate_clean; eassumption].
    destruct Hs. constructor; cbn; try assumption.
    + apply Forall_app. split; [assumption|constructor; [exists ws; assumption|constructor]].
    + apply forallb_app_true; [assumption|cbn; rewrite Hce; reflexivity].
  - (* Restart *)
    exists O. intros fuel _. left. cbn [step_f].
    assert (Hc2 : forallb clean_entry2 (s_user s) = true).
    { apply forallb_forall. intros e He. apply eclean_clean2. pose proof (wf_u_clean s Hs) as H. rewrite forallb_forall in H. auto. }
    rewrite (restore_filter (s_user s) Hc2).
    assert (Hok : Forall entry_ok (filter entry_printable (s_user s))).
    { apply Forall_forall. intros e He. apply filter_In in He as [He _]. pose proof (wf_u_ok s Hs) as H. rewrite Forall_forall in H. auto. }
    assert (Hcl : forallb eclean (filter entry_printable (s_user s)) = true).
    { apply forallb_forall. intros e He. apply filter_In in He as [He _]. pose proof (wf_u_clean s Hs) as H. rewrite forallb_forall in H. auto. }
    destruct (startup_ok base (s_freq s) _ Hb Hok Hcl (wf_freq s Hs)) as (s' & Hst & Hwf' & Hse & Hqe).
    rewrite Hst. cbn [obind]. eexists. eexists. split; [reflexivity|].
    destruct Hwf'. constructor; cbn; try assumption; try constructor. intros ss c [].
Qed.

(** the whole history: with enough fuel no prefix of any request history reaches a panic *)
Fixpoint run_f (fuel : nat) (base s : sstate) (rs : list request) : outcome (sstate * list (outcome response)) :=
  match rs with
  | [] => Ok (s, [])
  | r :: rs' =>
    match step_f fuel base s r with
    | Ok (s', resp) => match run_f fuel base s' rs' with Ok (s'', l) => Ok (s'', Ok resp :: l) | o => o end
    | Err => match run_f fuel base s rs' with Ok (s'', l) => Ok (s'', Err :: l) | o => o end
    | Panic => Panic
    end
  end.


(** * fuel is only a proof device: more fuel never changes an answer *)
Lemma nbest_loop_mono fuel : forall ctx f g n q res seen R, nbest_loop fuel ctx f g n q res seen = Some R ->
  forall fuel', (fuel <= fuel')%nat -> nbest_loop fuel' ctx f g n q res seen = Some R.
Proof.
  induction fuel as [|fuel IH]; intros ctx f g n q res seen R H fuel' Hle; [discriminate|].
  destruct fuel' as [|fuel']; [lia|]. cbn [nbest_loop] in *.
  destruct (heap_pop c_prio q) as [[c q']|]; [|assumption].
  destruct (is_bos (cand_head c)).
  - destruct (mem_str (cand_text c) seen); [apply IH; [assumption|lia]|].
    destruct (n <=? length (res ++ [c]))%nat; [assumption|apply IH; [assumption|lia]].
  - apply IH; [assumption|lia].
Qed.

Lemma get_candidates_mono fuel input d ctx f n R : get_candidates fuel input d ctx f n = Ok (Some R) ->
  forall fuel', (fuel <= fuel')%nat -> get_candidates fuel' input d ctx f n = Ok (Some R).
Proof.
  unfold get_candidates. destruct (from_input input d ctx) as [g| |]; cbn [obind]; try discriminate.
  intros H fuel' Hle. injection H as H1. f_equal. unfold n_best in *. eapply nbest_loop_mono; eassumption.
Qed.

Lemma step_f_mono fuel base s r x : step_f fuel base s r = Ok x -> forall fuel', (fuel <= fuel')%nat -> step_f fuel' base s r = Ok x.
Proof.
  destruct r; try (intros H fuel' _; exact H).
  cbn [step_f]. destruct (get_candidates fuel input (eff_dict s) ctx (ft_freq (s_freq s)) NCAND) as [[R|]| |] eqn:E; try discriminate.
  intros H fuel' Hle. rewrite (get_candidates_mono _ _ _ _ _ _ _ E fuel' Hle). exact H.
Qed.

Lemma step_f_err fuel base s r : step_f fuel base s r = Err -> forall fuel', step_f fuel' base s r = Err.
Proof.
  destruct r; cbn [step_f]; try (intros H fuel'; exact H).
  - destruct (get_candidates fuel input _ ctx _ NCAND) as [[R|]| |]; discriminate.
Qed.

Theorem run_safe : forall base rs s, wf base -> wf s ->
  exists fuel0, forall fuel, (fuel0 <= fuel)%nat -> exists s' resps, run_f fuel base s rs = Ok (s', resps) /\ wf s' /\ length resps = length rs.
Proof.
  intros base rs. induction rs as [|r rs IH]; intros s Hb Hs.
  - exists O. intros fuel _. exists s, []. cbn. auto.
  - destruct (step_safe base s r Hb Hs) as (f1 & H1). destruct (H1 f1 (le_n _)) as [(s1 & resp & Hstep & Hwf1)|[Herr _]].
    + destruct (IH s1 Hb Hwf1) as (f2 & H2). exists (Nat.max f1 f2). intros fuel Hle.
      cbn [run_f]. rewrite (step_f_mono _ _ _ _ _ Hstep fuel ltac:(lia)).
      destruct (H2 fuel ltac:(lia)) as (s' & resps & Hrun & Hwf' & Hlen). rewrite Hrun. exists s', (Ok resp :: resps). cbn [length]. auto.
    + destruct (IH s Hb Hs) as (f2 & H2). exists f2. intros fuel Hle.
      cbn [run_f]. rewrite (step_f_err _ _ _ _ Herr fuel).
      destruct (H2 fuel Hle) as (s' & resps & Hrun & Hwf' & Hlen). rewrite Hrun. exists s', (Err :: resps). cbn [length]. auto.
Qed.

(** the initial state built from clean dictionary sources satisfies the invariant *)
Lemma init_wf alpha std anc tankan : forallb word_clean std = true -> forallb word_clean anc = true -> wf (init_state alpha std anc tankan).
Proof.
  intros Hs Ha. constructor; cbn; try constructor; try assumption; try reflexivity.
  - apply forallb_forall. intros w Hw. apply filter_In in Hw as [Hw _]. rewrite forallb_forall in Ha. auto.
  - intros ss c [].
  - intros e [].
Qed.
