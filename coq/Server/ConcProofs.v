(** Deadlock freedom from a lock ranking (C14), and the structural facts about the extracted protocol (C14 C15). *)
From Chokan Require Import Base.ListUtil Server.Protocol Server.ConcModel.
From Coq Require Import Lia Bool.

Section Ranked.
  Variable rank : mutex -> nat.
  Variables (progs loops : list (list op)).
  Hypothesis progs_ok : forallb (prog_ok rank []) progs = true.
  Hypothesis loops_ok : forallb (prog_ok rank []) loops = true.

  (** per-thread invariant: what remains is well formed from what is held; a looping thread's program is well formed *)
  Definition thread_ok (t : thread) : Prop :=
    prog_ok rank (th_held t) (th_rest t) = true /\ match th_loop t with Some p => prog_ok rank [] p = true | None => True end.

  Lemma step_thread_ok t : thread_ok t -> thread_ok (step_thread t).
  Proof.
    intros [H1 H2]. unfold step_thread. destruct (th_rest t) as [|o r] eqn:E.
    - destruct (th_loop t) as [p|] eqn:El; [|split; [rewrite E; assumption|rewrite El; exact I]].
      cbn [prog_ok] in H1. destruct (th_held t) eqn:Eh; [|discriminate]. split; cbn; [assumption|assumption].
    - destruct o; cbn [prog_ok] in H1; try (split; cbn; assumption).
      + apply andb_true_iff in H1 as [_ H1]. split; cbn; assumption.
      + apply andb_true_iff in H1 as [_ H1]. split; cbn; assumption.
  Qed.

  (** mutual exclusion *)
  Definition excl (ts : list thread) : Prop :=
    forall i j ti tj m, nth_error ts i = Some ti -> nth_error ts j = Some tj -> i <> j -> holds (th_held ti) m = true -> holds (th_held tj) m = false.

  Lemma holds_filter h m x : holds (filter (fun y => negb (mutex_eqb m y)) h) x = true -> holds h x = true.
  Proof.
    unfold holds. rewrite !existsb_exists. intros (y & Hy & He). apply filter_In in Hy as [Hy _]. exists y. auto.
  Qed.

  Lemma reach_inv ts : reach progs loops ts -> Forall thread_ok ts /\ excl ts.
  Proof.
    induction 1 as [|ts p Hr [IH1 IH2] Hp|ts i t Hr [IH1 IH2] Hn He].
    - split.
      + apply Forall_forall. intros t Ht. apply in_map_iff in Ht as (p & <- & Hp). rewrite forallb_forall in loops_ok. split; cbn; auto.
      + intros i j ti tj m Hi Hj _ Hh. rewrite nth_error_map in Hi. destruct (nth_error loops i); [|discriminate]. inversion Hi; subst. cbn in Hh. discriminate Hh.
    - split.
      + apply Forall_app. split; [assumption|]. constructor; [|constructor]. rewrite forallb_forall in progs_ok. split; cbn; auto.
      + intros i j ti tj m Hi Hj Hne Hh.
        assert (Hl : forall k tk, nth_error (ts ++ [{| th_held := []; th_rest := p; th_loop := None |}]) k = Some tk ->
                     nth_error ts k = Some tk \/ th_held tk = []).
        { intros k tk Hk. destruct (Nat.lt_ge_cases k (length ts)) as [Hlt|Hge]; [left; rewrite nth_error_app1 in Hk; assumption|].
          right. rewrite nth_error_app2 in Hk by assumption. destruct (k - length ts)%nat; cbn in Hk; [inversion Hk; reflexivity|destruct n; discriminate]. }
        destruct (Hl _ _ Hi) as [Hi'|Hi']; [|rewrite Hi' in Hh; discriminate].
        destruct (Hl _ _ Hj) as [Hj'|Hj']; [exact (IH2 i j ti tj m Hi' Hj' Hne Hh)|rewrite Hj'; reflexivity].
    - split.
      + apply Forall_forall. intros x Hx. apply In_nth_error in Hx as [k Hk].
        destruct (Nat.eq_dec i k) as [->|Hne].
        * rewrite nth_error_upd_nth_eq, Hn in Hk. inversion Hk; subst. apply step_thread_ok. rewrite Forall_forall in IH1. apply IH1. eapply nth_error_In; eassumption.
        * rewrite nth_error_upd_nth_neq in Hk by assumption. rewrite Forall_forall in IH1. apply IH1. eapply nth_error_In; eassumption.
      + (* a step keeps mutual exclusion: an Acq is enabled only when nobody holds the mutex *)
        intros a b ta tb m Ha Hb Hab Hh.
        assert (Hget : forall k tk, nth_error (upd_nth ts i step_thread) k = Some tk ->
                  (k = i /\ tk = step_thread t) \/ (k <> i /\ nth_error ts k = Some tk)).
        { intros k tk Hk. destruct (Nat.eq_dec i k) as [->|Hne]; [left; rewrite nth_error_upd_nth_eq, Hn in Hk; inversion Hk; auto|right; rewrite nth_error_upd_nth_neq in Hk by assumption; auto]. }
        assert (Hstep_holds : forall x, holds (th_held (step_thread t)) x = true ->
                  holds (th_held t) x = true \/ (exists r, th_rest t = Acq x :: r)).
        { intros x Hx. unfold step_thread in Hx. destruct (th_rest t) as [|o r] eqn:E.
          - destruct (th_loop t); left; exact Hx.
          - destruct o; try (left; exact Hx).
            + cbn [th_held holds existsb] in Hx. apply orb_true_iff in Hx as [Hx|Hx]; [apply mutex_eqb_eq in Hx; subst; right; eauto|left; exact Hx].
            + cbn [th_held] in Hx. left. eapply holds_filter; eassumption. }
        assert (Hen : forall x r, th_rest t = Acq x :: r -> forall k tk, nth_error ts k = Some tk -> holds (th_held tk) x = false).
        { intros x r E k tk Hk. unfold enabled in He. rewrite Hn, E in He. apply negb_true_iff in He.
          destruct (holds (th_held tk) x) eqn:Ex; [|reflexivity]. exfalso.
          assert (existsb (fun t' => holds (th_held t') x) ts = true); [|congruence].
          apply existsb_exists. exists tk. split; [eapply nth_error_In; eassumption|assumption]. }
        destruct (Hget _ _ Ha) as [[-> ->]|[Hai Ha']]; destruct (Hget _ _ Hb) as [[-> ->]|[Hbi Hb']]; try congruence.
        * destruct (Hstep_holds m Hh) as [Hm|[r E]]; [eapply IH2; [exact Hn|exact Hb'|congruence|exact Hm]|eapply Hen; eassumption].
        * destruct (holds (th_held (step_thread t)) m) eqn:Em; [|reflexivity]. exfalso.
          destruct (Hstep_holds m Em) as [Hm|[r E]].
          -- pose proof (IH2 a i ta t m Ha' Hn Hai Hh). congruence.
          -- pose proof (Hen m r E a ta Ha'). congruence.
        * exact (IH2 a b ta tb m Ha' Hb' Hab Hh).
  Qed.

  (** * no deadlock: if some thread is not finished, some thread can take a step *)
  Theorem no_deadlock ts : reach progs loops ts -> (exists i t, nth_error ts i = Some t /\ finished t = false) ->
    exists i, enabled ts i = true.
  Proof.
    intros Hr Hun. destruct (reach_inv ts Hr) as [Hok Hex].
    (* among the blocked unfinished threads take the one waiting for the mutex of greatest rank *)
    assert (Hmain : forall n, (forall i t, nth_error ts i = Some t -> finished t = false -> enabled ts i = false ->
                                 exists m r, th_rest t = Acq m :: r /\ (rank m <= n)%nat) -> (exists i, enabled ts i = true) \/ (forall i t, nth_error ts i = Some t -> finished t = true)).
    { induction n as [|n IHn]; intro Hb.
      - (* nobody can be blocked on rank <= 0 unless its holder can move: handled by the general step below with n = 0 *)
        destruct (existsb (fun i => enabled ts i) (seq 0 (length ts))) eqn:Een.
        + left. apply existsb_exists in Een as (i & _ & Hi). eauto.
        + right. intros i t Hi. destruct (finished t) eqn:Ef; [reflexivity|]. exfalso.
          assert (Hdis : enabled ts i = false).
          { destruct (enabled ts i) eqn:E; [|reflexivity]. assert (existsb (fun i => enabled ts i) (seq 0 (length ts)) = true); [|congruence].
            apply existsb_exists. exists i. split; [apply in_seq; split; [lia|apply nth_error_Some; congruence]|assumption]. }
          destruct (Hb i t Hi Ef Hdis) as (m & r & Er & Hrk).
          (* m is held by some thread j, which is unfinished and blocked on a mutex ranked above m: contradiction with rank m <= 0 *)
          unfold enabled in Hdis. rewrite Hi, Er in Hdis. apply negb_false_iff in Hdis. apply existsb_exists in Hdis as (tj & Hin & Hh).
          apply In_nth_error in Hin as [j Hj].
          assert (Hfj : finished tj = false).
          { unfold finished. rewrite Forall_forall in Hok. destruct (Hok tj (nth_error_In _ _ Hj)) as [Hp _].
            destruct (th_rest tj) eqn:Erj; [|reflexivity]. cbn [prog_ok] in Hp. destruct (th_held tj); [discriminate Hh|discriminate Hp]. }
          assert (Hdj : enabled ts j = false).
          { destruct (enabled ts j) eqn:E; [|reflexivity]. assert (existsb (fun i => enabled ts i) (seq 0 (length ts)) = true); [|congruence].
            apply existsb_exists. exists j. split; [apply in_seq; split; [lia|apply nth_error_Some; congruence]|assumption]. }
          destruct (Hb j tj Hj Hfj Hdj) as (mj & rj & Erj & Hrkj).
          rewrite Forall_forall in Hok. destruct (Hok tj (nth_error_In _ _ Hj)) as [Hp _]. rewrite Erj in Hp. cbn [prog_ok] in Hp.
          apply andb_true_iff in Hp as [Hp _]. apply andb_true_iff in Hp as [_ Hp]. rewrite forallb_forall in Hp.
          unfold holds in Hh. apply existsb_exists in Hh as (x & Hx & Hxe). apply mutex_eqb_eq in Hxe. subst x.
          specialize (Hp m Hx). apply Nat.ltb_lt in Hp. lia.
      - destruct (existsb (fun i => enabled ts i) (seq 0 (length ts))) eqn:Een.
        + left. apply existsb_exists in Een as (i & _ & Hi). eauto.
        + apply IHn. intros i t Hi Ef Hdis. destruct (Hb i t Hi Ef Hdis) as (m & r & Er & Hrk).
          exists m, r. split; [assumption|].
          destruct (Nat.eq_dec (rank m) (S n)) as [Heq|]; [|lia]. exfalso.
          unfold enabled in Hdis. rewrite Hi, Er in Hdis. apply negb_false_iff in Hdis. apply existsb_exists in Hdis as (tj & Hin & Hh).
          apply In_nth_error in Hin as [j Hj].
          assert (Hfj : finished tj = false).
          { unfold finished. rewrite Forall_forall in Hok. destruct (Hok tj (nth_error_In _ _ Hj)) as [Hp _].
            destruct (th_rest tj) eqn:Erj; [|reflexivity]. cbn [prog_ok] in Hp. destruct (th_held tj); [discriminate Hh|discriminate Hp]. }
          assert (Hdj : enabled ts j = false).
          { destruct (enabled ts j) eqn:E; [|reflexivity]. assert (existsb (fun i => enabled ts i) (seq 0 (length ts)) = true); [|congruence].
            apply existsb_exists. exists j. split; [apply in_seq; split; [lia|apply nth_error_Some; congruence]|assumption]. }
          destruct (Hb j tj Hj Hfj Hdj) as (mj & rj & Erj & Hrkj).
          rewrite Forall_forall in Hok. destruct (Hok tj (nth_error_In _ _ Hj)) as [Hp _]. rewrite Erj in Hp. cbn [prog_ok] in Hp.
          apply andb_true_iff in Hp as [Hp _]. apply andb_true_iff in Hp as [_ Hp]. rewrite forallb_forall in Hp.
          unfold holds in Hh. apply existsb_exists in Hh as (x & Hx & Hxe). apply mutex_eqb_eq in Hxe. subst x.
          specialize (Hp m Hx). apply Nat.ltb_lt in Hp. lia. }
    destruct (Hmain (rank MDict + rank MStore + rank MPref)%nat) as [H|H]; [|assumption|].
    - intros i t Hi Ef Hdis. unfold enabled in Hdis. rewrite Hi in Hdis.
      destruct (th_rest t) as [|o r] eqn:Er.
      + unfold finished in Ef. rewrite Er in Ef. destruct (th_loop t); discriminate.
      + destruct o; try discriminate. exists m, r. split; [reflexivity|destruct m; lia].
    - destruct Hun as (i & t & Hi & Hf). rewrite (H i t Hi) in Hf. discriminate.
  Qed.
End Ranked.

(** * structural facts, decidable on the extracted operation lists *)

(** the conversion's read happens while both the dictionary and the preference mutex are held *)
Fixpoint read_atomic (h : list mutex) (p : list op) : bool :=
  match p with
  | [] => true
  | Acq m :: p' => read_atomic (m :: h) p'
  | Rel m :: p' => read_atomic (filter (fun x => negb (mutex_eqb m x)) h) p'
  | ReadDictFreq :: p' => holds h MDict && holds h MPref && read_atomic h p'
  | ReadDict :: p' => holds h MDict && read_atomic h p'
  | CommitFreq :: p' | LearnCompound :: p' | CommitUserEntry :: p' | SaveFiles :: p' => holds h MPref && read_atomic h p'
  | CommitWord :: p' => holds h MDict && read_atomic h p'
  | StoreInsert :: p' | StorePop :: p' => holds h MStore && read_atomic h p'
  | Recv :: p' | Sleep :: p' => (match h with [] => true | _ => false end) && read_atomic h p'
  | _ :: p' => read_atomic h p'
  end.

(** all words of one entry are merged inside one dictionary section: no release of the dictionary between two CommitWord *)
Fixpoint one_section (seen : bool) (p : list op) : bool :=
  match p with
  | [] => true
  | CommitWord :: p' => one_section true p'
  | Rel MDict :: p' => if seen then negb (existsb (fun o => match o with CommitWord => true | _ => false end) p') else one_section false p'
  | _ :: p' => one_section seen p'
  end.

(** a confirmation consumes its session (under the store mutex) before it commits anything: of two confirmations of one session
    only the one that pops it learns *)
Fixpoint pop_before_commit (popped : bool) (p : list op) : bool :=
  match p with
  | [] => true
  | StorePop :: p' => pop_before_commit true p'
  | CommitFreq :: p' | LearnCompound :: p' => popped && pop_before_commit popped p'
  | _ :: p' => pop_before_commit popped p'
  end.

(** the session is in the store before the response leaves *)
Fixpoint insert_before_respond (inserted : bool) (p : list op) : bool :=
  match p with
  | [] => true
  | StoreInsert :: p' => insert_before_respond true p'
  | Respond :: p' => inserted && insert_before_respond inserted p'
  | _ :: p' => insert_before_respond inserted p'
  end.

(** program order: in every prefix of a program satisfying [insert_before_respond], a Respond is preceded by a StoreInsert *)
Lemma insert_before_respond_prefix p : forall ins, insert_before_respond ins p = true ->
  forall pre post, p = pre ++ Respond :: post -> ins = true \/ In StoreInsert pre.
Proof.
  induction p as [|o p IH]; intros ins H pre post E; [destruct pre; discriminate|].
  destruct pre as [|o' pre]; cbn [app] in E; inversion E; subst.
  - cbn [insert_before_respond] in H. apply andb_true_iff in H as [H _]. left. exact H.
  - destruct o'; cbn [insert_before_respond] in H; try (destruct (IH _ H pre post eq_refl) as [Hi|Hi]; [left; exact Hi|right; right; exact Hi]).
    + destruct (IH _ H pre post eq_refl) as [Hi|Hi]; [right; left; reflexivity|right; right; exact Hi].
    + apply andb_true_iff in H as [Hins H]. left. exact Hins.
Qed.
