(** Sequential model of chokan-server: the six RPC methods plus the internal events (the dictionary
    updater applying a queued entry, the periodic save, a restart on the saved files).

    Handlers are the library models composed as in method.rs / main.rs / user_pref.rs.  The trie in front
    of the standard map is represented by the set of readings it accepted (justified by C04 / C03_with_trie);
    HashMaps are association lists in insertion order.  A step returns
      [Ok (s', resp)]   the request is answered,
      [Err]             the handler panics BEFORE taking any lock or sending anything (RegisterWord{Guess} on an
                        inconsistent pair): the request fails, nothing else happens,
      [Panic]           a panic while a mutex is held or inside a background task (poisoning / a dead task). *)
From Chokan Require Import Base.Str Base.ListUtil Dic.Speech Gen.SpeechNames Dic.PegAlt Gen.DicGrammar Dic.TextFormat
  Dic.ConjRule Gen.ConjTables Dic.Conjugation Kkc.Context Gen.ScoreTables Kkc.Lattice Kkc.Score Kkc.Heap Kkc.Search Kkc.Affix
  Gen.KanaTable Kana.KanaAlpha.
Local Open Scope Z_scope.

(** learned counts with their time stamps: (context, written form) -> (count, last occurrence in ms) *)
Definition ftable := list (context * str * (Z * Z)).

Fixpoint ft_get (f : ftable) (c : context) (w : str) : option (Z * Z) :=
  match f with
  | [] => None
  | (c', w', v) :: f' => if context_eqb c c' && str_eqb w w' then Some v else ft_get f' c w
  end.

(** ConversionFrequency::update_word *)
Fixpoint ft_bump (f : ftable) (c : context) (w : str) (now : Z) : ftable :=
  match f with
  | [] => [(c, w, (1, now))]
  | (c', w', (n, last)) :: f' =>
    if context_eqb c c' && str_eqb w w' then (c', w', (n + 1, now)) :: f' else (c', w', (n, last)) :: ft_bump f' c w now
  end.

Definition EXPIRATION : Z := 3 * 24 * 60 * 60 * 1000.

(** ConversionFrequency::expire_frequencies: entries whose last use is MORE than [expiration] before [now] are dropped *)
Definition ft_expire (f : ftable) (now expiration : Z) : ftable :=
  filter (fun e => negb (expiration <? now - snd (snd e))) f.

(** the view the scoring functions use *)
Definition ft_freq (f : ftable) : freq := map (fun e => (fst (fst e), snd (fst e), fst (snd e))) f.

Record session := { ss_id : nat; ss_ctx : context; ss_cands : list cand }.

Record sstate := {
  s_alpha : list N;                 (* the trie alphabet *)
  s_std : list word;                (* standard map, insertion order *)
  s_keys : list str;                (* readings the standard trie accepted *)
  s_anc : list word;                (* ancillary map (all readings assumed inserted: built offline) *)
  s_tankan : list word;
  s_freq : ftable;
  s_user : list entry;              (* user dictionary *)
  s_sessions : list session;
  s_next : nat;                     (* next session number (uuids are renamed to issue order) *)
  s_queue : list entry              (* entries sent to the dictionary updater, not yet applied *)
}.

Definition in_alphabet (a : list N) (k : str) : bool := forallb (fun c => mem_chr c a) k.

(** the dictionary as the conversion engine sees it *)
Definition eff_dict (s : sstate) : dict :=
  {| d_std := filter (fun w => existsb (str_eqb (w_reading w)) (s_keys s)) (s_std s); d_anc := s_anc s |}.

Definition FUEL : nat := Z.to_nat 100000.
Definition NCAND : nat := 100%nat.

Inductive request :=
| GetCandidates (input : str) (ctx : context)          (* GetProperCandidates = ctx CProper *)
| GetTankan (input : str)
| UpdateFrequency (sid : option nat) (cid : str) (now : Z)     (* sid None = an id the server never issued *)
| RegisterGuess (reading w : str)
| RegisterNoun (proper : bool) (reading w : str)
| GetAlphabetic (input : str)
| ApplyEntry                                            (* internal: the updater takes one queued entry *)
| Restart.                                              (* internal: save, stop, start on the saved files *)

Inductive response :=
| RCands (sid : nat) (texts : list str)
| RTexts (texts : list str)
| RUnit
| RRejected.                        (* a JSON-RPC error object: the request is refused, nothing changes *)

(** char::is_whitespace (Unicode White_Space) or char::is_control (Cc) *)
Definition blank_or_control (c : N) : bool :=
  let c := Z.of_N c in
  (c <=? 31) || ((127 <=? c) && (c <=? 159)) || (c =? 32) || (c =? 160) || (c =? 5760) || ((8192 <=? c) && (c <=? 8202))
  || (c =? 8232) || (c =? 8233) || (c =? 8239) || (c =? 8287) || (c =? 12288).
Definition valid_param (s : str) : bool := negb (match s with [] => true | _ => false end) && forallb (fun c => negb (blank_or_control c)) s.

(** decimal rendering of candidate ids: "0", "1", .. *)
Fixpoint digits (fuel n : nat) (acc : str) : str :=
  match fuel with
  | O => acc
  | S fuel' => let d := N.of_nat (n mod 10 + 48) in
               if (n <? 10)%nat then d :: acc else digits fuel' (n / 10) (d :: acc)
  end.
Definition id_string (n : nat) : str := digits (S n) n [].

Fixpoint find_cand (cs : list cand) (i : nat) (cid : str) : option cand :=
  match cs with
  | [] => None
  | c :: cs' => if str_eqb (id_string i) cid then Some c else find_cand cs' (S i) cid
  end.

Fixpoint pop_session (ss : list session) (sid : nat) : option session * list session :=
  match ss with
  | [] => (None, [])
  | x :: ss' => if Nat.eqb (ss_id x) sid then (Some x, ss') else let '(r, rest) := pop_session ss' sid in (r, x :: rest)
  end.

(** merging the conjugated words of an entry into the standard dictionary (main.rs, both at start-up and in the updater) *)
Definition merge_words (s : sstate) (ws : list word) : sstate :=
  {| s_alpha := s_alpha s;
     s_std := s_std s ++ ws;
     s_keys := filter (in_alphabet (s_alpha s)) (map w_reading ws) ++ s_keys s;
     s_anc := s_anc s; s_tankan := s_tankan s; s_freq := s_freq s; s_user := s_user s;
     s_sessions := s_sessions s; s_next := s_next s; s_queue := s_queue s |}.

Definition set_user (s : sstate) (u : list entry) : sstate :=
  {| s_alpha := s_alpha s; s_std := s_std s; s_keys := s_keys s; s_anc := s_anc s; s_tankan := s_tankan s; s_freq := s_freq s;
     s_user := u; s_sessions := s_sessions s; s_next := s_next s; s_queue := s_queue s |}.
Definition set_queue (s : sstate) (q : list entry) : sstate :=
  {| s_alpha := s_alpha s; s_std := s_std s; s_keys := s_keys s; s_anc := s_anc s; s_tankan := s_tankan s; s_freq := s_freq s;
     s_user := s_user s; s_sessions := s_sessions s; s_next := s_next s; s_queue := q |}.
Definition set_freq_sessions (s : sstate) (f : ftable) (ss : list session) : sstate :=
  {| s_alpha := s_alpha s; s_std := s_std s; s_keys := s_keys s; s_anc := s_anc s; s_tankan := s_tankan s; s_freq := f;
     s_user := s_user s; s_sessions := ss; s_next := s_next s; s_queue := s_queue s |}.

Definition noun_entry (proper : bool) (reading w : str) : entry :=
  {| e_reading := reading; e_stem := w; e_speech := Noun (if proper then NProper else NCommon) |}.

(** the state a fresh server has after start-up on [base] with the given saved user data *)
Definition startup (base : sstate) (f : ftable) (user : list entry) : outcome sstate :=
  fold_left (fun acc e => obind acc (fun s => obind (conjugate e) (fun ws => Ok (merge_words s ws))))
            user
            (Ok {| s_alpha := s_alpha base; s_std := s_std base; s_keys := s_keys base; s_anc := s_anc base; s_tankan := s_tankan base;
                   s_freq := f; s_user := user; s_sessions := []; s_next := s_next base; s_queue := [] |}).

(** one step; [base] is the dictionary file the server was started on (needed by Restart) *)
Definition step_f (fuel : nat) (base : sstate) (s : sstate) (r : request) : outcome (sstate * response) :=
  match r with
  | GetCandidates input ctx =>
    match get_candidates fuel input (eff_dict s) ctx (ft_freq (s_freq s)) NCAND with
    | Ok (Some cs) =>
      let sess := {| ss_id := s_next s; ss_ctx := ctx; ss_cands := cs |} in
      Ok ({| s_alpha := s_alpha s; s_std := s_std s; s_keys := s_keys s; s_anc := s_anc s; s_tankan := s_tankan s; s_freq := s_freq s;
             s_user := s_user s; s_sessions := s_sessions s ++ [sess]; s_next := S (s_next s); s_queue := s_queue s |},
          RCands (s_next s) (map cand_text cs))
    | _ => Panic           (* a panic inside get_candidates happens under both mutexes *)
    end
  | GetTankan input => Ok (s, RTexts (map w_word (lookup (s_tankan s) input)))
  | UpdateFrequency sid cid now =>
    match sid with
    | None => Ok (s, RUnit)
    | Some sid =>
      let '(found, rest) := pop_session (s_sessions s) sid in
      match found with
      | None => Ok (s, RUnit)
      | Some sess =>
        match find_cand (ss_cands sess) 0 cid with
        | None => Ok (set_freq_sessions s (s_freq s) rest, RUnit)
        | Some c =>
          let f1 := match chain_independent (c_chain c) with
                    | Some w => ft_expire (ft_bump (s_freq s) (ss_ctx sess) w now) now EXPIRATION
                    | None => s_freq s
                    end in
          let s1 := set_freq_sessions s f1 rest in
          match affix_of (c_chain c) with
          | Some (w, reading) =>
            let e := noun_entry false reading w in
            Ok (set_queue s1 (s_queue s1 ++ [e]), RUnit)
          | None => Ok (s1, RUnit)
          end
        end
      end
    end
  | RegisterGuess reading w =>
    if negb (valid_param reading && valid_param w) then Ok (s, RRejected)
    else match new_guessed reading w with
         | Ok e => Ok (set_queue s (s_queue s ++ [e]), RUnit)
         | _ => Err
         end
  | RegisterNoun proper reading w =>
    if negb (valid_param reading && valid_param w) then Ok (s, RRejected)
    else Ok (set_queue s (s_queue s ++ [noun_entry proper reading w]), RUnit)
  | GetAlphabetic input =>
    match convert ka_table ka_doubling ka_sokuon_spelling input with
    | Some r => Ok (s, RTexts [r])
    | None => Panic
    end
  | ApplyEntry =>
    match s_queue s with
    | [] => Ok (s, RUnit)
    | e :: q =>
      match conjugate e with
      | Ok ws => Ok (merge_words (set_queue (set_user s (s_user s ++ [e])) q) ws, RUnit)
      | _ => Panic          (* the updater dies while holding the dictionary mutex *)
      end
    end
  | Restart =>
    (* save = (frequency table, printed user entries); restore = read the printed entries back *)
    obind (startup base (s_freq s) (read_all (write_all (s_user s)))) (fun s' =>
    Ok ({| s_alpha := s_alpha s'; s_std := s_std s'; s_keys := s_keys s'; s_anc := s_anc s'; s_tankan := s_tankan s'; s_freq := s_freq s';
           s_user := s_user s'; s_sessions := []; s_next := s_next s; s_queue := [] |}, RUnit))
  end.

Definition step := step_f FUEL.

(** a server state from its dictionary sources (each side: the entries of the text dictionary, conjugated) *)
Definition words_of (es : list entry) : outcome (list word) :=
  fold_left (fun acc e => obind acc (fun ws => obind (conjugate e) (fun w => Ok (ws ++ w)))) es (Ok []).

Definition init_state (alpha : list N) (std anc tankan : list word) : sstate :=
  {| s_alpha := alpha; s_std := std; s_keys := filter (in_alphabet alpha) (map w_reading std); s_anc := filter (fun w => in_alphabet alpha (w_reading w)) anc;
     s_tankan := tankan; s_freq := []; s_user := []; s_sessions := []; s_next := O; s_queue := [] |}.

Fixpoint run (base s : sstate) (rs : list request) : outcome (sstate * list (outcome response)) :=
  match rs with
  | [] => Ok (s, [])
  | r :: rs' =>
    match step base s r with
    | Ok (s', resp) => match run base s' rs' with Ok (s'', l) => Ok (s'', Ok resp :: l) | o => o end
    | Err => match run base s rs' with Ok (s'', l) => Ok (s'', Err :: l) | o => o end
    | Panic => Panic
    end
  end.
