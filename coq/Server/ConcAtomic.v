(** Critical sections are exclusive (C14): in every reachable configuration of any number of handler instances and the
    background tasks, a thread about to execute an operation on shared data holds the mutexes guarding that data, and
    no other thread holds any of them.  Hence, while a conversion holds the dictionary and the preference mutex, no
    other thread reads or commits dictionary / learned data: its read is one atomic snapshot, and the commits on each
    mutex are totally ordered (the linearisation points are the ReadDictFreq step and each Commit step). *)
From Chokan Require Import Base.ListUtil Server.Protocol Server.ConcModel Server.ConcProofs.
From Coq Require Import Lia Bool.

(** the mutexes guarding the data an operation touches *)
Definition guards (o : op) : list mutex :=
  match o with
  | ReadDictFreq => [MDict; MPref]
  | ReadDict | CommitWord => [MDict]
  | CommitFreq | LearnCompound | CommitUserEntry | SaveFiles => [MPref]
  | StoreInsert | StorePop => [MStore]
  | _ => []
  end.

Lemma read_atomic_head h o r : read_atomic h (o :: r) = true -> forall m, In m (guards o) -> holds h m = true.
Proof.
  intros H m Hm. destruct o; cbn [guards In] in Hm; try (destruct Hm; fail); cbn [read_atomic] in H.
  - apply andb_true_iff in H as [H _]. apply andb_true_iff in H as [H1 H2]. destruct Hm as [<-|[<-|[]]]; assumption.
  - apply andb_true_iff in H as [H _]. destruct Hm as [<-|[]]; assumption.
  - apply andb_true_iff in H as [H _]. destruct Hm as [<-|[]]; assumption.
  - apply andb_true_iff in H as [H _]. destruct Hm as [<-|[]]; assumption.
  - apply andb_true_iff in H as [H _]. destruct Hm as [<-|[]]; assumption.
  - apply andb_true_iff in H as [H _]. destruct Hm as [<-|[]]; assumption.
  - apply andb_true_iff in H as [H _]. destruct Hm as [<-|[]]; assumption.
  - apply andb_true_iff in H as [H _]. destruct Hm as [<-|[]]; assumption.
  - apply andb_true_iff in H as [H _]. destruct Hm as [<-|[]]; assumption.
Qed.

Lemma read_atomic_tail h o r : read_atomic h (o :: r) = true ->
  read_atomic (match o with Acq m => m :: h | Rel m => filter (fun x => negb (mutex_eqb m x)) h | _ => h end) r = true.
Proof.
  intro H. destruct o; cbn [read_atomic] in H; try exact H; try (apply andb_true_iff in H as [_ H]; exact H).
Qed.

Section Atomic.
  Variable rank : mutex -> nat.
  Variables (progs loops : list (list op)).
  Hypothesis progs_ok : forallb (prog_ok rank []) progs = true.
  Hypothesis loops_ok : forallb (prog_ok rank []) loops = true.
  Hypothesis progs_guarded : forallb (read_atomic []) progs = true.
  Hypothesis loops_guarded : forallb (read_atomic []) loops = true.

  Definition thread_guarded (t : thread) : Prop :=
    read_atomic (th_held t) (th_rest t) = true /\ match th_loop t with Some p => read_atomic [] p = true | None => True end.

  Lemma step_thread_guarded t : thread_ok rank t -> thread_guarded t -> thread_guarded (step_thread t).
  Proof.
    intros [Hok _] [H1 H2]. unfold step_thread. destruct (th_rest t) as [|o r] eqn:E.
    - destruct (th_loop t) as [p|] eqn:El; [|split; [rewrite E; exact H1|rewrite El; exact I]].
      cbn [prog_ok] in Hok. destruct (th_held t) eqn:Eh; [|discriminate]. split; cbn; assumption.
    - pose proof (read_atomic_tail _ _ _ H1) as Ht. destruct o; split; cbn [th_held th_rest th_loop]; assumption.
  Qed.

  Lemma reach_guarded ts : reach progs loops ts -> Forall thread_guarded ts.
  Proof.
    intro Hr. pose proof (reach_inv rank progs loops progs_ok loops_ok) as Hinv.
    induction Hr as [|ts p Hr IH Hp|ts i t Hr IH Hn He].
    - apply Forall_forall. intros t Ht. apply in_map_iff in Ht as (p & <- & Hp). rewrite forallb_forall in loops_guarded. split; cbn; auto.
    - apply Forall_app. split; [assumption|]. constructor; [|constructor]. rewrite forallb_forall in progs_guarded. split; cbn; auto.
    - destruct (Hinv ts Hr) as [Hok _]. apply Forall_forall. intros x Hx. apply In_nth_error in Hx as [k Hk].
      rewrite Forall_forall in IH, Hok.
      destruct (Nat.eq_dec i k) as [->|Hne].
      + rewrite nth_error_upd_nth_eq, Hn in Hk. inversion Hk; subst.
        apply step_thread_guarded; [apply Hok|apply IH]; eapply nth_error_In; eassumption.
      + rewrite nth_error_upd_nth_neq in Hk by assumption. apply IH. eapply nth_error_In; eassumption.
  Qed.

  (** a thread about to touch shared data holds its guards, and nobody else holds any of them *)
  Theorem guarded_exclusive ts j t o r m : reach progs loops ts -> nth_error ts j = Some t -> th_rest t = o :: r -> In m (guards o) ->
    holds (th_held t) m = true /\ forall i t', i <> j -> nth_error ts i = Some t' -> holds (th_held t') m = false.
  Proof.
    intros Hr Hj E Hm. pose proof (reach_guarded ts Hr) as Hg. rewrite Forall_forall in Hg.
    destruct (Hg t (nth_error_In _ _ Hj)) as [Hg1 _]. rewrite E in Hg1.
    pose proof (read_atomic_head _ _ _ Hg1 m Hm) as Hh. split; [exact Hh|].
    intros i t' Hne Hi. destruct (reach_inv rank progs loops progs_ok loops_ok ts Hr) as [_ Hex].
    exact (Hex j i t t' m Hj Hi (fun e => Hne (eq_sym e)) Hh).
  Qed.

  (** while thread i holds m, no other thread is at an operation guarded by m: sections on the same mutex never overlap *)
  Corollary section_exclusive ts i ti j tj o r m : reach progs loops ts -> i <> j -> nth_error ts i = Some ti -> holds (th_held ti) m = true ->
    nth_error ts j = Some tj -> th_rest tj = o :: r -> ~ In m (guards o).
  Proof.
    intros Hr Hne Hi Hh Hj E Hm. destruct (guarded_exclusive ts j tj o r m Hr Hj E Hm) as [_ Hx].
    rewrite (Hx i ti Hne Hi) in Hh. discriminate.
  Qed.

  (** in particular: while a conversion is at its read (holding dictionary and preferences), no other thread is at a
      read or a commit of dictionary or learned data *)
  Corollary read_is_snapshot ts i ti r j tj o r' : reach progs loops ts -> i <> j ->
    nth_error ts i = Some ti -> th_rest ti = ReadDictFreq :: r -> nth_error ts j = Some tj -> th_rest tj = o :: r' ->
    ~ In MDict (guards o) /\ ~ In MPref (guards o).
  Proof.
    intros Hr Hne Hi Ei Hj Ej.
    destruct (guarded_exclusive ts i ti ReadDictFreq r MDict Hr Hi Ei (or_introl eq_refl)) as [Hd _].
    destruct (guarded_exclusive ts i ti ReadDictFreq r MPref Hr Hi Ei (or_intror (or_introl eq_refl))) as [Hp _].
    split; [exact (section_exclusive ts i ti j tj o r' MDict Hr Hne Hi Hd Hj Ej)|exact (section_exclusive ts i ti j tj o r' MPref Hr Hne Hi Hp Hj Ej)].
  Qed.
End Atomic.
