From Chokan Require Import Base.Str Base.ListUtil Server.Protocol Server.CrashModel.
From Coq Require Import Lia.

Section Crash.
  Variables (nf nd : str).          (* the new frequency bytes and the new dictionary text *)
  Variable s0 : fsys.               (* the files before the save *)

  (** what a final file may contain at any instant: its previous content or the complete new one *)
  Definition fin_ok (s : fsys) : Prop :=
    (s FinFreq = s0 FinFreq \/ s FinFreq = Some nf) /\ (s FinDic = s0 FinDic \/ s FinDic = Some nd).

  Definition tmp_inv (sf sd : tstat) (s : fsys) : Prop :=
    (sf = TWritten -> s TmpFreq = Some nf) /\ (sd = TWritten -> s TmpDic = Some nd).

  Lemma fset_same s f v : fset s f v f = v.
  Proof. unfold fset. destruct f; reflexivity. Qed.
  Lemma fset_other s f v g : fname_eqb g f = false -> fset s f v g = s g.
  Proof. unfold fset. intros ->. reflexivity. Qed.

  Definition is_tmp (f : fname) : bool := match f with TmpFreq | TmpDic => true | _ => false end.

  Lemma fin_ok_fset_tmp s f v : is_tmp f = true -> fin_ok s -> fin_ok (fset s f v).
  Proof. intros Ht [H1 H2]. unfold fin_ok. destruct f; try discriminate; rewrite !fset_other by reflexivity; auto. Qed.

  Lemma crash_states_cons s o rest c : In c (crash_states nf nd s (o :: rest)) ->
    c = s \/ (exists f v, o = FWrite f /\ c = fset s f v) \/ In c (crash_states nf nd (exec_op nf nd s o) rest).
  Proof.
    change (crash_states nf nd s (o :: rest)) with
      (s :: (match o with
             | FWrite f => map (fun k => fset s f (Some (firstn k (data_of nf nd f)))) (seq 0 (S (length (data_of nf nd f))))
             | _ => []
             end) ++ crash_states nf nd (exec_op nf nd s o) rest).
    intros [<-|H]; [left; reflexivity|]. apply in_app_or in H as [H|H]; [|right; right; exact H].
    destruct o as [f|f|a b|f]; [destruct H| |destruct H|destruct H]. apply in_map_iff in H as (k & <- & _). right. left. eauto.
  Qed.

  Theorem crash_safe prog : forall sf sd s, discipline sf sd prog = true -> fin_ok s -> tmp_inv sf sd s ->
    forall c, In c (crash_states nf nd s prog) -> fin_ok c.
  Proof.
    induction prog as [|o rest IH]; intros sf sd s Hd Hfin Htmp c Hc.
    - destruct Hc as [<-|[]]. assumption.
    - apply crash_states_cons in Hc as [->|[(f & v & -> & ->)|Hc]]; [assumption| |].
      + (* death inside a write: only a temporary file is touched *)
        apply fin_ok_fset_tmp; [|assumption]. destruct f; cbn [discipline] in Hd; try discriminate; reflexivity.
      + destruct Htmp as [H1 H2]. destruct o as [f|f|a b|f]; cbn [discipline] in Hd.
        * destruct f; try discriminate.
          -- apply (IH TCreated sd (exec_op nf nd s (FCreate TmpFreq))); [exact Hd|apply fin_ok_fset_tmp; [reflexivity|assumption]| |exact Hc].
             split; intro E; [discriminate|]. cbn [exec_op]. rewrite fset_other by reflexivity. auto.
          -- apply (IH sf TCreated (exec_op nf nd s (FCreate TmpDic))); [exact Hd|apply fin_ok_fset_tmp; [reflexivity|assumption]| |exact Hc].
             split; intro E; [|discriminate]. cbn [exec_op]. rewrite fset_other by reflexivity. auto.
        * destruct f; try discriminate.
          -- assert (Hd' : discipline TWritten sd rest = true) by (destruct sf; try discriminate; exact Hd).
             apply (IH TWritten sd (exec_op nf nd s (FWrite TmpFreq))); [exact Hd'|apply fin_ok_fset_tmp; [reflexivity|assumption]| |exact Hc].
             split; intro E; cbn [exec_op data_of]; [rewrite fset_same; reflexivity|rewrite fset_other by reflexivity; auto].
          -- assert (Hd' : discipline sf TWritten rest = true) by (destruct sd; try discriminate; exact Hd).
             apply (IH sf TWritten (exec_op nf nd s (FWrite TmpDic))); [exact Hd'|apply fin_ok_fset_tmp; [reflexivity|assumption]| |exact Hc].
             split; intro E; cbn [exec_op data_of]; [rewrite fset_other by reflexivity; auto|rewrite fset_same; reflexivity].
        * destruct a, b; try discriminate.
          -- destruct sf; try discriminate. specialize (H1 eq_refl).
             apply (IH TNone sd (exec_op nf nd s (FRename TmpFreq FinFreq))); [exact Hd| | |exact Hc].
             ++ destruct Hfin as [Hf Hdc]. unfold fin_ok. cbn [exec_op]. split.
                ** right. rewrite fset_other by reflexivity. rewrite fset_same. exact H1.
                ** rewrite !fset_other by reflexivity. exact Hdc.
             ++ split; intro E; [discriminate|]. cbn [exec_op]. rewrite !fset_other by reflexivity. auto.
          -- destruct sd; try discriminate. specialize (H2 eq_refl).
             apply (IH sf TNone (exec_op nf nd s (FRename TmpDic FinDic))); [exact Hd| | |exact Hc].
             ++ destruct Hfin as [Hf Hdc]. unfold fin_ok. cbn [exec_op]. split.
                ** rewrite !fset_other by reflexivity. exact Hf.
                ** right. rewrite fset_other by reflexivity. rewrite fset_same. exact H2.
             ++ split; intro E; [|discriminate]. cbn [exec_op]. rewrite !fset_other by reflexivity. auto.
        * (* removing a temporary file *)
          destruct f; try discriminate.
          -- apply (IH TNone sd (exec_op nf nd s (FRemove TmpFreq))); [exact Hd|apply fin_ok_fset_tmp; [reflexivity|assumption]| |exact Hc].
             split; intro E; [discriminate|]. cbn [exec_op]. rewrite fset_other by reflexivity. auto.
          -- apply (IH sf TNone (exec_op nf nd s (FRemove TmpDic))); [exact Hd|apply fin_ok_fset_tmp; [reflexivity|assumption]| |exact Hc].
             split; intro E; [|discriminate]. cbn [exec_op]. rewrite fset_other by reflexivity. auto.
  Qed.

  (** from the files as they were, every crash state of a disciplined save shows each final file old or new *)
  Corollary crash_safe_from_start prog : discipline TNone TNone prog = true ->
    forall c, In c (crash_states nf nd s0 prog) -> fin_ok c.
  Proof.
    intros Hd c Hc. eapply (crash_safe prog TNone TNone s0); try eassumption.
    - split; left; reflexivity.
    - split; intro E; discriminate.
  Qed.
End Crash.
