(** A multi-thread async runtime with k worker threads: tasks that never yield keep their worker for ever.
    New work (accepting a connection, running an RPC handler) needs a worker that is not kept (C13). *)
From Chokan Require Import Base.ListUtil Server.Protocol.
From Coq Require Import Lia Arith.

(** workers kept for ever by b never-yielding tasks once they have all been scheduled (each takes one worker while
    one is free) *)
Definition kept (k b : nat) : nat := Nat.min k b.
Definition responsive (k b : nat) : bool := kept k b <? k.

Lemma responsive_iff k b : responsive k b = true <-> (b < k)%nat.
Proof. unfold responsive, kept. rewrite Nat.ltb_lt. lia. Qed.

(** never-yielding tasks on async workers, per the extracted spawn sites: async spawn + blocking body *)
Definition blocking_async (tasks : list (spawn_kind * bool * list op)) : nat :=
  length (filter (fun t => match fst (fst t) with SpawnAsync => snd (fst t) | SpawnBlocking => false end) tasks).
