(** A save as a program of file operations, and every state a process death can leave behind (C09).
    A death may happen before any operation and inside a write after any number of bytes; a rename is atomic;
    only process death is modelled (no power loss, no reordering below the VFS), as the property says. *)
From Chokan Require Import Base.Str Base.ListUtil Server.Protocol.

Definition fname_eqb (a b : fname) : bool :=
  match a, b with TmpFreq, TmpFreq | FinFreq, FinFreq | TmpDic, TmpDic | FinDic, FinDic => true | _, _ => false end.

Definition fsys := fname -> option str.
Definition fset (s : fsys) (f : fname) (v : option str) : fsys := fun g => if fname_eqb g f then v else s g.

(** the bytes a complete write puts into a file *)
Definition data_of (newfreq newdic : str) (f : fname) : str :=
  match f with TmpFreq | FinFreq => newfreq | TmpDic | FinDic => newdic end.

Definition exec_op (nf nd : str) (s : fsys) (o : fop) : fsys :=
  match o with
  | FCreate f => fset s f (Some [])
  | FWrite f => fset s f (Some (data_of nf nd f))
  | FRename a b => fset (fset s b (s a)) a None
  | FRemove f => fset s f None
  end.

(** all states in which the process may die while running [prog] from [s] *)
Fixpoint crash_states (nf nd : str) (s : fsys) (prog : list fop) : list fsys :=
  s :: match prog with
       | [] => []
       | o :: rest =>
         (match o with
          | FWrite f => map (fun k => fset s f (Some (firstn k (data_of nf nd f)))) (seq 0 (S (length (data_of nf nd f))))
          | _ => []
          end) ++ crash_states nf nd (exec_op nf nd s o) rest
       end.

(** rename discipline: the two final files are never created or written in place; a final file is only ever the
    target of a rename from its own temporary file, after that file was created and completely written *)
Inductive tstat := TNone | TCreated | TWritten.
Definition tmp_of (f : fname) : option fname := match f with FinFreq => Some TmpFreq | FinDic => Some TmpDic | _ => None end.

Fixpoint discipline (sf sd : tstat) (prog : list fop) : bool :=
  match prog with
  | [] => true
  | FCreate TmpFreq :: r => discipline TCreated sd r
  | FCreate TmpDic :: r => discipline sf TCreated r
  | FWrite TmpFreq :: r => match sf with TCreated | TWritten => discipline TWritten sd r | TNone => false end
  | FWrite TmpDic :: r => match sd with TCreated | TWritten => discipline sf TWritten r | TNone => false end
  | FRename TmpFreq FinFreq :: r => match sf with TWritten => discipline TNone sd r | _ => false end
  | FRename TmpDic FinDic :: r => match sd with TWritten => discipline sf TNone r | _ => false end
  | FRemove TmpFreq :: r => discipline TNone sd r          (* only a temporary file may be removed *)
  | FRemove TmpDic :: r => discipline sf TNone r
  | _ => false
  end.
