(** What a confirmation changes (C06), what a registration adds (C07), what a restart keeps (C08). *)
From Chokan Require Import Base.Str Base.ListUtil Dic.Speech Gen.SpeechNames Dic.PegAlt Gen.DicGrammar Dic.TextFormat Dic.TextFormatProofs Dic.RestoreProofs
  Dic.ConjRule Gen.ConjTables Dic.Conjugation Dic.ConjProofs Kkc.Context Gen.ScoreTables Kkc.Lattice Kkc.Score Kkc.Heap Kkc.Search Kkc.Paths Kkc.Affix
  Kkc.ForwardProofs Kkc.LatticePaths Kkc.LatticeMono Kkc.ContextProofs Kkc.Compose Kkc.Compose2 Server.ServerModel Server.ServerProofs.
From Chokan Require Import Kana.KanaAlpha.
From Chokan Require Props.C03.
From Coq Require Import Lia.
Local Open Scope Z_scope.

(** * C06: the frequency table *)

Definition fkey (e : context * str * (Z * Z)) : context * str := fst e.
Definition key_eqb (c : context) (w : str) (c' : context) (w' : str) : bool := context_eqb c c' && str_eqb w w'.

Lemma context_eqb_eq c c' : context_eqb c c' = true <-> c = c'.
Proof. destruct c, c'; cbn; split; intro H; try discriminate; reflexivity. Qed.

Lemma key_eqb_eq c w c' w' : key_eqb c w c' w' = true <-> (c, w) = (c', w').
Proof.
  unfold key_eqb. rewrite andb_true_iff, context_eqb_eq, str_eqb_spec. split; [intros [-> ->]; reflexivity|intro H; inversion H; auto].
Qed.

(** the bumped key: count + 1 (1 when new), stamped now *)
Lemma ft_get_bump_same f c w now :
  ft_get (ft_bump f c w now) c w = Some (match ft_get f c w with Some (n, _) => n + 1 | None => 1 end, now).
Proof.
  induction f as [|[[c' w'] [n l]] f IH]; cbn [ft_bump ft_get].
  - assert (H : context_eqb c c && str_eqb w w = true) by (apply key_eqb_eq; reflexivity). rewrite H. reflexivity.
  - destruct (context_eqb c c' && str_eqb w w') eqn:E; cbn [ft_get]; rewrite E; [reflexivity|exact IH].
Qed.

(** every other key is untouched *)
Lemma ft_get_bump_other f c w now c2 w2 : (c2, w2) <> (c, w) -> ft_get (ft_bump f c w now) c2 w2 = ft_get f c2 w2.
Proof.
  intro Hne. induction f as [|[[c' w'] [n l]] f IH]; cbn [ft_bump ft_get].
  - destruct (context_eqb c2 c && str_eqb w2 w) eqn:E; [apply key_eqb_eq in E; congruence|reflexivity].
  - destruct (context_eqb c c' && str_eqb w w') eqn:E; cbn [ft_get].
    + apply key_eqb_eq in E. inversion E; subst. destruct (context_eqb c2 c' && str_eqb w2 w') eqn:E2; [apply key_eqb_eq in E2; congruence|reflexivity].
    + destruct (context_eqb c2 c' && str_eqb w2 w'); [reflexivity|exact IH].
Qed.

Definition keys_unique (f : ftable) : Prop := NoDup (map fkey f).

Lemma ft_bump_keys f c w now : keys_unique f -> keys_unique (ft_bump f c w now) /\
  (forall k, In k (map fkey (ft_bump f c w now)) -> In k (map fkey f) \/ k = (c, w)).
Proof.
  unfold keys_unique. induction f as [|[[c' w'] [n l]] f IH]; intro Hu; cbn [ft_bump].
  - split; [cbn; constructor; [intros []|constructor]|intros k Hk; cbn in Hk; destruct Hk as [<-|[]]; right; reflexivity].
  - inversion Hu as [|? ? Hnin Hu']; subst. destruct (context_eqb c c' && str_eqb w w') eqn:E.
    + split; [cbn [map fkey fst]; constructor; assumption|intros k Hk; left; exact Hk].
    + destruct (IH Hu') as [IH1 IH2]. split.
      * cbn [map fkey fst]. constructor; [|assumption]. intro Hin. destruct (IH2 _ Hin) as [H|H]; [contradiction|].
        inversion H; subst. assert (context_eqb c c && str_eqb w w = true) by (apply key_eqb_eq; reflexivity). congruence.
      * intros k [<-|Hk]; [left; left; reflexivity|]. destruct (IH2 k Hk); [left; right; assumption|right; assumption].
Qed.

Lemma ft_get_in f c w v : ft_get f c w = Some v -> In (c, w, v) f.
Proof.
  induction f as [|[[c' w'] v'] f IH]; cbn [ft_get]; [discriminate|].
  destruct (context_eqb c c' && str_eqb w w') eqn:E; [apply key_eqb_eq in E; inversion E; subst; intro H; inversion H; left; reflexivity|intro H; right; auto].
Qed.

Lemma ft_get_unique f c w v : keys_unique f -> In (c, w, v) f -> ft_get f c w = Some v.
Proof.
  unfold keys_unique. induction f as [|[[c' w'] v'] f IH]; intros Hu Hin; [destruct Hin|]. destruct Hin as [H|H]; cbn [ft_get].
  - inversion H; subst. assert (E : context_eqb c c && str_eqb w w = true) by (apply key_eqb_eq; reflexivity). rewrite E. reflexivity.
  - inversion Hu as [|? ? Hnin Hu']; subst. destruct (context_eqb c c' && str_eqb w w') eqn:E.
    + apply key_eqb_eq in E. inversion E; subst. exfalso. apply Hnin. apply (in_map fkey) in H. exact H.
    + apply IH; assumption.
Qed.

(** expiry keeps exactly the entries used within the period *)
Lemma ft_get_expire f now ex c w : keys_unique f ->
  ft_get (ft_expire f now ex) c w = match ft_get f c w with Some (n, l) => if ex <? now - l then None else Some (n, l) | None => None end.
Proof.
  intro Hu. destruct (ft_get f c w) as [[n l]|] eqn:E.
  - apply ft_get_in in E. destruct (ex <? now - l) eqn:Ex.
    + destruct (ft_get (ft_expire f now ex) c w) as [v|] eqn:E2; [|reflexivity]. exfalso.
      apply ft_get_in in E2. unfold ft_expire in E2. apply filter_In in E2 as [E2 Hp].
      pose proof (ft_get_unique f c w v Hu E2) as H1. pose proof (ft_get_unique f c w (n, l) Hu E) as H2. rewrite H1 in H2. inversion H2; subst.
      cbn [snd] in Hp. rewrite Ex in Hp. discriminate.
    + apply ft_get_unique.
      * unfold keys_unique, ft_expire. clear -Hu. induction f as [|x f IH]; [constructor|]. inversion Hu as [|? ? Hn Hu']; subst.
        cbn [filter]. destruct (negb _); [|apply IH; assumption]. cbn [map]. constructor; [|apply IH; assumption].
        intro Hin. apply Hn. apply in_map_iff in Hin as (y & Hy & Hin). apply filter_In in Hin as [Hin _]. apply in_map_iff. exists y; auto.
      * unfold ft_expire. apply filter_In. split; [assumption|]. cbn [snd]. rewrite Ex. reflexivity.
  - destruct (ft_get (ft_expire f now ex) c w) as [v|] eqn:E2; [|reflexivity]. exfalso.
    apply ft_get_in in E2. unfold ft_expire in E2. apply filter_In in E2 as [E2 _]. rewrite (ft_get_unique f c w v Hu E2) in E. discriminate.
Qed.

(** the confirmation of a live session's candidate: exactly one count rises by one; every other key keeps its
    value unless it has not been used for more than three days *)
Theorem confirm_exact f c w now : keys_unique f -> 0 <= EXPIRATION ->
  let f' := ft_expire (ft_bump f c w now) now EXPIRATION in
  ft_get f' c w = Some (match ft_get f c w with Some (n, _) => n + 1 | None => 1 end, now) /\
  (forall c2 w2, (c2, w2) <> (c, w) ->
     ft_get f' c2 w2 = match ft_get f c2 w2 with Some (n, l) => if EXPIRATION <? now - l then None else Some (n, l) | None => None end) /\
  keys_unique f'.
Proof.
  intros Hu Hex. cbv zeta. destruct (ft_bump_keys f c w now Hu) as [Hu' _]. split; [|split].
  - rewrite (ft_get_expire _ now EXPIRATION c w Hu'), ft_get_bump_same.
    replace (now - now) with 0 by lia. assert (E : (EXPIRATION <? 0) = false) by (apply Z.ltb_ge; assumption). rewrite E. reflexivity.
  - intros c2 w2 Hne. rewrite (ft_get_expire _ now EXPIRATION c2 w2 Hu'), (ft_get_bump_other f c w now c2 w2 Hne). reflexivity.
  - unfold keys_unique, ft_expire. clear -Hu'. induction (ft_bump f c w now) as [|x l IH]; [constructor|]. inversion Hu' as [|? ? Hn Hu2]; subst.
    cbn [filter]. destruct (negb _); [|apply IH; assumption]. cbn [map]. constructor; [|apply IH; assumption].
    intro Hin. apply Hn. apply in_map_iff in Hin as (y & Hy & Hin). apply filter_In in Hin as [Hin _]. apply in_map_iff. exists y; auto.
Qed.

(** unknown or consumed sessions and unknown candidate ids change no count *)
Theorem confirm_unknown_unchanged fuel base s sid cid now s' resp :
  step_f fuel base s (UpdateFrequency sid cid now) = Ok (s', resp) ->
  (sid = None \/ (exists i, sid = Some i /\ (fst (pop_session (s_sessions s) i) = None
                                          \/ exists sess, fst (pop_session (s_sessions s) i) = Some sess /\ find_cand (ss_cands sess) 0 cid = None))) ->
  s_freq s' = s_freq s /\ s_user s' = s_user s /\ s_queue s' = s_queue s.
Proof.
  cbn [step_f]. intros H [->|(i & -> & Hc)]; [inversion H; auto|].
  destruct (pop_session (s_sessions s) i) as [found rest] eqn:Ep. cbn [fst] in Hc.
  destruct Hc as [->|(sess & -> & Hf)]; [inversion H; auto|]. rewrite Hf in H. inversion H. cbn. auto.
Qed.

(** * C06: learning only re-ranks *)

(** the (untruncated) candidate set does not depend on the learned counts *)
Theorem same_candidate_set : forall input d c f f' n n' fuel fuel' R R',
  fq_ok f -> fq_ok f' -> (1 <= n)%nat -> (1 <= n')%nat ->
  get_candidates fuel input d c f n = Ok (Some R) -> (length R < n)%nat ->
  get_candidates fuel' input d c f' n' = Ok (Some R') -> (length R' < n')%nat ->
  forall t, In t (map cand_text R) <-> In t (map cand_text R').
Proof.
  intros input d c f f' n n' fuel fuel' R R' Hf Hf' Hn Hn' HR Hl HR' Hl' t.
  assert (Hd : dict_le d d) by (split; apply incl_refl).
  assert (Hc : ctx_le c c) by (intros sp H; exact H).
  split; [exact (texts_subset input d d c c f f' n n' fuel fuel' R R' Hd Hc Hf Hf' Hn Hn' HR HR' Hl' t)|exact (texts_subset input d d c c f' f n' n fuel' fuel R' R Hd Hc Hf' Hf Hn' Hn HR' HR Hl t)].
Qed.

(** learned words after the head of a chain, counted with multiplicity *)
Fixpoint learned (ctx : context) (f : freq) (ch : list pnode) : Z :=
  match ch with
  | [] => 0
  | _ :: rest =>
    (match rest with
     | PNode n :: _ => match n_kind n with KWord w => freq_of f ctx (w_word w) | KVirtual _ => 0 end
     | _ => 0
     end) + learned ctx f rest
  end.

Lemma node_score_shift ctx f q :
  node_score ctx f q = node_score ctx [] q + match q with PNode n => match n_kind n with KWord w => freq_of f ctx (w_word w) | KVirtual _ => 0 end | _ => 0 end.
Proof. destruct q as [| |n]; cbn [node_score]; try lia. destruct (n_kind n); cbn [freq_of]; lia. Qed.

(** every path's score rises by count x occurrences of the learned words; connectability is unchanged *)
Theorem score_shift ctx f ch : fq_ok f ->
  (0 <= chain_score ctx [] ch <-> 0 <= chain_score ctx f ch) /\
  (0 <= chain_score ctx [] ch -> chain_score ctx f ch = chain_score ctx [] ch + learned ctx f ch).
Proof.
  intro Hf. assert (H0 : freq_ok []) by (intros c w; cbn; lia).
  split; [rewrite (connectable_edges ctx [] ch H0), (connectable_edges ctx f ch Hf); tauto|].
  induction ch as [|p ch IH]; [cbn; lia|]. destruct ch as [|q r]; [cbn; lia|].
  rewrite !chain_score_cons. intro H.
  apply sadd_nonneg_inv in H as (H1 & H2 & E1). apply sadd_nonneg_inv in H1 as (H3 & H4 & E2).
  specialize (IH H2). rewrite E1, E2. rewrite (node_score_shift ctx f q), IH.
  assert (Hl : 0 <= learned ctx f (q :: r)).
  { clear -Hf. induction (q :: r) as [|x l IHl]; [cbn; lia|]. cbn [learned]. destruct l as [|[| |n] l']; try lia.
    destruct (n_kind n); [pose proof (Hf ctx (w_word w))|]; lia. }
  change (learned ctx f (p :: q :: r)) with
    ((match q with PNode n => match n_kind n with KWord w => freq_of f ctx (w_word w) | KVirtual _ => 0 end | _ => 0 end) + learned ctx f (q :: r)).
  assert (Hq : 0 <= match q with PNode n => match n_kind n with KWord w => freq_of f ctx (w_word w) | KVirtual _ => 0 end | _ => 0 end).
  { destruct q as [| |n]; try lia. destruct (n_kind n); [apply Hf|lia]. }
  sadd_pos. lia.
Qed.

(** counts learned in one context never influence another: the answer depends on the table only through the
    counts of the context of the request *)
Lemma node_score_ext c f f' p : (forall w, freq_of f c w = freq_of f' c w) -> node_score c f p = node_score c f' p.
Proof. intro H. destruct p as [| |n]; cbn [node_score]; try reflexivity. destruct (n_kind n); [rewrite H|]; reflexivity. Qed.

Lemma fold_left_ext {A B} (g h : A -> B -> A) l a : (forall x y, g x y = h x y) -> fold_left g l a = fold_left h l a.
Proof. intro H. revert a; induction l as [|y l IH]; intro a; cbn; [reflexivity|]. rewrite H. apply IH. Qed.

Lemma best_score_ext c f f' cur prevs : (forall w, freq_of f c w = freq_of f' c w) -> best_score c f cur prevs = best_score c f' cur prevs.
Proof. intro H. unfold best_score. apply fold_left_ext. intros best p. rewrite (node_score_ext c f f' cur H). reflexivity. Qed.

Lemma forward_dp_ext c f f' g : (forall w, freq_of f c w = freq_of f' c w) -> forward_dp c f g = forward_dp c f' g.
Proof.
  intro H. unfold forward_dp. apply fold_left_ext. intros g0 i. apply fold_left_ext. intros g1 n.
  rewrite (best_score_ext c f f' _ _ H). reflexivity.
Qed.

Lemma expand_ext c f f' g cd : (forall w, freq_of f c w = freq_of f' c w) -> expand c f g cd = expand c f' g cd.
Proof. intro H. unfold expand. rewrite (node_score_ext c f f' (cand_head cd) H). reflexivity. Qed.

Lemma nbest_loop_ext c f f' g : (forall w, freq_of f c w = freq_of f' c w) ->
  forall fuel n q res seen, nbest_loop fuel c f g n q res seen = nbest_loop fuel c f' g n q res seen.
Proof.
  intro H. induction fuel as [|fuel IH]; intros n q res seen; [reflexivity|]. cbn [nbest_loop].
  destruct (heap_pop c_prio q) as [[cd q']|]; [|reflexivity].
  destruct (is_bos (cand_head cd)).
  - destruct (mem_str (cand_text cd) seen); [apply IH|]. destruct (n <=? length (res ++ [cd]))%nat; [reflexivity|apply IH].
  - rewrite (expand_ext c f f' g cd H). apply IH.
Qed.

Theorem context_isolation fuel input d c f f' n : (forall w, freq_of f c w = freq_of f' c w) ->
  get_candidates fuel input d c f n = get_candidates fuel input d c f' n.
Proof.
  intro H. unfold get_candidates. destruct (from_input input d c) as [g| |]; cbn [obind]; try reflexivity.
  unfold n_best. rewrite (forward_dp_ext c f f' g H), (nbest_loop_ext c f f' _ H). reflexivity.
Qed.

(** * C07: a registered word becomes convertible; registration only adds *)

Lemma eff_dict_merge_in s ws w : In w ws -> in_alphabet (s_alpha s) (w_reading w) = true -> In w (d_std (eff_dict (merge_words s ws))).
Proof.
  intros Hw Ha. cbn [eff_dict d_std merge_words s_std s_keys]. apply filter_In. split; [apply in_or_app; right; assumption|].
  apply existsb_exists. exists (w_reading w). split; [|apply str_eqb_refl].
  apply in_or_app. left. apply filter_In. split; [apply in_map; assumption|assumption].
Qed.

Theorem registered_convertible : forall s ws w ctx fuel R,
  In w ws -> in_alphabet (s_alpha s) (w_reading w) = true -> w_reading w <> [] -> is_ancillary (w_speech w) = false ->
  fq_ok (ft_freq (s_freq s)) ->
  get_candidates fuel (w_reading w) (eff_dict (merge_words s ws)) ctx (ft_freq (s_freq s)) NCAND = Ok (Some R) -> (length R < NCAND)%nat ->
  In (w_word w) (map cand_text R).
Proof.
  intros s ws w ctx fuel R Hw Ha Hne Hind Hf HR Hlen.
  pose proof (Props.C03.C03_offers_prefix_words (w_reading w) (eff_dict (merge_words s ws)) ctx (ft_freq (s_freq s)) NCAND fuel R w []
                ltac:(unfold NCAND; lia) Hf HR Hlen (eff_dict_merge_in s ws w Hw Ha) Hne Hind ltac:(rewrite app_nil_r; reflexivity)) as H.
  rewrite app_nil_r in H. exact H.
Qed.

Lemma eff_dict_le_merge s ws : dict_le (eff_dict s) (eff_dict (merge_words s ws)).
Proof.
  split; cbn [eff_dict d_std d_anc merge_words s_std s_keys s_anc]; [|apply incl_refl].
  intros w Hw. apply filter_In in Hw as [Hw Hk]. apply filter_In. split; [apply in_or_app; left; assumption|].
  apply existsb_exists in Hk as (k & Hk & He). apply existsb_exists. exists k. split; [apply in_or_app; right; assumption|assumption].
Qed.

(** every candidate obtainable before the registration is obtainable after it (untruncated list) *)
Theorem registration_only_adds : forall s ws input ctx fuel fuel' R R',
  fq_ok (ft_freq (s_freq s)) ->
  get_candidates fuel input (eff_dict s) ctx (ft_freq (s_freq s)) NCAND = Ok (Some R) ->
  get_candidates fuel' input (eff_dict (merge_words s ws)) ctx (ft_freq (s_freq s)) NCAND = Ok (Some R') -> (length R' < NCAND)%nat ->
  forall t, In t (map cand_text R) -> In t (map cand_text R').
Proof.
  intros s ws input ctx fuel fuel' R R' Hf HR HR' Hlen.
  assert (Hn : (1 <= NCAND)%nat) by (unfold NCAND; lia).
  assert (Hc : ctx_le ctx ctx) by (intros sp H; exact H).
  exact (texts_subset input (eff_dict s) (eff_dict (merge_words s ws)) ctx ctx (ft_freq (s_freq s)) (ft_freq (s_freq s)) NCAND NCAND fuel fuel' R R'
           (eff_dict_le_merge s ws) Hc Hf Hf Hn Hn HR HR' Hlen).
Qed.

(** * C08: what a restart keeps *)

(** the standard dictionary and its key set after merging the conjugations of a list of entries, in order *)
Fixpoint merged (alpha : list N) (std : list word) (keys : list str) (es : list entry) : outcome (list word * list str) :=
  match es with
  | [] => Ok (std, keys)
  | e :: es' => obind (conjugate e) (fun ws => merged alpha (std ++ ws) (filter (in_alphabet alpha) (map w_reading ws) ++ keys) es')
  end.

Lemma merged_app alpha es1 : forall std keys es2,
  merged alpha std keys (es1 ++ es2) = obind (merged alpha std keys es1) (fun r => merged alpha (fst r) (snd r) es2).
Proof.
  induction es1 as [|e es1 IH]; intros std keys es2; cbn [app merged obind]; [reflexivity|].
  destruct (conjugate e) as [ws| |]; cbn [obind]; [apply IH|reflexivity|reflexivity].
Qed.

(** the live server is in sync with its user dictionary: its standard map is the base map plus the conjugations of
    the user entries in the order they were applied *)
Definition synced (base s : sstate) : Prop :=
  s_alpha s = s_alpha base /\ s_anc s = s_anc base /\ s_tankan s = s_tankan base /\
  merged (s_alpha base) (s_std base) (s_keys base) (s_user s) = Ok (s_std s, s_keys s).

Lemma startup_merged base f user : forall s',
  startup base f user = Ok s' ->
  merged (s_alpha base) (s_std base) (s_keys base) user = Ok (s_std s', s_keys s') /\
  s_alpha s' = s_alpha base /\ s_anc s' = s_anc base /\ s_tankan s' = s_tankan base /\ s_freq s' = f /\ s_user s' = user.
Proof.
  unfold startup.
  set (s0 := {| s_alpha := s_alpha base; s_std := s_std base; s_keys := s_keys base; s_anc := s_anc base; s_tankan := s_tankan base;
                s_freq := f; s_user := user; s_sessions := []; s_next := s_next base; s_queue := [] |}).
  assert (Hgen : forall (es : list entry) s1 s', s_alpha s1 = s_alpha base ->
     fold_left (fun acc e => obind acc (fun s => obind (conjugate e) (fun ws => Ok (merge_words s ws)))) es (Ok s1) = Ok s' ->
     merged (s_alpha base) (s_std s1) (s_keys s1) es = Ok (s_std s', s_keys s') /\
     s_alpha s' = s_alpha s1 /\ s_anc s' = s_anc s1 /\ s_tankan s' = s_tankan s1 /\ s_freq s' = s_freq s1 /\ s_user s' = s_user s1).
  { induction es as [|e es IH]; intros s1 s' Ha; cbn [fold_left merged].
    - intro H. inversion H; subst. auto 10.
    - cbn [obind]. destruct (conjugate e) as [ws| |] eqn:Ec; cbn [obind].
      + intro H. destruct (IH (merge_words s1 ws) s' Ha H) as (H1 & H2 & H3 & H4 & H5 & H6).
        cbn [merge_words s_std s_keys s_alpha s_anc s_tankan s_freq s_user] in *. rewrite Ha in H1. auto 10.
      + intro H. exfalso. clear -H. induction es as [|x l IHl]; cbn in H; [discriminate|auto].
      + intro H. exfalso. clear -H. induction es as [|x l IHl]; cbn in H; [discriminate|auto]. }
  intros s' H. destruct (Hgen user s0 s' eq_refl H) as (H1 & H2 & H3 & H4 & H5 & H6). cbn in *. auto 10.
Qed.

(** a restart of a quiescent, synced server whose user entries are all printable reproduces the standard map, the key
    set, the learned counts and the user dictionary EXACTLY - hence every later answer, in the same order *)
Theorem restart_exact fuel base s s' resp :
  wf s -> synced base s -> forallb entry_printable (s_user s) = true ->
  step_f fuel base s Restart = Ok (s', resp) ->
  s_std s' = s_std s /\ s_keys s' = s_keys s /\ s_anc s' = s_anc s /\ s_tankan s' = s_tankan s /\ s_alpha s' = s_alpha s /\
  s_freq s' = s_freq s /\ s_user s' = s_user s /\ eff_dict s' = eff_dict s.
Proof.
  intros Hwf (Ha & Hanc & Ht & Hm) Hp. cbn [step_f].
  assert (Hc2 : forallb clean_entry2 (s_user s) = true).
  { apply forallb_forall. intros e He. apply eclean_clean2. pose proof (wf_u_clean s Hwf) as H. rewrite forallb_forall in H. auto. }
  rewrite (restore_filter (s_user s) Hc2).
  assert (Hfl : filter entry_printable (s_user s) = s_user s).
  { clear -Hp. induction (s_user s) as [|e l IH]; [reflexivity|]. cbn [forallb] in Hp. apply andb_true_iff in Hp as [He Hl]. cbn [filter]. rewrite He, (IH Hl). reflexivity. }
  rewrite Hfl. destruct (startup base (s_freq s) (s_user s)) as [s1| |] eqn:Es; cbn [obind]; try discriminate.
  intro H. inversion H; subst s' resp. cbn [s_std s_keys s_anc s_tankan s_alpha s_freq s_user eff_dict].
  destruct (startup_merged base _ _ s1 Es) as (H1 & H2 & H3 & H4 & H5 & H6).
  rewrite Hm in H1. injection H1 as Hs Hk. unfold eff_dict. cbn [s_std s_keys s_anc].
  rewrite <- Hs, <- Hk, H3, H4, H2, H5, H6, Ha, Hanc, Ht. repeat split; reflexivity.
Qed.

(** [synced] is an invariant of every step *)
Lemma synced_init base : s_user base = [] -> synced base base.
Proof. intro H. unfold synced. rewrite H. cbn. auto. Qed.

Theorem synced_step fuel base s r s' resp : wf s -> synced base s -> step_f fuel base s r = Ok (s', resp) -> synced base s'.
Proof.
  intros Hwf (Ha & Hanc & Ht & Hm). destruct r; cbn [step_f].
  - destruct (get_candidates _ _ _ _ _ _) as [[R|]| |]; try discriminate. intro H. inversion H; subst. unfold synced; cbn; auto.
  - intro H; inversion H; subst. unfold synced; auto.
  - destruct sid as [i|]; [|intro H; inversion H; subst; unfold synced; auto].
    destruct (pop_session _ _) as [[sess|] rest]; [|intro H; inversion H; subst; unfold synced; auto].
    destruct (find_cand _ _ _) as [c|]; [|intro H; inversion H; subst; unfold synced; cbn; auto].
    destruct (affix_of _) as [[w rd]|]; intro H; inversion H; subst; unfold synced; cbn; auto.
  - destruct (negb _); [intro H; inversion H; subst; unfold synced; auto|]. destruct (new_guessed _ _); try discriminate.
    intro H; inversion H; subst; unfold synced; cbn; auto.
  - destruct (negb _); intro H; inversion H; subst; unfold synced; cbn; auto.
  - destruct (KanaAlpha.convert _ _ _ _); try discriminate. intro H; inversion H; subst; unfold synced; auto.
  - destruct (s_queue s) as [|e q]; [intro H; inversion H; subst; unfold synced; auto|].
    destruct (conjugate e) as [ws| |] eqn:Ec; try discriminate. intro H. inversion H; subst. unfold synced. cbn. repeat split; try assumption.
    rewrite merged_app, Hm. cbn [obind fst snd merged]. rewrite Ec. cbn [obind]. rewrite Ha. reflexivity.
  - (* Restart *)
    assert (Hc2 : forallb clean_entry2 (s_user s) = true).
    { apply forallb_forall. intros e He. apply eclean_clean2. pose proof (wf_u_clean s Hwf) as H. rewrite forallb_forall in H. auto. }
    rewrite (restore_filter (s_user s) Hc2).
    destruct (startup base (s_freq s) _) as [s1| |] eqn:Es; cbn [obind]; try discriminate.
    intro H. inversion H; subst. destruct (startup_merged base _ _ s1 Es) as (H1 & H2 & H3 & H4 & H5 & H6).
    unfold synced. cbn. rewrite H6. auto.
Qed.

(** what the registration and learning paths produce is printable exactly when its reading is a non-empty string of
    the format's reading class and its stem is non-empty (the speech never is the obstacle) *)
Lemma guess_speech_ok w : speech_ok (fst (guess w)) = true.
Proof.
  unfold guess. destruct (ends_with [NA; II] w && (3 <=? length w)%nat).
  - destruct (guess_form _) as [[c row]|] eqn:Hg.
    + cbn [fst speech_ok]. apply assoc_N_in in Hg.
      assert (H : forallb (fun x => in_class g_katakana_class (snd (snd x))) guess_table = true) by (vm_compute; reflexivity).
      rewrite forallb_forall in H. exact (H _ Hg).
    + destruct (ends_with [II] w); [reflexivity|]. destruct (ends_with [DA] w); reflexivity.
  - destruct (ends_with [II] w); [reflexivity|]. destruct (ends_with [DA] w); reflexivity.
Qed.

Theorem produced_entries_printable :
  (forall proper r w, valid_param r = true -> valid_param w = true ->
     entry_printable (noun_entry proper r w) = forallb is_kana r) /\
  (forall r w e, valid_param r = true -> valid_param w = true -> new_guessed r w = Ok e ->
     entry_printable e = kana_reading (e_reading e) && negb (match e_stem e with [] => true | _ => false end)).
Proof.
  assert (Hstem : forall w, cs w = true -> forallb is_no_space w = true /\ mem_chr NL w = false).
  { intros w Hw. split.
    - apply forallb_forall. intros c Hc. unfold clean_stem in Hw. rewrite forallb_forall in Hw. specialize (Hw c Hc).
      apply andb_true_iff in Hw as [H1 H3]. apply andb_true_iff in H1 as [H1 H2]. apply negb_true_iff in H1, H3. apply N.eqb_neq in H1, H3.
      apply is_no_space_clean; assumption.
    - destruct (mem_chr NL w) eqn:E; [|reflexivity]. apply mem_chr_In in E. unfold clean_stem in Hw. rewrite forallb_forall in Hw.
      specialize (Hw NL E). rewrite N.eqb_refl in Hw. rewrite andb_false_r in Hw. discriminate. }
  split.
  - intros proper r w Hr Hw. pose proof (valid_param_cs w Hw) as Hcw. destruct (Hstem w Hcw) as [H1 H2].
    unfold entry_printable, noun_entry. cbn [e_reading e_stem e_speech]. unfold kana_reading, stem_ok. rewrite H1, H2.
    unfold valid_param in Hr, Hw. apply andb_true_iff in Hr as [Hr _]. apply andb_true_iff in Hw as [Hw _]. rewrite Hr, Hw.
    destruct proper; cbn [speech_ok negb andb]; rewrite !andb_true_r; reflexivity.
  - intros r w e Hr Hw He. pose proof (valid_param_cs r Hr) as Hcr. pose proof (valid_param_cs w Hw) as Hcw.
    destruct (new_guessed_ok r w e Hcr Hcw He) as [Hcl _]. unfold eclean in Hcl. apply andb_true_iff in Hcl as [Hcl _]. apply andb_true_iff in Hcl as [_ Hcs].
    destruct (Hstem _ Hcs) as [H1 H2].
    assert (Hsp : speech_ok (e_speech e) = true).
    { unfold new_guessed in He. destruct (guess w) as [sp stem] eqn:Hg. pose proof (guess_speech_ok w) as Hs. rewrite Hg in Hs. cbn [fst] in Hs.
      destruct (0 <? _)%nat; [destruct (_ <? _)%nat; [discriminate|]; destruct (byte_prefix _ _); try discriminate|]; inversion He; subst; exact Hs. }
    unfold entry_printable, stem_ok. rewrite H1, H2, Hsp. cbn [negb]. rewrite !andb_true_r. reflexivity.
Qed.
