(** Threads executing lock protocols: any number of client threads each running a handler program, background
    tasks repeating theirs for ever.  One small step = one operation; [Acq m] is enabled only while no thread
    holds m (std::sync::Mutex: mutual exclusion, not re-entrant).  Everything else is always enabled
    (channels are unbounded; a [Recv] on an empty channel idles without holding anything - checked separately). *)
From Chokan Require Import Base.ListUtil Server.Protocol.
From Coq Require Import Lia Bool.

Definition mutex_eqb (a b : mutex) : bool :=
  match a, b with MDict, MDict | MStore, MStore | MPref, MPref => true | _, _ => false end.
Lemma mutex_eqb_eq a b : mutex_eqb a b = true <-> a = b.
Proof. destruct a, b; cbn; split; intro H; try discriminate; reflexivity. Qed.

Definition holds (h : list mutex) (m : mutex) : bool := existsb (mutex_eqb m) h.

(** locks held after executing a prefix of a program *)
Fixpoint held_after (h : list mutex) (p : list op) : list mutex :=
  match p with
  | [] => h
  | Acq m :: p' => held_after (m :: h) p'
  | Rel m :: p' => held_after (filter (fun x => negb (mutex_eqb m x)) h) p'
  | _ :: p' => held_after h p'
  end.

(** a program is well formed for a ranking when it never re-acquires a held mutex, only acquires mutexes ranked above
    everything it holds, only releases what it holds, and ends holding nothing *)
Fixpoint prog_ok (rank : mutex -> nat) (h : list mutex) (p : list op) : bool :=
  match p with
  | [] => match h with [] => true | _ => false end
  | Acq m :: p' => negb (holds h m) && forallb (fun x => rank x <? rank m) h && prog_ok rank (m :: h) p'
  | Rel m :: p' => holds h m && prog_ok rank (filter (fun x => negb (mutex_eqb m x)) h) p'
  | _ :: p' => prog_ok rank h p'
  end.

(** a thread: what it holds and what remains of its current iteration; [th_loop] = the whole program when it repeats *)
Record thread := { th_held : list mutex; th_rest : list op; th_loop : option (list op) }.

Definition finished (t : thread) : bool := match th_rest t, th_loop t with [], None => true | _, _ => false end.

Definition held_by_other (ts : list thread) (i : nat) (m : mutex) : bool :=
  existsb (fun jt => negb (Nat.eqb (fst jt) i) && holds (th_held (snd jt)) m) (combine (seq 0 (length ts)) ts).

(** thread i can take a step *)
Definition enabled (ts : list thread) (i : nat) : bool :=
  match nth_error ts i with
  | None => false
  | Some t =>
    match th_rest t with
    | Acq m :: _ => negb (existsb (fun t' => holds (th_held t') m) ts)
    | _ :: _ => true
    | [] => match th_loop t with Some _ => true | None => false end
    end
  end.

Definition step_thread (t : thread) : thread :=
  match th_rest t with
  | Acq m :: r => {| th_held := m :: th_held t; th_rest := r; th_loop := th_loop t |}
  | Rel m :: r => {| th_held := filter (fun x => negb (mutex_eqb m x)) (th_held t); th_rest := r; th_loop := th_loop t |}
  | _ :: r => {| th_held := th_held t; th_rest := r; th_loop := th_loop t |}
  | [] => match th_loop t with Some p => {| th_held := th_held t; th_rest := p; th_loop := Some p |} | None => t end
  end.

(** reachable thread pools: steps of enabled threads, and new threads arriving at any time *)
Inductive reach (progs : list (list op)) (loops : list (list op)) : list thread -> Prop :=
| reach_init : reach progs loops (map (fun p => {| th_held := []; th_rest := p; th_loop := Some p |}) loops)
| reach_spawn ts p : reach progs loops ts -> In p progs -> reach progs loops (ts ++ [{| th_held := []; th_rest := p; th_loop := None |}])
| reach_step ts i t : reach progs loops ts -> nth_error ts i = Some t -> enabled ts i = true ->
    reach progs loops (upd_nth ts i step_thread).
