(** Vocabulary of the server protocol extracted by the translator gen_protocol (Gen/Protocol.v). *)
Inductive mutex := MDict | MStore | MPref.
Inductive op :=
| Acq (m : mutex) | Rel (m : mutex)
| ReadDictFreq | ReadDict            (* a conversion reads the dictionary and the learned counts *)
| StoreInsert | StorePop
| CommitFreq | LearnCompound | CommitUserEntry | CommitWord
| SendEntry | SendOther | Recv | Sleep | SaveFiles | Respond.
Inductive hname := HGetCandidates | HGetProperCandidates | HGetTankanCandidates | HUpdateFrequency | HRegisterWord | HGetAlphabeticCandidate.
Inductive spawn_kind := SpawnAsync | SpawnBlocking.
Inductive fname := TmpFreq | FinFreq | TmpDic | FinDic.
Inductive fop := FCreate (f : fname) | FWrite (f : fname) | FRename (a b : fname) | FRemove (f : fname).
