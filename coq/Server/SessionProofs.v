(** Sessions of the sequential server model are never lost (C15, C06): a session issued by a conversion stays in the
    store - whatever else is converted, confirmed, registered or applied, and however many sessions pile up - until it
    is itself confirmed or the server restarts. *)
From Chokan Require Import Base.Str Base.ListUtil Dic.Speech Dic.TextFormat Dic.Conjugation Kkc.Context Kkc.Lattice Kkc.Score Kkc.Search
  Kkc.Affix Kana.KanaAlpha Gen.KanaTable Server.ServerModel.

Lemma pop_session_keeps ss sid found rest x : pop_session ss sid = (found, rest) -> In x ss -> ss_id x <> sid -> In x rest.
Proof.
  revert found rest. induction ss as [|y ss IH]; intros found rest H Hin Hne; [destruct Hin|].
  cbn [pop_session] in H. destruct (Nat.eqb (ss_id y) sid) eqn:E.
  - inversion H; subst. destruct Hin as [<-|Hin]; [apply Nat.eqb_eq in E; congruence|exact Hin].
  - destruct (pop_session ss sid) as [r rest'] eqn:Ep. inversion H; subst.
    destruct Hin as [<-|Hin]; [left; reflexivity|right; exact (IH _ _ eq_refl Hin Hne)].
Qed.

Definition touches (r : request) (sid : nat) : Prop :=
  match r with UpdateFrequency (Some k) _ _ => k = sid | Restart => True | _ => False end.

Theorem session_survives_step fuel base s r s' resp x : step_f fuel base s r = Ok (s', resp) -> In x (s_sessions s) -> ~ touches r (ss_id x) ->
  In x (s_sessions s').
Proof.
  intros H Hin Hnt. destruct r as [input ctx|input|sid cid now|reading w|proper reading w|input| |]; cbn [step_f] in H.
  - destruct (get_candidates fuel input (eff_dict s) ctx (ft_freq (s_freq s)) NCAND) as [[cs|]| |]; try discriminate.
    inversion H; subst. cbn [s_sessions]. apply in_or_app. left. exact Hin.
  - inversion H; subst. exact Hin.
  - destruct sid as [sid|]; [|inversion H; subst; exact Hin].
    destruct (pop_session (s_sessions s) sid) as [found rest] eqn:Ep.
    assert (Hrest : In x rest) by (apply (pop_session_keeps _ _ _ _ x Ep Hin); intro E; apply Hnt; cbn [touches]; congruence).
    destruct found as [sess|]; [|inversion H; subst; exact Hin].
    destruct (find_cand (ss_cands sess) 0 cid) as [c|]; [|inversion H; subst; exact Hrest].
    destruct (affix_of (c_chain c)) as [[w reading]|]; inversion H; subst; exact Hrest.
  - destruct (negb (valid_param reading && valid_param w)); [inversion H; subst; exact Hin|].
    destruct (new_guessed reading w); inversion H; subst. exact Hin.
  - destruct (negb (valid_param reading && valid_param w)); inversion H; subst; exact Hin.
  - destruct (Kana.KanaAlpha.convert _ _ _ input); inversion H; subst. exact Hin.
  - destruct (s_queue s) as [|e q]; [inversion H; subst; exact Hin|].
    destruct (conjugate e); inversion H; subst. exact Hin.
  - exfalso. apply Hnt. exact I.
Qed.

(** over a whole history *)
Theorem session_survives base : forall rs s fin resps x, run base s rs = Ok (fin, resps) -> In x (s_sessions s) ->
  (forall r, In r rs -> ~ touches r (ss_id x)) -> In x (s_sessions fin).
Proof.
  induction rs as [|r rs IH]; intros s fin resps x H Hin Hnt; cbn [run] in H.
  - inversion H; subst. exact Hin.
  - destruct (step base s r) as [[s1 resp]| |] eqn:Es.
    + destruct (run base s1 rs) as [[fin' resps']| |] eqn:Er; try discriminate. inversion H; subst.
      apply (IH s1 fin resps' x Er); [|intros r' Hr'; apply Hnt; right; exact Hr'].
      apply (session_survives_step FUEL base s r s1 resp x Es Hin). apply Hnt. left. reflexivity.
    + destruct (run base s rs) as [[fin' resps']| |] eqn:Er; try discriminate. inversion H; subst.
      apply (IH s fin resps' x Er Hin). intros r' Hr'. apply Hnt. right. exact Hr'.
    + discriminate.
Qed.

(** the session a conversion issues is in the store when the conversion returns, under the number it returned *)
Theorem conversion_stores_session fuel base s input ctx s' k texts : step_f fuel base s (GetCandidates input ctx) = Ok (s', RCands k texts) ->
  exists x, In x (s_sessions s') /\ ss_id x = k /\ ss_ctx x = ctx /\ map cand_text (ss_cands x) = texts.
Proof.
  cbn [step_f]. destruct (get_candidates fuel input (eff_dict s) ctx (ft_freq (s_freq s)) NCAND) as [[cs|]| |]; try discriminate.
  intro H. inversion H; subst. eexists. split; [cbn [s_sessions]; apply in_or_app; right; left; reflexivity|]. repeat split.
Qed.
