(** Model of skk-notes-converter/src/converter.rs (after the repair of drop_dictionary_okuri). *)
From Chokan Require Import Base.Str Base.ListUtil Dic.Speech Gen.SpeechNames Gen.SkkOkuri Skk.Notes.
Local Open Scope N_scope.

Record converted := { cv_headword : str; cv_word : str; cv_speech : speech }.

(** form_to_skk_okuri is generated: Gen/SkkOkuri.v ([None] = the explicit panic!("Can not get okuri ..")) *)

Definition okuri_to_kana (o : okuri) (default : str) : str := match o with OFix v => v | OClass _ => default end.
Definition opt_okuri_to_kana (o : option okuri) (default : str) : str := match o with Some x => okuri_to_kana x default | None => default end.

(** NoteSpeech::to_okuri_kana; [Panic] = unsupported (class,row) *)
Definition to_okuri_kana (sp : note_speech) : outcome str :=
  match sp with
  | NSVerb c row (Some (OFix v)) => Ok v
  | NSVerb c row _ => match skk_okuri c row with Some k => Ok k | None => Panic end
  | NSAdjective o => Ok (opt_okuri_to_kana o [12356])
  | NSAdjectivalVerb o => Ok (okuri_to_kana o [12384])
  | NSAdverb o => Ok (okuri_to_kana o [])
  | NSNoun _ o => Ok (opt_okuri_to_kana o [])
  | NSCounter _ => Ok []
  | NSVerbatim o => Ok (okuri_to_kana o [])
  | NSPreNoun o | NSConjParticle o | NSConjunction o => Ok (opt_okuri_to_kana o [])
  end.

(** drop the last n characters; when the word is not longer than n, its first character *)
Definition drop_last (w : str) (n : nat) : str := if (length w <=? n)%nat then firstn 1 w else firstn (length w - n) w.

(** drop_dictionary_okuri *)
Definition drop_dictionary_okuri (w : str) (sp : note_speech) : outcome str :=
  match sp with
  | NSVerb c row _ => match skk_okuri c row with Some k => Ok (drop_last w (length k)) | None => Panic end
  | NSAdjective _ | NSAdjectivalVerb _ => Ok (firstn (length w - 1) w)
  | _ => Ok w
  end.

Definition okuri_of (sp : note_speech) : option okuri :=
  match sp with
  | NSVerb _ _ o | NSAdjective o | NSNoun _ o | NSPreNoun o | NSConjParticle o | NSConjunction o => o
  | NSAdjectivalVerb o | NSAdverb o | NSCounter o | NSVerbatim o => Some o
  end.

Definition mem_n (c : N) (s : str) : bool := mem_chr c s.

Definition speech_of_note (sp : note_speech) : speech :=
  match sp with
  | NSVerb c row _ => Verb c row
  | NSAdjective _ => Adjective
  | NSAdjectivalVerb _ => AdjectivalVerb
  | NSAdverb _ => Adverb
  | NSNoun typ _ => if str_eqb typ [12469; 22793; 21517; 35422] then Noun NSahen else Noun NCommon
  | NSCounter _ => Counter
  | NSVerbatim _ => Verbatim
  | NSPreNoun _ => PreNounAdjectival
  | NSConjParticle _ => Particle PConjunctive
  | NSConjunction _ => Conjunction
  end.

(** NoteEntry::to_entries *)
Definition entry_to_converted (headword : str) (e : note_entry) : outcome (list converted) :=
  obind (to_okuri_kana (ne_speech e)) (fun ok =>
  obind (drop_dictionary_okuri (ne_stem e ++ ok) (ne_speech e)) (fun w =>
  obind (drop_dictionary_okuri (headword ++ ok) (ne_speech e)) (fun h =>
  let base := {| cv_headword := h; cv_word := w; cv_speech := speech_of_note (ne_speech e) |} in
  let affix := match okuri_of (ne_speech e) with
               | Some (OClass s) => if mem_n 62 s then [{| cv_headword := h; cv_word := w; cv_speech := Affix APrefix |}]
                                    else if mem_n 60 s then [{| cv_headword := h; cv_word := w; cv_speech := Affix ASuffix |}] else []
               | _ => []
               end in
  Ok (base :: affix)))).

(** Note::to_entries *)
Definition note_to_converted (n : note) : outcome (list converted) :=
  fold_left (fun acc e => obind acc (fun l => obind (entry_to_converted (nt_headword n) e) (fun c => Ok (l ++ c)))) (nt_entries n) (Ok []).

(** Display for ConvertedEntry: the emitted dictionary line *)
Definition print_converted (c : converted) : str :=
  cv_headword c ++ 9 :: cv_word c ++ 9 :: 47 :: speech_name (cv_speech c) ++ [47].
