(** Model of the SKK-JISYO line grammar (skk-dic-parser) and of the noun / jinmei / tankan converters. *)
From Chokan Require Import Base.Str Base.ListUtil Dic.Speech Gen.SkkGrammar.
Local Open Scope N_scope.

Record skk_entry := { k_reading : str; k_okuri : option str; k_words : list str }.

Definition SL : N := 47.   (* / *)
Definition SC : N := 59.   (* ; *)
Definition SP : N := 32.

Definition is_skk_kana (c : N) : bool := in_class skk_kana_class c.
Definition is_skk_alpha (c : N) : bool := in_class skk_alpha_class c.
Definition is_skk_space (c : N) : bool := in_class skk_space_class c.
Definition is_word_char (c : N) : bool := negb (N.eqb c SP || N.eqb c 9 || N.eqb c SL || N.eqb c SC).
Definition is_annot_char (c : N) : bool := negb (N.eqb c SL).

(** rule kanji() = $([^ ' ' '\t' '/' ';']+) annotation()? "/"   with annotation() = ";" [^ '/']* *)
Definition parse_kanji (s : str) : option (str * str) :=
  match take_while is_word_char s with
  | ([], _) => None
  | (w, rest) =>
    let rest' := match rest with
                 | c :: r => if N.eqb c SC then snd (take_while is_annot_char r) else rest
                 | [] => rest
                 end in
    match rest' with
    | c :: r => if N.eqb c SL then Some (w, r) else None
    | [] => None
    end
  end.

(** kanji()*, greedy; fuel = length of the input (every iteration consumes at least two characters) *)
Fixpoint parse_kanji_star (fuel : nat) (s : str) : list str * str :=
  match fuel with
  | O => ([], s)
  | S fuel' =>
    match parse_kanji s with
    | Some (w, rest) => let '(ws, rest') := parse_kanji_star fuel' rest in (w :: ws, rest')
    | None => ([], s)
    end
  end.

(** parse_skk_entry: [None] = Err, [Some None] = Ok(None), [Some (Some e)] = Ok(Some e).
    The comment() alternative  ";" any()* "\n"  can never succeed (any()* swallows the newline), so a line
    starting with ';' is an error like any other line that is not an entry. *)
Definition parse_skk (s : str) : option (option skk_entry) :=
  match take_while is_skk_kana s with
  | ([], _) => None
  | (reading, s1) =>
    let '(ok, s2) := take_while is_skk_alpha s1 in
    match take_while is_skk_space s2 with
    | ([], _) => None
    | (_, c :: s3) =>
      if N.eqb c SL then
        match parse_kanji_star (length s3) s3 with
        | ([], _) => None
        | (ws, []) => Some (Some {| k_reading := reading; k_okuri := match ok with [] => None | _ => Some ok end; k_words := ws |})
        | (_, _ :: _) => None
        end
      else None
    | (_, []) => None
    end
  end.

(** the three converters: [None] = Err, [Some None] = nothing to emit, [Some (Some es)] = entries *)
Definition noun_entries (v : noun_variant) (reading : str) (ws : list str) : list entry :=
  map (fun w => {| e_reading := reading; e_stem := w; e_speech := Noun v |}) ws.

Definition parse_nouns (s : str) : option (option (list entry)) :=
  match parse_skk s with
  | None => None
  | Some None => Some None
  | Some (Some e) => match k_okuri e with Some _ => Some None | None => Some (Some (noun_entries NCommon (k_reading e) (k_words e))) end
  end.

Definition parse_propers (s : str) : option (option (list entry)) :=
  match parse_skk s with
  | None => None
  | Some None => Some None
  | Some (Some e) => Some (Some (noun_entries NProper (k_reading e) (k_words e)))
  end.

Definition parse_tankan (s : str) : option (option (list entry)) :=
  match parse_skk s with
  | None => None
  | Some None => Some None
  | Some (Some e) =>
    match filter (fun w => Nat.eqb (length w) 1) (k_words e) with
    | [] => Some None
    | ws => Some (Some (noun_entries NCommon (k_reading e) ws))
    end
  end.

(** how a well-formed SKK line is written: reading, okuri letters, blanks, then /word;annotation/... *)
Definition print_skk (reading okuri blanks : str) (ws : list (str * option str)) : str :=
  reading ++ okuri ++ blanks ++ SL :: flat_map (fun p => fst p ++ (match snd p with Some a => SC :: a | None => [] end) ++ [SL]) ws.
