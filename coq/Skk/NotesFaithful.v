(** The notes grammar (Skk/Notes.v) returns exactly what a well-formed notes line says (Skk/NotesPrint.v):
    [parse_note (print_note w) = Some (expected w)] for every written note [w] with [w_note_ok w = true] (C18). *)
From Chokan Require Import Base.Str Base.ListUtil Base.Classes Dic.Speech Skk.Notes Skk.NotesConv Skk.NotesPrint Skk.NotesParse.
From Coq Require Import Lia.
Local Open Scope N_scope.

(** * what the rest of the input starts with *)
Definition hd_in (ok : N -> bool) (r : str) : Prop := match r with c :: _ => ok c = true | [] => True end.

Lemma hd_in_impl (f g : N -> bool) r : (forall c, f c = true -> g c = true) -> hd_in f r -> hd_in g r.
Proof. destruct r as [|c r]; [trivial|]. cbn [hd_in]. auto. Qed.

Lemma hd_in_app_cons ok c a r : ok c = true -> hd_in ok ((c :: a) ++ r).
Proof. intro H. exact H. Qed.

Lemma nonempty_ne (s : str) : nonempty s = true -> s <> [].
Proof. destruct s; [discriminate|discriminate]. Qed.

(** * greedy repetition and literals *)
Lemma take_while_hd f a rest : forallb f a = true -> hd_in (fun c => negb (f c)) rest -> take_while f (a ++ rest) = (a, rest).
Proof.
  intros Ha Hr. destruct rest as [|c r]; [rewrite app_nil_r; apply take_while_all; exact Ha|].
  cbn [hd_in] in Hr. apply negb_true_iff in Hr. apply take_while_app; assumption.
Qed.

Lemma plus_app f a rest : a <> [] -> forallb f a = true -> hd_in (fun c => negb (f c)) rest -> plus f (a ++ rest) = Some (a, rest).
Proof. intros Hne Ha Hr. unfold plus. rewrite (take_while_hd f a rest Ha Hr). destruct a; [congruence|reflexivity]. Qed.

Lemma snd_take_while_hd f a rest : forallb f a = true -> hd_in (fun c => negb (f c)) rest -> snd (take_while f (a ++ rest)) = rest.
Proof. intros Ha Hr. rewrite (take_while_hd f a rest Ha Hr). reflexivity. Qed.

Lemma lit_app l r : lit l (l ++ r) = Some r.
Proof. apply strip_prefix_app. Qed.

Lemma lit_cons c r : lit [c] (c :: r) = Some r.
Proof. exact (lit_app [c] r). Qed.

Lemma lit_cons_ne c d r : N.eqb c d = false -> lit [c] (d :: r) = None.
Proof. intro H. unfold lit. cbn [strip_prefix]. rewrite H. reflexivity. Qed.

(** [nomatch l p ok]: the literal [l] cannot be a prefix of [p ++ r], whatever [r] that starts with an [ok] character *)
Fixpoint nomatch (l p : str) (ok : N -> bool) : bool :=
  match l, p with
  | [], _ => false
  | c :: _, [] => negb (ok c)
  | c :: l', d :: p' => if N.eqb c d then nomatch l' p' ok else true
  end.

Lemma lit_nomatch l p r ok : nomatch l p ok = true -> hd_in ok r -> lit l (p ++ r) = None.
Proof.
  unfold lit. revert p. induction l as [|c l IH]; intros p H Hr; [destruct p; discriminate H|].
  destruct p as [|d p]; cbn [nomatch] in H; cbn [app strip_prefix].
  - destruct r as [|e r]; [reflexivity|]. cbn [hd_in] in Hr. destruct (N.eqb_spec c e) as [->|Hne]; [rewrite Hr in H; discriminate H|reflexivity].
  - destruct (N.eqb c d); [exact (IH p H Hr)|reflexivity].
Qed.

Definition any (c : N) : bool := true.
Lemma hd_any r : hd_in any r. Proof. destruct r; exact I || reflexivity. Qed.

Definition first_lit_none (ls : list str) (p : str) (ok : N -> bool) : bool := forallb (fun l => nomatch l p ok) ls.

Lemma first_lit_none_spec ls p r ok : first_lit_none ls p ok = true -> hd_in ok r -> first_lit ls (p ++ r) = None.
Proof.
  unfold first_lit_none. induction ls as [|l ls IH]; cbn [forallb first_lit]; [reflexivity|]. intros H Hr.
  apply andb_true_iff in H as [H1 H2]. rewrite (lit_nomatch l p r ok H1 Hr). exact (IH H2 Hr).
Qed.

Fixpoint first_lit_ok (ls : list str) (t : str) (ok : N -> bool) : bool :=
  match ls with
  | [] => false
  | l :: ls' => if str_eqb l t then true else nomatch l t ok && first_lit_ok ls' t ok
  end.

Lemma first_lit_ok_spec ls t r ok : first_lit_ok ls t ok = true -> hd_in ok r -> first_lit ls (t ++ r) = Some (t, r).
Proof.
  induction ls as [|l ls IH]; cbn [first_lit_ok first_lit]; [discriminate|]. intros H Hr.
  destruct (str_eqb l t) eqn:E.
  - apply str_eqb_spec in E. subst l. rewrite lit_app. reflexivity.
  - apply andb_true_iff in H as [H1 H2]. rewrite (lit_nomatch l t r ok H1 Hr). exact (IH H2 Hr).
Qed.

Lemma existsb_str_In t ls : existsb (str_eqb t) ls = true -> In t ls.
Proof. intro H. apply existsb_exists in H as (x & Hx & E). apply str_eqb_spec in E. subst x. exact Hx. Qed.

(** * okuri *)
Definition items_text (more : list str) : str := flat_map (fun w => 44 :: 45 :: w) more.

Lemma print_fix v more : print_okuri (WFix v more) = 40 :: 45 :: v ++ items_text more ++ [41].
Proof. reflexivity. Qed.

Lemma items_text_length more : (length more <= length (items_text more))%nat.
Proof. induction more as [|w more IH]; [cbn; lia|]. cbn [items_text flat_map length app] in *. rewrite app_length. fold (items_text more). lia. Qed.

Lemma kana_facts : n_kana 44 = false /\ n_kana 41 = false /\ n_kana 59 = false /\ n_kana 32 = false /\ n_kana 9 = false.
Proof. vm_compute. repeat split; reflexivity. Qed.

Lemma p_fixed_item_dash s : p_fixed_item (45 :: s) = match plus n_kana s with Some (k, r) => Some (45 :: k, r) | None => None end.
Proof. reflexivity. Qed.

Lemma items_hd more rest : hd_in (fun c => negb (n_kana c)) (items_text more ++ 41 :: rest).
Proof. destruct more as [|w more]; cbn [items_text flat_map app hd_in]; reflexivity. Qed.

Lemma p_fixed_items_more more : forallb (fun w => nonempty w && forallb n_kana w) more = true -> forall fuel rest, (length more <= fuel)%nat ->
  p_fixed_items fuel false (items_text more ++ 41 :: rest) = (map (cons 45) more, 41 :: rest).
Proof.
  induction more as [|w more IH]; intros Hm fuel rest Hf.
  - destruct fuel as [|fuel]; [reflexivity|]. cbn [items_text flat_map app p_fixed_items]. rewrite (lit_cons_ne 44 41 rest eq_refl). reflexivity.
  - destruct fuel as [|fuel]; [cbn [length] in Hf; lia|]. cbn [forallb] in Hm. apply andb_true_iff in Hm as [Hw Hm]. apply andb_true_iff in Hw as [Hwne Hwk].
    cbn [items_text flat_map]. fold (items_text more). cbn [p_fixed_items]. rewrite <- app_assoc. cbn [app]. rewrite lit_cons. rewrite p_fixed_item_dash.
    rewrite (plus_app n_kana w _ (nonempty_ne _ Hwne) Hwk (items_hd more rest)).
    rewrite (IH Hm fuel rest) by (cbn [length] in Hf; lia). reflexivity.
Qed.

Lemma p_fixed_okuri_print v more rest : w_okuri_ok (WFix v more) = true -> p_fixed_okuri (print_okuri (WFix v more) ++ rest) = Some (OFix v, rest).
Proof.
  cbn [w_okuri_ok]. intro H. apply andb_true_iff in H as [H Hm]. apply andb_true_iff in H as [Hvne Hvk].
  rewrite print_fix. unfold p_fixed_okuri. cbn [app]. rewrite lit_cons.
  cbn [p_fixed_items]. rewrite p_fixed_item_dash. rewrite <- !app_assoc. cbn [app].
  rewrite (plus_app n_kana v _ (nonempty_ne _ Hvne) Hvk (items_hd more rest)).
  rewrite (p_fixed_items_more more Hm _ rest) by (pose proof (items_text_length more); cbn [length]; rewrite ?app_length; cbn [length]; lia).
  rewrite lit_cons. reflexivity.
Qed.

Lemma p_char_class_print k rest : w_okuri_ok (WClass k) = true -> p_char_class (print_okuri (WClass k) ++ rest) = Some (OClass k, rest).
Proof.
  cbn [w_okuri_ok print_okuri]. intro H. apply andb_true_iff in H as [Hne Hk]. unfold p_char_class. cbn [app]. rewrite lit_cons.
  rewrite <- app_assoc. cbn [app]. rewrite (plus_app n_class_char k (93 :: rest) (nonempty_ne _ Hne) Hk eq_refl). rewrite lit_cons. reflexivity.
Qed.

Lemma p_okuri1_print o rest : w_okuri_ok o = true -> p_okuri1 (print_okuri o ++ rest) = Some (okuri_value o, rest).
Proof.
  intro H. unfold p_okuri1. destruct o as [v more|k].
  - rewrite (p_fixed_okuri_print v more rest H). reflexivity.
  - rewrite (p_char_class_print k rest H). reflexivity.
Qed.

Definition no_okuri_start (c : N) : bool := negb (N.eqb c 40 || N.eqb c 91).

Lemma p_okuri1_none r : hd_in no_okuri_start r -> p_okuri1 r = None.
Proof.
  destruct r as [|c r]; [reflexivity|]. unfold hd_in, no_okuri_start. intro H. apply negb_true_iff in H. apply orb_false_iff in H as [H1 H2].
  rewrite N.eqb_sym in H1. rewrite N.eqb_sym in H2. unfold p_okuri1, p_fixed_okuri, p_char_class. rewrite (lit_cons_ne 40 c r H1), (lit_cons_ne 91 c r H2). reflexivity.
Qed.

Lemma print_okuri_hd o x : hd_in (fun c => N.eqb c 40 || N.eqb c 91) (print_okuri o ++ x).
Proof. destruct o; reflexivity. Qed.

Lemma p_okuri_print o e rest : w_okuri2_ok o e = true -> hd_in no_okuri_start rest -> p_okuri (print_okuri2 o e ++ rest) = Some (okuri_value o, rest).
Proof.
  unfold w_okuri2_ok, print_okuri2. intros H Hr. apply andb_true_iff in H as [Ho He]. unfold p_okuri. rewrite <- app_assoc.
  rewrite (p_okuri1_print o _ Ho). destruct e as [x|].
  - rewrite (p_okuri1_print x rest He). reflexivity.
  - cbn [app]. rewrite (p_okuri1_none rest Hr). reflexivity.
Qed.

Lemma p_okuri_opt_print o rest : w_opt_ok o = true -> hd_in no_okuri_start rest -> p_okuri_opt (print_opt_okuri o ++ rest) = (opt_value o, rest).
Proof.
  unfold p_okuri_opt. intros H Hr. destruct o as [[x e]|]; cbn [print_opt_okuri opt_value option_map fst].
  - cbn [w_opt_ok] in H. rewrite (p_okuri_print x e rest H Hr). reflexivity.
  - cbn [app]. unfold p_okuri. rewrite (p_okuri1_none rest Hr). reflexivity.
Qed.

(** * finite character sets *)
Definition inl (l : list N) (c : N) : bool := mem_chr c l.
Definition FOLLOW2 : list N := [44; 32; 9; 182; 47].            (* what follows an alternative: "," blank "¶" "/" *)
Definition FOLLOW : list N := 40 :: 91 :: FOLLOW2.              (* what follows a tag: an okuri or the above *)
Definition AFTER : list N := [32; 9; 182; 47].                  (* what follows the list of alternatives *)

(** [H : inl L c = true] with a literal list [L]: one goal per member, each closed by evaluation *)
Ltac by_members H :=
  unfold inl in H; apply mem_chr_In in H; cbn [In FOLLOW FOLLOW2 AFTER] in H;
  repeat (destruct H as [<-|H]; [vm_compute; reflexivity|]); destruct H.

Lemma follow2_no_okuri c : inl FOLLOW2 c = true -> no_okuri_start c = true.
Proof. intro H. by_members H. Qed.

Lemma follow2_follow c : inl FOLLOW2 c = true -> inl FOLLOW c = true.
Proof. intro H. by_members H. Qed.

Lemma after_follow2 c : inl AFTER c = true -> inl FOLLOW2 c = true.
Proof. intro H. by_members H. Qed.

Lemma after_not_comma c : inl AFTER c = true -> N.eqb 44 c = false.
Proof. intro H. by_members H. Qed.

Lemma after_not_katakana c : inl AFTER c = true -> n_katakana c = false.
Proof. intro H. by_members H. Qed.

Lemma opt_tail_hd o rest : hd_in (inl FOLLOW2) rest -> hd_in (inl FOLLOW) (print_opt_okuri o ++ rest).
Proof. intro H. destruct o as [[[v more|k] e]|]; [reflexivity|reflexivity|]. exact (hd_in_impl _ _ rest follow2_follow H). Qed.

Lemma okuri2_tail_hd o e rest : hd_in (inl FOLLOW) (print_okuri2 o e ++ rest).
Proof. destruct o as [v more|k]; reflexivity. Qed.

(** * the alternatives *)
Lemma noun_tags_ok : forallb (fun t => first_lit_ok NOUN_TAGS t (inl FOLLOW)) NOUN_TAGS = true.
Proof. vm_compute. reflexivity. Qed.

Lemma noun_tag_ok t : existsb (str_eqb t) NOUN_TAGS = true -> first_lit_ok NOUN_TAGS t (inl FOLLOW) = true.
Proof. intro H. apply existsb_str_In in H. pose proof noun_tags_ok as Hall. rewrite forallb_forall in Hall. exact (Hall t H). Qed.

Lemma verb_not_noun c row : n_katakana row = true -> first_lit_none NOUN_TAGS (row :: verb_suffix c) (inl FOLLOW) = true.
Proof.
  unfold n_katakana. intro H. apply mem_chr_In in H. cbn [In] in H.
  repeat (destruct H as [<-|H]; [destruct c; vm_compute; reflexivity|]). destruct H.
Qed.

Ltac kill_lits ok Hhd :=
  repeat match goal with
  | |- context [lit ?L (?p ++ ?t)] => rewrite (lit_nomatch L p t ok) by first [exact Hhd | vm_compute; reflexivity]
  end.

Lemma first_verb_suffix_print c t : first_verb_suffix VERB_SUFFIXES (verb_suffix c ++ t) = Some (c, t).
Proof.
  pose proof (hd_any t) as Hhd.
  destruct c; unfold VERB_SUFFIXES; cbn [first_verb_suffix verb_suffix]; kill_lits any Hhd; rewrite lit_app; reflexivity.
Qed.

Lemma verb_head_print c row t : n_katakana row = true -> verb_head ((row :: verb_suffix c) ++ t) = Some (c, row, t).
Proof. intro H. cbn [app]. unfold verb_head. rewrite H. rewrite first_verb_suffix_print. reflexivity. Qed.

Lemma verb_head_lit_none p t : match p with c :: _ => n_katakana c = false | [] => False end -> verb_head (p ++ t) = None.
Proof. destruct p as [|c p]; [intros []|]. intro H. cbn [app]. unfold verb_head. rewrite H. reflexivity. Qed.

Lemma verb_text c row x rest : (row :: verb_suffix c ++ x) ++ rest = (row :: verb_suffix c) ++ x ++ rest.
Proof. cbn [app]. rewrite app_assoc. reflexivity. Qed.

(** the alternatives before a literal-tagged one fail *)
Ltac skip_to_lit Hhd :=
  match goal with |- context [first_lit NOUN_TAGS (?p ++ ?t)] =>
    rewrite (first_lit_none_spec NOUN_TAGS p t (inl FOLLOW)) by first [exact Hhd | vm_compute; reflexivity] end;
  match goal with |- context [verb_head (?p ++ ?t)] => rewrite (verb_head_lit_none p t) by (vm_compute; reflexivity) end;
  kill_lits (inl FOLLOW) Hhd; rewrite lit_app.

Lemma p_alt_print a rest : w_alt_ok a = true -> hd_in (inl FOLLOW2) rest -> p_alt (print_alt a ++ rest) = Some (alt_value a, rest).
Proof.
  intros Ha Hr. pose proof (hd_in_impl _ _ rest follow2_no_okuri Hr) as Hno.
  rewrite p_alt_unfold. unfold lit_okuri.
  destruct a as [t o|c row o|o|o e|o e|o e|o e|o|o|o|o]; cbn [print_alt alt_value w_alt_ok] in *.
  - apply andb_true_iff in Ha as [Ht Ho]. rewrite <- app_assoc.
    rewrite (first_lit_ok_spec NOUN_TAGS t _ (inl FOLLOW) (noun_tag_ok t Ht) (opt_tail_hd o rest Hr)).
    rewrite (p_okuri_opt_print o rest Ho Hno). reflexivity.
  - apply andb_true_iff in Ha as [Hrow Ho]. rewrite verb_text.
    rewrite (first_lit_none_spec NOUN_TAGS _ _ (inl FOLLOW) (verb_not_noun c row Hrow) (opt_tail_hd o rest Hr)).
    rewrite (verb_head_print c row _ Hrow). rewrite (p_okuri_opt_print o rest Ho Hno). reflexivity.
  - rewrite <- app_assoc. pose proof (opt_tail_hd o rest Hr) as Hhd. skip_to_lit Hhd. rewrite (p_okuri_opt_print o rest Ha Hno). reflexivity.
  - rewrite <- app_assoc. pose proof (okuri2_tail_hd o e rest) as Hhd. skip_to_lit Hhd. rewrite (p_okuri_print o e rest Ha Hno). reflexivity.
  - rewrite <- app_assoc. pose proof (okuri2_tail_hd o e rest) as Hhd. skip_to_lit Hhd. rewrite (p_okuri_print o e rest Ha Hno). reflexivity.
  - rewrite <- app_assoc. pose proof (okuri2_tail_hd o e rest) as Hhd. skip_to_lit Hhd. rewrite (p_okuri_print o e rest Ha Hno). reflexivity.
  - rewrite <- app_assoc. pose proof (okuri2_tail_hd o e rest) as Hhd. skip_to_lit Hhd. rewrite (p_okuri_print o e rest Ha Hno). reflexivity.
  - rewrite <- app_assoc. pose proof (opt_tail_hd o rest Hr) as Hhd. skip_to_lit Hhd. rewrite (p_okuri_opt_print o rest Ha Hno). reflexivity.
  - rewrite <- app_assoc. pose proof (opt_tail_hd o rest Hr) as Hhd. skip_to_lit Hhd. rewrite (p_okuri_opt_print o rest Ha Hno). reflexivity.
  - rewrite <- app_assoc. pose proof (opt_tail_hd o rest Hr) as Hhd. skip_to_lit Hhd. rewrite (p_okuri_opt_print o rest Ha Hno). reflexivity.
  - rewrite <- app_assoc. pose proof (opt_tail_hd o rest Hr) as Hhd. skip_to_lit Hhd. rewrite (p_okuri_opt_print o rest Ha Hno). reflexivity.
Qed.

(** no alternative starts with a blank, "¶" or "/" *)
Lemma lit_hd_none L r ok : nomatch L [] ok = true -> hd_in ok r -> lit L r = None.
Proof. intros H Hr. exact (lit_nomatch L [] r ok H Hr). Qed.

Lemma first_lit_hd_none ls r ok : first_lit_none ls [] ok = true -> hd_in ok r -> first_lit ls r = None.
Proof. intros H Hr. exact (first_lit_none_spec ls [] r ok H Hr). Qed.

Lemma verb_head_after r : hd_in (inl AFTER) r -> verb_head r = None.
Proof. destruct r as [|c r]; [reflexivity|]. cbn [hd_in]. intro H. unfold verb_head. rewrite (after_not_katakana c H). reflexivity. Qed.

Lemma p_alt_none r : hd_in (inl AFTER) r -> p_alt r = None.
Proof.
  intro Hr. rewrite p_alt_unfold. unfold lit_okuri.
  rewrite (first_lit_hd_none NOUN_TAGS r (inl AFTER)) by first [exact Hr | vm_compute; reflexivity].
  rewrite (verb_head_after r Hr).
  repeat match goal with |- context [lit ?L r] => rewrite (lit_hd_none L r (inl AFTER)) by first [exact Hr | vm_compute; reflexivity] end.
  reflexivity.
Qed.

(** * the comma-separated list *)
Definition print_alts_tail (l : list w_alt) : str := flat_map (fun a => 44 :: print_alt a) l.

Lemma print_alts_cons a l : print_alts (a :: l) = print_alt a ++ print_alts_tail l.
Proof.
  revert a. induction l as [|b l IH]; intro a; [cbn [print_alts print_alts_tail flat_map]; rewrite app_nil_r; reflexivity|].
  change (print_alts (a :: b :: l)) with (print_alt a ++ 44 :: print_alts (b :: l)). rewrite (IH b). reflexivity.
Qed.

Lemma alts_tail_hd l rest : hd_in (inl AFTER) rest -> hd_in (inl FOLLOW2) (print_alts_tail l ++ rest).
Proof. intro H. destruct l as [|a l]; [exact (hd_in_impl _ _ rest after_follow2 H)|reflexivity]. Qed.

Lemma alts_tail_length l : (length l <= length (print_alts_tail l))%nat.
Proof. induction l as [|a l IH]; [cbn; lia|]. cbn [print_alts_tail flat_map]. fold (print_alts_tail l). rewrite app_length. cbn [length]. lia. Qed.

Lemma p_alts_tail l : forallb w_alt_ok l = true -> forall fuel rest, (length l <= fuel)%nat -> hd_in (inl AFTER) rest ->
  p_alts fuel false (print_alts_tail l ++ rest) = (map alt_value l, rest).
Proof.
  induction l as [|a l IH]; intros Hl fuel rest Hf Hr.
  - destruct fuel as [|fuel]; [reflexivity|]. cbn [print_alts_tail flat_map app p_alts map].
    destruct rest as [|c rest]; [reflexivity|]. cbn [hd_in] in Hr. rewrite (lit_cons_ne 44 c rest (after_not_comma c Hr)). reflexivity.
  - destruct fuel as [|fuel]; [cbn [length] in Hf; lia|]. cbn [forallb] in Hl. apply andb_true_iff in Hl as [Ha Hl].
    cbn [print_alts_tail flat_map]. fold (print_alts_tail l). rewrite <- app_assoc. cbn [app p_alts]. rewrite lit_cons.
    rewrite (p_alt_print a _ Ha (alts_tail_hd l rest Hr)). rewrite (IH Hl fuel rest) by (try exact Hr; cbn [length] in Hf; lia). reflexivity.
Qed.

Lemma p_alts_print l fuel rest : forallb w_alt_ok l = true -> (length l <= fuel)%nat -> hd_in (inl AFTER) rest ->
  p_alts fuel true (print_alts l ++ rest) = (map alt_value l, rest).
Proof.
  intros Hl Hf Hr. destruct l as [|a l].
  - destruct fuel as [|fuel]; [reflexivity|]. cbn [print_alts app p_alts map]. rewrite (p_alt_none rest Hr). reflexivity.
  - destruct fuel as [|fuel]; [cbn [length] in Hf; lia|]. cbn [forallb] in Hl. apply andb_true_iff in Hl as [Ha Hl].
    rewrite print_alts_cons, <- app_assoc. cbn [p_alts]. rewrite (p_alt_print a _ Ha (alts_tail_hd l rest Hr)).
    rewrite (p_alts_tail l Hl fuel rest) by (try exact Hr; cbn [length] in Hf; lia). reflexivity.
Qed.

Lemma alts_length l y : (length l <= S (length (print_alts l ++ y)))%nat.
Proof.
  destruct l as [|a l]; [cbn [length]; lia|]. rewrite print_alts_cons. rewrite !app_length. pose proof (alts_tail_length l). cbn [length]. lia.
Qed.

(** * the speech list: optional header, alternatives, optional note *)
Definition strip_header (s1 : str) : str := match first_lit HEADERS s1 with Some (_, r) => r | None => s1 end.
Definition skip_note (s3 : str) : str :=
  let '(_, r) := take_while n_space s3 in
  match lit [182] r with Some r' => snd (take_while n_not_slash r') | None => s3 end.
Definition some_list {A} (a : option A) : list A := match a with Some x => [x] | None => [] end.

Lemma p_speech_unfold s : p_speech s =
  match lit [8741] s with
  | None => None
  | Some s1 => let s2 := strip_header s1 in
               let '(alts, s3) := p_alts (S (length s2)) true s2 in
               Some (flat_map some_list alts, skip_note s3)
  end.
Proof. reflexivity. Qed.

Definition KATAKANA : list N := [12450; 12459; 12469; 12479; 12490; 12495; 12510; 12516; 12527; 12521; 12480; 12496; 12460; 12470].
Definition START : list N := map (hd 0) NOUN_TAGS ++ KATAKANA ++ [24418; 21161; 24863; 36899; 21103; 35036; 25509] ++ AFTER.

Lemma after_start c : inl AFTER c = true -> inl START c = true.
Proof. intro H. by_members H. Qed.

Lemma print_alt_hd a x : w_alt_ok a = true -> hd_in (inl START) (print_alt a ++ x).
Proof.
  intro Ha. destruct a as [t o|c row o|o|o e|o e|o e|o e|o|o|o|o]; cbn [print_alt w_alt_ok] in *; try reflexivity.
  - apply andb_true_iff in Ha as [Ht _]. apply existsb_str_In in Ht. cbn [In NOUN_TAGS] in Ht.
    repeat (destruct Ht as [<-|Ht]; [reflexivity|]). destruct Ht.
  - apply andb_true_iff in Ha as [Hrow _]. unfold n_katakana in Hrow. apply mem_chr_In in Hrow. cbn [In] in Hrow.
    repeat (destruct Hrow as [<-|Hrow]; [reflexivity|]). destruct Hrow.
Qed.

Lemma print_alts_hd l y : forallb w_alt_ok l = true -> hd_in (inl AFTER) y -> hd_in (inl START) (print_alts l ++ y).
Proof.
  intros Hl Hy. destruct l as [|a l]; [exact (hd_in_impl _ _ y after_start Hy)|].
  cbn [forallb] in Hl. apply andb_true_iff in Hl as [Ha _]. rewrite print_alts_cons, <- app_assoc. exact (print_alt_hd a _ Ha).
Qed.

Lemma headers_ok : forallb (fun h => first_lit_ok HEADERS h any) HEADERS = true.
Proof. vm_compute. reflexivity. Qed.

Definition header_text (header : option str) : str := match header with Some h => h | None => [] end.
Definition note_text (note : option (str * str)) : str := match note with Some (b, t) => b ++ 182 :: t | None => [] end.
Definition header_ok (header : option str) : bool := match header with Some h => existsb (str_eqb h) HEADERS | None => true end.
Definition note_ok (note : option (str * str)) : bool := match note with Some (b, t) => forallb n_space b && forallb n_not_slash t | None => true end.

Lemma strip_header_print header x : header_ok header = true -> hd_in (inl START) x -> strip_header (header_text header ++ x) = x.
Proof.
  intros Hh Hx. unfold strip_header. destruct header as [h|]; cbn [header_text header_ok] in *.
  - apply existsb_str_In in Hh. pose proof headers_ok as Hall. rewrite forallb_forall in Hall.
    rewrite (first_lit_ok_spec HEADERS h x any (Hall h Hh) (hd_any x)). reflexivity.
  - cbn [app]. rewrite (first_lit_hd_none HEADERS x (inl START)) by first [exact Hx | vm_compute; reflexivity]. reflexivity.
Qed.

Lemma n_space_after c : n_space c = true -> inl AFTER c = true.
Proof.
  unfold n_space. intro H. apply orb_true_iff in H as [H|H]; apply N.eqb_eq in H; subst c; reflexivity.
Qed.

Lemma note_text_hd note rest : note_ok note = true -> hd_in (inl AFTER) (note_text note ++ 47 :: rest).
Proof.
  intro Hn. destruct note as [[b t]|]; cbn [note_text note_ok] in *; [|reflexivity].
  apply andb_true_iff in Hn as [Hb _]. destruct b as [|c b]; [reflexivity|]. cbn [forallb] in Hb. apply andb_true_iff in Hb as [Hc _].
  cbn [app hd_in]. exact (n_space_after c Hc).
Qed.

Lemma skip_note_print note rest : note_ok note = true -> skip_note (note_text note ++ 47 :: rest) = 47 :: rest.
Proof.
  intro Hn. unfold skip_note. destruct note as [[b t]|]; cbn [note_text note_ok] in *.
  - apply andb_true_iff in Hn as [Hb Ht]. rewrite <- app_assoc. rewrite (take_while_hd n_space b ((182 :: t) ++ 47 :: rest) Hb eq_refl).
    cbn [app]. rewrite lit_cons. exact (snd_take_while_hd n_not_slash t (47 :: rest) Ht eq_refl).
  - cbn [app take_while]. change (n_space 47) with false. cbv iota. rewrite (lit_cons_ne 182 47 rest eq_refl). reflexivity.
Qed.

Lemma p_speech_print header alts note rest : header_ok header = true -> forallb w_alt_ok alts = true -> note_ok note = true ->
  p_speech (8741 :: header_text header ++ print_alts alts ++ note_text note ++ 47 :: rest)
  = Some (flat_map some_list (map alt_value alts), 47 :: rest).
Proof.
  intros Hh Ha Hn. rewrite p_speech_unfold. rewrite lit_cons. pose proof (note_text_hd note rest Hn) as Hy.
  rewrite (strip_header_print header _ Hh (print_alts_hd alts _ Ha Hy)). cbv zeta.
  rewrite (p_alts_print alts _ _ Ha (alts_length alts _) Hy). rewrite (skip_note_print note rest Hn). reflexivity.
Qed.

(** * one candidate *)
Lemma print_wentry stem annot header alts note :
  print_entry_w (WEntry stem annot header alts note) = 47 :: stem ++ 59 :: annot ++ 8741 :: header_text header ++ print_alts alts ++ note_text note.
Proof. reflexivity. Qed.

Lemma p_annotation_print annot y : forallb n_annot_char annot = true -> hd_in (fun c => negb (n_annot_char c)) y -> p_annotation (59 :: annot ++ y) = Some y.
Proof. intros Ha Hy. unfold p_annotation. rewrite lit_cons. rewrite (snd_take_while_hd n_annot_char annot y Ha Hy). reflexivity. Qed.

Lemma p_speech_slash rest : p_speech (47 :: rest) = None.
Proof. rewrite p_speech_unfold. rewrite (lit_cons_ne 8741 47 rest eq_refl). reflexivity. Qed.

(** "∥<okuri-nasi>" and "∥<derived>" are not how a speech list starts *)
Lemma marker_not_speech L header z : forallb (fun h => nomatch L (8741 :: h) any) HEADERS = true -> nomatch L [8741] (inl START) = true ->
  header_ok header = true -> hd_in (inl START) z -> lit L (8741 :: header_text header ++ z) = None.
Proof.
  intros HL1 HL2 Hh Hz. destruct header as [h|]; cbn [header_text header_ok] in *.
  - apply existsb_str_In in Hh. rewrite forallb_forall in HL1. exact (lit_nomatch L (8741 :: h) z any (HL1 h Hh) (hd_any z)).
  - exact (lit_nomatch L [8741] z (inl START) HL2 Hz).
Qed.

Lemma entry_value_map stem alts :
  map (fun sp => {| ne_stem := stem; ne_speech := sp |}) (flat_map some_list (map alt_value alts))
  = flat_map (fun a => match alt_value a with Some sp => [{| ne_stem := stem; ne_speech := sp |}] | None => [] end) alts.
Proof.
  induction alts as [|a alts IH]; [reflexivity|]. cbn [map flat_map]. rewrite map_app, IH. destruct (alt_value a); reflexivity.
Qed.

Ltac norm_app := repeat first [rewrite <- app_assoc | progress cbn [app]].

Lemma p_entry_print e rest : w_entry_ok e = true -> p_entry (print_entry_w e ++ 47 :: rest) = Some (entry_value e, 47 :: rest).
Proof.
  intro He. unfold p_entry. destruct e as [stem annot header alts note|stem annot tail|stem annot tail|stem|stem annot].
  - rewrite print_wentry. cbn [w_entry_ok entry_value] in *.
    change (match header with Some h => existsb (str_eqb h) HEADERS | None => true end) with (header_ok header) in He.
    change (match note with Some (b, t) => forallb n_space b && forallb n_not_slash t | None => true end) with (note_ok note) in He.
    apply andb_true_iff in He as [He Hn]. apply andb_true_iff in He as [He Hal]. apply andb_true_iff in He as [He Hh].
    apply andb_true_iff in He as [He Han]. apply andb_true_iff in He as [Hne Hst].
    norm_app. rewrite lit_cons. rewrite (plus_app n_stem_char stem _ (nonempty_ne _ Hne) Hst) by reflexivity.
    rewrite (p_annotation_print annot _ Han) by reflexivity.
    pose proof (print_alts_hd alts _ Hal (note_text_hd note rest Hn)) as Hz.
    rewrite (marker_not_speech OKURI_NASI header _) by first [exact Hh | exact Hz | vm_compute; reflexivity].
    rewrite (marker_not_speech DERIVED header _) by first [exact Hh | exact Hz | vm_compute; reflexivity].
    rewrite (p_speech_print header alts note rest Hh Hal Hn). rewrite entry_value_map. reflexivity.
  - cbn [print_entry_w w_entry_ok entry_value] in *. apply andb_true_iff in He as [He Ht]. apply andb_true_iff in He as [He Han]. apply andb_true_iff in He as [Hne Hst].
    norm_app. rewrite lit_cons. rewrite (plus_app n_stem_char stem _ (nonempty_ne _ Hne) Hst) by reflexivity.
    rewrite (p_annotation_print annot _ Han) by reflexivity. rewrite lit_app.
    rewrite (snd_take_while_hd n_not_slash tail (47 :: rest) Ht eq_refl). reflexivity.
  - cbn [print_entry_w w_entry_ok entry_value] in *. apply andb_true_iff in He as [He Ht]. apply andb_true_iff in He as [He Han]. apply andb_true_iff in He as [Hne Hst].
    norm_app. rewrite lit_cons. rewrite (plus_app n_stem_char stem _ (nonempty_ne _ Hne) Hst) by reflexivity.
    rewrite (p_annotation_print annot _ Han) by reflexivity.
    rewrite (lit_nomatch OKURI_NASI DERIVED _ any) by first [apply hd_any | vm_compute; reflexivity]. rewrite lit_app.
    rewrite (snd_take_while_hd n_not_slash tail (47 :: rest) Ht eq_refl). reflexivity.
  - cbn [print_entry_w w_entry_ok entry_value] in *. apply andb_true_iff in He as [Hne Hst].
    norm_app. rewrite lit_cons. rewrite (plus_app n_stem_char stem (47 :: rest) (nonempty_ne _ Hne) Hst eq_refl).
    unfold p_annotation. rewrite (lit_cons_ne 59 47 rest eq_refl). reflexivity.
  - cbn [print_entry_w w_entry_ok entry_value] in *. apply andb_true_iff in He as [He Han]. apply andb_true_iff in He as [Hne Hst].
    norm_app. rewrite lit_cons. rewrite (plus_app n_stem_char stem _ (nonempty_ne _ Hne) Hst) by reflexivity.
    rewrite (p_annotation_print annot (47 :: rest) Han eq_refl).
    rewrite (lit_hd_none OKURI_NASI (47 :: rest) (inl AFTER) eq_refl eq_refl), (lit_hd_none DERIVED (47 :: rest) (inl AFTER) eq_refl eq_refl), p_speech_slash. reflexivity.
Qed.

(** * the list of candidates *)
Lemma entries_text_hd es : exists r, flat_map print_entry_w es ++ [47] = 47 :: r.
Proof. destruct es as [|e es]; [exists []; reflexivity|]. destruct e; cbn [flat_map print_entry_w app]; eexists; reflexivity. Qed.

Lemma entries_text_length es : (length es <= length (flat_map print_entry_w es))%nat.
Proof.
  induction es as [|e es IH]; [cbn; lia|]. cbn [flat_map length]. rewrite app_length.
  assert (1 <= length (print_entry_w e))%nat by (destruct e; cbn [print_entry_w length]; lia). lia.
Qed.

Lemma p_entry_slash : p_entry [47] = None.
Proof. vm_compute. reflexivity. Qed.

Lemma p_entries_print es : forallb w_entry_ok es = true -> forall fuel, (length es <= fuel)%nat ->
  p_entries fuel (flat_map print_entry_w es ++ [47]) = (map entry_value es, [47]).
Proof.
  induction es as [|e es IH]; intros Hes fuel Hf.
  - destruct fuel as [|fuel]; [reflexivity|]. cbn [flat_map app p_entries]. rewrite p_entry_slash. reflexivity.
  - destruct fuel as [|fuel]; [cbn [length] in Hf; lia|]. cbn [forallb] in Hes. apply andb_true_iff in Hes as [He Hes].
    cbn [flat_map]. rewrite <- app_assoc. destruct (entries_text_hd es) as [r Er]. rewrite Er. cbn [p_entries].
    rewrite (p_entry_print e r He). rewrite <- Er. rewrite (IH Hes fuel) by (cbn [length] in Hf; lia). reflexivity.
Qed.

(** * the line *)
Definition take_okuri (s1 : str) : str * str := match s1 with c :: r => if n_alpha c then ([c], r) else ([], s1) | [] => ([], s1) end.
Definition okuri_text (ok : option N) : str := match ok with Some c => [c] | None => [] end.

Lemma p_note_unfold s : p_note s =
  match plus n_kana s with
  | None => None
  | Some (h, s1) =>
    let '(ok, s2) := take_okuri s1 in
    match plus n_space s2 with
    | None => None
    | Some (_, s3) =>
      match p_entries (S (length s3)) s3 with
      | ([], _) => None
      | (ess, r) => match r with [47] => Some {| nt_headword := h; nt_okuri := ok; nt_entries := concat ess |} | _ => None end
      end
    end
  end.
Proof. reflexivity. Qed.

Lemma alpha_not_kana c : n_alpha c = true -> n_kana c = false.
Proof.
  intro H. unfold n_kana. apply (class_disjoint [(97, 122)] _ c); [vm_compute; reflexivity|].
  unfold n_alpha in H. unfold in_class. cbn [existsb fst snd]. rewrite H. reflexivity.
Qed.

Lemma space_not_kana c : n_space c = true -> n_kana c = false.
Proof. unfold n_space. intro H. apply orb_true_iff in H as [H|H]; apply N.eqb_eq in H; subst c; reflexivity. Qed.

Lemma space_not_alpha c : n_space c = true -> n_alpha c = false.
Proof. unfold n_space. intro H. apply orb_true_iff in H as [H|H]; apply N.eqb_eq in H; subst c; reflexivity. Qed.

Lemma take_okuri_print ok y : match ok with Some c => n_alpha c | None => true end = true -> hd_in (fun c => negb (n_alpha c)) y ->
  take_okuri (okuri_text ok ++ y) = (okuri_text ok, y).
Proof.
  intros Hok Hy. destruct ok as [c|]; cbn [okuri_text app take_okuri]; [rewrite Hok; reflexivity|].
  destruct y as [|c y]; [reflexivity|]. cbn [hd_in] in Hy. apply negb_true_iff in Hy. cbn [take_okuri]. rewrite Hy. reflexivity.
Qed.

Lemma p_note_print w : w_note_ok w = true ->
  p_note (print_note w) = Some {| nt_headword := wn_headword w; nt_okuri := okuri_text (wn_okuri w); nt_entries := flat_map entry_value (wn_entries w) |}.
Proof.
  destruct w as [hw ok bl es]. unfold w_note_ok, print_note. cbn [wn_headword wn_okuri wn_blanks wn_entries]. intro H.
  apply andb_true_iff in H as [H Hes]. apply andb_true_iff in H as [H Hesne]. apply andb_true_iff in H as [H Hbl]. apply andb_true_iff in H as [H Hblne].
  apply andb_true_iff in H as [H Hok]. apply andb_true_iff in H as [Hhwne Hhw].
  destruct bl as [|b0 bl]; [discriminate|]. pose proof Hbl as Hbl'. cbn [forallb] in Hbl'. apply andb_true_iff in Hbl' as [Hb0 _].
  destruct es as [|e0 es]; [discriminate|].
  change (match ok with Some c => [c] | None => [] end) with (okuri_text ok).
  destruct (entries_text_hd (e0 :: es)) as [r Er]. rewrite Er.
  rewrite p_note_unfold.
  assert (Hy : hd_in (fun c => negb (n_kana c)) (okuri_text ok ++ (b0 :: bl) ++ 47 :: r)).
  { destruct ok as [c|]; cbn [okuri_text app hd_in]; [rewrite (alpha_not_kana c Hok)|rewrite (space_not_kana b0 Hb0)]; reflexivity. }
  rewrite (plus_app n_kana hw _ (nonempty_ne _ Hhwne) Hhw Hy).
  assert (Hy2 : hd_in (fun c => negb (n_alpha c)) ((b0 :: bl) ++ 47 :: r)).
  { cbn [app hd_in]. rewrite (space_not_alpha b0 Hb0). reflexivity. }
  rewrite (take_okuri_print ok _ Hok Hy2).
  rewrite (plus_app n_space (b0 :: bl) (47 :: r) (nonempty_ne _ Hblne) Hbl eq_refl).
  rewrite <- Er. rewrite (p_entries_print (e0 :: es) Hes) by (pose proof (entries_text_length (e0 :: es)); rewrite app_length; cbn [length] in *; lia).
  rewrite flat_map_concat_map. reflexivity.
Qed.

Lemma parse_note_not_comment s : match s with c :: _ => c <> 59 | [] => True end -> parse_note s = parse_body s.
Proof.
  unfold parse_note, parse_body. destruct s as [|c s']; [reflexivity|]. intro Hne. destruct c as [|p]; [reflexivity|].
  do 6 (destruct p as [p|p|]; try reflexivity). exfalso. apply Hne. reflexivity.
Qed.

Theorem parse_print_note w : w_note_ok w = true -> parse_note (print_note w) = Some (expected w).
Proof.
  intro H. rewrite parse_note_not_comment.
  - unfold parse_body. rewrite (p_note_print w H). cbn [nt_entries]. unfold expected.
    destruct (flat_map entry_value (wn_entries w)); reflexivity.
  - unfold w_note_ok in H. apply andb_true_iff in H as [H _]. apply andb_true_iff in H as [H _]. apply andb_true_iff in H as [H _]. apply andb_true_iff in H as [H _].
    apply andb_true_iff in H as [H _]. apply andb_true_iff in H as [Hne Hk]. unfold print_note. destruct (wn_headword w) as [|c hw]; [discriminate|].
    cbn [app]. cbn [forallb] in Hk. apply andb_true_iff in Hk as [Hc _]. intros ->. vm_compute in Hc. discriminate Hc.
Qed.

Print Assumptions parse_print_note.
