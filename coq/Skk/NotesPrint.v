(** How a well-formed SKK notes line is written (the specification side of C18's faithfulness clause for the notes
    parser): a written note [w_note] is printed by [print_note]; [expected] is the structure it says. *)
From Chokan Require Import Base.Str Base.ListUtil Dic.Speech Skk.Notes Skk.NotesConv.
Local Open Scope N_scope.

(** written okuri: "(-v,-w,..)" (the first item counts) or "[class]" *)
Inductive w_okuri := WFix (v : str) (more : list str) | WClass (k : str).
Definition okuri_value (o : w_okuri) : okuri := match o with WFix v _ => OFix v | WClass k => OClass k end.
Definition print_okuri (o : w_okuri) : str :=
  match o with
  | WFix v more => 40 :: 45 :: v ++ flat_map (fun w => 44 :: 45 :: w) more ++ [41]
  | WClass k => 91 :: k ++ [93]
  end.
(** okuri() = one okuri optionally followed by a second one, which is ignored *)
Definition print_okuri2 (o : w_okuri) (extra : option w_okuri) : str :=
  print_okuri o ++ match extra with Some e => print_okuri e | None => [] end.
Definition print_opt_okuri (o : option (w_okuri * option w_okuri)) : str :=
  match o with Some (x, e) => print_okuri2 x e | None => [] end.
Definition opt_value (o : option (w_okuri * option w_okuri)) : option okuri := option_map (fun p => okuri_value (fst p)) o.

Definition verb_suffix (c : verb_class) : str :=
  match c with
  | Godan => [34892; 20116; 27573] | Yodan => [34892; 22235; 27573] | KamiIchidan => [34892; 19978; 19968] | SimoIchidan => [34892; 19979; 19968]
  | KamiNidan => [34892; 19978; 20108] | SimoNidan => [34892; 19979; 20108] | Hen => [22793]
  end.

(** one written alternative of a speech list; the subsidiary verb is written but yields nothing *)
Inductive w_alt :=
| WNoun (tag : str) (o : option (w_okuri * option w_okuri))
| WVerb (c : verb_class) (row : N) (o : option (w_okuri * option w_okuri))
| WAdjective (o : option (w_okuri * option w_okuri))
| WAdjectivalVerb (o : w_okuri) (e : option w_okuri)
| WAdverb (o : w_okuri) (e : option w_okuri)
| WCounter (o : w_okuri) (e : option w_okuri)
| WVerbatim (o : w_okuri) (e : option w_okuri)
| WPreNoun (o : option (w_okuri * option w_okuri))
| WSubsidiary (o : option (w_okuri * option w_okuri))
| WConjParticle (o : option (w_okuri * option w_okuri))
| WConjunction (o : option (w_okuri * option w_okuri)).

Definition print_alt (a : w_alt) : str :=
  match a with
  | WNoun t o => t ++ print_opt_okuri o
  | WVerb c row o => row :: verb_suffix c ++ print_opt_okuri o
  | WAdjective o => [24418; 23481; 35422] ++ print_opt_okuri o
  | WAdjectivalVerb o e => [24418; 23481; 21205; 35422] ++ print_okuri2 o e
  | WAdverb o e => [21103; 35422] ++ print_okuri2 o e
  | WCounter o e => [21161; 25968; 35422] ++ print_okuri2 o e
  | WVerbatim o e => [24863; 21205; 35422] ++ print_okuri2 o e
  | WPreNoun o => [36899; 20307; 35422] ++ print_opt_okuri o
  | WSubsidiary o => [35036; 21161; 21205; 35422] ++ print_opt_okuri o
  | WConjParticle o => [25509; 32154; 21161; 35422] ++ print_opt_okuri o
  | WConjunction o => [25509; 32154; 35422] ++ print_opt_okuri o
  end.

Definition alt_value (a : w_alt) : option note_speech :=
  match a with
  | WNoun t o => Some (NSNoun t (opt_value o))
  | WVerb c row o => Some (NSVerb c row (opt_value o))
  | WAdjective o => Some (NSAdjective (opt_value o))
  | WAdjectivalVerb o _ => Some (NSAdjectivalVerb (okuri_value o))
  | WAdverb o _ => Some (NSAdverb (okuri_value o))
  | WCounter o _ => Some (NSCounter (okuri_value o))
  | WVerbatim o _ => Some (NSVerbatim (okuri_value o))
  | WPreNoun o => Some (NSPreNoun (opt_value o))
  | WSubsidiary _ => None
  | WConjParticle o => Some (NSConjParticle (opt_value o))
  | WConjunction o => Some (NSConjunction (opt_value o))
  end.

Fixpoint print_alts (l : list w_alt) : str :=
  match l with
  | [] => []
  | [a] => print_alt a
  | a :: l' => print_alt a ++ 44 :: print_alts l'
  end.

(** one written candidate of the line *)
Inductive w_entry :=
| WEntry (stem annot : str) (header : option str) (alts : list w_alt) (note : option (str * str))    (* /stem;annot∥header alt,alt blanks¶text *)
| WNasi (stem annot tail : str)                                                                       (* /stem;annot∥<okuri-nasi>tail *)
| WDerived (stem annot tail : str)                                                                    (* /stem;annot∥<derived>tail *)
| WBare (stem : str)                                                                                  (* /stem *)
| WAnnot (stem annot : str).                                                                          (* /stem;annot *)

Definition print_entry_w (e : w_entry) : str :=
  match e with
  | WEntry stem annot header alts note =>
    47 :: stem ++ 59 :: annot ++ 8741 :: match header with Some h => h | None => [] end ++ print_alts alts
       ++ match note with Some (b, t) => b ++ 182 :: t | None => [] end
  | WNasi stem annot tail => 47 :: stem ++ 59 :: annot ++ OKURI_NASI ++ tail
  | WDerived stem annot tail => 47 :: stem ++ 59 :: annot ++ DERIVED ++ tail
  | WBare stem => 47 :: stem
  | WAnnot stem annot => 47 :: stem ++ 59 :: annot
  end.

Definition entry_value (e : w_entry) : list note_entry :=
  match e with
  | WEntry stem _ _ alts _ => flat_map (fun a => match alt_value a with Some sp => [{| ne_stem := stem; ne_speech := sp |}] | None => [] end) alts
  | _ => []
  end.

Record w_note := { wn_headword : str; wn_okuri : option N; wn_blanks : str; wn_entries : list w_entry }.

Definition print_note (w : w_note) : str :=
  wn_headword w ++ match wn_okuri w with Some c => [c] | None => [] end ++ wn_blanks w ++ flat_map print_entry_w (wn_entries w) ++ [47].

Definition expected (w : w_note) : option note :=
  match flat_map entry_value (wn_entries w) with
  | [] => None
  | es => Some {| nt_headword := wn_headword w; nt_okuri := match wn_okuri w with Some c => [c] | None => [] end; nt_entries := es |}
  end.

(** * well-formedness of the written line *)
Definition nonempty (s : str) : bool := negb (match s with [] => true | _ => false end).
Definition w_okuri_ok (o : w_okuri) : bool :=
  match o with
  | WFix v more => nonempty v && forallb n_kana v && forallb (fun w => nonempty w && forallb n_kana w) more
  | WClass k => nonempty k && forallb n_class_char k
  end.
Definition w_okuri2_ok (o : w_okuri) (e : option w_okuri) : bool := w_okuri_ok o && match e with Some x => w_okuri_ok x | None => true end.
Definition w_opt_ok (o : option (w_okuri * option w_okuri)) : bool := match o with Some (x, e) => w_okuri2_ok x e | None => true end.
Definition w_alt_ok (a : w_alt) : bool :=
  match a with
  | WNoun t o => existsb (str_eqb t) NOUN_TAGS && w_opt_ok o
  | WVerb _ row o => n_katakana row && w_opt_ok o
  | WAdjective o | WPreNoun o | WSubsidiary o | WConjParticle o | WConjunction o => w_opt_ok o
  | WAdjectivalVerb o e | WAdverb o e | WCounter o e | WVerbatim o e => w_okuri2_ok o e
  end.
Definition w_entry_ok (e : w_entry) : bool :=
  match e with
  | WEntry stem annot header alts note =>
    nonempty stem && forallb n_stem_char stem && forallb n_annot_char annot
    && match header with Some h => existsb (str_eqb h) HEADERS | None => true end
    && forallb w_alt_ok alts
    && match note with Some (b, t) => forallb n_space b && forallb n_not_slash t | None => true end
  | WNasi stem annot tail | WDerived stem annot tail => nonempty stem && forallb n_stem_char stem && forallb n_annot_char annot && forallb n_not_slash tail
  | WBare stem => nonempty stem && forallb n_stem_char stem
  | WAnnot stem annot => nonempty stem && forallb n_stem_char stem && forallb n_annot_char annot
  end.
Definition w_note_ok (w : w_note) : bool :=
  nonempty (wn_headword w) && forallb n_kana (wn_headword w)
  && match wn_okuri w with Some c => n_alpha c | None => true end
  && nonempty (wn_blanks w) && forallb n_space (wn_blanks w)
  && negb (match wn_entries w with [] => true | _ => false end) && forallb w_entry_ok (wn_entries w).

(** quick sanity checks of the specification by evaluation (not the theorem) *)
Definition ex1 : w_note :=
  {| wn_headword := [12358; 12372]; wn_okuri := Some 107; wn_blanks := [32];
     wn_entries := [ WEntry [21205] [120; 32; 121] (Some [60; 98; 97; 115; 101; 62]) [WVerb Godan 12459 (Some (WFix [12367] [[12365]], Some (WClass [97; 45; 122]))); WSubsidiary None; WNoun [21517; 35422] None]
                            (Some ([32], [110; 111; 116; 101]));
                     WNasi [21205] [] [120]; WBare [22793]; WAnnot [22793] [97]; WDerived [22793] [] [] ] |}.
Example ex1_ok : w_note_ok ex1 = true. Proof. vm_compute. reflexivity. Qed.
Example ex1_parse : parse_note (print_note ex1) = Some (expected ex1). Proof. vm_compute. reflexivity. Qed.
