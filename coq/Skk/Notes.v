(** Model of skk-notes-converter: the notes grammar (note_grammer.rs, a rust-peg grammar interpreted rule by rule:
    ordered committed choice, greedy repetition, `e ** sep` / `e ++ sep` loops that give the separator back when the
    next element fails) and the converter (converter.rs).  The model follows the code AFTER the repairs of finding
    F11 (`++` in fixed_okuri; character-wise drop_dictionary_okuri) and F18 (no blank inside a stem). *)
From Chokan Require Import Base.Str Base.ListUtil Dic.Speech Gen.SpeechNames.
Local Open Scope N_scope.

Inductive okuri := OFix (s : str) | OClass (s : str).

Inductive note_speech :=
| NSVerb (c : verb_class) (row : N) (o : option okuri)
| NSAdjective (o : option okuri)
| NSAdjectivalVerb (o : okuri)
| NSAdverb (o : okuri)
| NSNoun (typ : str) (o : option okuri)
| NSCounter (o : okuri)
| NSVerbatim (o : okuri)
| NSPreNoun (o : option okuri)
| NSConjParticle (o : option okuri)
| NSConjunction (o : option okuri).

Record note_entry := { ne_stem : str; ne_speech : note_speech }.
Record note := { nt_headword : str; nt_okuri : str; nt_entries : list note_entry }.

(** * character classes of the grammar *)
Definition n_kana (c : N) : bool :=
  in_class [(12354, 12435); (12432, 12432); (12419, 12419); (12421, 12421); (12423, 12423); (12353, 12353); (12355, 12355); (12357, 12357); (12359, 12359); (12361, 12361); (12387, 12387); (12540, 12540)] c.
Definition n_katakana (c : N) : bool := mem_chr c [12450; 12459; 12469; 12479; 12490; 12495; 12510; 12516; 12527; 12521; 12480; 12496; 12460; 12470].
Definition n_space (c : N) : bool := N.eqb c 32 || N.eqb c 9.
Definition n_alpha (c : N) : bool := (97 <=? c) && (c <=? 122).
Definition n_stem_char (c : N) : bool := negb (N.eqb c 59 || N.eqb c 47 || N.eqb c 32 || N.eqb c 9).      (* [^ ';' '/' ' ' '\t'] *)
Definition n_class_char (c : N) : bool :=                                                        (* ['a'..='z' '>' '<' '#' '*' '-' '(' ')' 'φ' '.'] *)
  n_alpha c || mem_chr c [62; 60; 35; 42; 45; 40; 41; 966; 46].
Definition n_not_slash (c : N) : bool := negb (N.eqb c 47).
Definition n_annot_char (c : N) : bool := negb (N.eqb c 8741 || N.eqb c 47).                   (* [^ '∥' '/'] *)

Definition lit (l s : str) : option str := strip_prefix l s.
Definition plus (f : N -> bool) (s : str) : option (str * str) :=
  match take_while f s with ([], _) => None | r => Some r end.

(** * okuri *)
(** one item  "-" kana()+ ; returns the matched text (with the dash) *)
Definition p_fixed_item (s : str) : option (str * str) :=
  match s with
  | 45 :: s' => match plus n_kana s' with Some (k, r) => Some (45 :: k, r) | None => None end
  | _ => None
  end.

(** item ++ "," : fuel = length of the input *)
Fixpoint p_fixed_items (fuel : nat) (first : bool) (s : str) : list str * str :=
  match fuel with
  | O => ([], s)
  | S fuel' =>
    let s1 := if first then Some s else lit [44] s in
    match s1 with
    | None => ([], s)
    | Some s1 =>
      match p_fixed_item s1 with
      | Some (it, r) => let '(its, r') := p_fixed_items fuel' false r in (it :: its, r')
      | None => ([], s)                       (* the separator is given back *)
      end
    end
  end.

Definition p_fixed_okuri (s : str) : option (okuri * str) :=
  match lit [40] s with
  | Some s1 =>
    match p_fixed_items (S (length s1)) true s1 with
    | (it :: _, r) => match lit [41] r with Some r' => Some (OFix (tl it), r') | None => None end
    | ([], _) => None                         (* `++` : at least one item *)
    end
  | None => None
  end.

Definition p_char_class (s : str) : option (okuri * str) :=
  match lit [91] s with
  | Some s1 => match plus n_class_char s1 with
               | Some (k, r) => match lit [93] r with Some r' => Some (OClass k, r') | None => None end
               | None => None
               end
  | None => None
  end.

Definition p_okuri1 (s : str) : option (okuri * str) :=
  match p_fixed_okuri s with Some r => Some r | None => p_char_class s end.

(** okuri() = (fixed / class) (fixed / class)?  -> the first *)
Definition p_okuri (s : str) : option (okuri * str) :=
  match p_okuri1 s with
  | Some (o, r) => match p_okuri1 r with Some (_, r') => Some (o, r') | None => Some (o, r) end
  | None => None
  end.

Definition p_okuri_opt (s : str) : option okuri * str :=
  match p_okuri s with Some (o, r) => (Some o, r) | None => (None, s) end.

(** * speech alternatives *)
Definition NOUN_TAGS : list str :=
  [ [12469; 22793; 21517; 35422]; [20195; 21517; 35422]; [21517; 35422]; [20154; 31216; 20195; 21517; 35422]; [30097; 21839; 20195; 21517; 35422];
    [36899; 35486]; [35079; 21512; 35486]; [25104; 21477]; [36899; 21477]; [36899; 28609] ].
(* サ変名詞 代名詞 名詞 人称代名詞 疑問代名詞 連語 複合語 成句 連句 連濁 *)

Fixpoint first_lit (ls : list str) (s : str) : option (str * str) :=
  match ls with
  | [] => None
  | l :: ls' => match lit l s with Some r => Some (l, r) | None => first_lit ls' s end
  end.

Definition VERB_SUFFIXES : list (str * verb_class) :=
  [ ([34892; 20116; 27573], Godan); ([34892; 22235; 27573], Yodan); ([34892; 19978; 19968], KamiIchidan); ([34892; 19979; 19968], SimoIchidan);
    ([34892; 19978; 20108], KamiNidan); ([34892; 19979; 20108], SimoNidan); ([22793], Hen) ].

Fixpoint first_verb_suffix (ls : list (str * verb_class)) (s : str) : option (verb_class * str) :=
  match ls with
  | [] => None
  | (l, c) :: ls' => match lit l s with Some r => Some (c, r) | None => first_verb_suffix ls' s end
  end.

(** each alternative: Some (Some speech | None for the ignored subsidiary verb, rest) *)
Definition p_alt (s : str) : option (option note_speech * str) :=
  (* noun *)
  match first_lit NOUN_TAGS s with
  | Some (t, r) => let '(o, r') := p_okuri_opt r in Some (Some (NSNoun t o), r')
  | None =>
  (* verb *)
  match (match s with
         | k :: s' => if n_katakana k then match first_verb_suffix VERB_SUFFIXES s' with Some (c, r) => Some (c, k, r) | None => None end else None
         | [] => None
         end) with
  | Some (c, k, r) => let '(o, r') := p_okuri_opt r in Some (Some (NSVerb c k o), r')
  | None =>
  match lit [24418; 23481; 35422] s with            (* 形容詞 okuri? *)
  | Some r => let '(o, r') := p_okuri_opt r in Some (Some (NSAdjective o), r')
  | None =>
  match (match lit [24418; 23481; 21205; 35422] s with Some r => p_okuri r | None => None end) with      (* 形容動詞 okuri *)
  | Some (o, r') => Some (Some (NSAdjectivalVerb o), r')
  | None =>
  match (match lit [21161; 25968; 35422] s with Some r => p_okuri r | None => None end) with             (* 助数詞 okuri *)
  | Some (o, r') => Some (Some (NSCounter o), r')
  | None =>
  match (match lit [24863; 21205; 35422] s with Some r => p_okuri r | None => None end) with             (* 感動詞 okuri *)
  | Some (o, r') => Some (Some (NSVerbatim o), r')
  | None =>
  match lit [36899; 20307; 35422] s with            (* 連体詞 okuri? *)
  | Some r => let '(o, r') := p_okuri_opt r in Some (Some (NSPreNoun o), r')
  | None =>
  match (match lit [21103; 35422] s with Some r => p_okuri r | None => None end) with                    (* 副詞 okuri *)
  | Some (o, r') => Some (Some (NSAdverb o), r')
  | None =>
  match lit [35036; 21161; 21205; 35422] s with     (* 補助動詞 okuri? -> ignored *)
  | Some r => let '(_, r') := p_okuri_opt r in Some (None, r')
  | None =>
  match lit [25509; 32154; 21161; 35422] s with     (* 接続助詞 okuri? *)
  | Some r => let '(o, r') := p_okuri_opt r in Some (Some (NSConjParticle o), r')
  | None =>
  match lit [25509; 32154; 35422] s with            (* 接続詞 okuri? *)
  | Some r => let '(o, r') := p_okuri_opt r in Some (Some (NSConjunction o), r')
  | None => None
  end end end end end end end end end end end.

(** alt ** "," *)
Fixpoint p_alts (fuel : nat) (first : bool) (s : str) : list (option note_speech) * str :=
  match fuel with
  | O => ([], s)
  | S fuel' =>
    let s1 := if first then Some s else lit [44] s in
    match s1 with
    | None => ([], s)
    | Some s1 =>
      match p_alt s1 with
      | Some (a, r) => let '(l, r') := p_alts fuel' false r in (a :: l, r')
      | None => ([], s)
      end
    end
  end.

Definition HEADERS : list str := [ [60; 98; 97; 115; 101; 62]; [40; 25991; 35486; 41]; [25991; 35486]; [40; 36899; 28609; 41] ].   (* <base> (文語) 文語 (連濁) *)

(** speech() = "∥" header? (alt ** ",") note_in_entry?   with note_in_entry() = space()* "¶" [^ '/']* *)
Definition p_speech (s : str) : option (list note_speech * str) :=
  match lit [8741] s with
  | None => None
  | Some s1 =>
    let s2 := match first_lit HEADERS s1 with Some (_, r) => r | None => s1 end in
    let '(alts, s3) := p_alts (S (length s2)) true s2 in
    let s4 := let '(_, r) := take_while n_space s3 in
              match lit [182] r with Some r' => snd (take_while n_not_slash r') | None => s3 end in
    Some (flat_map (fun a => match a with Some x => [x] | None => [] end) alts, s4)
  end.

Definition p_annotation (s : str) : option str :=
  match lit [59] s with Some r => Some (snd (take_while n_annot_char r)) | None => None end.

Definition OKURI_NASI : str := [8741; 60; 111; 107; 117; 114; 105; 45; 110; 97; 115; 105; 62].    (* ∥<okuri-nasi> *)
Definition DERIVED : str := [8741; 60; 100; 101; 114; 105; 118; 101; 100; 62].                     (* ∥<derived> *)

(** one of  okuri_nasi_entry / derived_entry / entry / no_entry  *)
Definition p_entry (s : str) : option (list note_entry * str) :=
  match lit [47] s with
  | None => None
  | Some s1 =>
    match plus n_stem_char s1 with
    | None => None
    | Some (stem, s2) =>
      match p_annotation s2 with
      | Some s3 =>
        match lit OKURI_NASI s3 with
        | Some r => Some ([], snd (take_while n_not_slash r))
        | None =>
          match lit DERIVED s3 with
          | Some r => Some ([], snd (take_while n_not_slash r))
          | None =>
            match p_speech s3 with
            | Some (sps, r) => Some (map (fun sp => {| ne_stem := stem; ne_speech := sp |}) sps, r)
            | None => Some ([], s3)            (* no_entry: "/" stem annotation? *)
            end
          end
        end
      | None => Some ([], s2)                  (* no_entry without annotation *)
      end
    end
  end.

Fixpoint p_entries (fuel : nat) (s : str) : list (list note_entry) * str :=
  match fuel with
  | O => ([], s)
  | S fuel' =>
    match p_entry s with
    | Some (es, r) => let '(l, r') := p_entries fuel' r in (es :: l, r')
    | None => ([], s)
    end
  end.

(** note(): [None] = parse error *)
Definition p_note (s : str) : option note :=
  match plus n_kana s with
  | None => None
  | Some (h, s1) =>
    let '(ok, s2) := match s1 with c :: r => if n_alpha c then ([c], r) else ([], s1) | [] => ([], s1) end in
    match plus n_space s2 with
    | None => None
    | Some (_, s3) =>
      match p_entries (S (length s3)) s3 with
      | ([], _) => None
      | (ess, r) =>
        match r with
        | [47] => Some {| nt_headword := h; nt_okuri := ok; nt_entries := concat ess |}
        | _ => None
        end
      end
    end
  end.

(** parse_note: [None] = Err, [Some None] = Ok(None) (comment, or a note without usable entry), [Some (Some n)] *)
Definition parse_note (s : str) : option (option note) :=
  match s with
  | 59 :: _ => Some None
  | _ => match p_note s with
         | Some n => match nt_entries n with [] => Some None | _ => Some (Some n) end
         | None => None
         end
  end.
