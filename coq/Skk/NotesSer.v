(** Canonical serialisation of the notes model's results, used only by the correspondence check (no theorem depends on it):
    strings are length-prefixed, constructors are numbered, so two results are equal iff their serialisations are. *)
From Chokan Require Import Base.Str Base.ListUtil Dic.Speech Gen.SpeechNames Dic.PegAlt Gen.DicGrammar Dic.TextFormat Skk.Notes Skk.NotesConv Skk.SkkLine.
Local Open Scope N_scope.

Definition ser_str (s : str) : str := N.of_nat (length s) :: s.
Definition ser_okuri (o : okuri) : str := match o with OFix v => 1 :: ser_str v | OClass v => 2 :: ser_str v end.
Definition ser_opt_okuri (o : option okuri) : str := match o with None => [0] | Some x => ser_okuri x end.
Definition ser_class (c : verb_class) : N :=
  match c with Godan => 0 | Yodan => 1 | SimoIchidan => 2 | KamiIchidan => 3 | SimoNidan => 4 | KamiNidan => 5 | Hen => 6 end.
Definition ser_speech (sp : note_speech) : str :=
  match sp with
  | NSVerb c row o => 0 :: ser_class c :: row :: ser_opt_okuri o
  | NSAdjective o => 1 :: ser_opt_okuri o
  | NSAdjectivalVerb o => 2 :: ser_okuri o
  | NSAdverb o => 3 :: ser_okuri o
  | NSNoun t o => 4 :: ser_str t ++ ser_opt_okuri o
  | NSCounter o => 5 :: ser_okuri o
  | NSVerbatim o => 6 :: ser_okuri o
  | NSPreNoun o => 7 :: ser_opt_okuri o
  | NSConjParticle o => 8 :: ser_opt_okuri o
  | NSConjunction o => 9 :: ser_opt_okuri o
  end.
Definition ser_note (n : note) : str :=
  ser_str (nt_headword n) ++ ser_str (nt_okuri n) ++ N.of_nat (length (nt_entries n)) :: flat_map (fun e => ser_str (ne_stem e) ++ ser_speech (ne_speech e)) (nt_entries n).

(** parse_note: [0] error, [1] nothing, 2 :: note *)
Definition ser_parse (r : option (option note)) : str :=
  match r with None => [0] | Some None => [1] | Some (Some n) => 2 :: ser_note n end.
(** conversion: [9] explicit panic, [8] error (never), 1 :: the emitted lines; the flag says whether main.rs skips the entry *)
Definition is_ancillary (c : converted) : bool := match cv_speech c with Affix _ => true | _ => false end.
Definition ser_conv (r : outcome (list converted)) : str :=
  match r with
  | Panic => [9] | Err => [8]
  | Ok l => 1 :: N.of_nat (length l) :: flat_map (fun c => (if is_ancillary c then 1 else 0) :: ser_str (print_converted c)) l
  end.
Definition note_result (s : str) : str * str :=
  match parse_note s with
  | Some (Some n) => (ser_parse (Some (Some n)), ser_conv (note_to_converted n))
  | r => (ser_parse r, [])
  end.
Definition note_case_ok (c : str * (str * str)) : bool :=
  let '(p, cv) := note_result (fst c) in str_eqb p (fst (snd c)) && str_eqb cv (snd (snd c)).

(** the SKK line parser and the simple converters *)
Definition ser_skk (r : option (option skk_entry)) : str :=
  match r with
  | None => [0] | Some None => [1]
  | Some (Some e) => 2 :: ser_str (k_reading e) ++ (match k_okuri e with None => [0] | Some o => 1 :: ser_str o end)
                       ++ N.of_nat (length (k_words e)) :: flat_map ser_str (k_words e)
  end.
Definition ser_entries (r : option (option (list entry))) : str :=
  match r with
  | None => [0] | Some None => [1]
  | Some (Some es) => 2 :: N.of_nat (length es) :: flat_map (fun e => ser_str (print_entry e)) es
  end.
Definition skk_case_ok (c : str * (str * (str * (str * str)))) : bool :=
  let '(line, (a, (b, (c', d)))) := c in
  str_eqb (ser_skk (parse_skk line)) a && str_eqb (ser_entries (parse_nouns line)) b
  && str_eqb (ser_entries (parse_propers line)) c' && str_eqb (ser_entries (parse_tankan line)) d.
