(** The notes converter is total up to its explicit unsupported-conjugation rejection, and everything it emits is a
    valid dictionary line that reads back as itself (C18). *)
From Chokan Require Import Base.Str Base.ListUtil Base.Classes Dic.Speech Dic.PegAlt Gen.SpeechNames Gen.DicGrammar Dic.TextFormat Dic.TextFormatProofs
  Dic.ConjRule Gen.ConjTables Dic.Conjugation Dic.Gojuon Dic.ConjProofs Gen.SkkOkuri Skk.Notes Skk.NotesConv.
From Coq Require Import Lia.
Local Open Scope N_scope.

(** * totality *)
Definition speech_supported (sp : note_speech) : bool :=
  match sp with NSVerb c row _ => match skk_okuri c row with Some _ => true | None => false end | _ => true end.

Lemma entry_total headword e : speech_supported (ne_speech e) = true -> exists l, entry_to_converted headword e = Ok l.
Proof.
  unfold entry_to_converted, to_okuri_kana, drop_dictionary_okuri, speech_supported.
  destruct (ne_speech e) as [c row o| | | | | | | | |]; intro H; try (eexists; reflexivity).
  destruct (skk_okuri c row) as [k|]; [|discriminate]. destruct o as [[v|cl]|]; eexists; reflexivity.
Qed.

Theorem notes_total n : forallb (fun e => speech_supported (ne_speech e)) (nt_entries n) = true -> exists l, note_to_converted n = Ok l.
Proof.
  unfold note_to_converted. generalize (@nil converted). induction (nt_entries n) as [|e es IH]; intros acc H; cbn [fold_left]; [eexists; reflexivity|].
  cbn [forallb] in H. apply andb_true_iff in H as [He Hes]. destruct (entry_total (nt_headword n) e He) as [l Hl].
  cbn [obind]. rewrite Hl. cbn [obind]. apply IH. assumption.
Qed.

Lemma fold_not_ok {A B} (f : B -> outcome (list A)) es : forall acc, (forall l, acc <> Ok l) ->
  forall l, fold_left (fun acc e => obind acc (fun l => obind (f e) (fun c => Ok (l ++ c)))) es acc <> Ok l.
Proof.
  induction es as [|e es IH]; intros acc H l; cbn [fold_left]; [apply H|]. apply IH. intros l' E. destruct acc; cbn [obind] in E; try discriminate. eapply H; reflexivity.
Qed.

(** the converter never returns an error value: it produces entries or takes its explicit panic! *)
Lemma entry_ok_or_panic headword e : (exists l, entry_to_converted headword e = Ok l) \/ entry_to_converted headword e = Panic.
Proof.
  destruct (speech_supported (ne_speech e)) eqn:E; [left; apply entry_total; exact E|right].
  unfold speech_supported in E. unfold entry_to_converted, to_okuri_kana, drop_dictionary_okuri.
  destruct (ne_speech e) as [c row o| | | | | | | | |]; try discriminate. destruct (skk_okuri c row); [discriminate|].
  destruct o as [[v|cl]|]; reflexivity.
Qed.

(** the only way the converter fails is the explicit rejection of a (class,row) without dictionary-form okurigana *)
Theorem notes_fail_only_unsupported n : (forall l, note_to_converted n <> Ok l) ->
  exists e c row o, In e (nt_entries n) /\ ne_speech e = NSVerb c row o /\ skk_okuri c row = None.
Proof.
  intro H. destruct (forallb (fun e => speech_supported (ne_speech e)) (nt_entries n)) eqn:E.
  - destruct (notes_total n E) as [l Hl]. exfalso. exact (H l Hl).
  - assert (Hx : exists e, In e (nt_entries n) /\ speech_supported (ne_speech e) = false).
    { clear H. induction (nt_entries n) as [|e es IH]; [discriminate|]. cbn [forallb] in E. apply andb_false_iff in E as [E|E]; [exists e; split; [left; reflexivity|exact E]|].
      destruct (IH E) as (e' & H1 & H2). exists e'. split; [right; exact H1|exact H2]. }
    destruct Hx as (e & Hin & Hs). unfold speech_supported in Hs. destruct (ne_speech e) as [c row o| | | | | | | | |] eqn:Es; try discriminate.
    exists e, c, row, o. repeat split; try assumption. destruct (skk_okuri c row); [discriminate|reflexivity].
Qed.

(** * what is emitted *)
Definition kana_str (s : str) : bool := forallb n_kana s.

Lemma n_kana_is_kana c : n_kana c = true -> is_kana c = true.
Proof. apply (class_sub _ g_kana_class c). vm_compute. reflexivity. Qed.

Lemma n_kana_no_space c : n_kana c = true -> is_no_space c = true.
Proof.
  intro H. unfold is_no_space. apply negb_true_iff. destruct (in_class g_no_space_excluded c) eqn:E; [|reflexivity].
  unfold n_kana in H. rewrite (class_disjoint g_no_space_excluded _ c) in H; [discriminate|vm_compute; reflexivity|exact E].
Qed.

Lemma n_kana_not_nl c : n_kana c = true -> c <> NL.
Proof. intros H ->. vm_compute in H. discriminate. Qed.

Lemma lookup_okuri_in t c row k : lookup_okuri t c row = Some k -> In (c, row, k) t.
Proof.
  induction t as [|[[c' row'] k'] t IH]; cbn [lookup_okuri]; [discriminate|].
  destruct (verb_class_eqb c c' && N.eqb row row') eqn:E.
  - intro H. inversion H; subst. apply andb_true_iff in E as [E1 E2]. apply N.eqb_eq in E2. apply verb_class_eqb_eq in E1. subst. left. reflexivity.
  - intro H. right. apply IH. exact H.
Qed.

Lemma okuri_table_kana : forallb (fun x => kana_str (snd x) && negb (match snd x with [] => true | _ => false end)) skk_okuri_table = true.
Proof. vm_compute. reflexivity. Qed.

Lemma skk_okuri_kana c row k : skk_okuri c row = Some k -> kana_str k = true /\ k <> [].
Proof.
  intro H. apply lookup_okuri_in in H. pose proof okuri_table_kana as Ht. rewrite forallb_forall in Ht. specialize (Ht _ H). cbn [snd] in Ht.
  apply andb_true_iff in Ht as [H1 H2]. split; [exact H1|]. destruct k; [discriminate|discriminate].
Qed.

(** well-formedness of a parsed note: what the grammar produces from a line (see [NotesParse.parse_note_wf]) *)
Definition okuri_wf (o : option okuri) : bool := match o with Some (OFix v) => kana_str v && negb (match v with [] => true | _ => false end) | _ => true end.
Definition entry_wf (e : note_entry) : bool :=
  negb (match ne_stem e with [] => true | _ => false end) && forallb is_no_space (ne_stem e) && negb (mem_chr NL (ne_stem e))
  && okuri_wf (okuri_of (ne_speech e))
  && match ne_speech e with NSVerb _ row _ => n_katakana row | _ => true end.
Definition note_wf (n : note) : bool :=
  negb (match nt_headword n with [] => true | _ => false end) && kana_str (nt_headword n) && forallb entry_wf (nt_entries n).

Lemma forallb_firstn {A} (f : A -> bool) n l : forallb f l = true -> forallb f (firstn n l) = true.
Proof. revert l; induction n as [|n IH]; intros [|x l] H; cbn; auto. cbn in H. apply andb_true_iff in H as [H1 H2]. rewrite H1, (IH l H2). reflexivity. Qed.

Lemma firstn_nonempty {A} n (l : list A) : (0 < n)%nat -> l <> [] -> firstn n l <> [].
Proof. destruct n; [lia|]. destruct l; [congruence|discriminate]. Qed.

Lemma drop_last_props f w n : w <> [] -> forallb f w = true -> drop_last w n <> [] /\ forallb f (drop_last w n) = true.
Proof.
  intros Hne Hf. unfold drop_last. destruct (length w <=? n)%nat eqn:E.
  - split; [apply firstn_nonempty; [lia|assumption]|apply forallb_firstn; assumption].
  - apply Nat.leb_gt in E. split; [apply firstn_nonempty; [lia|assumption]|apply forallb_firstn; assumption].
Qed.

Lemma katakana_ok row : n_katakana row = true -> in_class g_katakana_class row = true.
Proof.
  unfold n_katakana. intro H. apply mem_chr_In in H. cbn [In] in H.
  repeat (destruct H as [<-|H]; [vm_compute; reflexivity|]). destruct H.
Qed.

Lemma speech_of_note_ok sp : match sp with NSVerb _ row _ => n_katakana row | _ => true end = true -> speech_ok (speech_of_note sp) = true.
Proof.
  destruct sp as [c row o| | | |typ o| | | | |]; cbn [speech_of_note speech_ok]; intro H; try reflexivity; [apply katakana_ok; exact H|].
  destruct (str_eqb typ _); reflexivity.
Qed.

Lemma okuri_kana_ok sp ok : okuri_wf (okuri_of sp) = true -> to_okuri_kana sp = Ok ok -> kana_str ok = true.
Proof.
  assert (Hd : forall (o : okuri) d, okuri_wf (Some o) = true -> kana_str d = true -> kana_str (okuri_to_kana o d) = true).
  { intros [v|cl] d H Hd; cbn [okuri_to_kana]; [|exact Hd]. cbn [okuri_wf] in H. apply andb_true_iff in H as [H _]. exact H. }
  assert (Hod : forall (o : option okuri) d, okuri_wf o = true -> kana_str d = true -> kana_str (opt_okuri_to_kana o d) = true).
  { intros [o|] d H Hk; cbn [opt_okuri_to_kana]; [apply Hd; assumption|exact Hk]. }
  destruct sp as [c row o|o|o|o|typ o|o|o|o|o|o]; cbn [okuri_of to_okuri_kana]; intros Hw E.
  - destruct o as [[v|cl]|].
    + inversion E; subst. cbn [okuri_wf] in Hw. apply andb_true_iff in Hw as [H _]. exact H.
    + destruct (skk_okuri c row) as [k|] eqn:Ek; [|discriminate]. inversion E; subst. apply (skk_okuri_kana c row). exact Ek.
    + destruct (skk_okuri c row) as [k|] eqn:Ek; [|discriminate]. inversion E; subst. apply (skk_okuri_kana c row). exact Ek.
  - inversion E. apply Hod; [exact Hw|reflexivity].
  - inversion E. apply Hd; [exact Hw|reflexivity].
  - inversion E. apply Hd; [exact Hw|reflexivity].
  - inversion E. apply Hod; [exact Hw|reflexivity].
  - inversion E. reflexivity.
  - inversion E. apply Hd; [exact Hw|reflexivity].
  - inversion E. apply Hod; [exact Hw|reflexivity].
  - inversion E. apply Hod; [exact Hw|reflexivity].
  - inversion E. apply Hod; [exact Hw|reflexivity].
Qed.

(** adjectives and adjectival verbs always get a non-empty okurigana, so dropping one character leaves the stem *)
Lemma okuri_nonempty_adj sp ok : okuri_wf (okuri_of sp) = true -> to_okuri_kana sp = Ok ok ->
  match sp with NSAdjective _ | NSAdjectivalVerb _ => ok <> [] | _ => True end.
Proof.
  destruct sp as [c row o|o|o|o|typ o|o|o|o|o|o]; cbn [okuri_of to_okuri_kana]; intros Hw E; try exact I.
  - inversion E. destruct o as [[v|cl]|]; cbn [opt_okuri_to_kana okuri_to_kana]; try discriminate.
    cbn [okuri_wf] in Hw. apply andb_true_iff in Hw as [_ H]. destruct v; [discriminate|discriminate].
  - inversion E. destruct o as [v|cl]; cbn [okuri_to_kana]; try discriminate.
    cbn [okuri_wf] in Hw. apply andb_true_iff in Hw as [_ H]. destruct v; [discriminate|discriminate].
Qed.

Lemma dropped_props f w ok sp r : w <> [] -> forallb f w = true -> forallb f ok = true ->
  match sp with NSAdjective _ | NSAdjectivalVerb _ => ok <> [] | _ => True end ->
  drop_dictionary_okuri (w ++ ok) sp = Ok r -> r <> [] /\ forallb f r = true.
Proof.
  intros Hne Hf Hok Hadj E.
  assert (Hall : forallb f (w ++ ok) = true) by (rewrite forallb_app, Hf, Hok; reflexivity).
  assert (Hne2 : w ++ ok <> []) by (destruct w; [congruence|discriminate]).
  assert (Hadjcase : ok <> [] -> firstn (length (w ++ ok) - 1) (w ++ ok) <> [] /\ forallb f (firstn (length (w ++ ok) - 1) (w ++ ok)) = true).
  { intro Hk. split; [|apply forallb_firstn; exact Hall]. apply firstn_nonempty; [|exact Hne2]. rewrite app_length. destruct w; [congruence|]. destruct ok; [congruence|]. cbn [length]. lia. }
  unfold drop_dictionary_okuri in E. destruct sp as [c row o|o|o|o|typ o|o|o|o|o|o]; try (inversion E; subst; split; assumption).
  - destruct (skk_okuri c row) as [k|]; [|discriminate]. inversion E; subst. apply drop_last_props; assumption.
  - inversion E; subst. apply Hadjcase. exact Hadj.
  - inversion E; subst. apply Hadjcase. exact Hadj.
Qed.

Lemma forallb_impl {A} (f g : A -> bool) l : (forall x, f x = true -> g x = true) -> forallb f l = true -> forallb g l = true.
Proof. intros H Hf. apply forallb_forall. intros x Hx. apply H. rewrite forallb_forall in Hf. auto. Qed.

Lemma mem_chr_forall c (s : str) : forallb (fun x => negb (N.eqb x c)) s = true <-> mem_chr c s = false.
Proof.
  unfold mem_chr. induction s as [|x s IH]; cbn [forallb existsb]; [split; reflexivity|].
  rewrite (N.eqb_sym x c). destruct (N.eqb c x); cbn [negb andb orb]; [split; discriminate|exact IH].
Qed.

Definition entry_of (c : converted) : entry := {| e_reading := cv_headword c; e_stem := cv_word c; e_speech := cv_speech c |}.

Lemma print_converted_entry c : print_converted c = print_entry (entry_of c).
Proof. reflexivity. Qed.

Lemma entry_emitted_printable headword e l : headword <> [] -> kana_str headword = true -> entry_wf e = true ->
  entry_to_converted headword e = Ok l -> forall c, In c l -> entry_printable (entry_of c) = true.
Proof.
  intros Hh Hk Hw E. unfold entry_wf in Hw.
  apply andb_true_iff in Hw as [Hw Hrow]. apply andb_true_iff in Hw as [Hw Hok]. apply andb_true_iff in Hw as [Hw Hnl]. apply andb_true_iff in Hw as [Hne Hns].
  apply nonempty_bool in Hne. apply negb_true_iff in Hnl.
  unfold entry_to_converted in E.
  destruct (to_okuri_kana (ne_speech e)) as [ok| |] eqn:Eok; cbn [obind] in E; try discriminate.
  pose proof (okuri_kana_ok _ _ Hok Eok) as Hokk. pose proof (okuri_nonempty_adj _ _ Hok Eok) as Hadj.
  destruct (drop_dictionary_okuri (ne_stem e ++ ok) (ne_speech e)) as [w| |] eqn:Ew; cbn [obind] in E; try discriminate.
  destruct (drop_dictionary_okuri (headword ++ ok) (ne_speech e)) as [h| |] eqn:Eh; cbn [obind] in E; try discriminate.
  destruct (dropped_props is_no_space _ _ _ _ Hne Hns (forallb_impl _ _ _ n_kana_no_space Hokk) Hadj Ew) as [Hw1 Hw2].
  assert (Hnl' : forallb (fun x => negb (N.eqb x NL)) (ne_stem e) = true) by (apply mem_chr_forall; exact Hnl).
  assert (Hoknl : forallb (fun x => negb (N.eqb x NL)) ok = true).
  { apply (forallb_impl n_kana); [|exact Hokk]. intros x Hx. apply negb_true_iff. apply N.eqb_neq. apply n_kana_not_nl. exact Hx. }
  destruct (dropped_props _ _ _ _ _ Hne Hnl' Hoknl Hadj Ew) as [_ Hw3]. apply mem_chr_forall in Hw3.
  destruct (dropped_props n_kana _ _ _ _ Hh Hk Hokk Hadj Eh) as [Hh1 Hh2].
  assert (Hbase : forall sp, speech_ok sp = true -> entry_printable {| e_reading := h; e_stem := w; e_speech := sp |} = true).
  { intros sp Hsp. unfold entry_printable, kana_reading, stem_ok. cbn [e_reading e_stem e_speech].
    rewrite (forallb_impl _ _ _ n_kana_is_kana Hh2), Hw2, Hw3, Hsp. destruct h; [congruence|]. destruct w; [congruence|]. reflexivity. }
  inversion E; subst. intros c [<-|Hc].
  - apply Hbase. apply speech_of_note_ok. exact Hrow.
  - destruct (okuri_of (ne_speech e)) as [[v|cl]|]; try destruct Hc.
    destruct (mem_n 62 cl); [destruct Hc as [<-|[]]; apply Hbase; reflexivity|].
    destruct (mem_n 60 cl); [destruct Hc as [<-|[]]; apply Hbase; reflexivity|destruct Hc].
Qed.

Lemma fold_ok_in {A B} (f : B -> outcome (list A)) es : forall acc l, 
  fold_left (fun acc e => obind acc (fun l => obind (f e) (fun c => Ok (l ++ c)))) es (Ok acc) = Ok l ->
  forall c, In c l -> In c acc \/ exists e l', In e es /\ f e = Ok l' /\ In c l'.
Proof.
  induction es as [|e es IH]; intros acc l E c Hc; cbn [fold_left] in E.
  - inversion E; subst. left. exact Hc.
  - cbn [obind] in E. destruct (f e) as [le| |] eqn:Ef; cbn [obind] in E.
    + destruct (IH _ _ E c Hc) as [H|(e' & l' & H1 & H2 & H3)].
      * apply in_app_or in H as [H|H]; [left; exact H|right; exists e, le; repeat split; [left; reflexivity|exact Ef|exact H]].
      * right. exists e', l'. repeat split; [right; exact H1|exact H2|exact H3].
    + exfalso. eapply (fold_not_ok f es Err); [discriminate|exact E].
    + exfalso. eapply (fold_not_ok f es Panic); [discriminate|exact E].
Qed.

(** every line emitted for a well-formed note is accepted by the dictionary format and reads back as the same
    reading, written form and part of speech *)
Theorem notes_emitted_valid n l : note_wf n = true -> note_to_converted n = Ok l ->
  forall c, In c l -> parse_line (print_converted c) = Some [entry_of c].
Proof.
  intros Hw E c Hc. unfold note_wf in Hw. apply andb_true_iff in Hw as [Hw Hes]. apply andb_true_iff in Hw as [Hh Hk]. apply nonempty_bool in Hh.
  rewrite print_converted_entry. apply entry_roundtrip.
  destruct (fold_ok_in (entry_to_converted (nt_headword n)) _ _ _ E c Hc) as [[]|(e & l' & H1 & H2 & H3)].
  rewrite forallb_forall in Hes. exact (entry_emitted_printable _ e l' Hh Hk (Hes e H1) H2 c H3).
Qed.

(** * the okuri row: whatever (class,row) the converter supports, the conjugation table has the row and the row's core
    forms begin in the gojuon row it names -- except ワ行上二, which the converter supports and the table lacks (F19) *)
Definition okuri_rows_conjugable : bool :=
  forallb (fun x => let '(c, row, _) := x in
             (verb_class_eqb c KamiNidan && N.eqb row 12527)
             || match lookup_rule verb_table c row with Some r => rule_core c row r | None => false end) skk_okuri_table.

Theorem okuri_row_conjugable c row k : skk_okuri c row = Some k -> (c, row) <> (KamiNidan, 12527) ->
  exists r, lookup_rule verb_table c row = Some r /\ rule_core c row r = true.
Proof.
  intros H Hne. apply lookup_okuri_in in H. assert (Ht : okuri_rows_conjugable = true) by (vm_compute; reflexivity).
  unfold okuri_rows_conjugable in Ht. rewrite forallb_forall in Ht. specialize (Ht _ H). cbn beta iota in Ht.
  apply orb_true_iff in Ht as [Ht|Ht].
  - apply andb_true_iff in Ht as [H1 H2]. apply verb_class_eqb_eq in H1. apply N.eqb_eq in H2. subst. congruence.
  - destruct (lookup_rule verb_table c row) as [r|]; [|discriminate]. exists r. split; [reflexivity|exact Ht].
Qed.

Theorem okuri_row_refuted : skk_okuri KamiNidan 12527 <> None /\ lookup_rule verb_table KamiNidan 12527 = None.
Proof. split; [vm_compute; discriminate|vm_compute; reflexivity]. Qed.

(** * a base verb note conjugates: the entry the converter emits for a supported (class,row) yields, in chokan-dic, a
    non-empty set of conjugated words, and each okurigana of the row's rule begins in the row (or is a euphonic variant) *)
Lemma core_in_nonempty c row l : core_in c row l = true -> l <> [].
Proof.
  intros H ->. revert H. unfold core_in, has_grade, has_str. cbn [existsb andb orb].
  destruct c; try discriminate.
  repeat match goal with |- context [match ?x with _ => _ end] => destruct x; try discriminate end.
Qed.

Lemma rule_core_lists_nonempty c row r sr : rule_core c row r = true -> okuri_list r sr <> [].
Proof.
  destruct r as [l|a b|ch a b|l]; cbn [rule_core okuri_list]; intro H.
  - apply (core_in_nonempty c row). exact H.
  - apply andb_true_iff in H as [Ha Hb]. destruct (Nat.eqb _ 1); [apply (core_in_nonempty c row a Ha)|apply (core_in_nonempty c row b Hb)].
  - apply andb_true_iff in H as [Ha Hb]. destruct (last_is ch sr); [apply (core_in_nonempty c row a Ha)|apply (core_in_nonempty c row b Hb)].
  - apply (core_in_nonempty c row). exact H.
Qed.

Theorem base_verb_conjugates c row k stem sr : skk_okuri c row = Some k -> (c, row) <> (KamiNidan, 12527) -> sr <> [] ->
  exists r forms, lookup_rule verb_table c row = Some r /\ to_forms (Verb c row) stem sr = Ok forms /\ forms <> []
    /\ rule_core c row r = true /\ (forall ok, In ok (rule_okuris r) -> okuri_in_row c row ok = true).
Proof.
  intros Hk Hne Hsr. destruct (okuri_row_conjugable c row k Hk Hne) as (r & Hr & Hc).
  assert (Hrow : forall ok, In ok (rule_okuris r) -> okuri_in_row c row ok = true) by (intros ok Hok; exact (row_okuri c row r ok Hr Hok)).
  assert (Hforms : exists forms, apply_rule r stem sr = Ok forms /\ forms <> []).
  { destruct r as [l|a b|ch a b|l].
    - eexists. split; [reflexivity|]. intro E. apply map_eq_nil in E. exact (rule_core_lists_nonempty c row _ sr Hc E).
    - eexists. split; [reflexivity|]. intro E. apply map_eq_nil in E. exact (rule_core_lists_nonempty c row _ sr Hc E).
    - eexists. split; [reflexivity|]. intro E. apply map_eq_nil in E. exact (rule_core_lists_nonempty c row _ sr Hc E).
    - cbn [apply_rule]. destruct sr as [|s0 sr']; [congruence|]. eexists. split; [reflexivity|].
      intro E. apply map_eq_nil in E. exact (rule_core_lists_nonempty c row (OKaHen l) [] Hc E). }
  destruct Hforms as (forms & Hf & Hfn). exists r, forms.
  split; [exact Hr|]. split; [unfold to_forms; cbn [speech_rule]; rewrite Hr; exact Hf|]. split; [exact Hfn|]. split; [exact Hc|exact Hrow].
Qed.
