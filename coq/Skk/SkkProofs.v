(** The SKK line parser returns exactly what a well-formed line says, annotations stripped; everything the simple
    converters emit is a valid dictionary line that reads back as itself (C18). *)
From Chokan Require Import Base.Str Base.ListUtil Dic.Speech Dic.PegAlt Gen.SpeechNames Gen.DicGrammar Dic.TextFormat Dic.TextFormatProofs
  Gen.SkkGrammar Skk.SkkLine Base.Classes.
From Coq Require Import Lia.
Local Open Scope N_scope.

Definition wf_word (p : str * option str) : bool :=
  negb (match fst p with [] => true | _ => false end) && forallb is_word_char (fst p)
  && match snd p with Some a => forallb is_annot_char a | None => true end.

Definition wf_line (reading okuri blanks : str) (ws : list (str * option str)) : bool :=
  negb (match reading with [] => true | _ => false end) && forallb is_skk_kana reading
  && forallb is_skk_alpha okuri
  && negb (match blanks with [] => true | _ => false end) && forallb is_skk_space blanks
  && negb (match ws with [] => true | _ => false end) && forallb wf_word ws.

Lemma sl_not_word : is_word_char SL = false. Proof. reflexivity. Qed.
Lemma sc_not_word : is_word_char SC = false. Proof. reflexivity. Qed.
Lemma sl_not_annot : is_annot_char SL = false. Proof. reflexivity. Qed.

Lemma parse_kanji_word w a rest : wf_word (w, a) = true ->
  parse_kanji (w ++ (match a with Some x => SC :: x | None => [] end) ++ SL :: rest) = Some (w, rest).
Proof.
  unfold wf_word. cbn [fst snd]. intro H. apply andb_true_iff in H as [H Ha]. apply andb_true_iff in H as [Hne Hw].
  unfold parse_kanji. destruct a as [x|].
  - change ((SC :: x) ++ SL :: rest) with (SC :: (x ++ SL :: rest)).
    rewrite (take_while_app is_word_char w SC _ Hw sc_not_word). destruct w as [|c w']; [discriminate|].
    rewrite N.eqb_refl. rewrite (take_while_app is_annot_char x SL rest Ha sl_not_annot). cbn [snd]. rewrite N.eqb_refl. reflexivity.
  - cbn [app]. rewrite (take_while_app is_word_char w SL rest Hw sl_not_word). destruct w as [|c w']; [discriminate|].
    change (N.eqb SL SC) with false. cbv iota. rewrite N.eqb_refl. reflexivity.
Qed.

Definition words_body (ws : list (str * option str)) : str :=
  flat_map (fun p => fst p ++ (match snd p with Some a => SC :: a | None => [] end) ++ [SL]) ws.

Lemma parse_kanji_nil : parse_kanji [] = None. Proof. reflexivity. Qed.

Lemma parse_kanji_star_body ws : forallb wf_word ws = true -> forall fuel, (length ws < fuel)%nat ->
  parse_kanji_star fuel (words_body ws) = (map fst ws, []).
Proof.
  induction ws as [|[w a] ws IH]; intros H fuel Hf.
  - destruct fuel; [lia|]. reflexivity.
  - destruct fuel as [|fuel]; [lia|]. cbn [forallb] in H. apply andb_true_iff in H as [Hw Hws]. cbn [length] in Hf.
    cbn [words_body flat_map fst snd]. fold (words_body ws). cbn [parse_kanji_star].
    rewrite <- !app_assoc. cbn [app]. pose proof (parse_kanji_word w a (words_body ws) Hw) as HH.
    match goal with |- match ?X with _ => _ end = _ => replace X with (Some (w, words_body ws)) end.
    rewrite (IH Hws fuel) by lia. reflexivity.
Qed.

Lemma words_body_length ws : forallb wf_word ws = true -> (2 * length ws <= length (words_body ws))%nat.
Proof.
  induction ws as [|[w a] ws IH]; intro H; [cbn; lia|]. cbn [forallb] in H. apply andb_true_iff in H as [Hw H].
  unfold wf_word in Hw. cbn [fst] in Hw. apply andb_true_iff in Hw as [Hw _]. apply andb_true_iff in Hw as [Hw _].
  destruct w as [|c w]; [discriminate|].
  cbn [words_body flat_map length fst snd]. fold (words_body ws). rewrite !app_length. cbn [length]. specialize (IH H). lia.
Qed.

Lemma alpha_not_kana_facts : is_skk_kana SL = false /\ is_skk_alpha SL = false /\ is_skk_space SL = false
  /\ forallb (fun r => negb (is_skk_kana (fst r)) && negb (is_skk_kana (snd r))) skk_alpha_class = true
  /\ forallb (fun r => negb (is_skk_kana (fst r)) && negb (is_skk_alpha (fst r))) skk_space_class = true.
Proof. vm_compute. repeat split; reflexivity. Qed.

(** a blank is neither kana nor a letter; a letter is not kana (disjointness of the generated classes, computed) *)
Lemma space_facts c : is_skk_space c = true -> is_skk_kana c = false /\ is_skk_alpha c = false.
Proof.
  intro H. split; [apply (class_disjoint skk_space_class skk_kana_class c)|apply (class_disjoint skk_space_class skk_alpha_class c)];
    try exact H; vm_compute; reflexivity.
Qed.

Lemma alpha_facts c : is_skk_alpha c = true -> is_skk_kana c = false.
Proof. intro H. apply (class_disjoint skk_alpha_class skk_kana_class c); [vm_compute; reflexivity|exact H]. Qed.

Lemma take_while_stop f a rest : forallb f a = true -> (match rest with c :: _ => f c = false | [] => True end) -> take_while f (a ++ rest) = (a, rest).
Proof.
  intros Ha Hr. destruct rest as [|c r]; [rewrite app_nil_r; apply take_while_all; assumption|apply take_while_app; assumption].
Qed.

(** the parser returns exactly the reading, the okuri letters and the candidate words written in the line *)
Theorem parse_skk_faithful reading okuri blanks ws : wf_line reading okuri blanks ws = true ->
  parse_skk (print_skk reading okuri blanks ws)
  = Some (Some {| k_reading := reading; k_okuri := match okuri with [] => None | _ => Some okuri end; k_words := map fst ws |}).
Proof.
  unfold wf_line. intro H.
  apply andb_true_iff in H as [H Hws]. apply andb_true_iff in H as [H Hwne]. apply andb_true_iff in H as [H Hb]. apply andb_true_iff in H as [H Hbne].
  apply andb_true_iff in H as [H Ho]. apply andb_true_iff in H as [Hrne Hr].
  destruct blanks as [|b0 bl]; [discriminate|]. cbn [forallb] in Hb. apply andb_true_iff in Hb as [Hb0 Hbl].
  destruct (space_facts b0 Hb0) as [Hb0k Hb0a].
  unfold parse_skk, print_skk.
  (* reading *)
  assert (E1 : take_while is_skk_kana (reading ++ okuri ++ (b0 :: bl) ++ SL :: words_body ws) = (reading, okuri ++ (b0 :: bl) ++ SL :: words_body ws)).
  { apply take_while_stop; [assumption|]. destruct okuri as [|o0 ok]; cbn [app]; [exact Hb0k|]. cbn [forallb] in Ho. apply andb_true_iff in Ho as [Ho0 _]. apply alpha_facts. exact Ho0. }
  fold (words_body ws). rewrite E1. destruct reading as [|r0 rd]; [discriminate|].
  assert (E2 : take_while is_skk_alpha (okuri ++ (b0 :: bl) ++ SL :: words_body ws) = (okuri, (b0 :: bl) ++ SL :: words_body ws)).
  { apply take_while_stop; [assumption|]. cbn [app]. exact Hb0a. }
  rewrite E2.
  assert (E3 : take_while is_skk_space ((b0 :: bl) ++ SL :: words_body ws) = (b0 :: bl, SL :: words_body ws)).
  { apply take_while_app; [cbn [forallb]; rewrite Hb0, Hbl; reflexivity|]. apply alpha_not_kana_facts. }
  rewrite E3. rewrite N.eqb_refl.
  destruct ws as [|w0 wr]; [discriminate|].
  rewrite (parse_kanji_star_body (w0 :: wr) Hws) by (pose proof (words_body_length (w0 :: wr) Hws) as HL; cbn [length] in *; lia).
  cbn [map]. reflexivity.
Qed.

(** * what the converters emit is valid in the dictionary text format and reads back as itself *)

(** every character the SKK grammar admits in a reading is admitted by the dictionary format *)
Lemma skk_kana_sub : forallb (fun r => is_kana (fst r) && is_kana (snd r)) skk_kana_class = true.
Proof. vm_compute. reflexivity. Qed.

Lemma skk_kana_is_kana c : is_skk_kana c = true -> is_kana c = true.
Proof. apply (class_sub skk_kana_class g_kana_class c). vm_compute. reflexivity. Qed.

Theorem emitted_valid v reading w : negb (match reading with [] => true | _ => false end) = true -> forallb is_skk_kana reading = true ->
  negb (match w with [] => true | _ => false end) = true -> forallb is_no_space w = true -> mem_chr NL w = false ->
  let e := {| e_reading := reading; e_stem := w; e_speech := Noun v |} in
  parse_line (print_entry e) = Some [e].
Proof.
  intros Hrne Hr Hwne Hw Hnl e. apply entry_roundtrip. unfold entry_printable, e. cbn [e_reading e_stem e_speech].
  unfold kana_reading, stem_ok. rewrite Hrne, Hwne, Hw, Hnl. cbn [negb andb speech_ok].
  rewrite !andb_true_r. apply forallb_forall. intros c Hc. apply skk_kana_is_kana. rewrite forallb_forall in Hr. auto.
Qed.
