(** Postcondition of the notes grammar (Skk/Notes.v): whatever [parse_note] returns for a line is a well-formed note
    in the sense of [NotesProofs.note_wf] -- a non-empty kana headword; every entry has a non-empty stem without
    blank, tab or newline, a fixed okurigana (if any) that is non-empty kana, and a verb row that is one of the
    katakana row names.  Together with [NotesProofs.notes_emitted_valid] this closes the chain
    line -> note -> emitted dictionary lines (C18). *)
From Chokan Require Import Base.Str Base.ListUtil Base.Classes Dic.Speech Gen.SpeechNames Gen.DicGrammar Dic.TextFormat Dic.TextFormatProofs
  Dic.RestoreProofs Skk.Notes Skk.NotesConv Skk.NotesProofs.
From Coq Require Import Lia.
Local Open Scope N_scope.

(** * the invariant carried by the input: no newline *)
Definition P (s : str) : Prop := forallb (fun x => negb (N.eqb x NL)) s = true.

Lemma P_app a b : P (a ++ b) <-> P a /\ P b.
Proof. unfold P. rewrite forallb_app, andb_true_iff. reflexivity. Qed.

Lemma P_cons c s : P (c :: s) -> P s.
Proof. unfold P. cbn [forallb]. intro H. apply andb_true_iff in H as [_ H]. exact H. Qed.

Lemma take_while_P f s a b : take_while f s = (a, b) -> P s -> P a /\ P b /\ forallb f a = true.
Proof.
  intros E H. pose proof (take_while_concat f s) as T. rewrite E in T. destruct T as [-> Hf].
  apply P_app in H as [Ha Hb]. repeat split; assumption.
Qed.

Lemma snd_take_while_P f s : P s -> P (snd (take_while f s)).
Proof. intro H. destruct (take_while f s) as [a b] eqn:E. destruct (take_while_P _ _ _ _ E H) as (_ & Hb & _). exact Hb. Qed.

Lemma lit_P l s r : lit l s = Some r -> P s -> P r.
Proof. unfold lit. intros E H. apply strip_prefix_spec in E. subst s. apply P_app in H as [_ H]. exact H. Qed.

Lemma plus_spec f s a r : plus f s = Some (a, r) -> P s -> P a /\ P r /\ forallb f a = true /\ a <> [].
Proof.
  unfold plus. destruct (take_while f s) as [a' b'] eqn:E. intros H Hp.
  destruct (take_while_P _ _ _ _ E Hp) as (H1 & H2 & H3).
  destruct a' as [|x a']; [discriminate|]. inversion H; subst a r. repeat split; try assumption. discriminate.
Qed.

(** * matches on character literals, turned into case distinctions *)
Lemma p_fixed_item_cases s :
  p_fixed_item s = None \/
  exists s', s = 45 :: s' /\ p_fixed_item s = match plus n_kana s' with Some (k, r) => Some (45 :: k, r) | None => None end.
Proof.
  destruct s as [|c s']; [left; reflexivity|]. destruct c as [|p]; [left; reflexivity|].
  do 6 (destruct p as [p|p|]; try (left; reflexivity)). right. eexists. split; reflexivity.
Qed.

Definition parse_body (s : str) : option (option note) :=
  match p_note s with
  | Some n => match nt_entries n with [] => Some None | _ => Some (Some n) end
  | None => None
  end.

Lemma parse_note_cases s : parse_note s = Some None \/ parse_note s = parse_body s.
Proof.
  unfold parse_note, parse_body. destruct s as [|c s']; [right; reflexivity|]. destruct c as [|p]; [right; reflexivity|].
  do 6 (destruct p as [p|p|]; try (right; reflexivity)). left. reflexivity.
Qed.

Lemma match_slash_end {A} (r : str) (x y : A) : match r with [47] => Some x | _ => None end = Some y -> x = y.
Proof.
  destruct r as [|c r']; [discriminate|]. destruct c as [|p]; [discriminate|].
  do 6 (destruct p as [p|p|]; try discriminate). destruct r' as [|d r']; [|discriminate]. intro H. inversion H. reflexivity.
Qed.

(** * okuri *)
Definition item_ok (it : str) : Prop := kana_str (tl it) = true /\ tl it <> [].

Lemma p_fixed_item_spec s it r : p_fixed_item s = Some (it, r) -> P s -> P r /\ item_ok it.
Proof.
  intros H Hp. destruct (p_fixed_item_cases s) as [E|(s' & -> & E)]; [rewrite E in H; discriminate|].
  rewrite E in H. apply P_cons in Hp. destruct (plus n_kana s') as [[k r0]|] eqn:Ek; [|discriminate].
  destruct (plus_spec _ _ _ _ Ek Hp) as (_ & Hr & Hk & Hne). inversion H; subst it r. split; [exact Hr|]. split; [exact Hk|exact Hne].
Qed.

Lemma p_fixed_items_spec fuel : forall first s its r, p_fixed_items fuel first s = (its, r) -> P s ->
  P r /\ forall it, In it its -> item_ok it.
Proof.
  induction fuel as [|fuel IH]; intros first s its r H Hp; cbn [p_fixed_items] in H.
  - inversion H; subst its r. split; [exact Hp|]. intros it [].
  - destruct (if first then Some s else lit [44] s) as [s1|] eqn:E1.
    + assert (Hp1 : P s1). { destruct first; [inversion E1; subst s1; exact Hp|exact (lit_P _ _ _ E1 Hp)]. }
      destruct (p_fixed_item s1) as [[it0 r0]|] eqn:E2.
      * destruct (p_fixed_item_spec _ _ _ E2 Hp1) as [Hr0 Hit0].
        destruct (p_fixed_items fuel false r0) as [its' r'] eqn:E3. destruct (IH _ _ _ _ E3 Hr0) as [Hr' Hits'].
        inversion H; subst its r. split; [exact Hr'|]. intros it [<-|Hin]; [exact Hit0|exact (Hits' it Hin)].
      * inversion H; subst its r. split; [exact Hp|]. intros it [].
    + inversion H; subst its r. split; [exact Hp|]. intros it [].
Qed.

Lemma p_fixed_okuri_spec s o r : p_fixed_okuri s = Some (o, r) -> P s -> P r /\ okuri_wf (Some o) = true.
Proof.
  unfold p_fixed_okuri. intros H Hp. destruct (lit [40] s) as [s1|] eqn:E1; [|discriminate]. apply lit_P in E1; [|exact Hp].
  destruct (p_fixed_items (S (length s1)) true s1) as [its r0] eqn:E2. destruct (p_fixed_items_spec _ _ _ _ _ E2 E1) as [Hr0 Hits].
  destruct its as [|it its]; [discriminate|]. destruct (lit [41] r0) as [r'|] eqn:E3; [|discriminate]. apply lit_P in E3; [|exact Hr0].
  inversion H; subst o r. split; [exact E3|]. destruct (Hits it (or_introl eq_refl)) as [Hk Hne].
  cbn [okuri_wf]. rewrite Hk. destruct (tl it); [congruence|reflexivity].
Qed.

Lemma p_char_class_spec s o r : p_char_class s = Some (o, r) -> P s -> P r /\ okuri_wf (Some o) = true.
Proof.
  unfold p_char_class. intros H Hp. destruct (lit [91] s) as [s1|] eqn:E1; [|discriminate]. apply lit_P in E1; [|exact Hp].
  destruct (plus n_class_char s1) as [[k r0]|] eqn:E2; [|discriminate]. destruct (plus_spec _ _ _ _ E2 E1) as (_ & Hr0 & _ & _).
  destruct (lit [93] r0) as [r'|] eqn:E3; [|discriminate]. apply lit_P in E3; [|exact Hr0].
  inversion H; subst o r. split; [exact E3|reflexivity].
Qed.

Lemma p_okuri1_spec s o r : p_okuri1 s = Some (o, r) -> P s -> P r /\ okuri_wf (Some o) = true.
Proof.
  unfold p_okuri1. intros H Hp. destruct (p_fixed_okuri s) as [[o1 r1]|] eqn:E1.
  - inversion H; subst o r. exact (p_fixed_okuri_spec _ _ _ E1 Hp).
  - exact (p_char_class_spec _ _ _ H Hp).
Qed.

Lemma p_okuri_spec s o r : p_okuri s = Some (o, r) -> P s -> P r /\ okuri_wf (Some o) = true.
Proof.
  unfold p_okuri. intros H Hp. destruct (p_okuri1 s) as [[o1 r1]|] eqn:E1; [|discriminate].
  destruct (p_okuri1_spec _ _ _ E1 Hp) as [Hr1 Ho1]. destruct (p_okuri1 r1) as [[o2 r2]|] eqn:E2.
  - destruct (p_okuri1_spec _ _ _ E2 Hr1) as [Hr2 _]. inversion H; subst o r. split; [exact Hr2|exact Ho1].
  - inversion H; subst o r. split; [exact Hr1|exact Ho1].
Qed.

Lemma p_okuri_opt_spec s o r : p_okuri_opt s = (o, r) -> P s -> P r /\ okuri_wf o = true.
Proof.
  unfold p_okuri_opt. intros H Hp. destruct (p_okuri s) as [[o1 r1]|] eqn:E1.
  - inversion H; subst o r. exact (p_okuri_spec _ _ _ E1 Hp).
  - inversion H; subst o r. split; [exact Hp|reflexivity].
Qed.

(** * speech alternatives *)
Lemma first_lit_P ls s l r : first_lit ls s = Some (l, r) -> P s -> P r.
Proof.
  induction ls as [|l0 ls IH]; cbn [first_lit]; [discriminate|]. intros H Hp.
  destruct (lit l0 s) as [r0|] eqn:E; [|exact (IH H Hp)]. inversion H; subst l r. exact (lit_P _ _ _ E Hp).
Qed.

Lemma first_verb_suffix_P ls s c r : first_verb_suffix ls s = Some (c, r) -> P s -> P r.
Proof.
  induction ls as [|[l0 c0] ls IH]; cbn [first_verb_suffix]; [discriminate|]. intros H Hp.
  destruct (lit l0 s) as [r0|] eqn:E; [|exact (IH H Hp)]. inversion H; subst c r. exact (lit_P _ _ _ E Hp).
Qed.

Definition verb_head (s : str) : option (verb_class * N * str) :=
  match s with
  | k :: s' => if n_katakana k then match first_verb_suffix VERB_SUFFIXES s' with Some (c, r) => Some (c, k, r) | None => None end else None
  | [] => None
  end.

Definition lit_okuri (l s : str) : option (okuri * str) := match lit l s with Some r => p_okuri r | None => None end.

Lemma verb_head_spec s c k r : verb_head s = Some (c, k, r) -> P s -> P r /\ n_katakana k = true.
Proof.
  unfold verb_head. intros H Hp. destruct s as [|k0 s']; [discriminate|]. apply P_cons in Hp.
  destruct (n_katakana k0) eqn:Ek; [|discriminate]. destruct (first_verb_suffix VERB_SUFFIXES s') as [[c0 r0]|] eqn:E; [|discriminate].
  inversion H; subst c k r. split; [exact (first_verb_suffix_P _ _ _ _ E Hp)|exact Ek].
Qed.

Lemma lit_okuri_spec l s o r : lit_okuri l s = Some (o, r) -> P s -> P r /\ okuri_wf (Some o) = true.
Proof.
  unfold lit_okuri. intros H Hp. destruct (lit l s) as [r0|] eqn:E; [|discriminate]. exact (p_okuri_spec _ _ _ H (lit_P _ _ _ E Hp)).
Qed.

Lemma p_alt_unfold s : p_alt s =
  match first_lit NOUN_TAGS s with
  | Some (t, r) => let '(o, r') := p_okuri_opt r in Some (Some (NSNoun t o), r')
  | None =>
  match verb_head s with
  | Some (c, k, r) => let '(o, r') := p_okuri_opt r in Some (Some (NSVerb c k o), r')
  | None =>
  match lit [24418; 23481; 35422] s with
  | Some r => let '(o, r') := p_okuri_opt r in Some (Some (NSAdjective o), r')
  | None =>
  match lit_okuri [24418; 23481; 21205; 35422] s with
  | Some (o, r') => Some (Some (NSAdjectivalVerb o), r')
  | None =>
  match lit_okuri [21161; 25968; 35422] s with
  | Some (o, r') => Some (Some (NSCounter o), r')
  | None =>
  match lit_okuri [24863; 21205; 35422] s with
  | Some (o, r') => Some (Some (NSVerbatim o), r')
  | None =>
  match lit [36899; 20307; 35422] s with
  | Some r => let '(o, r') := p_okuri_opt r in Some (Some (NSPreNoun o), r')
  | None =>
  match lit_okuri [21103; 35422] s with
  | Some (o, r') => Some (Some (NSAdverb o), r')
  | None =>
  match lit [35036; 21161; 21205; 35422] s with
  | Some r => let '(_, r') := p_okuri_opt r in Some (None, r')
  | None =>
  match lit [25509; 32154; 21161; 35422] s with
  | Some r => let '(o, r') := p_okuri_opt r in Some (Some (NSConjParticle o), r')
  | None =>
  match lit [25509; 32154; 35422] s with
  | Some r => let '(o, r') := p_okuri_opt r in Some (Some (NSConjunction o), r')
  | None => None
  end end end end end end end end end end end.
Proof. reflexivity. Qed.

Definition sp_ok (sp : note_speech) : Prop :=
  okuri_wf (okuri_of sp) = true /\ match sp with NSVerb _ row _ => n_katakana row | _ => true end = true.

(** conclude an alternative: [H : Some (a0, r0) = Some (a, r)], [P r0] and the okuri fact are in the context *)
Ltac alt_done H :=
  inversion H; subst; clear H; split; [assumption|];
  let sp := fresh "sp" in let Hsp := fresh "Hsp" in
  intros sp Hsp; inversion Hsp; subst; clear Hsp; split; [cbn [okuri_of]; assumption|first [reflexivity|assumption]].

(** an alternative with an optional okuri after the tag: [Hr0 : P r0] *)
Ltac alt_opt H r0 Hr0 :=
  let o := fresh "o" in let r' := fresh "r'" in let Eo := fresh "Eo" in let Hr := fresh "Hr" in let Ho := fresh "Ho" in
  destruct (p_okuri_opt r0) as [o r'] eqn:Eo; destruct (p_okuri_opt_spec _ _ _ Eo Hr0) as [Hr Ho]; alt_done H.

Lemma p_alt_spec s a r : p_alt s = Some (a, r) -> P s ->
  P r /\ (forall sp, a = Some sp -> okuri_wf (okuri_of sp) = true /\ match sp with NSVerb _ row _ => n_katakana row | _ => true end = true).
Proof.
  rewrite p_alt_unfold. intros H Hp.
  destruct (first_lit NOUN_TAGS s) as [[t r0]|] eqn:E1.
  { pose proof (first_lit_P _ _ _ _ E1 Hp) as Hr0. alt_opt H r0 Hr0. }
  destruct (verb_head s) as [[[c k] r0]|] eqn:E2.
  { destruct (verb_head_spec _ _ _ _ E2 Hp) as [Hr0 Hk]. alt_opt H r0 Hr0. }
  destruct (lit [24418; 23481; 35422] s) as [r0|] eqn:E3.
  { pose proof (lit_P _ _ _ E3 Hp) as Hr0. alt_opt H r0 Hr0. }
  destruct (lit_okuri [24418; 23481; 21205; 35422] s) as [[o r0]|] eqn:E4.
  { destruct (lit_okuri_spec _ _ _ _ E4 Hp) as [Hr0 Ho]. alt_done H. }
  destruct (lit_okuri [21161; 25968; 35422] s) as [[o r0]|] eqn:E5.
  { destruct (lit_okuri_spec _ _ _ _ E5 Hp) as [Hr0 Ho]. alt_done H. }
  destruct (lit_okuri [24863; 21205; 35422] s) as [[o r0]|] eqn:E6.
  { destruct (lit_okuri_spec _ _ _ _ E6 Hp) as [Hr0 Ho]. alt_done H. }
  destruct (lit [36899; 20307; 35422] s) as [r0|] eqn:E7.
  { pose proof (lit_P _ _ _ E7 Hp) as Hr0. alt_opt H r0 Hr0. }
  destruct (lit_okuri [21103; 35422] s) as [[o r0]|] eqn:E8.
  { destruct (lit_okuri_spec _ _ _ _ E8 Hp) as [Hr0 Ho]. alt_done H. }
  destruct (lit [35036; 21161; 21205; 35422] s) as [r0|] eqn:E9.
  { pose proof (lit_P _ _ _ E9 Hp) as Hr0. destruct (p_okuri_opt r0) as [o r'] eqn:Eo. destruct (p_okuri_opt_spec _ _ _ Eo Hr0) as [Hr _].
    inversion H; subst a r. split; [exact Hr|]. intros sp Hsp. discriminate Hsp. }
  destruct (lit [25509; 32154; 21161; 35422] s) as [r0|] eqn:E10.
  { pose proof (lit_P _ _ _ E10 Hp) as Hr0. alt_opt H r0 Hr0. }
  destruct (lit [25509; 32154; 35422] s) as [r0|] eqn:E11.
  { pose proof (lit_P _ _ _ E11 Hp) as Hr0. alt_opt H r0 Hr0. }
  discriminate H.
Qed.

Lemma p_alts_spec fuel : forall first s l r, p_alts fuel first s = (l, r) -> P s ->
  P r /\ forall sp, In (Some sp) l -> sp_ok sp.
Proof.
  induction fuel as [|fuel IH]; intros first s l r H Hp; cbn [p_alts] in H.
  - inversion H; subst l r. split; [exact Hp|]. intros sp [].
  - destruct (if first then Some s else lit [44] s) as [s1|] eqn:E1.
    + assert (Hp1 : P s1). { destruct first; [inversion E1; subst s1; exact Hp|exact (lit_P _ _ _ E1 Hp)]. }
      destruct (p_alt s1) as [[a0 r0]|] eqn:E2.
      * destruct (p_alt_spec _ _ _ E2 Hp1) as [Hr0 Ha0].
        destruct (p_alts fuel false r0) as [l' r'] eqn:E3. destruct (IH _ _ _ _ E3 Hr0) as [Hr' Hl'].
        inversion H; subst l r. split; [exact Hr'|]. intros sp [Heq|Hin]; [exact (Ha0 sp Heq)|exact (Hl' sp Hin)].
      * inversion H; subst l r. split; [exact Hp|]. intros sp [].
    + inversion H; subst l r. split; [exact Hp|]. intros sp [].
Qed.

Lemma p_speech_spec s sps r : p_speech s = Some (sps, r) -> P s -> P r /\ forall sp, In sp sps -> sp_ok sp.
Proof.
  unfold p_speech. intros H Hp. destruct (lit [8741] s) as [s1|] eqn:E1; [|discriminate]. apply lit_P in E1; [|exact Hp].
  set (s2 := match first_lit HEADERS s1 with Some (_, r0) => r0 | None => s1 end) in H.
  assert (Hp2 : P s2). { subst s2. destruct (first_lit HEADERS s1) as [[h r0]|] eqn:E2; [exact (first_lit_P _ _ _ _ E2 E1)|exact E1]. }
  clearbody s2. destruct (p_alts (S (length s2)) true s2) as [alts s3] eqn:E3. destruct (p_alts_spec _ _ _ _ _ E3 Hp2) as [Hp3 Halts].
  destruct (take_while n_space s3) as [sp0 r0] eqn:E4. destruct (take_while_P _ _ _ _ E4 Hp3) as (_ & Hr0 & _).
  assert (Hsps : forall sp, In sp (flat_map (fun a : option note_speech => match a with Some x => [x] | None => [] end) alts) -> sp_ok sp).
  { intros sp Hin. apply in_flat_map in Hin as (a & Ha & Hin). destruct a as [x|]; [|destruct Hin].
    destruct Hin as [<-|[]]. exact (Halts x Ha). }
  destruct (lit [182] r0) as [r1|] eqn:E5.
  - inversion H; subst sps r. split; [apply snd_take_while_P; exact (lit_P _ _ _ E5 Hr0)|exact Hsps].
  - inversion H; subst sps r. split; [exact Hp3|exact Hsps].
Qed.

Lemma p_annotation_P s r : p_annotation s = Some r -> P s -> P r.
Proof.
  unfold p_annotation. intros H Hp. destruct (lit [59] s) as [r0|] eqn:E; [|discriminate]. inversion H; subst r.
  apply snd_take_while_P. exact (lit_P _ _ _ E Hp).
Qed.

(** * entries *)
Lemma n_stem_char_no_space c : n_stem_char c = true -> is_no_space c = true.
Proof. intro H. apply is_no_space_clean; intros ->; vm_compute in H; discriminate H. Qed.

Lemma stem_entry_wf stem sp : stem <> [] -> forallb n_stem_char stem = true -> P stem -> sp_ok sp ->
  entry_wf {| ne_stem := stem; ne_speech := sp |} = true.
Proof.
  intros Hne Hst Hp [Ho Hrow]. unfold entry_wf. cbn [ne_stem ne_speech].
  rewrite (forallb_impl _ _ _ n_stem_char_no_space Hst), Ho, Hrow. apply mem_chr_forall in Hp. rewrite Hp.
  destruct stem; [congruence|reflexivity].
Qed.

Lemma p_entry_spec s es r : p_entry s = Some (es, r) -> P s -> P r /\ forall e, In e es -> entry_wf e = true.
Proof.
  unfold p_entry. intros H Hp. destruct (lit [47] s) as [s1|] eqn:E1; [|discriminate]. apply lit_P in E1; [|exact Hp].
  destruct (plus n_stem_char s1) as [[stem s2]|] eqn:E2; [|discriminate]. destruct (plus_spec _ _ _ _ E2 E1) as (Hstp & Hp2 & Hst & Hne).
  destruct (p_annotation s2) as [s3|] eqn:E3.
  - pose proof (p_annotation_P _ _ E3 Hp2) as Hp3.
    destruct (lit OKURI_NASI s3) as [r0|] eqn:E4.
    { inversion H; subst es r. split; [apply snd_take_while_P; exact (lit_P _ _ _ E4 Hp3)|intros e []]. }
    destruct (lit DERIVED s3) as [r0|] eqn:E5.
    { inversion H; subst es r. split; [apply snd_take_while_P; exact (lit_P _ _ _ E5 Hp3)|intros e []]. }
    destruct (p_speech s3) as [[sps r0]|] eqn:E6.
    + destruct (p_speech_spec _ _ _ E6 Hp3) as [Hr0 Hsps]. inversion H; subst es r. split; [exact Hr0|].
      intros e Hin. apply in_map_iff in Hin as (sp & <- & Hin). apply stem_entry_wf; try assumption. exact (Hsps sp Hin).
    + inversion H; subst es r. split; [exact Hp3|intros e []].
  - inversion H; subst es r. split; [exact Hp2|intros e []].
Qed.

Lemma p_entries_spec fuel : forall s l r, p_entries fuel s = (l, r) -> P s ->
  P r /\ forall es, In es l -> forall e, In e es -> entry_wf e = true.
Proof.
  induction fuel as [|fuel IH]; intros s l r H Hp; cbn [p_entries] in H.
  - inversion H; subst l r. split; [exact Hp|]. intros es [].
  - destruct (p_entry s) as [[es0 r0]|] eqn:E1.
    + destruct (p_entry_spec _ _ _ E1 Hp) as [Hr0 Hes0]. destruct (p_entries fuel r0) as [l' r'] eqn:E2.
      destruct (IH _ _ _ E2 Hr0) as [Hr' Hl']. inversion H; subst l r. split; [exact Hr'|].
      intros es [<-|Hin]; [exact Hes0|exact (Hl' es Hin)].
    + inversion H; subst l r. split; [exact Hp|]. intros es [].
Qed.

(** * the note *)
Lemma p_note_wf s n : P s -> p_note s = Some n -> note_wf n = true.
Proof.
  unfold p_note. intros Hp H. destruct (plus n_kana s) as [[h s1]|] eqn:E1; [|discriminate].
  destruct (plus_spec _ _ _ _ E1 Hp) as (_ & Hp1 & Hk & Hne).
  destruct (match s1 with c :: r => if n_alpha c then ([c], r) else ([], s1) | [] => ([], s1) end) as [ok s2] eqn:E2.
  assert (Hp2 : P s2).
  { destruct s1 as [|c r1]; [inversion E2; subst; exact Hp1|]. destruct (n_alpha c); inversion E2; subst; [exact (P_cons _ _ Hp1)|exact Hp1]. }
  destruct (plus n_space s2) as [[sp0 s3]|] eqn:E3; [|discriminate]. destruct (plus_spec _ _ _ _ E3 Hp2) as (_ & Hp3 & _ & _).
  destruct (p_entries (S (length s3)) s3) as [ess r] eqn:E4. destruct (p_entries_spec _ _ _ _ E4 Hp3) as [_ Hess].
  destruct ess as [|es0 ess]; [discriminate|]. apply match_slash_end in H. subst n.
  unfold note_wf. cbn [nt_headword nt_entries]. unfold kana_str. rewrite Hk.
  assert (Hall : forallb entry_wf (concat (es0 :: ess)) = true).
  { apply forallb_forall. intros e Hin. apply in_concat in Hin as (es & Hes & Hin). exact (Hess es Hes e Hin). }
  rewrite Hall. destruct h; [congruence|reflexivity].
Qed.

Theorem parse_note_wf s n : mem_chr NL s = false -> parse_note s = Some (Some n) -> note_wf n = true.
Proof.
  intros Hnl H. apply mem_chr_forall in Hnl. destruct (parse_note_cases s) as [E|E]; rewrite E in H; [discriminate|].
  unfold parse_body in H. destruct (p_note s) as [n0|] eqn:En; [|discriminate].
  destruct (nt_entries n0); [discriminate|]. inversion H; subst n0. exact (p_note_wf _ _ Hnl En).
Qed.

(** the theorem is not vacuous:  あい /愛;∥名詞/   and   うごk /動;∥カ行五段(-く,-き)[a-z]/  *)
Example parse_note_noun :
  parse_note [12354; 12356; 32; 47; 24859; 59; 8741; 21517; 35422; 47]
  = Some (Some {| nt_headword := [12354; 12356]; nt_okuri := [];
                  nt_entries := [ {| ne_stem := [24859]; ne_speech := NSNoun [21517; 35422] None |} ] |}).
Proof. vm_compute. reflexivity. Qed.

Example parse_note_verb :
  parse_note [12358; 12372; 107; 32; 47; 21205; 59; 8741; 12459; 34892; 20116; 27573; 40; 45; 12367; 44; 45; 12365; 41; 91; 97; 45; 122; 93; 47]
  = Some (Some {| nt_headword := [12358; 12372]; nt_okuri := [107];
                  nt_entries := [ {| ne_stem := [21205]; ne_speech := NSVerb Godan 12459 (Some (OFix [12367])) |} ] |}).
Proof. vm_compute. reflexivity. Qed.

Print Assumptions parse_note_wf.
