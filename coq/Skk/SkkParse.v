(** Postconditions of the SKK line grammar (Skk/SkkLine.v): whatever [parse_skk] returns for a line has a non-empty
    kana reading and non-empty candidate words free of blank, tab, '/', ';' and newline; hence every entry the noun /
    jinmei / tankan converters build from a line is a valid dictionary line that reads back as itself (C18).
    With [SkkProofs.parse_skk_faithful] (what a well-formed line says is what is returned) this closes the chain
    line -> skk entry -> emitted dictionary lines for arbitrary input lines. *)
From Chokan Require Import Base.Str Base.ListUtil Base.Classes Dic.Speech Dic.PegAlt Gen.SpeechNames Gen.DicGrammar Dic.TextFormat Dic.TextFormatProofs
  Dic.RestoreProofs Gen.SkkGrammar Skk.SkkLine Skk.SkkProofs Skk.NotesProofs Skk.NotesParse.
From Coq Require Import Lia.
Local Open Scope N_scope.

(** [P s] (no newline in [s]), [take_while_P], [snd_take_while_P], [P_cons] come from Skk/NotesParse.v *)

Definition word_ok (w : str) : bool :=
  negb (match w with [] => true | _ => false end) && forallb is_word_char w && negb (mem_chr NL w).

(** * the grammar *)
Lemma parse_kanji_spec s w r : parse_kanji s = Some (w, r) -> P s -> P r /\ word_ok w = true.
Proof.
  unfold parse_kanji. intros H Hp. destruct (take_while is_word_char s) as [w0 rest] eqn:E.
  destruct (take_while_P _ _ _ _ E Hp) as (Hw & Hrest & Hf). destruct w0 as [|x w0]; [discriminate|]. cbv zeta in H.
  assert (Hok : word_ok (x :: w0) = true).
  { unfold word_ok. rewrite Hf. apply mem_chr_forall in Hw. rewrite Hw. reflexivity. }
  destruct rest as [|c0 r0]; [discriminate|]. destruct (N.eqb c0 SC) eqn:Ec.
  - pose proof (snd_take_while_P is_annot_char r0 (P_cons _ _ Hrest)) as Hp1.
    destruct (snd (take_while is_annot_char r0)) as [|c r1] eqn:E2; [discriminate|].
    destruct (N.eqb c SL); [|discriminate]. inversion H; subst w r. split; [exact (P_cons _ _ Hp1)|exact Hok].
  - destruct (N.eqb c0 SL); [|discriminate]. inversion H; subst w r. split; [exact (P_cons _ _ Hrest)|exact Hok].
Qed.

Lemma parse_kanji_star_spec fuel : forall s ws r, parse_kanji_star fuel s = (ws, r) -> P s -> P r /\ forallb word_ok ws = true.
Proof.
  induction fuel as [|fuel IH]; intros s ws r H Hp; cbn [parse_kanji_star] in H.
  - inversion H; subst ws r. split; [exact Hp|reflexivity].
  - destruct (parse_kanji s) as [[w0 r0]|] eqn:E1.
    + destruct (parse_kanji_spec _ _ _ E1 Hp) as [Hr0 Hw0]. destruct (parse_kanji_star fuel r0) as [ws' r'] eqn:E2.
      destruct (IH _ _ _ E2 Hr0) as [Hr' Hws']. inversion H; subst ws r. split; [exact Hr'|]. cbn [forallb]. rewrite Hw0, Hws'. reflexivity.
    + inversion H; subst ws r. split; [exact Hp|reflexivity].
Qed.

Theorem parse_skk_wf s e : mem_chr NL s = false -> parse_skk s = Some (Some e) ->
  k_reading e <> [] /\ forallb is_skk_kana (k_reading e) = true /\
  forallb (fun w => negb (match w with [] => true | _ => false end) && forallb is_word_char w && negb (mem_chr NL w)) (k_words e) = true.
Proof.
  unfold parse_skk. intros Hnl H. apply mem_chr_forall in Hnl.
  destruct (take_while is_skk_kana s) as [rd s1] eqn:E1. destruct (take_while_P _ _ _ _ E1 Hnl) as (_ & Hp1 & Hk).
  destruct rd as [|x rd]; [discriminate|].
  destruct (take_while is_skk_alpha s1) as [ok s2] eqn:E2. destruct (take_while_P _ _ _ _ E2 Hp1) as (_ & Hp2 & _).
  destruct (take_while is_skk_space s2) as [bl s3'] eqn:E3. destruct (take_while_P _ _ _ _ E3 Hp2) as (_ & Hp3 & _).
  destruct bl as [|b bl]; [discriminate|]. destruct s3' as [|c s3]; [discriminate|]. apply P_cons in Hp3.
  destruct (N.eqb c SL); [|discriminate].
  destruct (parse_kanji_star (length s3) s3) as [ws r] eqn:E4. destruct (parse_kanji_star_spec _ _ _ _ E4 Hp3) as [_ Hws].
  destruct ws as [|w0 ws]; [discriminate|]. destruct r as [|c1 r]; [|discriminate].
  inversion H; subst e. cbn [k_reading k_words]. split; [discriminate|]. split; [exact Hk|exact Hws].
Qed.

(** * the converters *)
Lemma word_char_no_space c : is_word_char c = true -> is_no_space c = true.
Proof. intro H. apply is_no_space_clean; intros ->; vm_compute in H; discriminate H. Qed.

Lemma noun_entries_valid v reading ws : reading <> [] -> forallb is_skk_kana reading = true -> forallb word_ok ws = true ->
  forall e, In e (noun_entries v reading ws) -> parse_line (print_entry e) = Some [e].
Proof.
  intros Hne Hk Hws e Hin. unfold noun_entries in Hin. apply in_map_iff in Hin as (w & <- & Hin).
  rewrite forallb_forall in Hws. specialize (Hws w Hin). unfold word_ok in Hws.
  apply andb_true_iff in Hws as [Hws Hnl]. apply andb_true_iff in Hws as [Hwne Hwc]. apply negb_true_iff in Hnl.
  apply emitted_valid; try assumption; [destruct reading; [congruence|reflexivity]|exact (forallb_impl _ _ _ word_char_no_space Hwc)].
Qed.

Theorem nouns_line_to_dictionary s es : mem_chr NL s = false -> parse_nouns s = Some (Some es) ->
  forall e, In e es -> parse_line (print_entry e) = Some [e].
Proof.
  unfold parse_nouns. intros Hnl H. destruct (parse_skk s) as [[k|]|] eqn:E; try discriminate.
  destruct (parse_skk_wf _ _ Hnl E) as (Hne & Hk & Hws). destruct (k_okuri k); [discriminate|]. inversion H; subst es.
  exact (noun_entries_valid _ _ _ Hne Hk Hws).
Qed.

Theorem propers_line_to_dictionary s es : mem_chr NL s = false -> parse_propers s = Some (Some es) ->
  forall e, In e es -> parse_line (print_entry e) = Some [e].
Proof.
  unfold parse_propers. intros Hnl H. destruct (parse_skk s) as [[k|]|] eqn:E; try discriminate.
  destruct (parse_skk_wf _ _ Hnl E) as (Hne & Hk & Hws). inversion H; subst es.
  exact (noun_entries_valid _ _ _ Hne Hk Hws).
Qed.

Theorem tankan_line_to_dictionary s es : mem_chr NL s = false -> parse_tankan s = Some (Some es) ->
  forall e, In e es -> parse_line (print_entry e) = Some [e].
Proof.
  unfold parse_tankan. intros Hnl H. destruct (parse_skk s) as [[k|]|] eqn:E; try discriminate.
  destruct (parse_skk_wf _ _ Hnl E) as (Hne & Hk & Hws).
  assert (Hf : forallb word_ok (filter (fun w => Nat.eqb (length w) 1) (k_words k)) = true).
  { apply forallb_forall. intros w Hin. apply filter_In in Hin as [Hin _]. rewrite forallb_forall in Hws. exact (Hws w Hin). }
  destruct (filter (fun w => Nat.eqb (length w) 1) (k_words k)) as [|w0 ws]; [discriminate|]. inversion H; subst es.
  exact (noun_entries_valid _ _ _ Hne Hk Hf).
Qed.

(** not vacuous:  あい /愛;love/藍/   (an annotated and a plain candidate) *)
Example parse_skk_example :
  parse_skk [12354; 12356; 32; 47; 24859; 59; 108; 111; 118; 101; 47; 34253; 47]
  = Some (Some {| k_reading := [12354; 12356]; k_okuri := None; k_words := [[24859]; [34253]] |}).
Proof. vm_compute. reflexivity. Qed.

Print Assumptions parse_skk_wf.
Print Assumptions nouns_line_to_dictionary.
Print Assumptions propers_line_to_dictionary.
Print Assumptions tankan_line_to_dictionary.
