From Coq Require Export List Arith.
Export ListNotations.

Fixpoint upd_nth {A} (l : list A) (i : nat) (f : A -> A) : list A :=
  match l, i with
  | [], _ => []
  | x :: l', O => f x :: l'
  | x :: l', S i' => x :: upd_nth l' i' f
  end.

Lemma upd_nth_length {A} (l : list A) i f : length (upd_nth l i f) = length l.
Proof. revert i; induction l as [|x l IH]; intros [|i]; cbn; auto. Qed.

Lemma nth_error_upd_nth_eq {A} (l : list A) i f : nth_error (upd_nth l i f) i = option_map f (nth_error l i).
Proof. revert i; induction l as [|x l IH]; intros [|i]; cbn; auto. Qed.

Lemma nth_error_upd_nth_neq {A} (l : list A) i j f : i <> j -> nth_error (upd_nth l i f) j = nth_error l j.
Proof. revert i j; induction l as [|x l IH]; intros [|i] [|j] H; cbn; auto; try congruence. Qed.
