(** Decidable inclusion / disjointness of character classes given as lists of inclusive ranges. *)
From Chokan Require Import Base.Str.
From Coq Require Import Lia.
Local Open Scope N_scope.

Definition class_sub_b (a b : list (N * N)) : bool :=
  forallb (fun r => existsb (fun r' => (fst r' <=? fst r) && (snd r <=? snd r')) b) a.
Definition class_disjoint_b (a b : list (N * N)) : bool :=
  forallb (fun r => forallb (fun r' => (snd r <? fst r') || (snd r' <? fst r)) b) a.

Lemma class_sub a b c : class_sub_b a b = true -> in_class a c = true -> in_class b c = true.
Proof.
  unfold class_sub_b, in_class. rewrite forallb_forall. intros H Hc. apply existsb_exists in Hc as (r & Hr & Hc).
  specialize (H r Hr). apply existsb_exists in H as (r' & Hr' & H). apply existsb_exists. exists r'. split; [assumption|].
  apply andb_true_iff in Hc as [H1 H2]. apply andb_true_iff in H as [H3 H4].
  apply N.leb_le in H1, H2, H3, H4. apply andb_true_iff. split; apply N.leb_le; lia.
Qed.

Lemma class_disjoint a b c : class_disjoint_b a b = true -> in_class a c = true -> in_class b c = false.
Proof.
  unfold class_disjoint_b, in_class. rewrite forallb_forall. intros H Hc. apply existsb_exists in Hc as (r & Hr & Hc).
  specialize (H r Hr). rewrite forallb_forall in H.
  destruct (existsb _ b) eqn:E; [|reflexivity]. exfalso. apply existsb_exists in E as (r' & Hr' & E). specialize (H r' Hr').
  apply andb_true_iff in Hc as [H1 H2]. apply andb_true_iff in E as [H3 H4]. apply N.leb_le in H1, H2, H3, H4.
  apply orb_true_iff in H as [H|H]; apply N.ltb_lt in H; lia.
Qed.
