(** Strings of the models: lists of Unicode scalar values ([N]). *)
From Coq Require Export List NArith ZArith Bool Lia.
Export ListNotations.
Arguments N.add : simpl never.
Arguments N.sub : simpl never.
Arguments N.mul : simpl never.
Arguments N.eqb : simpl never.
Arguments N.ltb : simpl never.
Arguments N.leb : simpl never.

Definition chr := N.
Definition str := list N.

Inductive outcome (A : Type) : Type :=
| Ok (a : A)
| Err
| Panic.
Arguments Ok {A} a.
Arguments Err {A}.
Arguments Panic {A}.

Definition obind {A B} (o : outcome A) (f : A -> outcome B) : outcome B :=
  match o with Ok a => f a | Err => Err | Panic => Panic end.

Fixpoint str_eqb (a b : str) : bool :=
  match a, b with
  | [], [] => true
  | x :: a', y :: b' => N.eqb x y && str_eqb a' b'
  | _, _ => false
  end.

Lemma str_eqb_spec a b : str_eqb a b = true <-> a = b.
Proof.
  revert b; induction a as [|x a IH]; intros [|y b]; cbn [str_eqb]; split; intro H; try congruence; try discriminate.
  - apply andb_true_iff in H as [H1 H2]. apply N.eqb_eq in H1. apply IH in H2. congruence.
  - inversion H; subst. apply andb_true_iff; split; [apply N.eqb_refl | apply IH; reflexivity].
Qed.

Lemma str_eqb_refl a : str_eqb a a = true.
Proof. apply str_eqb_spec; reflexivity. Qed.

(** [strip_prefix p s] = [Some rest] when [s = p ++ rest]. *)
Fixpoint strip_prefix (p s : str) : option str :=
  match p with
  | [] => Some s
  | c :: p' =>
    match s with
    | [] => None
    | d :: s' => if N.eqb c d then strip_prefix p' s' else None
    end
  end.

Lemma strip_prefix_spec p s r : strip_prefix p s = Some r <-> s = p ++ r.
Proof.
  revert s; induction p as [|c p IH]; intros s; cbn [strip_prefix app].
  - split; congruence.
  - destruct s as [|d s]; [split; [discriminate|intro H; discriminate]|].
    destruct (N.eqb_spec c d) as [->|Hne].
    + rewrite IH. split; intro H; [subst; reflexivity|inversion H; reflexivity].
    + split; [discriminate|]. intro H; inversion H; congruence.
Qed.

Lemma strip_prefix_app p r : strip_prefix p (p ++ r) = Some r.
Proof. apply strip_prefix_spec; reflexivity. Qed.

Fixpoint take_while (f : N -> bool) (s : str) : str * str :=
  match s with
  | [] => ([], [])
  | c :: s' => if f c then let '(a, b) := take_while f s' in (c :: a, b) else ([], s)
  end.

Lemma take_while_app f a c r :
  forallb f a = true -> f c = false -> take_while f (a ++ c :: r) = (a, c :: r).
Proof.
  induction a as [|x a IH]; cbn [forallb app take_while]; intros Ha Hc.
  - rewrite Hc; reflexivity.
  - apply andb_true_iff in Ha as [Hx Ha]. rewrite Hx, (IH Ha Hc). reflexivity.
Qed.

Lemma take_while_all f a : forallb f a = true -> take_while f a = (a, []).
Proof.
  induction a as [|x a IH]; cbn [forallb take_while]; intros Ha; [reflexivity|].
  apply andb_true_iff in Ha as [Hx Ha]. rewrite Hx, (IH Ha). reflexivity.
Qed.

Lemma take_while_concat f s : let '(a, b) := take_while f s in s = a ++ b /\ forallb f a = true.
Proof.
  induction s as [|c s IH]; cbn [take_while]; [split; reflexivity|].
  destruct (f c) eqn:Hc; [|split; reflexivity].
  destruct (take_while f s) as [a b]. destruct IH as [-> Hf]. cbn [app forallb]. rewrite Hc, Hf. split; reflexivity.
Qed.

(** character classes as lists of inclusive ranges *)
Definition in_class (cls : list (N * N)) (c : N) : bool :=
  existsb (fun r => N.leb (fst r) c && N.leb c (snd r)) cls.

Definition mem_chr (c : N) (l : list N) : bool := existsb (N.eqb c) l.

Lemma mem_chr_In c l : mem_chr c l = true <-> In c l.
Proof.
  unfold mem_chr. rewrite existsb_exists. split.
  - intros [x [Hin Hx]]. apply N.eqb_eq in Hx. subst; assumption.
  - intros H. exists c. split; [assumption|apply N.eqb_refl].
Qed.

(** split at every occurrence of [sep] (Rust's [str::split(char)]): always at least one piece *)
Fixpoint split_on (sep : N) (s : str) : list str :=
  match s with
  | [] => [[]]
  | c :: s' =>
    if N.eqb c sep then [] :: split_on sep s'
    else match split_on sep s' with
         | [] => [[c]] (* unreachable *)
         | h :: t => (c :: h) :: t
         end
  end.

Fixpoint join_with (sep : N) (ls : list str) : str :=
  match ls with
  | [] => []
  | [l] => l
  | l :: ls' => l ++ sep :: join_with sep ls'
  end.

Lemma split_on_nonempty sep s : split_on sep s <> [].
Proof. destruct s as [|c s]; cbn [split_on]; [discriminate|]. destruct (N.eqb c sep); [discriminate|]. destruct (split_on sep s); discriminate. Qed.

Lemma split_on_no_sep sep l : mem_chr sep l = false -> split_on sep l = [l].
Proof.
  induction l as [|c l IH]; cbn [split_on]; intros H; [reflexivity|].
  unfold mem_chr in H. cbn [existsb] in H. apply orb_false_iff in H as [H1 H2].
  rewrite N.eqb_sym, H1. rewrite (IH H2). reflexivity.
Qed.

Lemma split_on_app sep l r : mem_chr sep l = false ->
  split_on sep (l ++ sep :: r) = l :: split_on sep r.
Proof.
  induction l as [|c l IH]; cbn [app split_on]; intros H.
  - rewrite N.eqb_refl; reflexivity.
  - unfold mem_chr in H. cbn [existsb] in H. apply orb_false_iff in H as [H1 H2].
    rewrite N.eqb_sym, H1. rewrite (IH H2). reflexivity.
Qed.

(** splitting a join of separator-free lines gives the lines back *)
Lemma split_join sep ls : ls <> [] -> forallb (fun l => negb (mem_chr sep l)) ls = true ->
  split_on sep (join_with sep ls) = ls.
Proof.
  induction ls as [|l ls IH]; [congruence|]. intros _ H. cbn [forallb] in H. apply andb_true_iff in H as [Hl Hls].
  apply negb_true_iff in Hl. destruct ls as [|l2 ls].
  - cbn [join_with]. apply split_on_no_sep; assumption.
  - change (join_with sep (l :: l2 :: ls)) with (l ++ sep :: join_with sep (l2 :: ls)).
    rewrite split_on_app by assumption. f_equal. apply IH; [discriminate|assumption].
Qed.

Fixpoint nat_of_len (s : str) : N := N.of_nat (length s).
