(** The client romaji engine is idempotent on its own output (C19), for every table whose values and the sokuon
    are made of characters that occur in no key and are no consonant ("inert") - a finite fact computed on the
    table regenerated from chokan.el. *)
From Chokan Require Import Base.Str Base.ListUtil Kana.Romaji Kana.RomajiProofs.
From Coq Require Import Lia.
Local Open Scope N_scope.

Section Idem.
  Variable table : list (str * str).
  Variable consonants : list N.
  Variable scan_bound : nat -> nat.
  Notation scan := (scan table scan_bound).
  Notation r2h_fuel := (r2h_fuel table consonants scan_bound).
  Notation r2h := (r2h table consonants scan_bound).
  Notation strip_sokuon := (strip_sokuon consonants).
  Notation sokuon_p := (sokuon_p consonants).
  Notation inert := (inert table consonants).

  Hypothesis no_empty_key : assoc_str [] table = None.
  Hypothesis values_inert : forallb (fun kv => negb (match snd kv with [] => true | _ => false end) && forallb inert (snd kv)) table = true.
  Hypothesis sokuon_inert : inert SOKUON = true.

  Definition active (c : N) : bool := negb (inert c).

  Lemma key_chars_active k v c : In (k, v) table -> In c k -> active c = true.
  Proof.
    intros Hin Hc. unfold active, RomajiProofs.inert. apply negb_true_iff. apply andb_false_iff. left.
    apply not_true_is_false. intro H. rewrite forallb_forall in H. specialize (H _ Hin). cbn [fst] in H.
    apply negb_true_iff in H. apply mem_chr_In in Hc. congruence.
  Qed.

  Lemma consonant_active c : mem_chr c consonants = true -> active c = true.
  Proof. intro H. unfold active, RomajiProofs.inert. rewrite H. cbn [negb]. rewrite andb_false_r. reflexivity. Qed.

  Lemma value_props k v : In (k, v) table -> v <> [] /\ forallb inert v = true.
  Proof.
    intro Hin. pose proof values_inert as H. rewrite forallb_forall in H. specialize (H _ Hin). cbn [snd] in H.
    apply andb_true_iff in H as [H1 H2]. split; [destruct v; [discriminate|discriminate]|exact H2].
  Qed.

  Lemma scan_from_value lens s v rest : scan_from table lens s = Some (v, rest) -> v <> [] /\ forallb inert v = true.
  Proof.
    induction lens as [|len lens IH]; cbn [scan_from]; [discriminate|].
    destruct (assoc_str (firstn len s) table) as [v'|] eqn:E; [|exact IH].
    intro H. inversion H; subst. apply assoc_str_in in E. exact (value_props _ _ E).
  Qed.

  Lemma scan_from_none lens s : scan_from table lens s = None <-> (forall len, In len lens -> assoc_str (firstn len s) table = None).
  Proof.
    induction lens as [|len lens IH]; cbn [scan_from]; [split; [intros _ l []|reflexivity]|].
    destruct (assoc_str (firstn len s) table) as [v|] eqn:E.
    - split; [discriminate|]. intro H. rewrite (H len (or_introl eq_refl)) in E. discriminate.
    - rewrite IH. split; [intros H l [<-|Hl]; [exact E|exact (H l Hl)]|intros H l Hl; exact (H l (or_intror Hl))].
  Qed.

  Lemma strip_zero s s1 : strip_sokuon s = (O, s1) -> s1 = s /\ sokuon_p s = false.
  Proof.
    destruct s as [|a s]; cbn [Romaji.strip_sokuon]; [intro H; inversion H; split; reflexivity|].
    destruct (sokuon_p (a :: s)) eqn:E; [destruct (strip_sokuon s); discriminate|]. intro H; inversion H; split; reflexivity.
  Qed.

  Lemma strip_result_not_sokuon s : sokuon_p (snd (strip_sokuon s)) = false.
  Proof.
    induction s as [|a s IH]; [reflexivity|]. cbn [Romaji.strip_sokuon].
    destruct (sokuon_p (a :: s)) eqn:E; [destruct (strip_sokuon s); exact IH|exact E].
  Qed.

  (** the output starts with an active (key or consonant) character only where the input was passed through *)
  Lemma active_prefix f : forall s out, r2h_fuel f s = Some out ->
    forall n, forallb active (firstn n out) = true -> firstn n out = firstn n s.
  Proof.
    induction f as [|f IH]; intros s out H n Hn; [discriminate|].
    destruct s as [|c s]; [cbn in H; inversion H; subst; destruct n; reflexivity|].
    destruct n as [|n]; [reflexivity|].
    rewrite (r2h_fuel_step table consonants scan_bound) in H. unfold body in H.
    destruct (strip_sokuon (c :: s)) as [k s1] eqn:Es. cbn [fst snd] in H.
    assert (Hhead : forall x t, out = x :: t -> inert x = true -> False).
    { intros x t -> Hx. cbn [firstn forallb] in Hn. apply andb_true_iff in Hn as [Hn _]. unfold active in Hn. rewrite Hx in Hn. discriminate. }
    destruct k as [|k].
    - apply strip_zero in Es as [-> _].
      destruct (scan (c :: s)) as [[v rest]|] eqn:Esc.
      + destruct (scan_from_value _ _ _ _ Esc) as [Hv1 Hv2]. destruct (r2h_fuel f rest) as [r|]; [|discriminate]. cbn [option_map repeat app] in H. inversion H as [Ho].
        destruct v as [|x v]; [congruence|]. cbn [forallb] in Hv2. apply andb_true_iff in Hv2 as [Hx _]. exfalso. exact (Hhead x (v ++ r) (eq_sym Ho) Hx).
      + destruct (r2h_fuel f s) as [r|] eqn:Er; [|discriminate]. cbn [option_map repeat app] in H. inversion H; subst.
        cbn [firstn forallb] in Hn. apply andb_true_iff in Hn as [_ Hn]. cbn [firstn]. f_equal. exact (IH s r Er n Hn).
    - exfalso. destruct (scan s1) as [[v rest]|].
      + destruct (r2h_fuel f rest); [|discriminate]. cbn [option_map repeat app] in H. inversion H as [Ho]. exact (Hhead SOKUON _ (eq_sym Ho) sokuon_inert).
      + destruct s1 as [|c1 rest]; [inversion H as [Ho]; exact (Hhead SOKUON _ (eq_sym Ho) sokuon_inert)|].
        destruct (r2h_fuel f rest); [|discriminate]. cbn [option_map repeat app] in H. inversion H as [Ho]. exact (Hhead SOKUON _ (eq_sym Ho) sokuon_inert).
  Qed.

  Lemma r2h_eq f s : (length s < f)%nat -> r2h_fuel f s = r2h s.
  Proof. intro H. unfold Romaji.r2h. apply fuel_irrelevant; [exact no_empty_key|exact H|lia]. Qed.

  Lemma repeat_inert k : forallb inert (repeat SOKUON k) = true.
  Proof. induction k; cbn [repeat forallb]; [reflexivity|rewrite sokuon_inert, IHk; reflexivity]. Qed.

  (** a character passed through because nothing matched stays unmatched in front of the converted rest *)
  Lemma passed_stays f c1 rest r : sokuon_p (c1 :: rest) = false -> scan (c1 :: rest) = None -> r2h_fuel f rest = Some r ->
    r2h r = Some r -> r2h (c1 :: r) = Some (c1 :: r).
  Proof.
    intros Hp Hsc Hr Hrr.
    assert (Hp' : sokuon_p (c1 :: r) = false).
    { destruct r as [|b r']; [reflexivity|]. destruct (sokuon_p (c1 :: b :: r')) eqn:E; [|reflexivity]. exfalso.
      cbn [Romaji.sokuon_p] in E. apply andb_true_iff in E as [E Hb]. apply andb_true_iff in E as [Ecb Hc].
      assert (Hf : firstn 1 (b :: r') = firstn 1 rest).
      { apply (active_prefix f rest (b :: r') Hr 1%nat). cbn [firstn forallb]. rewrite (consonant_active b Hb). reflexivity. }
      destruct rest as [|b' rest']; [discriminate|]. cbn [firstn] in Hf. inversion Hf; subst b'.
      cbn [Romaji.sokuon_p] in Hp. rewrite Ecb, Hc, Hb in Hp. discriminate. }
    assert (Hsc' : scan (c1 :: r) = None).
    { unfold Romaji.scan in *. apply scan_from_none. intros len Hlen. rewrite scan_from_none in Hsc. specialize (Hsc len Hlen).
      destruct (assoc_str (firstn len (c1 :: r)) table) as [v|] eqn:E; [|reflexivity]. exfalso.
      apply assoc_str_in in E. destruct len as [|len]; [cbn [firstn] in E|].
      - cbn [firstn] in Hsc. (* the empty key *) pose proof no_empty_key as Hne.
        assert (Hin : In ([], v) table) by exact E. clear -Hin Hne. induction table as [|[k' v'] t IH]; [destruct Hin|].
        cbn [assoc_str] in Hne. destruct k' as [|x k'']; [cbn in Hne; discriminate|]. cbn [str_eqb] in Hne. destruct Hin as [Hin|Hin]; [inversion Hin|exact (IH Hne Hin)].
      - cbn [firstn] in E, Hsc.
        assert (Hact : forallb active (firstn len r) = true).
        { apply forallb_forall. intros x Hx. apply (key_chars_active _ v x E). right. exact Hx. }
        rewrite (active_prefix f rest r Hr len Hact) in E.
        assert (Hk : assoc_str (c1 :: firstn len rest) table <> None).
        { clear -E. induction table as [|[k' v'] t IH]; [destruct E|]. cbn [assoc_str]. destruct (str_eqb (c1 :: firstn len rest) k') eqn:Ek; [discriminate|].
          destruct E as [E|E]; [inversion E; subst; rewrite str_eqb_refl in Ek; discriminate|exact (IH E)]. }
        congruence. }
    unfold Romaji.r2h. cbn [length]. rewrite (r2h_fuel_step table consonants scan_bound). unfold body.
    cbn [Romaji.strip_sokuon]. rewrite Hp'. cbn [fst snd]. rewrite Hsc'.
    rewrite (r2h_eq (S (length r)) r) by lia. rewrite Hrr. reflexivity.
  Qed.

  Theorem r2h_fuel_idempotent f : forall s out, r2h_fuel f s = Some out -> r2h out = Some out.
  Proof.
    induction f as [|f IH]; intros s out H; [discriminate|].
    destruct s as [|c s]; [cbn in H; inversion H; reflexivity|].
    rewrite (r2h_fuel_step table consonants scan_bound) in H. unfold body in H.
    pose proof (strip_result_not_sokuon (c :: s)) as Hns.
    destruct (strip_sokuon (c :: s)) as [k s1]. cbn [fst snd] in H, Hns.
    assert (Hpre : forall X, r2h X = Some X -> r2h (repeat SOKUON k ++ X) = Some (repeat SOKUON k ++ X)).
    { intros X HX. rewrite (r2h_passthrough_prefix table consonants scan_bound no_empty_key _ X (repeat_inert k)), HX. reflexivity. }
    destruct (scan s1) as [[v rest]|] eqn:Esc.
    - destruct (r2h_fuel f rest) as [r|] eqn:Er; [|discriminate]. cbn [option_map] in H. inversion H; subst. apply Hpre.
      destruct (scan_from_value _ _ _ _ Esc) as [_ Hv].
      rewrite (r2h_passthrough_prefix table consonants scan_bound no_empty_key v r Hv), (IH rest r Er). reflexivity.
    - destruct s1 as [|c1 rest].
      + inversion H; subst. rewrite <- (app_nil_r (repeat SOKUON k)). apply Hpre. reflexivity.
      + destruct (r2h_fuel f rest) as [r|] eqn:Er; [|discriminate]. cbn [option_map] in H. inversion H; subst. apply Hpre.
        exact (passed_stays f c1 rest r Hns Esc Er (IH rest r Er)).
  Qed.

  Theorem r2h_idempotent s out : r2h s = Some out -> r2h out = Some out.
  Proof. exact (r2h_fuel_idempotent _ s out). Qed.
End Idem.
