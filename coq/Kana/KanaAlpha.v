(** Model of libs/kana-alpha (lib.rs convert / to_roma_sequence, conversion.rs expand_roma),
    parametrised by the table of Gen/KanaTable.v.  NFC normalisation is outside the model:
    the model speaks about already NFC-normalised input (the hiragana / katakana / ASCII class is
    precomposed); NFD and half-width variants are exercised against the implementation only. *)
From Chokan Require Import Base.Str Base.ListUtil Dic.Conjugation.
Local Open Scope N_scope.

Definition SOKUON_H : N := 12387.   (* っ *)
Definition SOKUON_K : N := 12483.   (* ッ *)
Definition is_sokuon_char (c : N) : bool := N.eqb c SOKUON_H || N.eqb c SOKUON_K.

Fixpoint strip_sokuon_run (s : str) : nat * str :=
  match s with
  | c :: s' => if is_sokuon_char c then let '(k, r) := strip_sokuon_run s' in (S k, r) else (O, s)
  | [] => (O, [])
  end.

Definition starts_with (p s : str) : bool := match strip_prefix p s with Some _ => true | None => false end.

(** ASCII upper case to lower case; every other character is left alone (the model's domain excludes
    cased non-ASCII letters) *)
Definition lower (c : N) : N := if (65 <=? c) && (c <=? 90) then c + 32 else c.

Section KanaAlpha.
  Variable table : list (str * str * str).     (* hiragana, katakana, first spelling - in source order *)
  Variable doubling : list N.                  (* DOUBLING_CONSONANTS *)
  Variable sokuon_spelling : str.              (* SOKUON_SPELLING *)

  (** spell_sokuon: the consonant that follows is doubled when it can be, else the sokuon's own spelling *)
  Definition spell_sokuon (next : option N) (k : nat) : str :=
    match next with
    | Some c => if mem_chr (lower c) doubling then repeat (lower c) k else concat (repeat sokuon_spelling k)
    | None => concat (repeat sokuon_spelling k)
    end.

  (** the final [vec.sort_by(|a, b| b.hiragana.len().cmp(&a.hiragana.len()))]: stable, by byte length, descending *)
  Fixpoint insert_sorted (x : str * str * str) (l : list (str * str * str)) : list (str * str * str) :=
    match l with
    | [] => [x]
    | y :: l' =>
      if (byte_len (fst (fst y)) <=? byte_len (fst (fst x)))%nat then x :: l else y :: insert_sorted x l'
    end.
  Definition sorted_table : list (str * str * str) := fold_right insert_sorted [] table.

  (** Conversion::expand_roma *)
  Definition expand_roma (conv : str * str * str) (s : str) : option (str * nat) :=
    let '(hira, kata, sp) := conv in
    let '(k, r) := strip_sokuon_run s in
    if starts_with hira r || starts_with kata r then
      let a := match k with
               | O => sp
               | _ => spell_sokuon (hd_error sp) k ++ sp
               end in
      Some (a, (length hira + k)%nat)
    else None.

  (** the winner of [sort_by consumed (stable); reverse; first]: the LAST among the matches of maximal consumed length *)
  Definition pick (ms : list (str * nat)) : option (str * nat) :=
    fold_left (fun best m =>
                 match best with
                 | None => Some m
                 | Some b => if (snd b <=? snd m)%nat then Some m else best
                 end) ms None.

  Fixpoint filter_map {A B} (f : A -> option B) (l : list A) : list B :=
    match l with [] => [] | x :: l' => match f x with Some y => y :: filter_map f l' | None => filter_map f l' end end.

  (** to_roma_sequence: (spelling of the first unit, rest) *)
  Definition to_roma_sequence (s : str) : str * str :=
    match pick (filter_map (fun conv => expand_roma conv s) sorted_table) with
    | Some (v, len) => (v, skipn len s)
    | None =>
      match strip_sokuon_run s with
      | (S k, r) => (spell_sokuon (hd_error r) (S k), r)          (* expand_lonely_sokuon *)
      | (O, _) => match s with c :: rest => ([lower c], rest) | [] => ([], []) end
      end
    end.

  (** convert; [None] = out of fuel *)
  Fixpoint convert_fuel (fuel : nat) (s : str) : option str :=
    match fuel with
    | O => None
    | S fuel' =>
      match s with
      | [] => Some []
      | _ => let '(v, rest) := to_roma_sequence s in option_map (app v) (convert_fuel fuel' rest)
      end
    end.

  Definition convert (s : str) : option str := convert_fuel (S (length s)) s.
End KanaAlpha.
