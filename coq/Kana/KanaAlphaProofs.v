(** Proofs about the kana -> romaji model (C17). Generic part in a Section over the table; the finite
    facts about the generated table are computed in Props/C17.v. *)
From Chokan Require Import Base.Str Base.ListUtil Dic.Conjugation Kana.KanaAlpha.
From Coq Require Import Lia.
Local Open Scope N_scope.

(** lower-case ASCII letter or digit *)
Definition out_ok (c : N) : bool := ((97 <=? c) && (c <=? 122)) || ((48 <=? c) && (c <=? 57)).
Definition ascii_alnum (c : N) : bool := out_ok c || ((65 <=? c) && (c <=? 90)).

Lemma lower_out_ok c : ascii_alnum c = true -> out_ok (lower c) = true.
Proof.
  unfold ascii_alnum, out_ok, lower. intro H.
  destruct (N.leb_spec 65 c), (N.leb_spec c 90), (N.leb_spec 97 c), (N.leb_spec c 122), (N.leb_spec 48 c), (N.leb_spec c 57);
    cbn [andb orb] in *; try discriminate;
    repeat match goal with |- context [?a <=? ?b] => destruct (N.leb_spec a b) end; cbn [andb orb]; try reflexivity; lia.
Qed.

Section Generic.
  Variable table : list (str * str * str).
  Variable doubling : list N.
  Variable sokuon_spelling : str.
  Notation sorted_table := (sorted_table table).
  Notation expand_roma := (expand_roma doubling sokuon_spelling).
  Notation to_roma_sequence := (to_roma_sequence table doubling sokuon_spelling).
  Notation convert_fuel := (convert_fuel table doubling sokuon_spelling).
  Notation convert := (convert table doubling sokuon_spelling).
  Notation spell_sokuon := (spell_sokuon doubling sokuon_spelling).

  (** * the sorted table has the same entries *)
  Lemma insert_sorted_in x y l : In y (insert_sorted x l) <-> y = x \/ In y l.
  Proof.
    induction l as [|z l IH]; cbn [insert_sorted]; [cbn; intuition|].
    destruct (_ <=? _)%nat; cbn [In]; [intuition|]. rewrite IH. intuition.
  Qed.

  Lemma sorted_table_in y : In y sorted_table <-> In y table.
  Proof.
    unfold KanaAlpha.sorted_table. induction table as [|x l IH]; cbn [fold_right]; [tauto|].
    rewrite insert_sorted_in, IH. cbn [In]. intuition.
  Qed.

  (** * pick returns an element of maximal consumed length *)
  Definition upd (best : option (str * nat)) (m : str * nat) : option (str * nat) :=
    match best with None => Some m | Some b => if (snd b <=? snd m)%nat then Some m else best end.

  Lemma upd_spec best m : exists m2, upd best m = Some m2 /\ (m2 = m \/ Some m2 = best) /\ (snd m <= snd m2)%nat
                                     /\ (forall b, best = Some b -> (snd b <= snd m2)%nat).
  Proof.
    unfold upd. destruct best as [b|].
    - destruct (snd b <=? snd m)%nat eqn:E.
      + apply Nat.leb_le in E. exists m. repeat split; auto. intros b' Hb. inversion Hb; subst. assumption.
      + apply Nat.leb_gt in E. exists b. repeat split; auto; [lia|]. intros b' Hb. inversion Hb; subst. lia.
    - exists m. repeat split; auto. intros b Hb. discriminate.
  Qed.

  Lemma pick_fold (ms : list (str * nat)) : forall best : option (str * nat),
    match fold_left upd ms best with
    | None => best = None /\ ms = []
    | Some m => (Some m = best \/ In m ms) /\ (forall m', In m' ms -> (snd m' <= snd m)%nat) /\ (forall b, best = Some b -> (snd b <= snd m)%nat)
    end.
  Proof.
    induction ms as [|x ms IH]; intro best; cbn [fold_left].
    - destruct best as [b|]; [|split; reflexivity].
      split; [left; reflexivity|]. split; [intros m' []|]. intros b' Hb. inversion Hb. lia.
    - destruct (upd_spec best x) as (m2 & Hu & Hm2 & Hx & Hb). rewrite Hu. specialize (IH (Some m2)).
      destruct (fold_left upd ms (Some m2)) as [m|]; [|destruct IH as [IH _]; discriminate].
      destruct IH as (H1 & H2 & H3). specialize (H3 m2 eq_refl). split; [|split].
      + destruct H1 as [H1|H1]; [|right; right; assumption]. inversion H1; subst m2.
        destruct Hm2 as [->|Hm2]; [right; left; reflexivity|left; assumption].
      + intros m' [<-|Hm']; [lia|apply H2; assumption].
      + intros b Hbb. specialize (Hb b Hbb). lia.
  Qed.

  Lemma pick_spec (ms : list (str * nat)) : match pick ms with
                       | None => ms = []
                       | Some m => In m ms /\ forall m', In m' ms -> (snd m' <= snd m)%nat
                       end.
  Proof.
    change (pick ms) with (fold_left upd ms None). pose proof (pick_fold ms None) as H.
    destruct (fold_left upd ms None) as [m|]; [destruct H as (H1 & H2 & _); split; [destruct H1 as [H1|H1]; [discriminate|assumption]|assumption]|apply H].
  Qed.

  Lemma filter_map_in {A B} (f : A -> option B) l y : In y (KanaAlpha.filter_map f l) <-> exists x, In x l /\ f x = Some y.
  Proof.
    induction l as [|x l IH]; cbn [KanaAlpha.filter_map]; [split; [intros []|intros (x & [] & _)]|].
    destruct (f x) as [z|] eqn:E; cbn [In]; rewrite IH; split.
    - intros [<-|(x' & H1 & H2)]; [exists x; auto|exists x'; auto].
    - intros (x' & [<-|H1] & H2); [left; congruence|right; exists x'; auto].
    - intros (x' & H1 & H2). exists x'; auto.
    - intros (x' & [<-|H1] & H2); [congruence|exists x'; auto].
  Qed.

  (** * what a table match looks like *)
  Lemma expand_roma_spec conv s v len : expand_roma conv s = Some (v, len) ->
    let '(hira, kata, sp) := conv in
    let '(k, r) := strip_sokuon_run s in
    (starts_with hira r || starts_with kata r = true) /\ len = (length hira + k)%nat /\
    v = match k with O => sp | _ => spell_sokuon (hd_error sp) k ++ sp end.
  Proof.
    destruct conv as [[hira kata] sp]. unfold KanaAlpha.expand_roma. destruct (strip_sokuon_run s) as [k r].
    destruct (starts_with hira r || starts_with kata r); [|discriminate]. intro H. inversion H. auto.
  Qed.

  Lemma strip_sokuon_run_spec s : let '(k, r) := strip_sokuon_run s in
    r = skipn k s /\ length s = (k + length r)%nat /\ (match r with c :: _ => is_sokuon_char c = false | [] => True end)
    /\ forallb is_sokuon_char (firstn k s) = true.
  Proof.
    induction s as [|c s IH]; cbn [strip_sokuon_run]; [repeat split; reflexivity|].
    destruct (is_sokuon_char c) eqn:E.
    - destruct (strip_sokuon_run s) as [k r]. destruct IH as (H1 & H2 & H3 & H4).
      repeat split; cbn [skipn length firstn forallb]; [assumption|lia|assumption|rewrite E, H4; reflexivity].
    - repeat split; assumption.
  Qed.

  (** * table facts the theorems need (decidable; discharged by computation on the generated table) *)
  Definition hira_nonempty : bool := forallb (fun e => match fst (fst e) with [] => false | _ => true end) table.
  Definition spellings_ok : bool := forallb (fun e => forallb out_ok (snd e)) table && forallb out_ok doubling && forallb out_ok sokuon_spelling.
  Definition KANA_RANGE : list N := map (fun i => 12353 + N.of_nat i) (seq 0 83).      (* ぁ .. ん *)
  Definition kana_covered : bool :=
    forallb (fun c => is_sokuon_char c || existsb (fun e => str_eqb (fst (fst e)) [c]) table) KANA_RANGE.
  Definition kana_nonascii : bool :=
    forallb (fun e => forallb (fun c => 128 <=? c) (fst (fst e)) && forallb (fun c => 128 <=? c) (snd (fst e))
                      && match snd (fst e) with [] => false | _ => true end) table.

  Hypothesis H_nonempty : hira_nonempty = true.

  Lemma table_entry_nonempty e : In e table -> fst (fst e) <> [].
  Proof.
    intro He. pose proof H_nonempty as H. unfold hira_nonempty in H. rewrite forallb_forall in H. specialize (H e He). cbv beta in H.
    destruct e as [[h k] a]. cbn [fst snd] in *. destruct h; [discriminate H|discriminate].
  Qed.

  (** * every step consumes at least one character *)
  Lemma step_consumes s v rest : s <> [] -> to_roma_sequence s = (v, rest) ->
    (length rest < length s)%nat /\ exists n, rest = skipn n s.
  Proof.
    intros Hs. unfold KanaAlpha.to_roma_sequence.
    pose proof (pick_spec (KanaAlpha.filter_map (fun conv => expand_roma conv s) sorted_table)) as Hp.
    destruct (pick _) as [[v0 len]|].
    - destruct Hp as [Hin _]. apply filter_map_in in Hin as (conv & Hc & He).
      apply sorted_table_in in Hc. pose proof (table_entry_nonempty conv Hc) as Hne.
      apply expand_roma_spec in He. destruct conv as [[hira kata] sp]. cbn [fst] in Hne.
      destruct (strip_sokuon_run s) as [k r]. destruct He as (_ & Hlen & _).
      intro H. inversion H; subst. split; [|eexists; reflexivity].
      rewrite skipn_length. destruct s; [congruence|]. destruct hira; [congruence|]. cbn [length]. lia.
    - pose proof (strip_sokuon_run_spec s) as Hr. destruct (strip_sokuon_run s) as [[|k] r].
      + destruct s as [|c s']; [congruence|]. intro H. inversion H; subst. split; [cbn; lia|exists 1%nat; reflexivity].
      + destruct Hr as (H1 & H2 & _). intro H. inversion H; subst. split; [lia|eexists; reflexivity].
  Qed.

  Lemma convert_fuel_enough fuel : forall s, (length s < fuel)%nat -> convert_fuel fuel s <> None.
  Proof.
    induction fuel as [|fuel IH]; intros s Hl; [lia|]. cbn [KanaAlpha.convert_fuel]. destruct s as [|c s]; [discriminate|].
    destruct (to_roma_sequence (c :: s)) as [v rest] eqn:E.
    apply step_consumes in E as [E _]; [|discriminate].
    destruct (convert_fuel fuel rest) eqn:E2; [discriminate|]. exfalso. apply (IH rest); [cbn [length] in *; lia|assumption].
  Qed.

  Lemma fuel_irrelevant f1 : forall f2 s, (length s < f1)%nat -> (length s < f2)%nat -> convert_fuel f1 s = convert_fuel f2 s.
  Proof.
    induction f1 as [|f1 IH]; intros f2 s H1 H2; [lia|]. destruct f2 as [|f2]; [lia|].
    cbn [KanaAlpha.convert_fuel]. destruct s as [|c s]; [reflexivity|].
    destruct (to_roma_sequence (c :: s)) as [v rest] eqn:E.
    apply step_consumes in E as [E _]; [|discriminate].
    rewrite (IH f2 rest); [reflexivity|cbn [length] in *; lia|cbn [length] in *; lia].
  Qed.

  Theorem convert_total s : exists r, convert s = Some r.
  Proof.
    unfold KanaAlpha.convert. destruct (convert_fuel (S (length s)) s) eqn:E; [eexists; reflexivity|].
    exfalso. apply (convert_fuel_enough (S (length s)) s); [lia|assumption].
  Qed.

  (** the result is the spelling of the first unit followed by the conversion of the rest *)
  Theorem convert_step s : s <> [] ->
    convert s = option_map (app (fst (to_roma_sequence s))) (convert (snd (to_roma_sequence s))).
  Proof.
    intro Hs. unfold KanaAlpha.convert. destruct s as [|c s]; [congruence|].
    cbn [KanaAlpha.convert_fuel]. destruct (to_roma_sequence (c :: s)) as [v rest] eqn:E. cbn [fst snd].
    apply step_consumes in E as [E _]; [|discriminate].
    rewrite (fuel_irrelevant (length (c :: s)) (S (length rest)) rest); [reflexivity|cbn [length] in *; lia|lia].
  Qed.

  (** * ASCII-only output on the client's class *)
  Definition in_cls (c : N) : bool := ascii_alnum c || ((12353 <=? c) && (c <=? 12435)).

  Hypothesis H_spell : spellings_ok = true.
  Hypothesis H_cover : kana_covered = true.

  Lemma spell_sokuon_ok next k : forallb out_ok (spell_sokuon next k) = true.
  Proof.
    pose proof H_spell as Hsp0. unfold spellings_ok in Hsp0. apply andb_true_iff in Hsp0 as [H12 H3]. apply andb_true_iff in H12 as [H1 H2].
    assert (Hs : forallb out_ok (concat (repeat sokuon_spelling k)) = true).
    { induction k as [|k IH]; [reflexivity|]. cbn [repeat concat]. rewrite forallb_app, H3, IH. reflexivity. }
    unfold KanaAlpha.spell_sokuon. destruct next as [c|]; [|exact Hs].
    destruct (mem_chr (lower c) doubling) eqn:E; [|exact Hs].
    apply mem_chr_In in E. rewrite forallb_forall in H2. specialize (H2 _ E). clear Hs.
    induction k as [|k IH]; [reflexivity|]. cbn [repeat forallb]. rewrite H2, IH. reflexivity.
  Qed.

  Lemma forallb_skipn {A} (f : A -> bool) n l : forallb f l = true -> forallb f (skipn n l) = true.
  Proof.
    revert l; induction n as [|n IH]; intros l H; [assumption|]. destruct l as [|x l]; [reflexivity|].
    cbn [skipn]. cbn [forallb] in H. apply andb_true_iff in H as [_ H]. apply IH. assumption.
  Qed.

  Lemma kana_has_entry c : (12353 <=? c) && (c <=? 12435) = true -> is_sokuon_char c = false ->
    exists e, In e table /\ fst (fst e) = [c].
  Proof.
    intros Hr Hs. pose proof H_cover as Hcov. unfold kana_covered in Hcov. rewrite forallb_forall in Hcov.
    assert (Hin : In c KANA_RANGE).
    { unfold KANA_RANGE. apply andb_true_iff in Hr as [H1 H2]. apply N.leb_le in H1, H2.
      apply in_map_iff. exists (N.to_nat (c - 12353)). split; [lia|]. apply in_seq. lia. }
    specialize (Hcov c Hin). rewrite Hs in Hcov. cbn [orb] in Hcov.
    apply existsb_exists in Hcov as (e & He & Heq). apply str_eqb_spec in Heq. exists e. auto.
  Qed.

  Lemma starts_with_self_cons c rest : starts_with [c] (c :: rest) = true.
  Proof. unfold starts_with. cbn [strip_prefix]. rewrite N.eqb_refl. reflexivity. Qed.

  Lemma step_ascii s v rest : s <> [] -> forallb in_cls s = true -> to_roma_sequence s = (v, rest) ->
    forallb out_ok v = true /\ forallb in_cls rest = true.
  Proof.
    intros Hs Hcls E. pose proof (step_consumes s v rest Hs E) as [_ [n Hn]].
    split; [|subst rest; apply forallb_skipn; assumption].
    revert E. unfold KanaAlpha.to_roma_sequence.
    pose proof (pick_spec (KanaAlpha.filter_map (fun conv => expand_roma conv s) sorted_table)) as Hp.
    destruct (pick _) as [[v0 len]|].
    - destruct Hp as [Hin _]. apply filter_map_in in Hin as (conv & Hc & He).
      apply sorted_table_in in Hc. apply expand_roma_spec in He. destruct conv as [[hira kata] sp].
      destruct (strip_sokuon_run s) as [k r]. destruct He as (_ & _ & Hv).
      assert (Hsp : forallb out_ok sp = true).
      { pose proof H_spell as Hsp0. unfold spellings_ok in Hsp0. apply andb_true_iff in Hsp0 as [H12 _]. apply andb_true_iff in H12 as [H1 _].
        rewrite forallb_forall in H1. exact (H1 _ Hc). }
      intro H. inversion H; subst. destruct k; [assumption|]. rewrite forallb_app, spell_sokuon_ok, Hsp. reflexivity.
    - pose proof (strip_sokuon_run_spec s) as Hr. destruct (strip_sokuon_run s) as [[|k] r] eqn:Es.
      + destruct s as [|c s']; [congruence|]. intro H. inversion H; subst. cbn [forallb]. rewrite andb_true_r.
        destruct Hr as (Hr1 & _ & Hr3 & _). cbn [skipn] in Hr1. subst r.
        cbn [forallb] in Hcls. apply andb_true_iff in Hcls as [Hc _]. unfold in_cls in Hc.
        apply orb_true_iff in Hc as [Hc|Hc]; [apply lower_out_ok; assumption|].
        exfalso. destruct (kana_has_entry c Hc Hr3) as (e & He & Hh).
        assert (Hx : In (snd e, (length (fst (fst e)) + 0)%nat) (KanaAlpha.filter_map (fun conv => expand_roma conv (c :: s')) sorted_table)).
        { apply filter_map_in. exists e. split; [apply sorted_table_in; assumption|].
          destruct e as [[hira kata] sp]. cbn [fst snd] in *. subst hira. unfold KanaAlpha.expand_roma. rewrite Es.
          rewrite starts_with_self_cons. reflexivity. }
        rewrite Hp in Hx. destruct Hx.
      + intro H. inversion H; subst. apply spell_sokuon_ok.
  Qed.

  Theorem convert_ascii_only s r : forallb in_cls s = true -> convert s = Some r -> forallb out_ok r = true.
  Proof.
    remember (length s) as n eqn:Hn. revert s r Hn. induction n as [n IH] using lt_wf_ind. intros s r Hn Hcls Hc.
    destruct s as [|c s']; [cbn in Hc; inversion Hc; reflexivity|].
    rewrite convert_step in Hc by discriminate.
    destruct (to_roma_sequence (c :: s')) as [v rest] eqn:E. cbn [fst snd] in Hc.
    destruct (step_ascii (c :: s') v rest ltac:(discriminate) Hcls E) as [Hv Hrest].
    destruct (step_consumes (c :: s') v rest ltac:(discriminate) E) as [Hlt _].
    destruct (convert rest) as [r'|] eqn:Er; [|discriminate]. inversion Hc; subst r.
    rewrite forallb_app, Hv. cbn [andb]. eapply (IH (length rest)); [lia|reflexivity|assumption|eassumption].
  Qed.

  (** * ASCII letters and digits stay in place, lower-cased *)
  Hypothesis H_nonascii : kana_nonascii = true.

  Lemma expand_none_ascii e c s : In e table -> c <? 128 = true -> expand_roma e (c :: s) = None.
  Proof.
    intros He Hc. pose proof H_nonascii as Hna. unfold kana_nonascii in Hna. rewrite forallb_forall in Hna. specialize (Hna e He).
    destruct e as [[hira kata] sp]. cbn [fst snd] in Hna.
    apply andb_true_iff in Hna as [H12 H3]. apply andb_true_iff in H12 as [H1 H2].
    unfold KanaAlpha.expand_roma. cbn [strip_sokuon_run].
    assert (Hs : is_sokuon_char c = false).
    { unfold is_sokuon_char, SOKUON_H, SOKUON_K. apply N.ltb_lt in Hc.
      destruct (N.eqb_spec c 12387); [lia|]. destruct (N.eqb_spec c 12483); [lia|reflexivity]. }
    rewrite Hs.
    assert (Hst : forall p, p <> [] -> forallb (fun c => 128 <=? c) p = true -> starts_with p (c :: s) = false).
    { intros p Hp Hall. destruct p as [|x p]; [congruence|]. cbn [forallb] in Hall. apply andb_true_iff in Hall as [Hx _].
      unfold starts_with. cbn [strip_prefix]. apply N.leb_le in Hx. apply N.ltb_lt in Hc.
      destruct (N.eqb_spec x c); [lia|reflexivity]. }
    rewrite (Hst hira), (Hst kata); try assumption; try reflexivity.
    - destruct kata; [discriminate|discriminate].
    - pose proof (table_entry_nonempty _ He) as Hne. exact Hne.
  Qed.

  Theorem convert_ascii_passthrough c s : c <? 128 = true -> convert (c :: s) = option_map (cons (lower c)) (convert s).
  Proof.
    intro Hc. rewrite convert_step by discriminate.
    assert (E : to_roma_sequence (c :: s) = ([lower c], s)).
    { unfold KanaAlpha.to_roma_sequence.
      assert (Hfm : KanaAlpha.filter_map (fun conv => expand_roma conv (c :: s)) sorted_table = []).
      { assert (Hg : forall l, (forall e, In e l -> In e table) -> KanaAlpha.filter_map (fun conv => expand_roma conv (c :: s)) l = []).
        { induction l as [|e l IH]; intro Hl; [reflexivity|]. cbn [KanaAlpha.filter_map].
          rewrite (expand_none_ascii e c s (Hl e (or_introl eq_refl)) Hc). apply IH. intros e' He'. apply Hl. right. assumption. }
        apply Hg. intros e He. apply sorted_table_in. assumption. }
      rewrite Hfm. cbn [pick fold_left]. cbn [strip_sokuon_run].
      assert (Hs : is_sokuon_char c = false).
      { unfold is_sokuon_char, SOKUON_H, SOKUON_K. apply N.ltb_lt in Hc.
        destruct (N.eqb_spec c 12387); [lia|]. destruct (N.eqb_spec c 12483); [lia|reflexivity]. }
      rewrite Hs. reflexivity. }
    rewrite E. cbn [fst snd]. destruct (convert s); reflexivity.
  Qed.

  (** * a table match is a longest match *)
  Theorem step_longest s v len : pick (KanaAlpha.filter_map (fun conv => expand_roma conv s) sorted_table) = Some (v, len) ->
    (exists e, In e table /\ expand_roma e s = Some (v, len)) /\
    (forall e v' len', In e table -> expand_roma e s = Some (v', len') -> (len' <= len)%nat).
  Proof.
    intro H. pose proof (pick_spec (KanaAlpha.filter_map (fun conv => expand_roma conv s) sorted_table)) as Hp. rewrite H in Hp.
    destruct Hp as [Hin Hmax]. split.
    - apply filter_map_in in Hin as (e & He & Hx). exists e. split; [apply sorted_table_in; assumption|assumption].
    - intros e v' len' He Hx. apply (Hmax (v', len')). apply filter_map_in. exists e. split; [apply sorted_table_in; assumption|assumption].
  Qed.
End Generic.
