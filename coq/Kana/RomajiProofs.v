(** Proofs about the client romaji engine model (C19). Generic lemmas in a Section over the tables,
    then instantiated on Gen/ElispTables.v, finite facts by computation over the whole table. *)
From Chokan Require Import Base.Str Base.ListUtil Kana.Romaji.
From Coq Require Import Lia.
Local Open Scope N_scope.

Section Generic.
  Variable table : list (str * str).
  Variable consonants : list N.
  Variable scan_bound : nat -> nat.
  Notation scan := (scan table scan_bound).
  Notation r2h_fuel := (r2h_fuel table consonants scan_bound).
  Notation strip_sokuon := (strip_sokuon consonants).
  Notation sokuon_p := (sokuon_p consonants).

  (** the table has no empty key (otherwise the engine would loop for ever) *)
  Hypothesis no_empty_key : assoc_str [] table = None.

  Lemma assoc_str_in k v l : assoc_str k l = Some v -> In (k, v) l.
  Proof.
    induction l as [|[k' v'] l IH]; cbn [assoc_str]; [discriminate|].
    destruct (str_eqb k k') eqn:E; intro H.
    - apply str_eqb_spec in E. inversion H. subst. left. reflexivity.
    - right. auto.
  Qed.

  Lemma scan_from_consumes lens s v rest : scan_from table lens s = Some (v, rest) ->
    exists len, (1 <= len)%nat /\ s <> [] /\ rest = skipn len s.
  Proof.
    induction lens as [|len lens IH]; cbn [scan_from]; [discriminate|].
    destruct (assoc_str (firstn len s) table) as [v'|] eqn:E.
    - intro H. inversion H; subst. exists len.
      destruct len as [|len]; [cbn in E; rewrite no_empty_key in E; discriminate|].
      destruct s as [|c s]; [cbn in E; rewrite no_empty_key in E; discriminate|].
      repeat split; [lia|discriminate].
    - apply IH.
  Qed.

  Lemma scan_consumes s v rest : scan s = Some (v, rest) -> (length rest < length s)%nat.
  Proof.
    intro H. apply scan_from_consumes in H as (len & Hlen & Hs & ->).
    destruct s as [|c s]; [congruence|]. destruct len as [|len]; [lia|].
    cbn [skipn length]. pose proof (skipn_length len s). lia.
  Qed.

  Lemma strip_sokuon_length s : let '(k, r) := strip_sokuon s in (length r <= length s)%nat /\ (s <> [] -> r <> []).
  Proof.
    induction s as [|a s IH]; cbn [Romaji.strip_sokuon]; [split; [lia|congruence]|].
    destruct (sokuon_p (a :: s)) eqn:E.
    - destruct (strip_sokuon s) as [k r]. destruct IH as [IH1 IH2]. split; [cbn [length]; lia|].
      intros _. apply IH2. destruct s; [cbn in E; discriminate|discriminate].
    - split; [lia|auto].
  Qed.

  (** * Totality: fuel [S (length s)] is always enough *)
  Lemma r2h_fuel_total fuel : forall s, (length s < fuel)%nat -> r2h_fuel fuel s <> None.
  Proof.
    induction fuel as [|fuel IH]; intros s Hlen; [lia|].
    cbn [Romaji.r2h_fuel]. destruct s as [|c s]; [discriminate|].
    pose proof (strip_sokuon_length (c :: s)) as Hs.
    destruct (strip_sokuon (c :: s)) as [k s1]. destruct Hs as [Hs1 Hs2].
    destruct (scan s1) as [[v rest]|] eqn:Hscan.
    - apply scan_consumes in Hscan.
      destruct (r2h_fuel fuel rest) eqn:E; [discriminate|]. exfalso. apply (IH rest); [cbn [length] in *; lia|assumption].
    - destruct s1 as [|c1 rest]; [discriminate|].
      destruct (r2h_fuel fuel rest) eqn:E; [discriminate|]. exfalso. apply (IH rest); [cbn [length] in *; lia|assumption].
  Qed.

  Lemma fuel_irrelevant f1 : forall f2 s, (length s < f1)%nat -> (length s < f2)%nat -> r2h_fuel f1 s = r2h_fuel f2 s.
  Proof.
    induction f1 as [|f1 IH]; intros f2 s H1 H2; [lia|]. destruct f2 as [|f2]; [lia|].
    cbn [Romaji.r2h_fuel]. destruct s as [|c s]; [reflexivity|].
    pose proof (strip_sokuon_length (c :: s)) as Hs.
    destruct (strip_sokuon (c :: s)) as [k s1]. destruct Hs as [Hs1 Hs2].
    destruct (scan s1) as [[v rest]|] eqn:Hscan.
    - apply scan_consumes in Hscan. rewrite (IH f2 rest); [reflexivity|cbn [length] in *; lia|cbn [length] in *; lia].
    - destruct s1 as [|c1 rest]; [reflexivity|].
      rewrite (IH f2 rest); [reflexivity|cbn [length] in *; lia|cbn [length] in *; lia].
  Qed.

  Notation r2h := (r2h table consonants scan_bound).

  Theorem r2h_total s : exists r, r2h s = Some r.
  Proof.
    unfold Romaji.r2h. destruct (r2h_fuel (S (length s)) s) eqn:E; [eexists; reflexivity|].
    exfalso. apply (r2h_fuel_total (S (length s)) s); [lia|assumption].
  Qed.

  (** * A doubled consonant becomes っ followed by the remaining consonant *)
  Definition body (f : nat) (k : nat) (s1 : str) : option str :=
    match scan s1 with
    | Some (v, rest) => option_map (fun r => repeat SOKUON k ++ v ++ r) (r2h_fuel f rest)
    | None =>
      match s1 with
      | c :: rest => option_map (fun r => repeat SOKUON k ++ c :: r) (r2h_fuel f rest)
      | [] => Some (repeat SOKUON k)
      end
    end.

  Lemma r2h_fuel_step f c s :
    r2h_fuel (S f) (c :: s) = body f (fst (strip_sokuon (c :: s))) (snd (strip_sokuon (c :: s))).
  Proof. cbn [Romaji.r2h_fuel]. destruct (strip_sokuon (c :: s)) as [k s1]. reflexivity. Qed.

  Lemma strip_sokuon_step a s : sokuon_p (a :: s) = true ->
    strip_sokuon (a :: s) = (S (fst (strip_sokuon s)), snd (strip_sokuon s)).
  Proof. intro H. cbn [Romaji.strip_sokuon]. rewrite H. destruct (strip_sokuon s); reflexivity. Qed.

  Lemma body_S f k s1 : body f (S k) s1 = option_map (cons SOKUON) (body f k s1).
  Proof.
    unfold body. destruct (scan s1) as [[v rest]|].
    - destruct (r2h_fuel f rest); reflexivity.
    - destruct s1 as [|c rest]; [reflexivity|]. destruct (r2h_fuel f rest); reflexivity.
  Qed.

  Theorem r2h_sokuon c rest : mem_chr c consonants = true ->
    r2h (c :: c :: rest) = option_map (cons SOKUON) (r2h (c :: rest)).
  Proof.
    intro Hc. unfold Romaji.r2h.
    rewrite (fuel_irrelevant (S (length (c :: rest))) (S (length (c :: c :: rest))) (c :: rest)) by (cbn [length]; lia).
    rewrite !r2h_fuel_step.
    assert (Hp : sokuon_p (c :: c :: rest) = true).
    { cbn [Romaji.sokuon_p]. rewrite N.eqb_refl, Hc. reflexivity. }
    rewrite (strip_sokuon_step c (c :: rest) Hp). cbn [fst snd]. apply body_S.
  Qed.

  (** * Characters that occur in no key and are no consonant pass through unchanged and in order *)
  Definition inert (c : N) : bool :=
    forallb (fun kv => negb (mem_chr c (fst kv))) table && negb (mem_chr c consonants).

  Lemma scan_from_inert lens c s : inert c = true -> scan_from table lens (c :: s) = None.
  Proof.
    intro Hi. induction lens as [|len lens IH]; [reflexivity|]. cbn [scan_from].
    destruct (assoc_str (firstn len (c :: s)) table) as [v|] eqn:E; [|assumption].
    exfalso. destruct len as [|len]; [cbn in E; rewrite no_empty_key in E; discriminate|].
    apply assoc_str_in in E. unfold inert in Hi. apply andb_true_iff in Hi as [Hi _].
    rewrite forallb_forall in Hi. specialize (Hi _ E). cbn [fst firstn] in Hi.
    unfold mem_chr in Hi. cbn [existsb] in Hi. rewrite N.eqb_refl in Hi. discriminate.
  Qed.

  Theorem r2h_passthrough c s : inert c = true -> r2h (c :: s) = option_map (cons c) (r2h s).
  Proof.
    intro Hi. unfold Romaji.r2h.
    rewrite (fuel_irrelevant (S (length s)) (length (c :: s)) s) by (cbn [length]; lia).
    cbn [Romaji.r2h_fuel length]. cbn [Romaji.strip_sokuon].
    assert (Hp : sokuon_p (c :: s) = false).
    { destruct s as [|b s]; [reflexivity|]. cbn [Romaji.sokuon_p].
      unfold inert in Hi. apply andb_true_iff in Hi as [_ Hi]. apply negb_true_iff in Hi. rewrite Hi.
      destruct (N.eqb c b); reflexivity. }
    rewrite Hp. unfold Romaji.scan. rewrite (scan_from_inert _ c s Hi).
    destruct (r2h_fuel (S (length s)) s); reflexivity.
  Qed.

  Theorem r2h_passthrough_prefix s1 s2 : forallb inert s1 = true -> r2h (s1 ++ s2) = option_map (app s1) (r2h s2).
  Proof.
    induction s1 as [|c s1 IH]; intro H; cbn [app].
    - destruct (r2h s2); reflexivity.
    - cbn [forallb] in H. apply andb_true_iff in H as [Hc Hs]. rewrite (r2h_passthrough c _ Hc), (IH Hs).
      destruct (r2h s2); reflexivity.
  Qed.
End Generic.

(** hiragana to katakana is a character-wise map *)
Theorem hira_to_kata_app t s1 s2 : hira_to_kata t (s1 ++ s2) = hira_to_kata t s1 ++ hira_to_kata t s2.
Proof. unfold hira_to_kata. apply flat_map_app. Qed.

Theorem hira_to_kata_char t c : hira_to_kata t [c] = match assoc_str [c] t with Some v => v | None => [c] end.
Proof. unfold hira_to_kata. cbn [flat_map]. apply app_nil_r. Qed.
