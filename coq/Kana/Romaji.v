(** Model of the Emacs client's romaji engine (chokan.el: chokan--roman-sokuon-p,
    chokan--roman-to-hiragana, chokan--roman-hira-to-kata), parametrised by the tables,
    consonant list and scan bound of Gen/ElispTables.v. *)
From Chokan Require Import Base.Str Base.ListUtil.
Local Open Scope N_scope.

Definition SOKUON : N := 12387.   (* っ *)

Section Romaji.
  Variable table : list (str * str).
  Variable consonants : list N.
  Variable scan_bound : nat -> nat.

  Fixpoint assoc_str (k : str) (l : list (str * str)) : option str :=
    match l with
    | [] => None
    | (k', v) :: l' => if str_eqb k k' then Some v else assoc_str k l'
    end.

  Definition max_key_len : nat := fold_left (fun acc it => Nat.max acc (length (fst it))) table O.

  (** chokan--roman-sokuon-p *)
  Definition sokuon_p (s : str) : bool :=
    match s with
    | a :: b :: _ => N.eqb a b && mem_chr a consonants && mem_chr b consonants
    | _ => false
    end.

  (** the inner while loop: drop one character per leading doubled consonant *)
  Fixpoint strip_sokuon (s : str) : nat * str :=
    match s with
    | a :: s' => if sokuon_p s then let '(k, r) := strip_sokuon s' in (S k, r) else (O, s)
    | [] => (O, s)
    end.

  (** (cl-dotimes (len bound) ..): the FIRST len in 0 .. bound-1 whose prefix is a key (the shortest match) *)
  Fixpoint scan_from (lens : list nat) (s : str) : option (str * str) :=
    match lens with
    | [] => None
    | len :: lens' =>
      match assoc_str (firstn len s) table with
      | Some v => Some (v, skipn len s)
      | None => scan_from lens' s
      end
    end.
  Definition scan (s : str) : option (str * str) := scan_from (seq 0 (scan_bound max_key_len)) s.

  (** chokan--roman-to-hiragana; [None] = out of fuel *)
  Fixpoint r2h_fuel (fuel : nat) (s : str) : option str :=
    match fuel with
    | O => None
    | S fuel' =>
      match s with
      | [] => Some []
      | _ =>
        let '(k, s1) := strip_sokuon s in
        match scan s1 with
        | Some (v, rest) => option_map (fun r => repeat SOKUON k ++ v ++ r) (r2h_fuel fuel' rest)
        | None =>
          match s1 with
          | c :: rest => option_map (fun r => repeat SOKUON k ++ c :: r) (r2h_fuel fuel' rest)
          | [] => Some (repeat SOKUON k)
          end
        end
      end
    end.

  Definition r2h (s : str) : option str := r2h_fuel (S (length s)) s.
End Romaji.

(** chokan--roman-hira-to-kata: each character through the table, everything else untouched *)
Definition hira_to_kata (table : list (str * str)) (s : str) : str :=
  flat_map (fun c => match assoc_str [c] table with Some v => v | None => [c] end) s.
