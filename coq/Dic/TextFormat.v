(** Model of the text dictionary format:
    printer  = [Display for Entry] (libs/dic/src/base/entry.rs) with the names of Gen/SpeechNames.v
    parser   = the PEG grammar of libs/dic/src/standard/dic_grammer.rs, interpreted
               rule by rule over the classes / alternatives of Gen/DicGrammar.v
    files    = StandardDictionaryReader::read_all / StandardDictionaryWriter::write_all (standard/io.rs) *)
From Chokan Require Import Base.Str Dic.Speech Dic.PegAlt Gen.SpeechNames Gen.DicGrammar.
Local Open Scope N_scope.

Definition TAB : N := 9.
Definition NL : N := 10.
Definition SLASH : N := 47.
Definition SEMI : N := 59.

(** Display for Entry:  "{reading}\t{stem}\t/{speech}/" *)
Definition print_entry (e : entry) : str :=
  e_reading e ++ TAB :: e_stem e ++ TAB :: SLASH :: speech_name (e_speech e) ++ [SLASH].

(** a line with several speeches (what the grammar accepts and the converters emit) *)
Definition print_multi (r s : str) (sps : list speech) : str :=
  r ++ TAB :: s ++ TAB :: flat_map (fun sp => SLASH :: speech_name sp) sps ++ [SLASH].

Definition is_kana (c : N) : bool := in_class g_kana_class c.
Definition is_no_space (c : N) : bool := negb (in_class g_no_space_excluded c).

(** rule speech() = "/" n:( alt1 / alt2 / .. ) *)
Definition parse_speech (s : str) : option (speech * str) :=
  match s with
  | c :: s' => if N.eqb c SLASH then run_alts g_katakana_class g_speech_alts s' else None
  | [] => None
  end.

(** speech()*  : greedy, never gives an iteration back.  Fuel = length of the input
    (every iteration consumes at least the '/'). *)
Fixpoint parse_speech_star (fuel : nat) (s : str) : list speech * str :=
  match fuel with
  | O => ([], s)
  | S fuel' =>
    match parse_speech s with
    | Some (sp, rest) => let '(sps, rest') := parse_speech_star fuel' rest in (sp :: sps, rest')
    | None => ([], s)
    end
  end.

(** rule speechs() = speech()+ "/" *)
Definition parse_speechs (s : str) : option (list speech * str) :=
  match parse_speech_star (length s) s with
  | ([], _) => None
  | (sps, c :: rest) => if N.eqb c SLASH then Some (sps, rest) else None
  | (_, []) => None
  end.

(** rule entry() = $(kana()+) "\t" $(no_space()+) "\t" speechs()   -- followed by end of input (public rule) *)
Definition parse_entry (s : str) : option (list entry) :=
  match take_while is_kana s with
  | ([], _) => None
  | (k, c1 :: s1) =>
    if N.eqb c1 TAB then
      match take_while is_no_space s1 with
      | ([], _) => None
      | (stem, c2 :: s2) =>
        if N.eqb c2 TAB then
          match parse_speechs s2 with
          | Some (sps, []) => Some (map (fun sp => {| e_reading := k; e_stem := stem; e_speech := sp |}) sps)
          | _ => None
          end
        else None
      | (_, []) => None
      end
    else None
  | (_, []) => None
  end.

(** rule root() = comment() { [] } / entry()    with comment() = ";" any()* *)
Definition parse_line (s : str) : option (list entry) :=
  match s with
  | c :: _ => if N.eqb c SEMI then Some [] else parse_entry s
  | [] => parse_entry s
  end.

Definition parse_or_nil (s : str) : list entry :=
  match parse_line s with Some es => es | None => [] end.

(** read_all: split at '\n', parse each line, skip the lines that fail *)
Definition read_all (content : str) : list entry :=
  flat_map parse_or_nil (split_on NL content).

(** write_all: every entry followed by '\n' *)
Definition write_all (es : list entry) : str :=
  flat_map (fun e => print_entry e ++ [NL]) es.

(** the hypotheses of the round trip, as boolean predicates *)
Definition kana_reading (r : str) : bool := negb (match r with [] => true | _ => false end) && forallb is_kana r.
Definition stem_ok (s : str) : bool := negb (match s with [] => true | _ => false end) && forallb is_no_space s.
Definition speech_ok (sp : speech) : bool :=
  match sp with Verb _ row => in_class g_katakana_class row | _ => true end.
Definition entry_printable (e : entry) : bool :=
  kana_reading (e_reading e) && stem_ok (e_stem e) && negb (mem_chr NL (e_stem e)) && speech_ok (e_speech e).

(** the 14 rows the grammar admits, as a list *)
Definition g_rows : list N := map fst g_katakana_class.
