(** The property's own vocabulary for C12 (hand-written specification, NOT taken from the code):
    the kana of each row of the gojuon table (ヤ and ワ rows with historical and modern spellings),
    the euphonic variants per conjugation class, and the core forms of each class. *)
From Chokan Require Import Base.Str Dic.Speech Dic.ConjRule.
Local Open Scope N_scope.

Inductive vowel := VA | VI | VU | VE | VO.

(** kana (as code points) of a row, by grade; several spellings where history left two *)
Definition grade (row : N) (v : vowel) : list N :=
  let pick (a i u e o : list N) := match v with VA => a | VI => i | VU => u | VE => e | VO => o end in
  match row with
  | 12450 (* ア *) => pick [12354] [12356] [12358] [12360] [12362]
  | 12459 (* カ *) => pick [12363] [12365] [12367] [12369] [12371]
  | 12460 (* ガ *) => pick [12364] [12366] [12368] [12370] [12372]
  | 12469 (* サ *) => pick [12373] [12375] [12377] [12379] [12381]
  | 12470 (* ザ *) => pick [12374] [12376] [12378] [12380] [12382]
  | 12479 (* タ *) => pick [12383] [12385] [12388] [12390] [12392]
  | 12480 (* ダ *) => pick [12384] [12386] [12389] [12391] [12393]
  | 12490 (* ナ *) => pick [12394] [12395] [12396] [12397] [12398]
  | 12495 (* ハ *) => pick [12399] [12402] [12405] [12408] [12411]
  | 12496 (* バ *) => pick [12400] [12403] [12406] [12409] [12412]
  | 12510 (* マ *) => pick [12414] [12415] [12416] [12417] [12418]
  | 12516 (* ヤ *) => pick [12420] [12356] [12422] [12360] [12424]
  | 12521 (* ラ *) => pick [12425] [12426] [12427] [12428] [12429]
  | 12527 (* ワ *) => pick [12431] [12432; 12356] [12358] [12433; 12360] [12434; 12362]
  | _ => []
  end.

Definition row_kana (row : N) : list N := grade row VA ++ grade row VI ++ grade row VU ++ grade row VE ++ grade row VO.

(** onbin (euphonic) variants of the 五段 rows: い, っ, ん *)
Definition euphonic (c : verb_class) (row : N) : list N :=
  match c, row with
  | Godan, 12459 => [12356; 12387]   (* カ: い っ (行く) *)
  | Godan, 12460 => [12356]          (* ガ: い *)
  | Godan, 12479 | Godan, 12521 | Godan, 12527 => [12387]   (* タ ラ ワ: っ *)
  | Godan, 12490 | Godan, 12496 | Godan, 12510 => [12435]   (* ナ バ マ: ん *)
  | _, _ => []
  end.

(** every okurigana of the rule is empty or starts in the verb's row or with a euphonic variant *)
Definition okuri_in_row (c : verb_class) (row : N) (ok : str) : bool :=
  match ok with
  | [] => true
  | h :: _ => mem_chr h (row_kana row) || mem_chr h (euphonic c row)
  end.

Definition has_grade (l : list str) (row : N) (v : vowel) : bool :=
  existsb (fun ok => match ok with [h] => mem_chr h (grade row v) | _ => false end) l.
Definition has_str (l : list str) (s : str) : bool := existsb (str_eqb s) l.

(** core forms present in a list of okurigana, per conjugation class *)
Definition core_in (c : verb_class) (row : N) (l : list str) : bool :=
  match c with
  | Godan => has_grade l row VA && has_grade l row VI && has_grade l row VU && has_grade l row VE && has_grade l row VO
  | Yodan => has_grade l row VA && has_grade l row VI && has_grade l row VU && has_grade l row VE
  | KamiIchidan => has_grade l row VI || has_str l []       (* the stem grade, possibly inside the stem *)
  | SimoIchidan => has_grade l row VE || has_str l []
  | KamiNidan => has_grade l row VI && has_grade l row VU
  | SimoNidan => has_grade l row VE && has_grade l row VU
  | Hen =>
    match row with
    | 12469 => has_grade l row VA && has_grade l row VI && has_grade l row VU && has_grade l row VE           (* さ し す せ *)
    | 12459 => has_str l [12371] && has_str l [12365] && has_str l [12367; 12427] && has_str l [12367; 12428] && has_str l [12371; 12356]
    | 12521 | 12490 => has_grade l row VA && has_grade l row VI && has_grade l row VU && has_grade l row VE
    | _ => false
    end
  end.

(** every list the rule can select has the core forms *)
Definition rule_core (c : verb_class) (row : N) (r : okuri_rule) : bool :=
  match r with
  | OFixed l => core_in c row l
  | OIfOneByte a b => core_in c row a && core_in c row b
  | OIfLastChar _ a b => core_in c row a && core_in c row b
  | OKaHen l => core_in c row l
  end.
