(** What a restore keeps: for entries whose reading and stem are free of TAB / NL (and the stem of blanks),
    reading a written dictionary back yields exactly the printable entries, in order - the unprintable ones
    vanish and nothing else appears (used by C05: a restart never meets an entry the server did not hold;
    and by C08: what is dropped is exactly the unprintable). *)
From Chokan Require Import Base.Str Dic.Speech Dic.PegAlt Gen.SpeechNames Gen.DicGrammar Dic.TextFormat Dic.TextFormatProofs.
From Coq Require Import Lia.
Local Open Scope N_scope.

Definition SPACE : N := 32.
Definition clean_reading (r : str) : bool := forallb (fun c => negb (N.eqb c TAB) && negb (N.eqb c NL)) r.
Definition clean_stem (s : str) : bool := forallb (fun c => negb (N.eqb c TAB) && negb (N.eqb c NL) && negb (N.eqb c SPACE)) s.
Definition clean_entry (e : entry) : bool := clean_reading (e_reading e) && clean_stem (e_stem e).

(** * a verb whose row is not one of the grammar's katakana has a name no alternative accepts *)
Definition GYO : N := 34892.   (* 行 *)

Definition lit_second_not_gyo {A} (cs : list (str * A)) : bool :=
  forallb (fun p => match fst p with _ :: c2 :: _ => negb (N.eqb c2 GYO) | _ => false end) cs.

Definition alts_lits_ok : bool :=
  forallb (fun a => match a with AltLit cs => lit_second_not_gyo cs | AltVerb _ => true end) g_speech_alts.
Lemma alts_lits_ok_true : alts_lits_ok = true. Proof. vm_compute. reflexivity. Qed.

Lemma suffix_starts_gyo c : exists t, verb_class_suffix c = GYO :: t.
Proof. destruct c; eexists; reflexivity. Qed.

Lemma first_literal_none {A} (cs : list (str * A)) row t : lit_second_not_gyo cs = true ->
  first_literal cs (row :: GYO :: t) = None.
Proof.
  induction cs as [|[l a] cs IH]; intro H; [reflexivity|]. cbn [lit_second_not_gyo forallb fst] in H.
  apply andb_true_iff in H as [H1 H2]. cbn [first_literal].
  destruct l as [|c1 [|c2 l]]; try discriminate. cbn [strip_prefix].
  destruct (N.eqb c1 row); [|apply IH; assumption].
  apply negb_true_iff in H1. rewrite H1. apply IH. assumption.
Qed.

Lemma run_alts_bad_row row t : in_class g_katakana_class row = false ->
  run_alts g_katakana_class g_speech_alts (row :: GYO :: t) = None.
Proof.
  intro Hrow. pose proof alts_lits_ok_true as H. unfold alts_lits_ok in H.
  induction g_speech_alts as [|a alts IH]; [reflexivity|]. cbn [forallb] in H. apply andb_true_iff in H as [Ha Hs].
  cbn [run_alts]. destruct a as [cs|cs]; cbn [run_alt].
  - rewrite (first_literal_none cs row t Ha). apply IH. assumption.
  - rewrite Hrow. apply IH. assumption.
Qed.

Lemma parse_speechs_bad sp : speech_ok sp = false -> parse_speechs (SLASH :: speech_name sp ++ [SLASH]) = None.
Proof.
  destruct sp as [[]|c row| | | | | |[]| | | |[]]; cbn [speech_ok]; try discriminate. intro Hrow.
  cbn [speech_name]. destruct (suffix_starts_gyo c) as [t Ht]. rewrite Ht.
  unfold parse_speechs. cbn [app length parse_speech_star]. unfold parse_speech at 1. rewrite N.eqb_refl.
  change ((row :: GYO :: t) ++ [SLASH]) with (row :: GYO :: (t ++ [SLASH])).
  rewrite (run_alts_bad_row row (t ++ [SLASH]) Hrow). reflexivity.
Qed.

(** * one line *)

Lemma is_no_space_clean c : c <> TAB -> c <> SPACE -> is_no_space c = true.
Proof.
  unfold TAB, SPACE. intros H1 H2. unfold is_no_space, in_class, g_no_space_excluded. cbn [existsb fst snd].
  destruct (N.leb_spec 32 c), (N.leb_spec c 32), (N.leb_spec 9 c), (N.leb_spec c 9); cbn [andb orb negb]; try reflexivity; exfalso; lia.
Qed.

Lemma is_kana_not_tab c : is_kana c = true -> N.eqb c TAB = false.
Proof. intro H. destruct (N.eqb_spec c TAB) as [->|]; [rewrite tab_not_kana in H; discriminate|reflexivity]. Qed.

Lemma take_while_split f s : exists a b, take_while f s = (a, b) /\ s = a ++ b /\ forallb f a = true /\ (match b with c :: _ => f c = false | [] => True end).
Proof.
  induction s as [|c s IH]; [exists [], []; repeat split|]. cbn [take_while]. destruct (f c) eqn:E.
  - destruct IH as (a & b & H1 & H2 & H3 & H4). rewrite H1. exists (c :: a), b. repeat split; [cbn; congruence|cbn [forallb]; rewrite E, H3; reflexivity|assumption].
  - exists [], (c :: s). repeat split. assumption.
Qed.

Theorem parse_or_nil_print e : clean_entry e = true ->
  parse_or_nil (print_entry e) = if entry_printable e then [e] else [].
Proof.
  intro Hc. destruct (entry_printable e) eqn:Hp.
  - unfold parse_or_nil. rewrite (entry_roundtrip e Hp). reflexivity.
  - unfold parse_or_nil. destruct (parse_line (print_entry e)) as [es|] eqn:Hl; [|reflexivity].
    (* a successful parse of an unprintable clean entry is a comment line *)
    destruct e as [r s sp]. unfold clean_entry in Hc. cbn [e_reading e_stem] in Hc. apply andb_true_iff in Hc as [Hcr Hcs].
    unfold print_entry in Hl. cbn [e_reading e_stem e_speech] in Hl.
    unfold parse_line in Hl.
    destruct r as [|c0 r'].
    + (* empty reading: the line starts with TAB *)
      cbn [app] in Hl. change (N.eqb TAB SEMI) with false in Hl. unfold parse_entry in Hl. cbn [take_while] in Hl.
      rewrite tab_not_kana in Hl. discriminate.
    + cbn [app] in Hl. destruct (N.eqb c0 SEMI); [inversion Hl; reflexivity|].
      exfalso. unfold parse_entry in Hl.
      set (line := (c0 :: r') ++ TAB :: s ++ TAB :: SLASH :: speech_name sp ++ [SLASH]) in Hl.
      change (c0 :: r' ++ TAB :: s ++ TAB :: SLASH :: speech_name sp ++ [SLASH]) with line in Hl.
      (* does the whole reading consist of kana? *)
      destruct (forallb is_kana (c0 :: r')) eqn:Hk.
      * subst line. rewrite (take_while_app is_kana (c0 :: r') TAB _ Hk tab_not_kana) in Hl. rewrite N.eqb_refl in Hl.
        destruct (forallb is_no_space s) eqn:Hs.
        -- rewrite (take_while_app is_no_space s TAB _ Hs tab_not_no_space) in Hl.
           destruct s as [|s0 s']; [discriminate|]. rewrite N.eqb_refl in Hl.
           destruct (speech_ok sp) eqn:Hsp.
           ++ (* everything is fine except a newline in the stem - excluded by cleanliness *)
              unfold entry_printable in Hp. cbn [e_reading e_stem e_speech] in Hp.
              unfold kana_reading in Hp. rewrite Hk in Hp. unfold stem_ok in Hp. rewrite Hs, Hsp in Hp. cbn [negb andb] in Hp.
              rewrite andb_true_r in Hp. apply negb_false_iff in Hp. apply mem_chr_In in Hp.
              unfold clean_stem in Hcs. rewrite forallb_forall in Hcs. specialize (Hcs NL Hp).
              rewrite N.eqb_refl in Hcs. rewrite andb_false_r in Hcs. discriminate.
           ++ rewrite (parse_speechs_bad sp Hsp) in Hl. discriminate.
        -- (* a blank inside the stem: excluded by cleanliness; an empty stem: no_space+ fails *)
           assert (Hall : forallb is_no_space s = true).
           { apply forallb_forall. intros c Hin. unfold clean_stem in Hcs. rewrite forallb_forall in Hcs. specialize (Hcs c Hin).
             apply andb_true_iff in Hcs as [Hc1 Hc3]. apply andb_true_iff in Hc1 as [Hc1 Hc2].
             apply negb_true_iff in Hc1, Hc3. apply N.eqb_neq in Hc1, Hc3. apply is_no_space_clean; assumption. }
           congruence.
      * (* some character of the reading is not kana: the kana prefix is followed by it, not by TAB *)
        destruct (take_while_split is_kana line) as (a & b & Ht & Hline & Ha & Hb). rewrite Ht in Hl.
        destruct a as [|a0 a']; [discriminate|]. destruct b as [|b0 b']; [discriminate|].
        destruct (N.eqb_spec b0 TAB) as [->|Hne]; [|discriminate].
        (* then a0::a' is a prefix of the reading ending right before a TAB: but the reading has no TAB and the first
           non-kana character of the line lies inside the reading *)
        subst line.
        assert (Hx : exists k1 c k2, c0 :: r' = k1 ++ c :: k2 /\ forallb is_kana k1 = true /\ is_kana c = false).
        { clear -Hk. induction (c0 :: r') as [|x l IH]; [discriminate|]. cbn [forallb] in Hk.
          destruct (is_kana x) eqn:Ex.
          - cbn [andb] in Hk. destruct (IH Hk) as (k1 & c & k2 & H1 & H2 & H3). exists (x :: k1), c, k2. repeat split; [cbn; congruence|cbn [forallb]; rewrite Ex, H2; reflexivity|assumption].
          - exists [], x, l. repeat split. assumption. }
        destruct Hx as (k1 & c & k2 & Hr & Hk1 & Hcn).
        rewrite Hr in Hline. rewrite <- app_assoc in Hline. cbn [app] in Hline.
        pose proof (take_while_app is_kana k1 c (k2 ++ TAB :: s ++ TAB :: SLASH :: speech_name sp ++ [SLASH]) Hk1 Hcn) as Ht2.
        rewrite Hr in Ht. rewrite <- app_assoc in Ht. cbn [app] in Ht. rewrite Ht2 in Ht. inversion Ht; subst.
        (* so c = TAB, but c is a character of the reading *)
        assert (Hin : In TAB (c0 :: r')) by (rewrite Hr; apply in_or_app; right; left; reflexivity).
        unfold clean_reading in Hcr. rewrite forallb_forall in Hcr. specialize (Hcr TAB Hin). rewrite N.eqb_refl in Hcr. discriminate.
Qed.

(** * whole files *)

Lemma speech_name_no_nl_any sp : mem_chr NL (speech_name sp) = false \/ exists c row, sp = Verb c row.
Proof. destruct sp as [[]|c row| | | | | |[]| | | |[]]; try (left; vm_compute; reflexivity). right; eauto. Qed.

Definition clean_entry2 (e : entry) : bool := clean_entry e && negb (mem_chr NL (speech_name (e_speech e))).

Lemma print_entry_no_nl2 e : clean_entry2 e = true -> mem_chr NL (print_entry e) = false.
Proof.
  unfold clean_entry2, clean_entry. intro H. apply andb_true_iff in H as [H Hsp]. apply andb_true_iff in H as [Hr Hs].
  apply negb_true_iff in Hsp.
  assert (Hr' : mem_chr NL (e_reading e) = false).
  { destruct (mem_chr NL (e_reading e)) eqn:E; [|reflexivity]. apply mem_chr_In in E.
    unfold clean_reading in Hr. rewrite forallb_forall in Hr. specialize (Hr _ E). rewrite N.eqb_refl, andb_false_r in Hr. discriminate. }
  assert (Hs' : mem_chr NL (e_stem e) = false).
  { destruct (mem_chr NL (e_stem e)) eqn:E; [|reflexivity]. apply mem_chr_In in E.
    unfold clean_stem in Hs. rewrite forallb_forall in Hs. specialize (Hs _ E). rewrite N.eqb_refl in Hs. rewrite andb_false_r in Hs. discriminate. }
  unfold print_entry.
  change (TAB :: e_stem e ++ TAB :: SLASH :: speech_name (e_speech e) ++ [SLASH])
    with ([TAB] ++ e_stem e ++ [TAB; SLASH] ++ speech_name (e_speech e) ++ [SLASH]).
  rewrite !mem_chr_app, Hr', Hs', Hsp. vm_compute. reflexivity.
Qed.

(** reading a written dictionary back yields exactly its printable entries, in order *)
Theorem restore_filter es : forallb clean_entry2 es = true -> read_all (write_all es) = filter entry_printable es.
Proof.
  intro Hes. rewrite write_all_join. rewrite line_isolation.
  - rewrite flat_map_app. cbn [flat_map]. change (parse_or_nil []) with (@nil entry). rewrite !app_nil_r.
    induction es as [|e es IH]; [reflexivity|]. cbn [forallb] in Hes. apply andb_true_iff in Hes as [He Hes].
    cbn [map flat_map filter]. unfold clean_entry2 in He. apply andb_true_iff in He as [He _].
    rewrite (parse_or_nil_print e He). rewrite (IH Hes). destruct (entry_printable e); reflexivity.
  - destruct (map print_entry es); discriminate.
  - rewrite forallb_app. apply andb_true_iff. split; [|reflexivity].
    rewrite forallb_forall. intros l Hl. apply in_map_iff in Hl as [e [<- He]].
    rewrite forallb_forall in Hes. rewrite (print_entry_no_nl2 e (Hes e He)). reflexivity.
Qed.

Corollary restore_subset es e : forallb clean_entry2 es = true -> In e (read_all (write_all es)) -> In e es.
Proof. intros H Hin. rewrite (restore_filter es H) in Hin. apply filter_In in Hin. tauto. Qed.

(** saving and restoring twice is the same as once *)
Corollary restore_idempotent es : forallb clean_entry2 es = true ->
  read_all (write_all (read_all (write_all es))) = read_all (write_all es).
Proof.
  intro H. rewrite (restore_filter es H).
  assert (Hc : forallb clean_entry2 (filter entry_printable es) = true).
  { apply forallb_forall. intros e He. apply filter_In in He as [He _]. rewrite forallb_forall in H. auto. }
  rewrite (restore_filter _ Hc). clear. induction es as [|e es IH]; [reflexivity|]. cbn [filter].
  destruct (entry_printable e) eqn:E; [cbn [filter]; rewrite E; f_equal; assumption|assumption].
Qed.
