(** Proofs about the text dictionary format model (property C10, used by C08/C11/C18). *)
From Chokan Require Import Base.Str Dic.Speech Dic.PegAlt Gen.SpeechNames Gen.DicGrammar Dic.TextFormat.
Local Open Scope N_scope.

(** * Every part of speech parses back, whatever follows the closing '/' *)

Definition speech_rt (sp : speech) : Prop :=
  forall rest, parse_speech (SLASH :: speech_name sp ++ SLASH :: rest) = Some (sp, SLASH :: rest).

Lemma all_speeches_rt : Forall speech_rt (all_speeches g_rows).
Proof.
  let l := eval vm_compute in (all_speeches g_rows) in change (Forall speech_rt l).
  repeat (constructor; [intro rest; vm_compute; reflexivity|]).
  constructor.
Qed.

Lemma speech_roundtrip sp rest : In sp (all_speeches g_rows) ->
  parse_speech (SLASH :: speech_name sp ++ SLASH :: rest) = Some (sp, SLASH :: rest).
Proof. intros Hin. exact (proj1 (Forall_forall _ _) all_speeches_rt sp Hin rest). Qed.

Lemma all_speeches_count : length (all_speeches g_rows) = 116%nat.
Proof. vm_compute. reflexivity. Qed.

Fixpoint nodupb (l : list speech) : bool :=
  match l with
  | [] => true
  | x :: l' => negb (existsb (speech_eqb x) l') && nodupb l'
  end.

Lemma nodupb_NoDup l : nodupb l = true -> NoDup l.
Proof.
  induction l as [|x l IH]; cbn [nodupb]; intro H; [constructor|].
  apply andb_true_iff in H as [H1 H2]. constructor; [|apply IH; assumption].
  intro Hin. apply negb_true_iff in H1. assert (existsb (speech_eqb x) l = true); [|congruence].
  apply existsb_exists. exists x. split; [assumption|apply speech_eqb_spec; reflexivity].
Qed.

Lemma all_speeches_nodup : NoDup (all_speeches g_rows).
Proof. apply nodupb_NoDup. vm_compute. reflexivity. Qed.

(** membership in [all_speeches g_rows] is exactly [speech_ok] *)
Lemma speech_ok_all sp : speech_ok sp = true <-> In sp (all_speeches g_rows).
Proof.
  split.
  - destruct sp as [[]|c row| | | | | |[]| | | |[]]; intro H;
      try (vm_compute; tauto).
    cbn [speech_ok] in H. unfold all_speeches. apply in_or_app. right. apply in_or_app. left.
    apply in_flat_map. exists c. split; [destruct c; cbn; tauto|].
    apply in_map.
    (* row is one of the class characters: every class item is a single character *)
    revert H. unfold g_rows, g_katakana_class, in_class. cbn [existsb fst snd map].
    intro H. repeat (apply orb_true_iff in H as [H|H];
      [apply andb_true_iff in H as [H1 H2]; apply N.leb_le in H1, H2; cbn [In]; lia|]).
    discriminate.
  - intro H. pose proof (proj1 (Forall_forall _ _) (
      ltac:(let l := eval vm_compute in (all_speeches g_rows) in
            change (Forall (fun sp => speech_ok sp = true) l);
            repeat (constructor; [vm_compute; reflexivity|]); constructor)
      : Forall (fun sp => speech_ok sp = true) (all_speeches g_rows))) as Hall.
    apply Hall. exact H.
Qed.

(** * The speech list of a line *)

Definition speech_body (sps : list speech) : str := flat_map (fun sp => SLASH :: speech_name sp) sps.

Lemma parse_speech_closing : parse_speech [SLASH] = None.
Proof. vm_compute. reflexivity. Qed.

Lemma body_starts_slash sps : exists tl, speech_body sps ++ [SLASH] = SLASH :: tl.
Proof. destruct sps; cbn [speech_body flat_map app]; eexists; reflexivity. Qed.

Lemma parse_speech_star_body sps : Forall speech_rt sps ->
  forall fuel, (length sps < fuel)%nat ->
  parse_speech_star fuel (speech_body sps ++ [SLASH]) = (sps, [SLASH]).
Proof.
  induction 1 as [|sp sps Hsp Hsps IH]; intros fuel Hf.
  - destruct fuel as [|fuel]; [inversion Hf|].
    change (speech_body [] ++ [SLASH]) with [SLASH]. cbn [parse_speech_star].
    rewrite parse_speech_closing. reflexivity.
  - destruct fuel as [|fuel]; [inversion Hf|]. cbn [length] in Hf.
    assert (Heq : speech_body (sp :: sps) ++ [SLASH] = SLASH :: speech_name sp ++ (speech_body sps ++ [SLASH])).
    { cbn [speech_body flat_map]. rewrite <- app_assoc. reflexivity. }
    rewrite Heq. destruct (body_starts_slash sps) as [tl Hb].
    cbn [parse_speech_star]. rewrite Hb, (Hsp tl), <- Hb.
    rewrite (IH fuel) by lia. reflexivity.
Qed.

Lemma speech_body_length sps : (length sps <= length (speech_body sps))%nat.
Proof.
  induction sps as [|sp sps IH]; [cbn; lia|].
  cbn [speech_body flat_map length]. fold (speech_body sps). rewrite app_length. cbn [length]. lia.
Qed.

Lemma parse_speechs_body sps : sps <> [] -> Forall speech_rt sps ->
  parse_speechs (speech_body sps ++ [SLASH]) = Some (sps, []).
Proof.
  intros Hne Hall. unfold parse_speechs.
  rewrite (parse_speech_star_body sps Hall).
  - destruct sps; [congruence|]. cbn. reflexivity.
  - rewrite app_length. cbn [length]. pose proof (speech_body_length sps). lia.
Qed.

(** * A whole line *)

Lemma tab_not_kana : is_kana TAB = false. Proof. vm_compute; reflexivity. Qed.
Lemma tab_not_no_space : is_no_space TAB = false. Proof. vm_compute; reflexivity. Qed.
Lemma semi_not_kana : is_kana SEMI = false. Proof. vm_compute; reflexivity. Qed.
Lemma nl_not_kana : is_kana NL = false. Proof. vm_compute; reflexivity. Qed.

Lemma nonempty_bool (s : str) : negb (match s with [] => true | _ => false end) = true -> s <> [].
Proof. destruct s; [discriminate|discriminate]. Qed.

Lemma parse_entry_multi r s sps :
  kana_reading r = true -> stem_ok s = true -> sps <> [] -> Forall speech_rt sps ->
  parse_entry (print_multi r s sps) = Some (map (fun sp => {| e_reading := r; e_stem := s; e_speech := sp |}) sps).
Proof.
  intros Hr Hs Hne Hall.
  unfold kana_reading in Hr. apply andb_true_iff in Hr as [Hr0 Hr].
  unfold stem_ok in Hs. apply andb_true_iff in Hs as [Hs0 Hs].
  apply nonempty_bool in Hr0. apply nonempty_bool in Hs0.
  unfold parse_entry, print_multi.
  rewrite (take_while_app is_kana r TAB _ Hr tab_not_kana).
  destruct r as [|r0 r']; [congruence|]. rewrite N.eqb_refl.
  rewrite (take_while_app is_no_space s TAB _ Hs tab_not_no_space).
  destruct s as [|s0 s']; [congruence|]. rewrite N.eqb_refl.
  fold (speech_body sps). rewrite (parse_speechs_body sps Hne Hall). reflexivity.
Qed.

Lemma print_entry_multi e : print_entry e = print_multi (e_reading e) (e_stem e) [e_speech e].
Proof.
  unfold print_entry, print_multi. cbn [flat_map]. rewrite app_nil_r. reflexivity.
Qed.

Lemma first_char_not_semi r rest : kana_reading r = true ->
  parse_line (r ++ rest) = parse_entry (r ++ rest).
Proof.
  intros Hr. unfold kana_reading in Hr. apply andb_true_iff in Hr as [Hr0 Hr].
  destruct r as [|c r]; [discriminate|]. cbn [app parse_line].
  cbn [forallb] in Hr. apply andb_true_iff in Hr as [Hc _].
  destruct (N.eqb_spec c SEMI) as [->|_]; [rewrite semi_not_kana in Hc; discriminate|reflexivity].
Qed.

Theorem entry_roundtrip e : entry_printable e = true -> parse_line (print_entry e) = Some [e].
Proof.
  intros H. unfold entry_printable in H.
  apply andb_true_iff in H as [H Hsp]. apply andb_true_iff in H as [H _]. apply andb_true_iff in H as [Hr Hs].
  rewrite print_entry_multi. unfold print_multi. rewrite (first_char_not_semi _ _ Hr).
  change (parse_entry (print_multi (e_reading e) (e_stem e) [e_speech e]) = Some [e]).
  rewrite parse_entry_multi; try assumption; try discriminate.
  - destruct e; reflexivity.
  - constructor; [|constructor]. intro rest. apply speech_roundtrip. apply speech_ok_all. assumption.
Qed.

Theorem multi_speech_roundtrip r s sps :
  kana_reading r = true -> stem_ok s = true -> sps <> [] -> forallb speech_ok sps = true ->
  parse_line (print_multi r s sps) = Some (map (fun sp => {| e_reading := r; e_stem := s; e_speech := sp |}) sps).
Proof.
  intros Hr Hs Hne Hall. unfold print_multi. rewrite (first_char_not_semi _ _ Hr).
  apply parse_entry_multi; try assumption.
  apply Forall_forall. intros sp Hin rest. apply speech_roundtrip. apply speech_ok_all.
  rewrite forallb_forall in Hall. apply Hall. assumption.
Qed.

Theorem print_injective e1 e2 :
  entry_printable e1 = true -> entry_printable e2 = true -> print_entry e1 = print_entry e2 -> e1 = e2.
Proof.
  intros H1 H2 Heq. apply entry_roundtrip in H1. apply entry_roundtrip in H2.
  rewrite Heq in H1. rewrite H1 in H2. inversion H2. reflexivity.
Qed.

(** * Files: line isolation and the file round trip *)

Theorem line_isolation ls : ls <> [] -> forallb (fun l => negb (mem_chr NL l)) ls = true ->
  read_all (join_with NL ls) = flat_map parse_or_nil ls.
Proof. intros Hne Hls. unfold read_all. rewrite split_join by assumption. reflexivity. Qed.

Lemma mem_chr_app c a b : mem_chr c (a ++ b) = mem_chr c a || mem_chr c b.
Proof. unfold mem_chr. apply existsb_app. Qed.

Lemma mem_chr_class_false c cls l : in_class cls c = false -> forallb (in_class cls) l = true -> mem_chr c l = false.
Proof.
  intros Hc Hl. destruct (mem_chr c l) eqn:Hm; [|reflexivity].
  apply mem_chr_In in Hm. rewrite forallb_forall in Hl. rewrite (Hl c Hm) in Hc. discriminate.
Qed.

Lemma speech_name_no_nl sp : speech_ok sp = true -> mem_chr NL (speech_name sp) = false.
Proof.
  destruct sp as [[]|c row| | | | | |[]| | | |[]]; intro H; try (vm_compute; reflexivity).
  cbn [speech_ok] in H. cbn [speech_name]. unfold mem_chr. cbn [existsb].
  apply orb_false_iff. split.
  - destruct (N.eqb_spec NL row) as [<-|]; [|reflexivity]. vm_compute in H. discriminate.
  - destruct c; vm_compute; reflexivity.
Qed.

Lemma print_entry_no_nl e : entry_printable e = true -> mem_chr NL (print_entry e) = false.
Proof.
  intros H. unfold entry_printable in H.
  apply andb_true_iff in H as [H Hsp]. apply andb_true_iff in H as [H Hnl]. apply andb_true_iff in H as [Hr Hs].
  unfold kana_reading in Hr. apply andb_true_iff in Hr as [_ Hr].
  apply negb_true_iff in Hnl.
  unfold print_entry.
  rewrite mem_chr_app. rewrite (mem_chr_class_false NL g_kana_class (e_reading e) nl_not_kana Hr).
  cbn [orb]. change (TAB :: e_stem e ++ TAB :: SLASH :: speech_name (e_speech e) ++ [SLASH])
    with ([TAB] ++ e_stem e ++ [TAB; SLASH] ++ speech_name (e_speech e) ++ [SLASH]).
  rewrite !mem_chr_app, Hnl, (speech_name_no_nl _ Hsp). vm_compute. reflexivity.
Qed.

Lemma write_all_join es : write_all es = join_with NL (map print_entry es ++ [[]]).
Proof.
  induction es as [|e es IH]; [reflexivity|].
  cbn [write_all flat_map map app]. fold (write_all es). rewrite IH.
  destruct (map print_entry es ++ [[]]) eqn:Hd.
  - destruct (map print_entry es); discriminate.
  - cbn [join_with]. rewrite <- app_assoc. reflexivity.
Qed.

Theorem file_roundtrip es : forallb entry_printable es = true -> read_all (write_all es) = es.
Proof.
  intros Hes. rewrite write_all_join. rewrite line_isolation.
  - rewrite flat_map_app. cbn [flat_map]. change (parse_or_nil []) with (@nil entry).
    rewrite !app_nil_r. induction es as [|e es IH]; [reflexivity|].
    cbn [forallb] in Hes. apply andb_true_iff in Hes as [He Hes].
    cbn [map flat_map]. unfold parse_or_nil at 1. rewrite (entry_roundtrip e He). cbn [app]. f_equal. apply IH. assumption.
  - destruct (map print_entry es); discriminate.
  - rewrite forallb_app. apply andb_true_iff. split; [|reflexivity].
    rewrite forallb_forall. intros l Hl. apply in_map_iff in Hl as [e [<- He]].
    rewrite forallb_forall in Hes. rewrite (print_entry_no_nl e (Hes e He)). reflexivity.
Qed.

(** a line that does not parse contributes nothing, whatever surrounds it *)
Theorem bad_line_skipped before bad after :
  parse_line bad = None ->
  mem_chr NL bad = false ->
  forallb (fun l => negb (mem_chr NL l)) (before ++ after) = true ->
  read_all (join_with NL (before ++ bad :: after)) = flat_map parse_or_nil before ++ flat_map parse_or_nil after.
Proof.
  intros Hbad Hnl Hls. rewrite line_isolation.
  - rewrite flat_map_app. cbn [flat_map]. unfold parse_or_nil at 2. rewrite Hbad. reflexivity.
  - destruct before; discriminate.
  - rewrite forallb_app in *. cbn [forallb]. rewrite Hnl. apply andb_true_iff in Hls as [-> ->]. reflexivity.
Qed.
