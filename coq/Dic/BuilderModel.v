(** Model of chokan-dic (chokan-dic/src/main.rs): read the text dictionary, conjugate every entry, sort the words
    by reading (stable), insert every reading into the trie and append every word to the map of its reading. *)
From Chokan Require Import Base.Str Base.ListUtil Dic.Speech Dic.TextFormat Dic.Conjugation.
Local Open Scope N_scope.

(** Vec<char>::cmp: lexicographic on scalar values *)
Fixpoint str_leb (a b : str) : bool :=
  match a, b with
  | [], _ => true
  | _ :: _, [] => false
  | x :: a', y :: b' => if x <? y then true else if y <? x then false else str_leb a' b'
  end.

(** stable insertion: before the first element whose reading is not smaller *)
Fixpoint insert_word (x : word) (l : list word) : list word :=
  match l with
  | [] => [x]
  | y :: l' => if str_leb (w_reading x) (w_reading y) then x :: l else y :: insert_word x l'
  end.
Definition sort_words (l : list word) : list word := fold_right insert_word [] l.

Definition all_words (es : list entry) : outcome (list word) :=
  fold_left (fun acc e => obind acc (fun ws => obind (conjugate e) (fun w => Ok (ws ++ w)))) es (Ok []).

Record built := { b_words : list word; b_keys : list str }.

Definition in_alpha (a : list N) (k : str) : bool := forallb (fun c => mem_chr c a) k.

(** read_and_make_dictionary; [Panic] = an entry whose (class,row) has no conjugation row aborts the build *)
Definition build (alpha : list N) (src : str) : outcome built :=
  obind (all_words (read_all src)) (fun ws =>
  let sorted := sort_words ws in
  Ok {| b_words := sorted; b_keys := filter (in_alpha alpha) (map w_reading sorted) |}).

(** what conversion sees for a key: the trie filters, the map answers *)
Definition b_lookup (b : built) (key : str) : list word :=
  if existsb (str_eqb key) (b_keys b) then filter (fun w => str_eqb (w_reading w) key) (b_words b) else [].

(** the tankan dictionary has no trie *)
Definition b_lookup_tankan (b : built) (key : str) : list word := filter (fun w => str_eqb (w_reading w) key) (b_words b).
