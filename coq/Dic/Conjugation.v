(** Model of conjugation (Speech::to_forms, Vec<Word>::from(Entry)) and of the guesser
    (VerbForm::guess_form, Speech::guess, Entry::new_guessed), generic in Gen/ConjTables.v.
    Rust's str::len() is the UTF-8 byte length: [byte_len]; byte slicing panics off a boundary. *)
From Chokan Require Import Base.Str Base.ListUtil Dic.Speech Dic.ConjRule Gen.ConjTables.
Local Open Scope N_scope.

Definition utf8_len (c : N) : nat :=
  if c <? 128 then 1%nat else if c <? 2048 then 2%nat else if c <? 65536 then 3%nat else 4%nat.
Definition byte_len (s : str) : nat := fold_right (fun c n => (utf8_len c + n)%nat) O s.

(** s[0..k] by bytes: Panic when k is beyond the end or inside a character *)
Fixpoint byte_prefix (s : str) (k : nat) : outcome str :=
  match k with
  | O => Ok []
  | _ =>
    match s with
    | [] => Panic
    | c :: s' =>
      if (utf8_len c <=? k)%nat then
        match byte_prefix s' (k - utf8_len c) with Ok p => Ok (c :: p) | o => o end
      else Panic
    end
  end.

Definition last_is (c : N) (s : str) : bool :=
  match rev s with x :: _ => N.eqb x c | [] => false end.

Definition okuri_list (r : okuri_rule) (sr : str) : list str :=
  match r with
  | OFixed l => l
  | OIfOneByte a b => if Nat.eqb (byte_len sr) 1 then a else b
  | OIfLastChar c a b => if last_is c sr then a else b
  | OKaHen l => l
  end.

Definition apply_rule (r : okuri_rule) (stem sr : str) : outcome (list (str * str)) :=
  match r with
  | OKaHen l =>
    match sr with
    | [] => Panic                                   (* char_indices().last().unwrap() *)
    | _ => Ok (map (fun v => (stem ++ tl v, removelast sr ++ v)) l)
    end
  | _ => Ok (map (fun v => (stem ++ v, sr ++ v)) (okuri_list r sr))
  end.

(** Speech::to_forms; [Panic] = a (class,row) without a table row *)
Definition to_forms (sp : speech) (stem sr : str) : outcome (list (str * str)) :=
  match speech_rule sp with
  | None => Panic
  | Some r => apply_rule r stem sr
  end.

(** Vec<Word>::from(Entry) (the code collects into a HashSet: order and duplicates are immaterial) *)
Definition conjugate (e : entry) : outcome (list word) :=
  match to_forms (e_speech e) (e_stem e) (e_reading e) with
  | Ok l => Ok (map (fun p => {| w_word := fst p; w_reading := snd p; w_speech := e_speech e |}) l)
  | Err => Err
  | Panic => Panic
  end.

Definition conjugable (sp : speech) : bool := match speech_rule sp with Some _ => true | None => false end.

(** * The guesser *)

Fixpoint assoc_N {A} (k : N) (l : list (N * A)) : option A :=
  match l with [] => None | (k', v) :: l' => if N.eqb k k' then Some v else assoc_N k l' end.

Definition guess_form (ch : N) : option (verb_class * N) := assoc_N ch guess_table.

Definition NA : N := 12394.   (* な *)
Definition II : N := 12356.   (* い *)
Definition DA : N := 12384.   (* だ *)

Definition ends_with (suffix s : str) : bool :=
  (length suffix <=? length s)%nat && str_eqb (skipn (length s - length suffix) s) suffix.

(** Speech::guess (the shape pinned by the translator) *)
Definition guess (word : str) : speech * str :=
  let n := length word in
  let verb :=
    if ends_with [NA; II] word && (3 <=? n)%nat then
      match guess_form (nth (n - 3) word 0) with
      | Some (c, row) => Some (Verb c row, firstn (n - 3) word)
      | None => None
      end
    else None in
  match verb with
  | Some r => r
  | None =>
    if ends_with [II] word then (Adjective, firstn (n - 1) word)
    else if ends_with [DA] word then (AdjectivalVerb, firstn (n - 1) word)
    else (Noun NCommon, word)
  end.

(** Entry::new_guessed *)
Definition new_guessed (reading kanji : str) : outcome entry :=
  let '(sp, stem) := guess kanji in
  let len_diff := (byte_len kanji - byte_len stem)%nat in
  if (0 <? len_diff)%nat then
    if (byte_len reading <? len_diff)%nat then Panic          (* reading.len() - len_diff underflows *)
    else match byte_prefix reading (byte_len reading - len_diff) with
         | Ok r => Ok {| e_reading := r; e_stem := stem; e_speech := sp |}
         | _ => Panic
         end
  else Ok {| e_reading := reading; e_stem := stem; e_speech := sp |}.
