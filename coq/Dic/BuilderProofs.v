(** The dictionary builder loses no accepted word and invents none (C11). *)
From Chokan Require Import Base.Str Base.ListUtil Dic.Speech Dic.TextFormat Dic.Conjugation Dic.BuilderModel.
Local Open Scope N_scope.

Lemma str_leb_refl a : str_leb a a = true.
Proof. induction a as [|x a IH]; [reflexivity|]. cbn [str_leb]. rewrite N.ltb_irrefl. assumption. Qed.

(** a stable sort keeps the words of one reading in their source order *)
Lemma filter_insert key x l :
  filter (fun w => str_eqb (w_reading w) key) (insert_word x l)
  = (if str_eqb (w_reading x) key then [x] else []) ++ filter (fun w => str_eqb (w_reading w) key) l.
Proof.
  induction l as [|y l IH]; cbn [insert_word filter]; [destruct (str_eqb (w_reading x) key); reflexivity|].
  destruct (str_leb (w_reading x) (w_reading y)) eqn:E; cbn [filter].
  - destruct (str_eqb (w_reading x) key); reflexivity.
  - rewrite IH. destruct (str_eqb (w_reading y) key) eqn:Ey; [|reflexivity].
    destruct (str_eqb (w_reading x) key) eqn:Ex; [|reflexivity].
    apply str_eqb_spec in Ey, Ex. rewrite Ey, <- Ex, str_leb_refl in E. discriminate.
Qed.

Theorem sort_keeps_order key l :
  filter (fun w => str_eqb (w_reading w) key) (sort_words l) = filter (fun w => str_eqb (w_reading w) key) l.
Proof.
  induction l as [|x l IH]; [reflexivity|]. unfold sort_words in *. cbn [fold_right filter]. rewrite filter_insert, IH.
  destruct (str_eqb (w_reading x) key); reflexivity.
Qed.

Lemma in_sort w l : In w (sort_words l) <-> In w l.
Proof.
  unfold sort_words. induction l as [|x l IH]; [tauto|]. cbn [fold_right].
  assert (Hi : forall y s, In y (insert_word x s) <-> y = x \/ In y s).
  { intros y s. induction s as [|z s IHs]; cbn [insert_word]; [cbn; intuition|]. destruct (str_leb _ _); cbn [In]; [intuition|rewrite IHs; intuition]. }
  rewrite Hi, IH. cbn [In]. intuition.
Qed.

Lemma all_words_spec es : forall acc ws, fold_left (fun acc e => obind acc (fun ws => obind (conjugate e) (fun w => Ok (ws ++ w)))) es (Ok acc) = Ok ws ->
  forall w, In w ws <-> In w acc \/ exists e fs, In e es /\ conjugate e = Ok fs /\ In w fs.
Proof.
  induction es as [|e es IH]; intros acc ws; cbn [fold_left].
  - intro H; inversion H; subst. intro w. split; [auto|intros [H1|(e & fs & [] & _)]; assumption].
  - cbn [obind]. destruct (conjugate e) as [fs| |] eqn:Ec; cbn [obind].
    + intro H. intro w. rewrite (IH _ _ H w). rewrite in_app_iff. split.
      * intros [[H1|H1]|(e' & fs' & He' & Hc' & Hw)]; [left; assumption|right; exists e, fs; cbn; auto|right; exists e', fs'; cbn; auto].
      * intros [H1|(e' & fs' & [<-|He'] & Hc' & Hw)]; [left; left; assumption|left; right; congruence|right; exists e', fs'; auto].
    + intro H. exfalso. clear -H. induction es as [|x l IHl]; cbn in H; [discriminate|auto].
    + intro H. exfalso. clear -H. induction es as [|x l IHl]; cbn in H; [discriminate|auto].
Qed.

Section Build.
  Variables (alpha : list N) (src : str) (b : built).
  Hypothesis Hb : build alpha src = Ok b.

  Lemma build_words w : In w (b_words b) <-> exists e fs, In e (read_all src) /\ conjugate e = Ok fs /\ In w fs.
  Proof.
    unfold build, all_words in Hb. destruct (fold_left _ (read_all src) (Ok [])) as [ws| |] eqn:E; cbn [obind] in Hb; try discriminate.
    inversion Hb; subst b. cbn [b_words]. rewrite in_sort, (all_words_spec _ _ _ E w). cbn [In]. tauto.
  Qed.

  (** no accepted word is lost: every conjugated word of every accepted line whose reading lies within the alphabet is
      retrievable under its reading, with its written form, reading and part of speech *)
  Theorem no_loss e fs w : In e (read_all src) -> conjugate e = Ok fs -> In w fs -> in_alpha alpha (w_reading w) = true ->
    In w (b_lookup b (w_reading w)).
  Proof.
    intros He Hc Hw Ha. assert (Hin : In w (b_words b)) by (apply build_words; eauto).
    unfold b_lookup.
    assert (Hk : existsb (str_eqb (w_reading w)) (b_keys b) = true).
    { apply existsb_exists. exists (w_reading w). split; [|apply str_eqb_refl].
      unfold build in Hb. destruct (all_words (read_all src)) as [ws| |]; cbn [obind] in Hb; try discriminate. inversion Hb; subst b. cbn [b_keys b_words] in *.
      apply filter_In. split; [apply in_map; assumption|assumption]. }
    rewrite Hk. apply filter_In. split; [assumption|apply str_eqb_refl].
  Qed.

  (** nothing is invented: every retrievable word derives from a source line and sits under its own reading *)
  Theorem no_invention key w : In w (b_lookup b key) ->
    w_reading w = key /\ exists e fs, In e (read_all src) /\ conjugate e = Ok fs /\ In w fs.
  Proof.
    unfold b_lookup. destruct (existsb _ _); [|intros []]. intro H. apply filter_In in H as [Hin Hk]. apply str_eqb_spec in Hk.
    split; [assumption|apply build_words; assumption].
  Qed.

  (** words sharing a reading come out in source order *)
  Theorem order_kept key ws : all_words (read_all src) = Ok ws ->
    b_lookup_tankan b key = filter (fun w => str_eqb (w_reading w) key) ws.
  Proof.
    intro Hw. unfold build in Hb. rewrite Hw in Hb. cbn [obind] in Hb. inversion Hb; subst b. unfold b_lookup_tankan. cbn [b_words]. apply sort_keeps_order.
  Qed.
End Build.
