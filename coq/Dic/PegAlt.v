(** The shapes of a speech alternative in dic_grammer.rs and their PEG meaning.

    [AltLit cs]  :  t:$("l1" / "l2" / ..) {? match t { "l1" => Ok(sp1), .., _ => Err }}
                    (a plain   "lit" { sp }   is the one-element case)
    [AltVerb cs] :  k:katakana() n:$("l1" / ..) {? match n { "l1" => Ok(Form(k)) .. }}

    PEG ordered choice is committed: the first literal that is a prefix of the
    input is taken; if its action fails the whole alternative fails. *)
From Chokan Require Import Base.Str Dic.Speech.

Inductive alt :=
| AltLit (choices : list (str * option speech))
| AltVerb (choices : list (str * option verb_class)).

(** first literal that is a prefix of [s], with its result and the rest *)
Fixpoint first_literal {A} (cs : list (str * A)) (s : str) : option (A * str) :=
  match cs with
  | [] => None
  | (l, a) :: cs' =>
    match strip_prefix l s with
    | Some rest => Some (a, rest)
    | None => first_literal cs' s
    end
  end.

Definition run_alt (katakana : list (N * N)) (a : alt) (s : str) : option (speech * str) :=
  match a with
  | AltLit cs =>
    match first_literal cs s with
    | Some (Some sp, rest) => Some (sp, rest)
    | _ => None
    end
  | AltVerb cs =>
    match s with
    | k :: s' =>
      if in_class katakana k then
        match first_literal cs s' with
        | Some (Some c, rest) => Some (Verb c k, rest)
        | _ => None
        end
      else None
    | [] => None
    end
  end.

Fixpoint run_alts (katakana : list (N * N)) (alts : list alt) (s : str) : option (speech * str) :=
  match alts with
  | [] => None
  | a :: alts' =>
    match run_alt katakana a s with
    | Some r => Some r
    | None => run_alts katakana alts' s
    end
  end.
