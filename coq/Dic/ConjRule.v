(** The shapes of an okurigana rule in VerbForm::to_forms / Speech::to_forms. *)
From Chokan Require Import Base.Str Dic.Speech.

Inductive okuri_rule :=
| OFixed (l : list str)                      (* vec![..] *)
| OIfOneByte (a b : list str)                (* if stem_reading.len() == 1 { a } else { b }   -- BYTE length *)
| OIfLastChar (c : N) (a b : list str)       (* last char of stem_reading is c ? a : b *)
| OKaHen (l : list str).                     (* k-irregular: reading loses its last char and gets v, the word gets v minus its first char *)

Fixpoint lookup_rule (t : list (verb_class * N * okuri_rule)) (c : verb_class) (row : N) : option okuri_rule :=
  match t with
  | [] => None
  | (c', row', r) :: t' => if verb_class_eqb c c' && N.eqb row row' then Some r else lookup_rule t' c row
  end.

(** every okurigana string a rule can produce *)
Definition rule_okuris (r : okuri_rule) : list str :=
  match r with
  | OFixed l => l
  | OIfOneByte a b => a ++ b
  | OIfLastChar _ a b => a ++ b
  | OKaHen l => l
  end.
