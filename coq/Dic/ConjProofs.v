(** Proofs about conjugation and the guesser (C12; used by C05 C07 C11). *)
From Chokan Require Import Base.Str Base.ListUtil Dic.Speech Dic.ConjRule Gen.ConjTables Dic.Conjugation Dic.Gojuon.
From Coq Require Import Lia.
Local Open Scope N_scope.

(** * Alignment: every form is stem ++ okuri / reading ++ okuri with one okurigana of the rule *)

Lemma okuri_list_in r sr ok : In ok (okuri_list r sr) -> In ok (rule_okuris r).
Proof.
  destruct r as [l|a b|c a b|l]; cbn [okuri_list rule_okuris]; try tauto.
  - destruct (Nat.eqb _ _); intro H; apply in_or_app; tauto.
  - destruct (last_is _ _); intro H; apply in_or_app; tauto.
Qed.

Definition is_kahen (r : okuri_rule) : bool := match r with OKaHen _ => true | _ => false end.

Lemma apply_rule_aligned r stem sr forms : is_kahen r = false -> apply_rule r stem sr = Ok forms ->
  forall w rd, In (w, rd) forms -> exists ok, In ok (rule_okuris r) /\ w = stem ++ ok /\ rd = sr ++ ok.
Proof.
  intros Hk H w rd Hin.
  assert (Hf : forms = map (fun v => (stem ++ v, sr ++ v)) (okuri_list r sr)).
  { destruct r; cbn in *; try discriminate; inversion H; reflexivity. }
  subst forms. apply in_map_iff in Hin as [ok [Heq Hok]]. inversion Heq; subst.
  exists ok. split; [eapply okuri_list_in; eassumption|split; reflexivity].
Qed.

Lemma apply_rule_kahen l stem sr forms : apply_rule (OKaHen l) stem sr = Ok forms ->
  sr <> [] /\ forall w rd, In (w, rd) forms -> exists v, In v l /\ w = stem ++ tl v /\ rd = removelast sr ++ v.
Proof.
  cbn [apply_rule]. destruct sr as [|c sr']; [discriminate|]. intro H. inversion H; subst.
  split; [discriminate|]. intros w rd Hin. apply in_map_iff in Hin as [v [Heq Hv]]. inversion Heq; subst.
  exists v. auto.
Qed.

(** apply_rule never panics except for the k-irregular verb on an empty reading *)
Lemma apply_rule_total r stem sr : (is_kahen r = true -> sr <> []) -> exists forms, apply_rule r stem sr = Ok forms.
Proof.
  destruct r; cbn; intro H; try (eexists; reflexivity).
  destruct sr; [exfalso; apply H; reflexivity|eexists; reflexivity].
Qed.

(** * Finite facts about the generated tables, by computation over the whole table *)

Definition rows_ok : bool :=
  forallb (fun x => let '(c, row, r) := x in forallb (okuri_in_row c row) (rule_okuris r)) verb_table.
Definition cores_ok : bool :=
  forallb (fun x => let '(c, row, r) := x in rule_core c row r) verb_table.
Definition guess_ok : bool :=
  forallb (fun x => let '(_, (c, row)) := x in match lookup_rule verb_table c row with Some _ => true | None => false end) guess_table.

Lemma rows_ok_true : rows_ok = true. Proof. vm_compute. reflexivity. Qed.
Lemma cores_ok_true : cores_ok = true. Proof. vm_compute. reflexivity. Qed.
Lemma guess_ok_true : guess_ok = true. Proof. vm_compute. reflexivity. Qed.

Lemma verb_class_eqb_eq c c' : verb_class_eqb c c' = true -> c = c'.
Proof. destruct c, c'; intro H; try reflexivity; discriminate H. Qed.

Lemma lookup_rule_in t c row r : lookup_rule t c row = Some r -> In (c, row, r) t.
Proof.
  induction t as [|[[c' row'] r'] t IH]; cbn [lookup_rule]; [discriminate|].
  destruct (verb_class_eqb c c' && N.eqb row row') eqn:E.
  - intro H. apply andb_true_iff in E as [E1 E2]. apply N.eqb_eq in E2. apply verb_class_eqb_eq in E1.
    inversion H. subst. left. reflexivity.
  - intro H. right. apply IH. assumption.
Qed.

Lemma assoc_N_in {A} k (l : list (N * A)) v : assoc_N k l = Some v -> In (k, v) l.
Proof.
  induction l as [|[k' v'] l IH]; cbn [assoc_N]; [discriminate|].
  destruct (N.eqb_spec k k') as [->|]; intro H; [inversion H; left; reflexivity|right; auto].
Qed.

Theorem row_okuri c row r ok : lookup_rule verb_table c row = Some r -> In ok (rule_okuris r) ->
  okuri_in_row c row ok = true.
Proof.
  intros Hl Hok. apply lookup_rule_in in Hl.
  pose proof rows_ok_true as H. unfold rows_ok in H. rewrite forallb_forall in H.
  specialize (H _ Hl). cbv beta iota in H. rewrite forallb_forall in H. apply H. assumption.
Qed.

Theorem core_forms c row r : lookup_rule verb_table c row = Some r -> rule_core c row r = true.
Proof.
  intros Hl. apply lookup_rule_in in Hl.
  pose proof cores_ok_true as H. unfold cores_ok in H. rewrite forallb_forall in H.
  exact (H _ Hl).
Qed.

Theorem guess_conjugable ch c row : guess_form ch = Some (c, row) -> conjugable (Verb c row) = true.
Proof.
  intros Hg. apply assoc_N_in in Hg.
  pose proof guess_ok_true as H. unfold guess_ok in H. rewrite forallb_forall in H.
  specialize (H _ Hg). cbv beta iota in H. unfold conjugable. cbn [speech_rule].
  destruct (lookup_rule verb_table c row); [reflexivity|discriminate H].
Qed.

(** every speech [guess] can return is conjugable *)
Theorem guess_speech_conjugable word : conjugable (fst (guess word)) = true.
Proof.
  unfold guess.
  destruct (ends_with [NA; II] word && (3 <=? length word)%nat).
  - destruct (guess_form (nth (length word - 3) word 0)) as [[c row]|] eqn:Hg.
    + cbn [fst]. eapply guess_conjugable; eassumption.
    + destruct (ends_with [II] word); [reflexivity|]. destruct (ends_with [DA] word); reflexivity.
  - destruct (ends_with [II] word); [reflexivity|]. destruct (ends_with [DA] word); reflexivity.
Qed.

(** * new_guessed accepts every well-formed pair *)

Lemma byte_len_app a b : byte_len (a ++ b) = (byte_len a + byte_len b)%nat.
Proof. induction a as [|c a IH]; cbn [app byte_len fold_right]; [reflexivity|]. fold (byte_len (a ++ b)). fold (byte_len a). rewrite IH. lia. Qed.

Lemma utf8_len_pos c : (1 <= utf8_len c)%nat.
Proof. unfold utf8_len. destruct (c <? 128); [lia|]. destruct (c <? 2048); [lia|]. destruct (c <? 65536); lia. Qed.

Lemma byte_prefix_app a b : byte_prefix (a ++ b) (byte_len a) = Ok a.
Proof.
  induction a as [|c a IH]; cbn [app byte_len fold_right]; [destruct b; reflexivity|]. fold (byte_len a).
  pose proof (utf8_len_pos c) as Hp.
  cbn [byte_prefix]. destruct (utf8_len c + byte_len a)%nat eqn:E; [lia|]. rewrite <- E.
  assert (Hle : (utf8_len c <=? utf8_len c + byte_len a)%nat = true) by (apply Nat.leb_le; lia).
  rewrite Hle. replace (utf8_len c + byte_len a - utf8_len c)%nat with (byte_len a) by lia.
  rewrite IH. reflexivity.
Qed.

Lemma guess_stem_prefix word : exists suf, word = snd (guess word) ++ suf.
Proof.
  unfold guess.
  destruct (ends_with [NA; II] word && (3 <=? length word)%nat).
  - destruct (guess_form _) as [[c row]|].
    + cbn [snd]. exists (skipn (length word - 3) word). symmetry. apply firstn_skipn.
    + destruct (ends_with [II] word); [cbn [snd]; exists (skipn (length word - 1) word); symmetry; apply firstn_skipn|].
      destruct (ends_with [DA] word); cbn [snd]; [exists (skipn (length word - 1) word); symmetry; apply firstn_skipn|exists []; symmetry; apply app_nil_r].
  - destruct (ends_with [II] word); [cbn [snd]; exists (skipn (length word - 1) word); symmetry; apply firstn_skipn|].
    destruct (ends_with [DA] word); cbn [snd]; [exists (skipn (length word - 1) word); symmetry; apply firstn_skipn|exists []; symmetry; apply app_nil_r].
Qed.

(** the word is a stem plus a kana ending, the reading is the stem's reading plus the same ending:
    the guessed entry is the stem, the stem's reading, and the guessed speech *)
Theorem new_guessed_accepts word stem suf sr :
  guess word = (fst (guess word), stem) -> word = stem ++ suf ->
  new_guessed (sr ++ suf) word = Ok {| e_reading := sr; e_stem := stem; e_speech := fst (guess word) |}.
Proof.
  intros Hg Hw. unfold new_guessed. rewrite Hg.
  assert (Hb : byte_len word = (byte_len stem + byte_len suf)%nat) by (rewrite Hw at 1; apply byte_len_app).
  rewrite Hb. replace (byte_len stem + byte_len suf - byte_len stem)%nat with (byte_len suf) by lia.
  destruct (0 <? byte_len suf)%nat eqn:E.
  - rewrite byte_len_app.
    assert (Hlt : (byte_len sr + byte_len suf <? byte_len suf)%nat = false) by (apply Nat.ltb_ge; lia).
    rewrite Hlt. replace (byte_len sr + byte_len suf - byte_len suf)%nat with (byte_len sr) by lia.
    rewrite byte_prefix_app. reflexivity.
  - apply Nat.ltb_ge in E. assert (Hs : suf = []).
    { destruct suf as [|c suf]; [reflexivity|]. cbn [byte_len fold_right] in E. pose proof (utf8_len_pos c). lia. }
    subst suf. rewrite app_nil_r. reflexivity.
Qed.

(** conjugating a guessed verb yields the stem that precedes ない (e.g. 食べ / たべ from 食べない / たべない):
    for the ichidan classes the okurigana list of a multi-byte stem is exactly the guessed kana *)
Definition guessed_stem_form_ok : bool :=
  forallb (fun x => let '(ch, (c, row)) := x in
    match lookup_rule verb_table c row with
    | Some r => existsb (fun ok => str_eqb ok [ch]) (rule_okuris r)
    | None => false
    end) guess_table.
Lemma guessed_stem_form_ok_true : guessed_stem_form_ok = true. Proof. vm_compute. reflexivity. Qed.
