(** Mirror of libs/dic/src/base/speech.rs: the part-of-speech types,
    constructor for constructor.  The row of a verb is a single character. *)
From Chokan Require Import Base.Str.

Inductive noun_variant := NSahen | NProper | NCommon.
Inductive verb_class := Godan | Yodan | SimoIchidan | KamiIchidan | SimoNidan | KamiNidan | Hen.
Inductive particle_type := PCase | PAdverbial | PConjunctive | PSentenceFinal | POther.
Inductive affix_variant := APrefix | ASuffix.

Inductive speech :=
| Noun (v : noun_variant)
| Verb (c : verb_class) (row : N)
| Adjective
| Adverb
| AdjectivalVerb
| Verbatim
| Conjunction
| Particle (t : particle_type)
| AuxiliaryVerb
| PreNounAdjectival
| Counter
| Affix (a : affix_variant).

Definition noun_variant_eqb (a b : noun_variant) : bool :=
  match a, b with NSahen, NSahen | NProper, NProper | NCommon, NCommon => true | _, _ => false end.
Definition verb_class_eqb (a b : verb_class) : bool :=
  match a, b with
  | Godan, Godan | Yodan, Yodan | SimoIchidan, SimoIchidan | KamiIchidan, KamiIchidan
  | SimoNidan, SimoNidan | KamiNidan, KamiNidan | Hen, Hen => true
  | _, _ => false end.
Definition particle_type_eqb (a b : particle_type) : bool :=
  match a, b with
  | PCase, PCase | PAdverbial, PAdverbial | PConjunctive, PConjunctive
  | PSentenceFinal, PSentenceFinal | POther, POther => true
  | _, _ => false end.
Definition affix_variant_eqb (a b : affix_variant) : bool :=
  match a, b with APrefix, APrefix | ASuffix, ASuffix => true | _, _ => false end.

Definition speech_eqb (a b : speech) : bool :=
  match a, b with
  | Noun x, Noun y => noun_variant_eqb x y
  | Verb c r, Verb c' r' => verb_class_eqb c c' && N.eqb r r'
  | Adjective, Adjective | Adverb, Adverb | AdjectivalVerb, AdjectivalVerb
  | Verbatim, Verbatim | Conjunction, Conjunction | AuxiliaryVerb, AuxiliaryVerb
  | PreNounAdjectival, PreNounAdjectival | Counter, Counter => true
  | Particle x, Particle y => particle_type_eqb x y
  | Affix x, Affix y => affix_variant_eqb x y
  | _, _ => false
  end.

Lemma speech_eqb_spec a b : speech_eqb a b = true <-> a = b.
Proof.
  split.
  - destruct a as [[]|[] r| | | | | |[]| | | |[]], b as [[]|[] r'| | | | | |[]| | | |[]];
      cbn; intro H; try discriminate; try reflexivity;
      apply N.eqb_eq in H; subst; reflexivity.
  - intros <-. destruct a as [[]|[] r| | | | | |[]| | | |[]]; cbn; try reflexivity; apply N.eqb_refl.
Qed.

Definition all_verb_classes : list verb_class :=
  [Godan; Yodan; SimoIchidan; KamiIchidan; SimoNidan; KamiNidan; Hen].

(** every part of speech whose verb row is drawn from [rows] *)
Definition all_speeches (rows : list N) : list speech :=
  [Noun NSahen; Noun NProper; Noun NCommon]
  ++ flat_map (fun c => map (Verb c) rows) all_verb_classes
  ++ [Adjective; Adverb; AdjectivalVerb; Verbatim; Conjunction;
      Particle PCase; Particle PAdverbial; Particle PConjunctive; Particle PSentenceFinal; Particle POther;
      AuxiliaryVerb; PreNounAdjectival; Counter; Affix APrefix; Affix ASuffix].

(** an entry of the text dictionary: reading, stem, speech *)
Record entry := { e_reading : str; e_stem : str; e_speech : speech }.

Definition entry_eqb (a b : entry) : bool :=
  str_eqb (e_reading a) (e_reading b) && str_eqb (e_stem a) (e_stem b) && speech_eqb (e_speech a) (e_speech b).

Lemma entry_eqb_spec a b : entry_eqb a b = true <-> a = b.
Proof.
  unfold entry_eqb. rewrite !andb_true_iff, !str_eqb_spec, speech_eqb_spec.
  destruct a, b; cbn. split; [intros [[-> ->] ->]; reflexivity|intro H; inversion H; auto].
Qed.

(** a conjugated word *)
Record word := { w_word : str; w_reading : str; w_speech : speech }.

Definition word_eqb (a b : word) : bool :=
  str_eqb (w_word a) (w_word b) && str_eqb (w_reading a) (w_reading b) && speech_eqb (w_speech a) (w_speech b).

Lemma word_eqb_spec a b : word_eqb a b = true <-> a = b.
Proof.
  unfold word_eqb. rewrite !andb_true_iff, !str_eqb_spec, speech_eqb_spec.
  destruct a, b; cbn. split; [intros [[-> ->] ->]; reflexivity|intro H; inversion H; auto].
Qed.
