(** C20 - Confirming an affixed candidate teaches the compound as a user word (the extractor part;
    the hand-off to the dictionary, saving and restart are in the server model, Props/C07 C08). *)
From Chokan Require Import Base.Str Base.ListUtil Dic.Speech Gen.SpeechNames Kkc.Context Gen.ScoreTables Kkc.Lattice Kkc.Score Kkc.Heap Kkc.Search Kkc.Affix Kkc.AffixProofs.

Theorem C20_learns_prefix_word : forall np nw p w t,
  n_kind np = KWord p -> n_kind nw = KWord w -> is_prefix (w_speech p) = true -> is_ancillary (w_speech w) = false -> tail_ok t ->
  affix_of (PBos :: PNode np :: PNode nw :: t) = Some (w_word p ++ w_word w, w_reading p ++ w_reading w).
Proof. exact learns_prefix_word. Qed.

Theorem C20_learns_word_suffix : forall nw ns w s t,
  n_kind nw = KWord w -> n_kind ns = KWord s -> is_ancillary (w_speech w) = false -> is_suffix (w_speech s) = true -> tail_ok t ->
  affix_of (PBos :: PNode nw :: PNode ns :: t) = Some (w_word w ++ w_word s, w_reading w ++ w_reading s).
Proof. exact learns_word_suffix. Qed.

Theorem C20_learns_prefix_word_suffix : forall np nw ns p w s t,
  n_kind np = KWord p -> n_kind nw = KWord w -> n_kind ns = KWord s ->
  is_prefix (w_speech p) = true -> is_ancillary (w_speech w) = false -> is_suffix (w_speech s) = true ->
  affix_of (PBos :: PNode np :: PNode nw :: PNode ns :: t)
  = Some ((w_word p ++ w_word w) ++ w_word s, (w_reading p ++ w_reading w) ++ w_reading s).
Proof. intros. eapply learns_prefix_word_suffix; eassumption. Qed.

(** confirming a candidate without an affix learns no new word *)
Theorem C20_no_affix_no_learning : forall ch,
  (forall x, In x ch -> as_prefix x = None /\ as_suffix x = None) -> affix_of ch = None.
Proof. exact no_affix_no_learning. Qed.

(** the extractor as it was before the repair (finding F3) could not see any candidate the search returns *)
Theorem C20_old_extractor_blind : forall rest, affix_of_old (PBos :: rest) = None.
Proof. exact old_extractor_blind. Qed.
