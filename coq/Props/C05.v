(** C05 - No request history can wedge, poison or kill the conversion server (sequential model).
    A step of the model returns [Panic] exactly where the real server would panic while holding a mutex or inside a
    background task (which poisons / kills), [Err] where a handler panics before touching anything shared, and
    [Ok] otherwise.  Fuel stands for "the search terminates": it is existentially quantified, never a bound. *)
From Chokan Require Import Base.Str Base.ListUtil Dic.Speech Dic.TextFormat Dic.Conjugation Kkc.Context Kkc.Lattice Kkc.Score Kkc.Search
  Server.ServerModel Server.ServerProofs.

(** the invariant [wf] (queued and user entries conjugate; everything the server holds is free of TAB / NL / blanks;
    counts are non-negative) holds initially for clean dictionary sources ... *)
Theorem C05_init_wf : forall alpha std anc tankan,
  forallb word_clean std = true -> forallb word_clean anc = true -> wf (init_state alpha std anc tankan).
Proof. exact init_wf. Qed.

(** ... and every request - any method, any strings, any ids, the internal events and a restart on the saved files
    included - is answered without a panic under a lock, keeps the invariant, or (RegisterWord{Guess} on an
    inconsistent pair only) fails before touching anything *)
Theorem C05_step_safe : forall base s r, wf base -> wf s ->
  exists fuel0, forall fuel, (fuel0 <= fuel)%nat ->
    (exists s' resp, step_f fuel base s r = Ok (s', resp) /\ wf s') \/ (step_f fuel base s r = Err /\ is_guess r = true).
Proof. exact step_safe. Qed.

(** no finite request history reaches a poisoned mutex or a dead background task: every request of every history is
    answered (or fails cleanly), and the server is in a well-formed state afterwards *)
Theorem C05_no_panic : forall base rs s, wf base -> wf s ->
  exists fuel0, forall fuel, (fuel0 <= fuel)%nat ->
    exists s' resps, run_f fuel base s rs = Ok (s', resps) /\ wf s' /\ length resps = length rs.
Proof. exact run_safe. Qed.

(** more fuel never changes an answer (fuel is a proof device, the implementation has none) *)
Theorem C05_fuel_irrelevant : forall fuel base s r x, step_f fuel base s r = Ok x ->
  forall fuel', (fuel <= fuel')%nat -> step_f fuel' base s r = Ok x.
Proof. exact step_f_mono. Qed.

(** a conversion is answered as a function of the effective dictionary and the learned counts only - in particular
    exactly like a freshly started server holding the same data *)
Theorem C05_answer_depends_on_data_only : forall fuel base base' s1 s2 input ctx,
  eff_dict s1 = eff_dict s2 -> s_freq s1 = s_freq s2 ->
  match step_f fuel base s1 (GetCandidates input ctx), step_f fuel base' s2 (GetCandidates input ctx) with
  | Ok (_, RCands _ t1), Ok (_, RCands _ t2) => t1 = t2
  | Panic, Panic => True
  | _, _ => False
  end.
Proof.
  intros fuel base base' s1 s2 input ctx Hd Hf. cbn [step_f]. rewrite Hd, Hf.
  destruct (get_candidates fuel input (eff_dict s2) ctx (ft_freq (s_freq s2)) NCAND) as [[R|]| |]; auto.
Qed.

(** "every request is answered in bounded time" under concurrency: the handlers and tasks extracted from the server
    source take their mutexes in one rank order, so no interleaving of any number of requests with the background tasks
    is a deadlock (the statement and proof are C14's; a request that cannot deadlock and whose handler terminates -
    C05_no_panic with existential fuel - is answered) *)
From Chokan Require Server.Protocol Gen.Protocol Server.ConcModel Server.ConcProofs Props.C14.
Theorem C05_no_deadlock : forall ts, ConcModel.reach C14.handler_progs C14.task_progs ts ->
  (exists i t, nth_error ts i = Some t /\ ConcModel.finished t = false) -> exists i, ConcModel.enabled ts i = true.
Proof. exact C14.C14_no_deadlock. Qed.
Print Assumptions C05_no_deadlock.
